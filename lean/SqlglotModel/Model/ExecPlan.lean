/-
  C11, single-table fragment: the planner's Step DAG for SELECT … FROM one table (no joins, no subqueries) and the
  executor's evaluation of that DAG.  Mirrors sqlglot/planner.py `Step.from_expression` (as it sees the optimized,
  qualified query) and sqlglot/executor/python.py `_execute`, `scan`, `join` (with an empty `joins` dict: the planner
  always inserts a Join step because `expression.args["joins"]` is `[]`, not None), `aggregate`, `sort`.

  Columns inside steps are referenced BY NAME and resolved against the current table's column tuple the way
  RowReader does it (`{column: i for i, column in enumerate(columns)}`: the LAST column of that name wins).  This is
  where several known defects live (duplicate output names, an alias shadowing a column in the Sort sink), so names
  are modelled, not pre-resolved.  Failing lookups (KeyError) are explicit (`none`), never defaulted.

  Fragment (see `Sem.Query`): WHERE over the table's columns; outputs = columns / AGG(column); GROUP BY columns;
  HAVING AGG(column) op literal; DISTINCT; ORDER BY output columns; LIMIT / OFFSET.
  Not expressible here on purpose (known executor defects outside the fragment, documented in Properties/C11.lean):
  computed aggregate operands (COUNT(*), SUM(a+b): `operands` is always empty), HAVING or a projection mixing a bare
  group key with an aggregate, joins, set operations.
-/
import SqlglotModel.Model.Exec

namespace SqlglotModel.Exec
open SqlglotModel.Sem

/-- a table as steps pass it on: column names and rows -/
structure Tbl where
  cols : List String
  rows : List Row
deriving Repr, DecidableEq

/-- RowReader's name resolution: index of the LAST column called `n` -/
def colIdx : List String → String → Option Nat
  | [], _ => none
  | c :: cs, n =>
    match colIdx cs n with
    | some i => some (i + 1)
    | none => if c = n then some 0 else none

def resolve (cols : List String) : List String → Option (List Nat)
  | [] => some []
  | n :: ns =>
    match colIdx cols n, resolve cols ns with
    | some i, some is => some (i :: is)
    | _, _ => none

/-- `expr AS alias` where expr is a column of the current table, by name -/
structure NProj where
  src : String
  alias : String
deriving Repr, DecidableEq

structure AggSpec where
  fn : AggFn
  src : String
  alias : String
deriving Repr, DecidableEq

/-- `AGG(src) op lit AS "_h"` -/
structure HavingSpec where
  fn : AggFn
  src : String
  op : CmpOp
  lit : Val
deriving Repr, DecidableEq

inductive Step where
  | scan
  | join (dep : Step) (cond : Option Expr) (projs : List NProj) (limit : Option Nat) (offset : Nat)
  | aggregate (dep : Step) (group : List (String × String)) (aggs : List AggSpec) (hav : Option HavingSpec)
      (projs : List NProj) (limit : Option Nat) (offset : Nat)
  | sort (dep : Step) (key : List (String × Bool × Bool)) (projs : List NProj) (limit : Option Nat) (offset : Nat)
deriving Repr

/-! ### Step.from_expression for the fragment -/

def colName (cols : List String) (i : Nat) : String := cols.getD i ""

def groupName (i : Nat) : String := "_g" ++ toString i

def posOf (keys : List Nat) (c : Nat) : Nat := keys.idxOf c

/-- projections of the final step.  Plain select: `"x"."a" AS "alias"`.  Aggregation: a key column became
    `x._g<i> AS "alias"` (i = position of the key in GROUP BY), an aggregate `"x"."alias"`. -/
def finalProjs (q : Query) : List NProj :=
  match q.group with
  | none => q.outs.map fun o => match o with
    | .col c a => ⟨colName q.cols c, a⟩
    | .agg _ c a => ⟨colName q.cols c, a⟩
  | some keys => q.outs.map fun o => match o with
    | .col c a => ⟨groupName (posOf keys c), a⟩
    | .agg _ _ a => ⟨a, a⟩

def aggSpecs (q : Query) : List AggSpec :=
  q.outs.filterMap fun o => match o with
    | .col _ _ => none
    | .agg f c a => some ⟨f, colName q.cols c, a⟩

def havingSpec (q : Query) : Option HavingSpec :=
  q.having.map fun h => ⟨h.fn, colName q.cols h.src, h.op, h.lit⟩

/-- ORDER BY keys as the Sort step holds them (by name): a plain select orders by the qualified table column
    `"x"."c"`, an aggregation by the output alias `"alias"` (what qualify leaves there) -/
def sortKey (q : Query) : List (String × Bool × Bool) :=
  q.order.map fun (p, d, nf) =>
    match q.group, q.outs[p]? with
    | none, some (.col c _) => (colName q.cols c, d, nf)
    | _, some o => (o.alias, d, nf)
    | _, none => ("", d, nf)

/-- `aggregate.group = {f"_g{i}": e for i, e in enumerate(group.expressions)}` -/
def groupSpec (cols : List String) (keys : List Nat) : List (String × String) :=
  (List.range keys.length).map fun i => (groupName i, colName cols (keys.getD i 0))

/-- the Step DAG.  Order of construction in from_expression: Scan; Join (always, holds WHERE); Aggregate when there is
    GROUP BY or an aggregate; Sort when there is ORDER BY; `step.projections = projections` on the LAST of these;
    DISTINCT adds one more Aggregate grouping by every output name; LIMIT / OFFSET go to the very last step. -/
def plan (q : Query) : Step :=
  let projs := finalProjs q
  let hasAgg := q.group.isSome
  let hasSort := !q.order.isEmpty
  -- limit/offset belong to the last step
  let lastIsJoin := !hasAgg && !hasSort && !q.distinct
  let lastIsAgg := hasAgg && !hasSort && !q.distinct
  let lastIsSort := hasSort && !q.distinct
  let lim (b : Bool) := if b then q.limit else none
  let off (b : Bool) := if b then q.offset else 0
  let s1 := Step.join .scan q.where_ (if !hasAgg && !hasSort then projs else []) (lim lastIsJoin) (off lastIsJoin)
  let s2 := match q.group with
    | none => s1
    | some keys =>
      -- `aggregations` is a dict keyed by the aliased expression: a repeated `AGG(col) AS name` is kept once
      Step.aggregate s1 (groupSpec q.cols keys) (dedup (aggSpecs q)) (havingSpec q)
        (if !hasSort then projs else []) (lim lastIsAgg) (off lastIsAgg)
  let s3 := if hasSort then Step.sort s2 (sortKey q) projs (lim lastIsSort) (off lastIsSort) else s2
  if q.distinct then
    -- `distinct.group = {e.alias_or_name: column(e.alias_or_name) for e in projections}`: a dict, so a repeated output
    -- name keeps only its first entry (known defect "duplicate output names")
    Step.aggregate s3 ((dedup (q.outs.map (·.alias))).map fun a => (a, a)) [] none [] q.limit q.offset
  else s3

/-! ### executing the DAG -/

def envAgg (c : Cfg) : AggFn → List Val → Val
  | .sum => envSum c
  | .count => envCount c
  | .min => envMin c
  | .max => envMax c

def pickCols (idxs : List Nat) (r : Row) : Row := idxs.map (Sem.getCol r)

def withOffset (offset : Nat) (t : Tbl) : Tbl := ⟨t.cols, applyOffset offset t.rows⟩

/-- `_project_and_filter` over a table, condition as a function, projections by name; without projections rows and
    columns are kept as they are -/
def projectFilterTbl (t : Tbl) (cond : Option (Row → Val)) (projs : List NProj) (cap : Option Nat) : Option Tbl :=
  if projs.isEmpty then some ⟨t.cols, projectFilter cond none cap t.rows⟩
  else match resolve t.cols (projs.map (·.src)) with
    | some idxs => some ⟨projs.map (·.alias), projectFilter cond (some (pickCols idxs)) cap t.rows⟩
    | none => none

def condFn (c : Cfg) (e : Expr) : Row → Val := fun r => (eval c r e).getD .null

/-- join() for a Join step without joins: `if not step.condition and not step.projections: return source_context` -/
def execJoin (c : Cfg) (src : Tbl) (cond : Option Expr) (projs : List NProj) (limit : Option Nat) (offset : Nat) : Option Tbl :=
  if cond.isNone && projs.isEmpty then some (withOffset offset src)
  else (projectFilterTbl src (cond.map (condFn c)) projs (capOf limit offset)).map (withOffset offset)

/-- value of the `_h` aggregation `AGG(col) op lit` on a group -/
def havingVal (c : Cfg) (h : HavingSpec) (i : Nat) (grp : List Row) : Val :=
  nullIfAny2 (pyCmp h.op) (envAgg c h.fn (grp.map fun r => Sem.getCol r i)) h.lit

def resolveHav (cols : List String) : Option HavingSpec → Option (Option (HavingSpec × Nat))
  | none => some none
  | some h => (colIdx cols h.src).map fun i => some (h, i)

def havPart (c : Cfg) (hav : Option (HavingSpec × Nat)) (grp : List Row) : Row :=
  match hav with
  | none => []
  | some (h, i) => [havingVal c h i grp]

/-- `context.eval_tuple(aggregations)` on the rows of a group -/
def aggRow (c : Cfg) (aggs : List (AggSpec × Nat)) (hav : Option (HavingSpec × Nat)) (grp : List Row) : Row :=
  (aggs.map fun (a, i) => envAgg c a.fn (grp.map fun r => Sem.getCol r i)) ++ havPart c hav grp

def aggCols (group : List (String × String)) (aggs : List AggSpec) (hasHav : Bool) : List String :=
  group.map (·.1) ++ aggs.map (·.alias) ++ (if hasHav then ["_h"] else [])

/-- the HAVING condition `"x"."_h"` as a function on the aggregate table's rows -/
def havCond (cols : List String) (hasHav : Bool) : Option (Option (Row → Val)) :=
  if hasHav then (colIdx cols "_h").map fun hi => some (fun r => Sem.getCol r hi) else some none

/-- aggregate(): operands are empty in the fragment; sort + run loop; then `_project_and_filter` when the step has
    projections or a condition.  The loop's break test applies only `if not step.condition`. -/
def execAggregate (c : Cfg) (src : Tbl) (group : List (String × String)) (aggs : List AggSpec) (hav : Option HavingSpec)
    (projs : List NProj) (limit : Option Nat) (offset : Nat) : Option Tbl :=
  match resolve src.cols (group.map (·.2)), resolve src.cols (aggs.map (·.src)), resolveHav src.cols hav with
  | some gIdx, some aIdx, some hv =>
    let cols := aggCols group aggs hav.isSome
    let cap := if hav.isSome then none else capOf limit offset
    let rows := aggregate c (pickCols gIdx) (aggRow c (aggs.zip aIdx) hv) (!group.isEmpty) cap limit src.rows
    if projs.isEmpty && hav.isNone then some (withOffset offset ⟨cols, rows⟩)
    else
      match havCond cols hav.isSome with
      | some cond => (projectFilterTbl ⟨cols, rows⟩ cond projs (capOf limit offset)).map (withOffset offset)
      | none => none
  | _, _, _ => none

def sortItems (kIdx : List Nat) (key : List (String × Bool × Bool)) : List OrdItem :=
  (kIdx.zip key).map fun (i, k) => ⟨i, k.2.1, k.2.2⟩

def cutRows (limit : Option Nat) (offset : Nat) (rows : List Row) : List Row :=
  match limit with
  | none => rows
  | some n => rows.take (offset + n)

/-- sort(): the sink holds every row extended by the projections (`all_columns = context.columns + projection
    columns`); keys are resolved in the extended column tuple; `rows[0 : offset + limit]`; the projection part
    `row[len(context.columns) : len(all_columns)]` is the output -/
def execSort (c : Cfg) (src : Tbl) (key : List (String × Bool × Bool)) (projs : List NProj) (limit : Option Nat)
    (offset : Nat) : Option Tbl :=
  match resolve src.cols (projs.map (·.src)), resolve (src.cols ++ projs.map (·.alias)) (key.map (·.1)) with
  | some pIdx, some kIdx =>
    let sink := src.rows.map fun r => r ++ pickCols pIdx r
    let cut := cutRows limit offset (sortRows c (sortItems kIdx key) sink)
    if projs.isEmpty then some (withOffset offset ⟨src.cols, cut⟩)
    else some (withOffset offset ⟨projs.map (·.alias), cut.map fun r => (r.drop src.cols.length).take projs.length⟩)
  | _, _ => none

/-- PythonExecutor._execute on the DAG over the base table `t` (the Scan leaf); `none` = KeyError -/
def exec (c : Cfg) (t : Tbl) : Step → Option Tbl
  | .scan => some ⟨t.cols, scan (.table t.rows) none none none⟩
  | .join dep cond projs limit offset => (exec c t dep).bind fun src => execJoin c src cond projs limit offset
  | .aggregate dep group aggs hav projs limit offset =>
    (exec c t dep).bind fun src => execAggregate c src group aggs hav projs limit offset
  | .sort dep key projs limit offset => (exec c t dep).bind fun src => execSort c src key projs limit offset

end SqlglotModel.Exec
