/-
  C05 — `Parser._find_parser` (sqlglot/parser.py): the two-step lookup behind SHOW / SET sub-parsers.

      this = [];  trie = SHOW_TRIE            # new_trie(key.split(" ") for key in SHOW_PARSERS)
      while True:
          curr = self._curr.text.upper();  key = curr.split(" ");  this.append(curr);  self._advance()
          result, trie = in_trie(trie, key)
          FAILED -> retreat, None;   EXISTS -> return parsers[" ".join(this)];   PREFIX -> next token

  Step 1 walks the trie over the WORDS of each token text (trie key function), step 2 indexes the dict with the
  JOINED raw token texts (dict key function).  A KeyError leaks when the two disagree on some token text.
  Modelled: token texts as character lists (already upper-cased), the trie as the set of word lists of the dict keys
  (exactly what `new_trie(key.split(" ") …)` represents), the cursor running off the end of the chunk (IndexError out of
  `_advance`, reachable on the clean tree: `SHOW FULL` in mysql — a recorded finding).  Not modelled: `.upper()`.
  No proofs in this file.
-/
namespace SqlglotModel.FindParser

abbrev Str := List Char

def consHead (c : Char) : List Str → List Str
  | [] => [[c]]
  | w :: ws => (c :: w) :: ws

/-- Python `s.split(sep)` for a one-character separator: never empty, keeps empty pieces -/
def splitOn (sep : Char) : Str → List Str
  | [] => [[]]
  | c :: cs => if c = sep then [] :: splitOn sep cs else consHead c (splitOn sep cs)

/-- Python `sep.join(ws)` -/
def joinWith (sep : Char) : List Str → Str
  | [] => []
  | [w] => w
  | w :: w2 :: ws => w ++ sep :: joinWith sep (w2 :: ws)

def isWs (c : Char) : Bool := c = ' ' || c = '\t' || c = '\n' || c = '\r' || c = Char.ofNat 11 || c = Char.ofNat 12

def pushWord (w : Str) (ws : List Str) : List Str := if w.isEmpty then ws else w :: ws

def splitWsGo : Str → Str → List Str
  | [], w => pushWord w.reverse []
  | c :: cs, w => if isWs c then pushWord w.reverse (splitWsGo cs []) else splitWsGo cs (c :: w)

/-- Python `s.split()`: splits on runs of whitespace and drops empty pieces (may be empty) -/
def splitWs (s : Str) : List Str := splitWsGo s []

inductive Lookup where
  | found (key : Str)      -- returns parsers[key]
  | notFound               -- retreats, returns None
  | keyError (key : Str)   -- `parsers[" ".join(this)]` raises KeyError
  | indexError             -- `_advance()` past the end of the chunk while the trie still says PREFIX
  deriving DecidableEq, Repr

/-- the `while True` loop: `toks` = texts of the tokens from the cursor on, `this` = texts consumed so far,
    `walked` = the words walked in the trie so far -/
def walk (trieKey : Str → List Str) (keys : List Str) : List Str → List Str → List Str → Lookup
  | [], _, _ => .indexError
  | t :: ts, this, walked =>
    if trieKey t = [] then .notFound                                  -- in_trie(trie, []) = FAILED
    else if walked ++ trieKey t ∈ keys.map (splitOn ' ') then         -- EXISTS
      (if joinWith ' ' (this ++ [t]) ∈ keys then .found (joinWith ' ' (this ++ [t]))
       else .keyError (joinWith ' ' (this ++ [t])))
    else if keys.any (fun k => (walked ++ trieKey t).isPrefixOf (splitOn ' ' k)) then   -- PREFIX
      walk trieKey keys ts (this ++ [t]) (walked ++ trieKey t)
    else .notFound                                                    -- FAILED

/-- `Parser._find_parser(parsers, trie)` with the trie built from `parsers` -/
def findParser (trieKey : Str → List Str) (keys : List Str) (toks : List Str) : Lookup :=
  match toks with
  | [] => .notFound          -- `if not self._curr: return None`
  | _ => walk trieKey keys toks [] []

end SqlglotModel.FindParser
