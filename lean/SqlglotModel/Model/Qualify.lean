/-
  C10 — qualification.  Executable model, no proofs.

  Part 1 (identifier rules): mirrors of `Dialect.case_sensitive` and `Dialect.can_quote`
  (sqlglot/dialects/dialect.py); `Dialect.normalize_identifier` itself is `Ident.normalize` (Model/Ident.lean).

  Part 2 (scope model): what `sqlglot.optimizer.qualify.qualify` does to ONE select scope once every
  identifier has been normalised (so names are plain `String`s; after `quote_identifiers(identify=True)` every
  identifier is quoted, the flag carries no information any more).  A query is given FLATTENED: a list of
  scopes, children (CTE bodies, derived tables) before the scope that selects from them, root last; a source is
  either a schema table or an earlier scope (by index).  `traverse_scope` visits scopes in such an order and the
  only thing a parent learns from a child is the child's output names, which is exactly what `qualifyAll` threads.

  Modelled per scope, in the order of `qualify_columns`:
    A  qualify_tables      every source gets an alias (its name);  duplicate alias -> OptimizeError
    B  _qualify_columns    `t.c`: c must be a column of t (if t's columns are known); bare `c`: unique source
                           (Resolver._get_unambiguous_columns); ORDER BY names that are output names and bare
                           names under HAVING are not touched (Scope.columns)
    C  _expand_alias_refs  projections left to right, WHERE, GROUP BY (literal alias -> position), HAVING
                           (source column first only when there is no alias), with `simplify_parens`
    D  _expand_stars       `*` / `t.*` [EXCEPT (..)] in source order, schema order; abandoned when a source has
                           unknown or duplicate columns
    E  qualify_outputs     every projection aliased (column name or `_col_i`); outer column list pushed down
    F  positional GROUP BY / ORDER BY, ORDER BY expression -> alias when grouping
    G  validate_qualify_columns
    U  _expand_using       USING / NATURAL joins become ON conditions (COALESCE over the merged tables from the
                           second merge on), bare references to a merged column become COALESCE(...) [AS name];
                           `_expand_stars` then lists a merged column once, for the tables that take part in the merge
  Join conditions are modelled only when every column in them is qualified (what USING expansion produces and what a
  second pass sees).
  NOT modelled (covered by the search oracle on the real code only): SEMI / ANTI joins, join conditions with bare
  names (join-context resolution), correlated subqueries, set operations, pivots, UDTFs, struct expansion, REPLACE/RENAME/ILIKE on stars,
  aggregate-aware alias expansion, unaliased derived tables (`_0` names), BigQuery/Snowflake dialect flags
  (PREFER_CTE_ALIAS_COLUMN, FORCE_EARLY_ALIAS_REF_EXPANSION, ...), pseudocolumns.
-/
import SqlglotModel.Model.Ident

namespace SqlglotModel.Qualify
open SqlglotModel.Ident

/-! ## Part 1: identifier rules -/

/-- `Dialect.case_sensitive(text)`: `isLower`/`isUpper` stand for `str.islower`/`str.isupper` on one character. -/
def caseSensitiveText (isLower isUpper : Char → Bool) (s : Strategy) (text : List Char) : Bool :=
  match s with
  | .caseInsensitive => false
  | .uppercase => text.any isLower
  | _ => text.any isUpper

inductive Identify where
  | always | safe | unsafeOnly | never
deriving DecidableEq, Repr

/-- `Dialect.can_quote(identifier, identify)`; `cs` = `case_sensitive(identifier.this)`,
    `safeRe` = `SAFE_IDENTIFIER_RE.match(identifier.this)`, `underFunc` = parent is a `Func`. -/
def canQuote (quoted underFunc cs safeRe : Bool) : Identify → Bool
  | .never => quoted
  | .always => quoted || !underFunc
  | .safe => quoted || (!underFunc && (!cs && safeRe))
  | .unsafeOnly => quoted || (!underFunc && !(!cs && safeRe))

/-- `Dialect.quote_identifier(expression, identify)`: `identify or "unsafe"` -/
def quoteIdentifier (i : Ident) (underFunc cs safeRe identify : Bool) : Ident :=
  { i with quoted := canQuote i.quoted underFunc cs safeRe (if identify then .always else .unsafeOnly) }

/-- an identifier is case-sensitive under the dialect's rules iff `normalize_identifier` must not touch it -/
def caseSensitiveUnder (s : Strategy) (i : Ident) : Bool := !folds s i.quoted

/-! ### table-sensitive dialects (BigQuery.normalize_identifier) and the default db / catalog

  `Model/Ident.lean` (shared) mirrors the base `Dialect.normalize_identifier`.  BigQuery overrides it: under its
  CASE_INSENSITIVE strategy every identifier is lower-cased EXCEPT those it takes for table parts or UDF names,
  decided from the identifier's surroundings.  `normalizeT` wraps `Ident.normalize` with that rule;
  `tableSensitive` says whether the dialect has the override (translator: `base_normalize = false`). -/

/-- what `BigQuery.normalize_identifier` looks at besides the strategy -/
structure TableCtx where
  underUdf : Bool      -- parent (through Dots) is a UserDefinedFunction
  tableWithDb : Bool   -- parent (through Dots) is a Table that has a db
  quotedTable : Bool   -- that Table's meta["quoted_table"]
  maybeColumn : Bool   -- that Table's meta["maybe_column"]
  isTableTag : Bool    -- the identifier's own meta["is_table"]
deriving DecidableEq, Repr, Inhabited

def TableCtx.plain : TableCtx := ⟨false, false, false, false, false⟩

def tableCaseSensitive (c : TableCtx) : Bool :=
  c.underUdf || (c.tableWithDb && (c.quotedTable || !c.maybeColumn)) || c.isTableTag

def normalizeT (f : CaseFns) (tableSensitive : Bool) (s : Strategy) (c : TableCtx) (i : Ident) : Ident :=
  if tableSensitive && s == .caseInsensitive then
    (if tableCaseSensitive c then i else { i with name := f.lower i.name })
  else normalize f s i

/-- `qualify_tables`: the default `db` / `catalog` argument is parsed to an identifier, TAGGED `is_table`, then
    normalised (`tagFirst = true`, what the source does; the translator re-reads the statement order).  With the
    tag set only afterwards (`tagFirst = false`) a table-sensitive dialect folds the name. -/
def defaultQualifier (f : CaseFns) (tableSensitive : Bool) (s : Strategy) (tagFirst : Bool) (i : Ident) : Ident :=
  normalizeT f tableSensitive s { TableCtx.plain with isTableTag := tagFirst } i

/-! ### MappingSchema._normalize_name and its per-instance memo (sqlglot/schema.py)

  A schema normalises every key it stores or looks up: table / db / catalog parts with `is_table=True` (the identifier is
  tagged `meta["is_table"]`), column names without.  Results are memoised in `_normalized_name_cache`; the memo key must
  contain every input the result depends on — for a role-sensitive dialect (BigQuery) that includes the ROLE. -/

structure NKey where
  name : String
  quoted : Bool
  isTable : Bool
deriving DecidableEq, Repr, Inhabited

/-- what `_normalize_name` computes without the memo (dialect and `normalize=True` fixed) -/
def normName (f : CaseFns) (tableSensitive : Bool) (s : Strategy) (k : NKey) : String :=
  (normalizeT f tableSensitive s { TableCtx.plain with isTableTag := k.isTable } ⟨k.name, k.quoted⟩).name

/-- the memo key; `hasRole` = the tuple contains `is_table` (re-read from the source each run) -/
def memoKey (hasRole : Bool) (k : NKey) : String × Bool × Bool := (k.name, k.quoted, hasRole && k.isTable)

abbrev NameMemo := List ((String × Bool × Bool) × String)

/-- `_normalize_name` with the memo: a hit answers from the memo, a miss computes and stores -/
def normMemo (hasRole : Bool) (f : CaseFns) (ts : Bool) (s : Strategy) (memo : NameMemo) (k : NKey) : String × NameMemo :=
  match memo.lookup (memoKey hasRole k) with
  | some v => (v, memo)
  | none => (normName f ts s k, (memoKey hasRole k, normName f ts s k) :: memo)

def normMemoRun (hasRole : Bool) (f : CaseFns) (ts : Bool) (s : Strategy) : NameMemo → List NKey → List String
  | _, [] => []
  | m, k :: ks => let r := normMemo hasRole f ts s m k; r.1 :: normMemoRun hasRole f ts s r.2 ks

/-! ### lexical visibility of CTE names (sqlglot/optimizer/scope.py: Scope.branch, Scope.__init__, _traverse_ctes)

  Every `Scope` holds a mapping object `cte_sources`; `Scope.branch` gives the inner scope a mapping built from the
  parent's (`{**self.cte_sources, **extra}`: a NEW object), `Scope.__init__` copies the mapping's entries into the
  scope's `sources` (a snapshot), and `_traverse_ctes` later adds the scope's own WITH definitions to its mapping IN
  PLACE (`scope.cte_sources.update(...)`) and to its `sources`.  Whether `branch` really makes a new object is
  re-read from the source each run (`copies`); with a shared object a nested WITH leaks into later siblings. -/

abbrev CteEnv := List (String × Nat)     -- CTE name ↦ definition id, first match wins

structure CScope where
  ref : Nat              -- which mapping object this scope's `cte_sources` is
  sources : CteEnv       -- the scope's `sources`, restricted to CTE names
deriving DecidableEq, Repr, Inhabited

structure CState where
  envs : List CteEnv     -- the mapping objects
  scopes : List CScope
deriving DecidableEq, Repr, Inhabited

def CState.env (st : CState) (r : Nat) : CteEnv := st.envs.getD r []

/-- `parent.branch(…, cte_sources=extra)`: the new scope gets index `st.scopes.length` -/
def cbranch (copies : Bool) (st : CState) (p : Nat) (extra : CteEnv) : CState :=
  match st.scopes[p]? with
  | none => st
  | some ps =>
    let penv := st.env ps.ref
    if !copies && extra.isEmpty && !penv.isEmpty then
      { st with scopes := st.scopes ++ [⟨ps.ref, penv⟩] }                    -- the parent's object itself
    else
      { envs := st.envs ++ [extra ++ penv], scopes := st.scopes ++ [⟨st.envs.length, extra ++ penv⟩] }

/-- `_traverse_ctes(scope)`: `scope.sources.update(defs); scope.cte_sources.update(defs)` -/
def cupdate (st : CState) (s : Nat) (defs : CteEnv) : CState :=
  match st.scopes[s]? with
  | none => st
  | some sc =>
    { envs := st.envs.set sc.ref (defs ++ st.env sc.ref), scopes := st.scopes.set s ⟨sc.ref, defs ++ sc.sources⟩ }

/-- what a table reference named `n` inside scope `s` denotes: a CTE definition, or `none` = a schema table -/
def cresolve (st : CState) (s : Nat) (n : String) : Option Nat :=
  (st.scopes[s]?).bind (fun sc => sc.sources.lookup n)

def CState.root : CState := { envs := [[]], scopes := [⟨0, []⟩] }

inductive COp where
  | branch (p : Nat) (extra : CteEnv)
  | update (s : Nat) (defs : CteEnv)
  | resolve (s : Nat) (n : String)
deriving Repr

def crun (copies : Bool) : CState → List COp → List (Option Nat)
  | _, [] => []
  | st, .branch p x :: ops => crun copies (cbranch copies st p x) ops
  | st, .update s d :: ops => crun copies (cupdate st s d) ops
  | st, .resolve s n :: ops => cresolve st s n :: crun copies st ops

/-! ## Part 2: the scope model -/

inductive Op where
  | add | sub | mul | eq | gt | and
deriving DecidableEq, Repr, Inhabited

inductive Expr where
  | col (tbl : Option String) (name : String)
  | lit (n : Nat)
  | bin (op : Op) (l r : Expr)
  | paren (e : Expr)
  | coalesce (args : List (String × String))   -- COALESCE(t1.c, t2.c, ..) as _expand_using / _expand_stars build it
deriving DecidableEq, Repr, Inhabited

inductive SrcKind where
  | table (parts : List String)
  | scope (idx : Nat) (derived : Bool)   -- derived = a subquery in FROM; otherwise a CTE reference (a `Table` node)
deriving DecidableEq, Repr, Inhabited

structure Src where
  kind : SrcKind
  alias : Option String
deriving DecidableEq, Repr, Inhabited

inductive Proj where
  | star (tbl : Option String) (exc : List String)
  | item (e : Expr) (alias : Option String)
deriving DecidableEq, Repr, Inhabited

/-- one JOIN (the i-th join brings in source i+1) -/
structure Join where
  natural : Bool
  usingCols : List String
  on : Option Expr
deriving DecidableEq, Repr, Inhabited

structure Scope where
  outer : List String
  srcs : List Src
  joins : List Join
  projs : List Proj
  whr : Option Expr
  group : List Expr
  having : Option Expr
  order : List Expr
deriving DecidableEq, Repr, Inhabited

inductive Err where
  | optimize      -- sqlglot.errors.OptimizeError
  | unsupported   -- outside the modelled fragment
  | internal      -- a Python partial operation would fail (IndexError, AttributeError, ...)
deriving DecidableEq, Repr, Inhabited

abbrev Schema := List (List String × List String)   -- full path ↦ column names, in schema order
abbrev Env := List (String × List String)             -- source alias ↦ its columns, in FROM order

/-! ### sources -/

def isSuffixOf (parts path : List String) : Bool := parts.reverse.isPrefixOf path.reverse

/-- `MappingSchema.column_names` for an unambiguous reference (suffix match); unknown table ↦ `[]` -/
def schemaCols (σ : Schema) (parts : List String) : List String :=
  match σ.filter (fun e => isSuffixOf parts e.1) with
  | [e] => e.2
  | _ => []

/-- names the code generates: `_col_i` (normalised) and the implicit alias of a schema table, which
    `qualify_tables._set_alias(normalize=True)` re-parses as an UNQUOTED identifier and normalises again -/
structure Gen where
  colName : Nat → String
  refold : String → String
  /-- Resolver._get_available_source_columns collects the FROM source and the joins up to the current one BY NAME, in
      FROM/JOIN definition order (true; re-read from the source each run) — not a prefix of the cached all-sources
      mapping, which lists plain tables first and derived tables last -/
  joinCtxDefOrder : Bool := true

def srcName (g : Gen) (s : Src) : Option String :=
  match s.alias with
  | some a => some a
  | none =>
    match s.kind with
    | .table parts => parts.getLast?.map g.refold
    | .scope _ _ => none

def srcCols (σ : Schema) (outs : List (List String)) (s : Src) : Option (List String) :=
  match s.kind with
  | .table parts => some (schemaCols σ parts)
  | .scope i _ => outs[i]?

def isDerived (s : Src) : Bool :=
  match s.kind with
  | .scope _ d => d
  | _ => false

/-- alias every source; `none` = outside the fragment (unaliased derived table / dangling scope index).
    Returns the aliased sources (FROM order) and the (alias, columns) pairs in FROM order. -/
def mkEnv (g : Gen) (σ : Schema) (outs : List (List String)) : List Src → Option (List Src × List (Bool × String × List String))
  | [] => some ([], [])
  | s :: rest =>
    match srcName g s, srcCols σ outs s, mkEnv g σ outs rest with
    | some a, some cols, some (rs, env) => some ({ s with alias := some a } :: rs, (isDerived s, a, cols) :: env)
    | _, _, _ => none

/-- `Scope.selected_sources` order = `Scope.references`: every `Table` node first, then the derived tables -/
def refOrder (l : List (Bool × String × List String)) : List (String × List String) :=
  ((l.filter (fun e => !e.1)).map (·.2)) ++ ((l.filter (fun e => e.1)).map (·.2))

def envNames (env : Env) : List String := env.map (·.1)

def hasDup : List String → Bool
  | [] => false
  | x :: xs => xs.contains x || hasDup xs

def envCols (env : Env) (t : String) : Option (List String) := (env.find? (·.1 == t)).map (·.2)

/-- `Resolver._get_unambiguous_columns`: the source that alone exposes `n` -/
def unique (env : Env) (n : String) : Option String :=
  match env.filter (fun e => e.2.contains n) with
  | [e] => some e.1
  | _ => none

/-- the `Unknown column` test of `_qualify_columns` passes for `t.n` -/
def colCheck (env : Env) (t n : String) : Bool :=
  match envCols env t with
  | some cols => cols.isEmpty || cols.contains n || cols.contains "*"
  | none => true

/-! ### step B: _qualify_columns -/

/-- `skip` = names this clause must leave bare (ORDER BY: the select's named outputs) -/
def qcol (env : Env) (skip : List String) : Expr → Except Err Expr
  | .col (some t) n => if colCheck env t n then .ok (.col (some t) n) else .error .optimize
  | .col none n =>
    if skip.contains n then .ok (.col none n)
    else match unique env n with
      | some t => .ok (.col (some t) n)
      | none => .ok (.col none n)
  | .lit k => .ok (.lit k)
  | .bin op l r => do
    let l' ← qcol env skip l
    let r' ← qcol env skip r
    pure (.bin op l' r')
  | .paren e => do
    let e' ← qcol env skip e
    pure (.paren e')
  | .coalesce args => if args.all (fun a => colCheck env a.1 a.2) then .ok (.coalesce args) else .error .optimize

/-- HAVING: only already-qualified columns are `Scope.columns` -/
def qcolHaving (env : Env) : Expr → Except Err Expr
  | .col (some t) n => if colCheck env t n then .ok (.col (some t) n) else .error .optimize
  | .col none n => .ok (.col none n)
  | .lit k => .ok (.lit k)
  | .bin op l r => do
    let l' ← qcolHaving env l
    let r' ← qcolHaving env r
    pure (.bin op l' r')
  | .paren e => do
    let e' ← qcolHaving env e
    pure (.paren e')
  | .coalesce args => if args.all (fun a => colCheck env a.1 a.2) then .ok (.coalesce args) else .error .optimize

def qcolProj (env : Env) : Proj → Except Err Proj
  | .star t exc => .ok (.star t exc)
  | .item e a => do
    let e' ← qcol env [] e
    pure (.item e' a)

def mapE {α β ε} (f : α → Except ε β) : List α → Except ε (List β)
  | [] => .ok []
  | x :: xs => do
    let y ← f x
    let ys ← mapE f xs
    pure (y :: ys)

def optE {α β ε} (f : α → Except ε β) : Option α → Except ε (Option β)
  | none => .ok none
  | some x => do
    let y ← f x
    pure (some y)

/-- `Expr.output_name` of a projection's expression -/
def exprName : Expr → String
  | .col _ n => n
  | .lit k => toString k
  | .paren e => exprName e
  | _ => ""

/-- `Select.named_selects` -/
def namedSelects : List Proj → List String
  | [] => []
  | .star _ _ :: ps => "*" :: namedSelects ps
  | .item e (some a) :: ps => a :: namedSelects ps
  | .item e none :: ps => if exprName e == "" then namedSelects ps else exprName e :: namedSelects ps

/-! ### step C: _expand_alias_refs -/

inductive Ctx where
  | root            -- Alias / Select / Where / Group / Having: not a Condition
  | paren
  | op (o : Op)
deriving DecidableEq, Repr

def Op.isPredicate : Op → Bool
  | .eq | .gt => true
  | _ => false

/-- `simplify_parens(Paren(this))` under `parent`: does the Paren survive? -/
def keepParen (parent : Ctx) (this : Expr) : Bool :=
  match parent, this with
  | .root, _ => false
  | .paren, _ => false
  | .op p, .bin o _ _ =>
    if o.isPredicate then (p.isPredicate || p != .and)
    else !((o == .add && p == .add) || (o == .mul && p == .mul) || (o == .mul && (p == .add || p == .sub)))
  | .op _, _ => false

abbrev AMap := List (String × Expr × Nat)

def alookup (m : AMap) (n : String) : Option (Expr × Nat) := (m.find? (·.1 == n)).map (·.2)

def isLit : Expr → Bool
  | .lit _ => true
  | _ => false

inductive Clause where
  | plain      -- projections, WHERE
  | group      -- literal_index = True
  | having     -- resolve_table = True
deriving DecidableEq, Repr

def substCol (env : Env) (m : AMap) (cl : Clause) (ctx : Ctx) (n : String) : Expr :=
  match alookup m n with
  | some (ae, i) =>
    if isLit ae && cl != .plain then
      (if cl == .group then .lit i else .col none n)
    else if keepParen ctx ae then .paren ae else ae
  | none =>
    if cl == .having then
      match unique env n with
      | some t => .col (some t) n
      | none => .col none n
    else .col none n

def expand (env : Env) (m : AMap) (cl : Clause) (ctx : Ctx) : Expr → Expr
  | .col (some t) n => .col (some t) n
  | .col none n => substCol env m cl ctx n
  | .lit k => .lit k
  | .bin op l r => .bin op (expand env m cl (.op op) l) (expand env m cl (.op op) r)
  | .paren e => .paren (expand env m cl .paren e)
  | .coalesce args => .coalesce args

/-- projections left to right; an aliased projection enters the map with its expanded expression -/
def expandProjs (env : Env) : AMap → Nat → List Proj → List Proj × AMap
  | m, _, [] => ([], m)
  | m, i, .star t exc :: ps =>
    let r := expandProjs env m (i + 1) ps
    (.star t exc :: r.1, r.2)
  | m, i, .item e a :: ps =>
    let e' := expand env m .plain .root e
    let m' := match a with
      | some an => (an, e', i + 1) :: m
      | none => m
    let r := expandProjs env m' (i + 1) ps
    (.item e' a :: r.1, r.2)

/-! ### step D: _expand_stars -/

def starCols (t : String) (exc : List String) (cols : List String) : List Proj :=
  (cols.filter (fun c => !exc.contains c)).map (fun c => .item (.col (some t) c) none)

inductive StarR where
  | ok (ps : List Proj)
  | abandon               -- a source with unknown / duplicate columns: the select keeps its stars
  | unknownTable

def expandStarTables (exc : List String) : Env → StarR
  | [] => .ok []
  | (t, cols) :: rest =>
    if cols.isEmpty || cols.contains "*" || hasDup cols then .abandon
    else match expandStarTables exc rest with
      | .ok ps => .ok (starCols t exc cols ++ ps)
      | r => r

def expandStars (env : Env) : List Proj → StarR
  | [] => .ok []
  | .star none exc :: ps =>
    match expandStarTables exc env with
    | .ok qs => (match expandStars env ps with
      | .ok rs => .ok (qs ++ rs)
      | r => r)
    | r => r
  | .star (some t) exc :: ps =>
    match envCols env t with
    | none => .unknownTable
    | some cols =>
      match expandStarTables exc [(t, cols)] with
      | .ok qs => (match expandStars env ps with
        | .ok rs => .ok (qs ++ rs)
        | r => r)
      | r => r
  | p :: ps =>
    match expandStars env ps with
    | .ok rs => .ok (p :: rs)
    | r => r

/-! ### step E: qualify_outputs -/

def outAlias (colName : Nat → String) (i : Nat) (e : Expr) : String :=
  if exprName e == "" then colName i else exprName e

def qualifyOutputs (colName : Nat → String) : Nat → List String → List Proj → List Proj
  | _, _, [] => []
  | i, outer, .star t exc :: ps => .star t exc :: qualifyOutputs colName (i + 1) outer.tail ps
  | i, outer, .item e a :: ps =>
    let a1 := match a with
      | some x => x
      | none => outAlias colName i e
    let a2 := match outer.head? with
      | some o => o
      | none => a1
    .item e (some a2) :: qualifyOutputs colName (i + 1) outer.tail ps

def hasStar : List Proj → Bool
  | [] => false
  | .star _ _ :: _ => true
  | _ :: ps => hasStar ps

/-! ### step F: positional references -/

def aliasedItem : Option Proj → Option (Expr × String)
  | some (.item e (some a)) => some (e, a)
  | _ => none

/-- `expression.selects[int(node.this) - 1].assert_is(exp.Alias)`; position 0 is Python's index -1 -/
def projAt (ps : List Proj) (k : Nat) : Option (Expr × String) :=
  if k == 0 then aliasedItem ps.getLast? else aliasedItem ps[k - 1]?

/-- `_expand_positional_references(alias=False)` for one GROUP BY element -/
def groupPos (ps : List Proj) : Expr → Except Err Expr
  | .lit k =>
    if k > ps.length then .error .optimize
    else match projAt ps k with
      | some (e, _) => if isLit e then .ok (.lit k) else .ok e
      | none => .error .internal
  | e => .ok e

/-- `_expand_positional_references(alias=True)` for one ORDER BY element -/
def orderPos (ps : List Proj) : Expr → Except Err Expr
  | .lit k =>
    if k > ps.length then .error .optimize
    else match projAt ps k with
      | some (_, a) => .ok (.col none a)
      | none => .error .internal
  | e => .ok e

def lastAliasOf (e : Expr) : List Proj → Option String
  | [] => none
  | .item e' (some a) :: ps =>
    match lastAliasOf e ps with
    | some b => some b
    | none => if e' == e then some a else none
  | _ :: ps => lastAliasOf e ps

/-- with GROUP BY present, an ORDER BY expression equal to a projection becomes that projection's alias -/
def orderByAlias (ps : List Proj) (e : Expr) : Expr :=
  match lastAliasOf e ps with
  | some a => .col none a
  | none => e

/-! ### step G: validate_qualify_columns -/

/-- every column under `e` names a local source, except bare names listed in `skip` -/
def visible (names skip : List String) : Expr → Bool
  | .col (some t) _ => names.contains t
  | .col none n => skip.contains n
  | .lit _ => true
  | .bin _ l r => visible names skip l && visible names skip r
  | .paren e => visible names skip e
  | .coalesce args => args.all (fun a => names.contains a.1)

/-- HAVING as `Scope.columns` sees it: bare names are not collected at all -/
def visibleHaving (names : List String) : Expr → Bool
  | .col (some t) _ => names.contains t
  | .col none _ => true
  | .lit _ => true
  | .bin _ l r => visibleHaving names l && visibleHaving names r
  | .paren e => visibleHaving names e
  | .coalesce args => args.all (fun a => names.contains a.1)

def projVisible (names : List String) : Proj → Bool
  | .star _ _ => true        -- a star that survived expansion is not a `Scope.columns` entry
  | .item e _ => visible names [] e

def validate (names : List String) (s : Scope) : Bool :=
  s.projs.all (projVisible names)
  && (match s.whr with | some e => visible names [] e | none => true)
  && s.group.all (visible names [])
  && (match s.having with | some e => visibleHaving names e | none => true)
  && s.order.all (visible names (namedSelects s.projs))
  && s.joins.all (fun j => match j.on with | some e => visible names [] e | none => true)

/-! ### step U: _expand_using -/

abbrev ColTables := List (String × List String)   -- merged column ↦ the tables merged over it, in order

def colsOf (env : Env) (t : String) : List String := (envCols env t).getD []

/-- `_update_source_columns`: the first source that exposes a column owns it -/
def addCols (src : String) : List String → List (String × String) → List (String × String)
  | [], acc => acc
  | c :: cs, acc => addCols src cs (if acc.any (fun p => p.1 == c) then acc else acc ++ [(c, src)])

def ctAdd (ct : ColTables) (c t : String) : ColTables :=
  match ct.find? (fun e => e.1 == c) with
  | some _ => ct.map (fun e => if e.1 == c then (if e.2.contains t then e else (e.1, e.2 ++ [t])) else e)
  | none => ct ++ [(c, [t])]

structure UState where
  columns : List (String × String)
  ordered : List String
  ct : ColTables

def andChain : List Expr → Option Expr
  | [] => none
  | e :: es => some (es.foldl (fun acc x => .bin .and acc x) e)

/-- the ON operand and owning table for one USING identifier -/
def usingLhs (env : Env) (first single : Bool) (ordered : List String) (table id : String) : Expr :=
  if first || single then .col (some table) id
  else
    let cc := ordered.dropLast.filter (fun t => (colsOf env t).contains id)
    if cc.length > 1 then .coalesce (cc.map (fun t => (t, id))) else .col (some table) id

/-- one USING identifier: `none` = "Cannot automatically join" -/
def usingOne (env : Env) (first single : Bool) (columns : List (String × String)) (ordered : List String)
    (srcTable joinTable : String) (jc : List String) (ct : ColTables) (id : String) : Option (Expr × ColTables) :=
  let table? := (columns.find? (fun p => p.1 == id)).map (·.2)
  let keys := columns.map (·.1)
  if (table?.isNone || !jc.contains id) && (!columns.isEmpty && !keys.contains "*") && !jc.isEmpty then none
  else
    let table := table?.getD srcTable
    some (.bin .eq (usingLhs env first single ordered table id) (.col (some joinTable) id),
          ctAdd (ctAdd ct id table) id joinTable)

def usingAll (env : Env) (first single : Bool) (columns : List (String × String)) (ordered : List String)
    (srcTable joinTable : String) (jc : List String) : ColTables → List String → Option (List Expr × ColTables)
  | ct, [] => some ([], ct)
  | ct, id :: ids =>
    match usingOne env first single columns ordered srcTable joinTable jc ct id with
    | none => none
    | some (c, ct') =>
      match usingAll env first single columns ordered srcTable joinTable jc ct' ids with
      | none => none
      | some (cs, ct'') => some (c :: cs, ct'')

/-- the i-th join (bringing in source `a`); returns the rewritten join and whether its ON was generated here -/
def joinStep (env : Env) (i : Nat) (st : UState) (a : String) (j : Join) : Except Err (UState × Join × Bool) :=
  match st.ordered.getLast? with
  | none => .error .internal
  | some srcTable =>
    let columns := addCols srcTable (colsOf env srcTable) st.columns
    let ordered := st.ordered ++ [a]
    let jc := colsOf env a
    let keys := columns.map (·.1)
    let us := if j.usingCols.isEmpty && j.natural then
        (if !columns.isEmpty && !keys.contains "*" && !jc.isEmpty && !jc.contains "*" then keys.filter jc.contains else [])
      else j.usingCols
    if us.isEmpty then .ok ({ columns := columns, ordered := ordered, ct := st.ct }, j, false)
    else match usingAll env (i == 0) (us.length == 1) columns ordered srcTable a jc st.ct us with
      | none => .error .optimize
      | some (conds, ct') =>
        .ok ({ columns := columns, ordered := ordered, ct := ct' },
             { natural := false, usingCols := [], on := andChain conds }, true)

def joinSteps (env : Env) : Nat → UState → List String → List Join → Except Err (List (Join × Bool) × ColTables)
  | _, st, [], [] => .ok ([], st.ct)
  | i, st, a :: as, j :: js => do
    let r ← joinStep env i st a j
    let rest ← joinSteps env (i + 1) r.1 as js
    pure ((r.2.1, r.2.2) :: rest.1, rest.2)
  | _, _, _, _ => .error .internal

def hasMerge (js : List Join) : Bool := js.any (fun j => !j.usingCols.isEmpty || j.natural)

/-- `_expand_using` over the joins of a scope whose source aliases are `names` (FROM item first) -/
def expandUsing (env : Env) (names : List String) (js : List Join) : Except Err (List (Join × Bool) × ColTables) :=
  if !hasMerge js then .ok (js.map (fun j => (j, false)), [])
  else match names with
    | [] => .error .internal
    | a0 :: as => joinSteps env 0 { columns := addCols a0 (colsOf env a0) [], ordered := [a0], ct := [] } as js

def coalesceOf (ct : ColTables) (n : String) : Option Expr :=
  (ct.find? (fun e => e.1 == n)).map (fun e => .coalesce (e.2.map (fun t => (t, n))))

/-- bare references to a merged column become COALESCE over the merged tables -/
def replUsing (ct : ColTables) (skip : List String) : Expr → Expr
  | .col none n =>
    if skip.contains n then .col none n
    else match coalesceOf ct n with
      | some e => e
      | none => .col none n
  | .col (some t) n => .col (some t) n
  | .lit k => .lit k
  | .bin op l r => .bin op (replUsing ct skip l) (replUsing ct skip r)
  | .paren e => .paren (replUsing ct skip e)
  | .coalesce args => .coalesce args

/-- a projection that IS the bare merged column keeps its name -/
def replUsingProj (ct : ColTables) : Proj → Proj
  | .star t exc => .star t exc
  | .item (.col none n) none =>
    match coalesceOf ct n with
    | some e => .item e (some n)
    | none => .item (.col none n) none
  | .item e a => .item (replUsing ct [] e) a

/-- no bare (unqualified) name under `e` -/
def noBare : Expr → Bool
  | .col none _ => false
  | .col (some _) _ => true
  | .lit _ => true
  | .bin _ l r => noBare l && noBare r
  | .paren e => noBare e
  | .coalesce _ => true

/-- `_qualify_columns` on a JOIN … ON condition: a bare name is resolved over ALL sources of the scope first
    (`Resolver.get_table` → `_get_table_name_from_sources`) and, failing that, over the sources available at that join
    (`_get_column_join_context` / `_get_available_source_columns`): `pre` = the FROM source and the joins up to and
    including this one -/
def qcolOn (env pre : Env) : Expr → Except Err Expr
  | .col (some t) n => if colCheck env t n then .ok (.col (some t) n) else .error .optimize
  | .col none n =>
    match unique env n with
    | some t => .ok (.col (some t) n)
    | none =>
      match unique pre n with
      | some t => .ok (.col (some t) n)
      | none => .ok (.col none n)
  | .lit k => .ok (.lit k)
  | .bin op l r => do
    let l' ← qcolOn env pre l
    let r' ← qcolOn env pre r
    pure (.bin op l' r')
  | .paren e => do
    let e' ← qcolOn env pre e
    pure (.paren e')
  | .coalesce args => if args.all (fun a => colCheck env a.1 a.2) then .ok (.coalesce args) else .error .optimize

/-- one join condition; a condition generated by `_expand_using` is seen by `_qualify_columns` only if some bare
    reference was replaced (which clears the scope's column cache) -/
def qcolJoin (env pre : Env) (replaced : Bool) (jg : Join × Bool) : Except Err Join :=
  match jg.1.on with
  | none => .ok jg.1
  | some e =>
    if jg.2 && !replaced then .ok jg.1
    else if noBare e then do
      let e' ← qcol env [] e
      pure { jg.1 with on := some e' }
    else do
      let e' ← qcolOn env pre e
      pure { jg.1 with on := some e' }

/-- the i-th join sees the first i + 2 entries of `jenv` (the mapping the join-context fallback slices) -/
def qcolJoins (env jenv : Env) (replaced : Bool) : Nat → List (Join × Bool) → Except Err (List Join)
  | _, [] => .ok []
  | i, jg :: rest => do
    let j ← qcolJoin env (jenv.take (i + 2)) replaced jg
    let js ← qcolJoins env jenv replaced (i + 1) rest
    pure (j :: js)

/-! ### step D with merged columns -/

def starColsU (ct : ColTables) (t : String) (exc : List String) : List String → List String → List Proj × List String
  | coal, [] => ([], coal)
  | coal, c :: cs =>
    if exc.contains c || coal.contains c then starColsU ct t exc coal cs
    else match ct.find? (fun e => e.1 == c) with
      | some e =>
        if e.2.contains t then
          let r := starColsU ct t exc (coal ++ [c]) cs
          (.item (.coalesce (e.2.map (fun x => (x, c)))) (some c) :: r.1, r.2)
        else
          let r := starColsU ct t exc coal cs
          (.item (.col (some t) c) none :: r.1, r.2)
      | none =>
        let r := starColsU ct t exc coal cs
        (.item (.col (some t) c) none :: r.1, r.2)

def expandStarTablesU (ct : ColTables) (exc : List String) : List String → Env → Option (List Proj × List String)
  | coal, [] => some ([], coal)
  | coal, (t, cols) :: rest =>
    if cols.isEmpty || cols.contains "*" || hasDup cols then none
    else
      let r := starColsU ct t exc coal cols
      match expandStarTablesU ct exc r.2 rest with
      | some (ps, coal') => some (r.1 ++ ps, coal')
      | none => none

/-- `none` inside = abandoned; the set of already coalesced names is shared by all stars of the select -/
def expandStarsU (env : Env) (ct : ColTables) : List String → List Proj → Except Err (Option (List Proj))
  | _, [] => .ok (some [])
  | coal, .star none exc :: ps =>
    match expandStarTablesU ct exc coal env with
    | none => .ok none
    | some (qs, coal') => do
      let rs ← expandStarsU env ct coal' ps
      pure (rs.map (fun r => qs ++ r))
  | coal, .star (some t) exc :: ps =>
    match envCols env t with
    | none => .error .optimize
    | some cols =>
      match expandStarTablesU ct exc coal [(t, cols)] with
      | none => .ok none
      | some (qs, coal') => do
        let rs ← expandStarsU env ct coal' ps
        pure (rs.map (fun r => qs ++ r))
  | coal, p :: ps => do
    let rs ← expandStarsU env ct coal ps
    pure (rs.map (fun r => p :: r))

/-! ### the pipeline -/

def outNames : List Proj → List String
  | [] => []
  | .star _ _ :: ps => "*" :: outNames ps
  | .item e a :: ps => (a.getD (exprName e)) :: outNames ps

def applyStars (env : Env) (ps : List Proj) : Except Err (List Proj) :=
  match expandStars env ps with
  | .ok qs => if qs.isEmpty then .ok ps else .ok qs   -- "don't overwrite the initial selections with an empty list"
  | .abandon => .ok ps
  | .unknownTable => .error .optimize

def applyStarsU (env : Env) (ct : ColTables) (ps : List Proj) : Except Err (List Proj) :=
  if ct.isEmpty then applyStars env ps
  else do
    let r ← expandStarsU env ct [] ps
    match r with
    | some qs => if qs.isEmpty then pure ps else pure qs
    | none => pure ps

/-- steps B–F for one scope whose sources are aliased (`srcs'`) and resolved (`env`, in `references` order), after
    step U produced the merge table `ct` and the (join, ON-generated-here) pairs `jgs`; `replaced` = step U rewrote
    some bare reference -/
def buildCore (g : Gen) (env jenv : Env) (srcs' : List Src) (ct : ColTables) (jgs : List (Join × Bool)) (replaced : Bool)
    (skipOrder : List String) (s : Scope) : Except Err Scope := do
  -- B
  let projsB ← mapE (qcolProj env) s.projs
  let whrB ← optE (qcol env []) s.whr
  let groupB ← mapE (qcol env []) s.group
  let havingB ← optE (qcolHaving env) s.having
  let orderB ← mapE (qcol env skipOrder) s.order
  let joinsB ← qcolJoins env jenv replaced 0 jgs
  -- C
  let pc := expandProjs env [] 0 projsB
  let whrC := whrB.map (expand env pc.2 .plain .root)
  let groupC := groupB.map (expand env pc.2 .group .root)
  let havingC := havingB.map (expand env pc.2 .having .root)
  -- D
  let projsD ← applyStarsU env ct pc.1
  if hasStar projsD && !s.outer.isEmpty then .error .unsupported else do
  -- E
  let projsE := qualifyOutputs g.colName 0 s.outer projsD
  -- F
  let groupF ← mapE (groupPos projsE) groupC
  let orderF ← mapE (orderPos projsE) orderB
  let orderF' := if groupF.isEmpty then orderF else orderF.map (orderByAlias projsE)
  pure { outer := [], srcs := srcs', joins := joinsB, projs := projsE, whr := whrC, group := groupF,
         having := havingC, order := orderF' }

/-- step U, then B–F -/
def buildScope (g : Gen) (env jenv : Env) (srcs' : List Src) (s : Scope) : Except Err Scope := do
  if s.joins.length + 1 != srcs'.length && !(s.joins.isEmpty) then .error .internal else do
  let u ← expandUsing env (srcs'.filterMap (·.alias)) s.joins
  let ct := u.2
  let skipOrder := namedSelects s.projs
  let s1 : Scope := if ct.isEmpty then s else
    { s with projs := s.projs.map (replUsingProj ct), whr := s.whr.map (replUsing ct []),
             group := s.group.map (replUsing ct []), order := s.order.map (replUsing ct skipOrder) }
  -- bare references to a merged column inside the ON conditions the user wrote are `Scope.columns` too
  let jgs := if ct.isEmpty then u.1 else
    u.1.map (fun jg => if jg.2 then jg else ({ jg.1 with on := jg.1.on.map (replUsing ct []) }, false))
  let replaced := !ct.isEmpty && (s1.projs != s.projs || s1.whr != s.whr || s1.group != s.group || s1.order != s.order
    || jgs != u.1)
  buildCore g env jenv srcs' ct jgs replaced skipOrder s1

/-- the mapping whose prefix the join-context fallback uses -/
def joinEnv (g : Gen) (env0 : List (Bool × String × List String)) : Env :=
  if g.joinCtxDefOrder then env0.map (·.2) else refOrder env0

/-- step G -/
def check (names : List String) (s' : Scope) : Except Err Scope :=
  if validate names s' then .ok s' else .error .optimize

def qualifyScope (g : Gen) (σ : Schema) (outs : List (List String)) (s : Scope) : Except Err Scope :=
  match mkEnv g σ outs s.srcs with
  | none => .error .unsupported
  | some (srcs', env0) =>
    if hasDup (envNames (refOrder env0)) then .error .optimize
    else match buildScope g (refOrder env0) (joinEnv g env0) srcs' s with
      | .ok s' => check (envNames (refOrder env0)) s'
      | .error e => .error e

/-- the whole query: scopes in traversal order, each seeing the output names of the earlier ones -/
def qualifyFrom (g : Gen) (σ : Schema) : List (List String) → List Scope → Except Err (List Scope)
  | _, [] => .ok []
  | outs, s :: rest => do
    let s' ← qualifyScope g σ outs s
    let rest' ← qualifyFrom g σ (outs ++ [outNames s'.projs]) rest
    pure (s' :: rest')

def qualifyModel (g : Gen) (σ : Schema) (q : List Scope) : Except Err (List Scope) :=
  qualifyFrom g σ [] q

end SqlglotModel.Qualify
