/-
  C01 — token-level model of sqlglot's expression core: tokens, the AST and the per-dialect tables.

  What is modelled (sqlglot/parser.py `_parse_disjunction … _parse_unary`, `_parse_range`, `_parse_paren`,
  `_parse_primary`, anonymous `_parse_function`, dotted `_parse_column`; sqlglot/generator.py `binary`,
  `connector_sql`, `paren_sql`, `neg_sql`, `not_sql`, `bitwisenot_sql`, `is_sql`, `in_sql`, `between_sql`, `_like_sql`):
  literals (number, string, NULL, TRUE, FALSE), dotted columns (quoted or not), `Paren`, unary `- NOT ~` (and the
  no-op unary `+`), binary operators of the ladder levels OR / AND / equality / comparison / bitwise / term /
  factor / exponent with the level tables extracted per dialect (Generated/C01.lean), `IS [NOT] NULL`,
  `[NOT] IN (list)`, `[NOT] BETWEEN`, `[NOT] LIKE`, calls of functions unknown to sqlglot (`exp.Anonymous`).

  NOT modelled: the tokenizer (the harness ships the real tokenizer's token types + texts; the model's printed
  text is re-tokenised by the real tokenizer in the correspondence stage), comments, string/identifier escaping
  (C04), every other `_parse_*` method; dialect-specific generator transforms (a class with a transform is left out
  of that dialect's tables by the translator and reported as not covered).
-/
namespace SqlglotModel.Expr

/-- a token as the parser sees it: `TokenType` name and text -/
structure Tok where
  ty : String
  text : String
deriving DecidableEq, Repr, Inhabited

abbrev Toks := List Tok

/-- the modelled syntax trees (`exp.*` classes named in the comments) -/
inductive Expr where
  | num (s : String)                         -- Literal(is_string=False)
  | str (s : String)                         -- Literal(is_string=True)
  | null                                     -- Null
  | bool (b : Bool)                          -- Boolean
  | col (parts : List (String × Bool))       -- Column: identifiers outermost first, (name, quoted)
  | paren (e : Expr)                         -- Paren
  | neg (e : Expr)                           -- Neg
  | not (e : Expr)                           -- Not
  | bnot (e : Expr)                          -- BitwiseNot
  | bin (cls : String) (l r : Expr)          -- any Binary/Connector class of a ladder table
  | isNull (negate : Bool) (e : Expr)        -- Is(this=e, expression=Null(), negate=…)
  | inList (e : Expr) (items : List Expr)    -- In(this=e, expressions=items)
  | between (e lo hi : Expr)                 -- Between
  | like (negate : Bool) (e pat : Expr)      -- Like(negate=…)
  | func (name : String) (args : List Expr)  -- Anonymous
deriving Repr, Inhabited

/-- how a prefix-operator method (`neg_sql`, `bitwisenot_sql`) decides to put a space before its operand
    (shape extracted from the source by the translator):
    `text` — looks at the operand's GENERATED TEXT (`this_sql[0] == "-"`, `this_sql[:1] == "~"`, `.startswith`);
    `node` — looks at the operand's node class (`isinstance(operand, exp.Neg)`); `none` — no guard -/
inductive Guard where
  | text | node | none | unknown
deriving DecidableEq, Repr, Inhabited

/-- one ladder level: `Parser.<LEVEL>` as (token type, node class) pairs -/
abbrev Level := List (String × String)

/-- everything the model takes from the source, per dialect (written by the translator) -/
structure Tables where
  outer : List Level                 -- DISJUNCTION, CONJUNCTION
  mid   : List Level                 -- EQUALITY, COMPARISON
  lower : List Level                 -- BITWISE, TERM, FACTOR, EXPONENT
  genOps : List (String × String × String)   -- node class ↦ (token type the operator text lexes to, operator text)
  rangeToks : List String           -- Parser.RANGE_PARSERS keys
  negGuard : Guard                   -- shape of the guard in the dialect's `neg_sql`
  bnotGuard : Guard                  -- shape of the guard in the dialect's `bitwisenot_sql`
  normalizeNotNull : Bool            -- Dialect.NORMALIZE_NOT_NULL
  identStart : String                -- Dialect.IDENTIFIER_START / END
  identEnd : String
deriving Repr, Inhabited

inductive Err where
  | syntax        -- ParseError
  | unsupported   -- the input leaves the modelled fragment
  | fuel          -- internal: never produced by `parse` (theorem `parse_fuel_enough` for printed trees)
deriving DecidableEq, Repr

def lookup (l : List (String × String)) (k : String) : Option String :=
  match l with
  | [] => none
  | (a, b) :: rest => if a = k then some b else lookup rest k

def lookup3 (l : List (String × String × String)) (k : String) : Option (String × String) :=
  match l with
  | [] => none
  | (a, b) :: rest => if a = k then some b else lookup3 rest k

/-- canonical S-expression (the harness prints the same from the real tree) -/
def quoteS (s : String) : String := "\"" ++ s ++ "\""

mutual
def sexp : Expr → String
  | .num s => "(num " ++ quoteS s ++ ")"
  | .str s => "(str " ++ quoteS s ++ ")"
  | .null => "(null)"
  | .bool b => if b then "(true)" else "(false)"
  | .col parts => "(col" ++ String.join (parts.map fun p => " " ++ (if p.2 then "q:" else "u:") ++ p.1) ++ ")"
  | .paren e => "(paren " ++ sexp e ++ ")"
  | .neg e => "(neg " ++ sexp e ++ ")"
  | .not e => "(not " ++ sexp e ++ ")"
  | .bnot e => "(bnot " ++ sexp e ++ ")"
  | .bin c l r => "(bin " ++ c ++ " " ++ sexp l ++ " " ++ sexp r ++ ")"
  | .isNull n e => (if n then "(isnotnull " else "(isnull ") ++ sexp e ++ ")"
  | .inList e items => "(in " ++ sexp e ++ sexpL items ++ ")"
  | .between e lo hi => "(between " ++ sexp e ++ " " ++ sexp lo ++ " " ++ sexp hi ++ ")"
  | .like n e p => (if n then "(notlike " else "(like ") ++ sexp e ++ " " ++ sexp p ++ ")"
  | .func name args => "(func " ++ name ++ sexpL args ++ ")"
def sexpL : List Expr → String
  | [] => ""
  | e :: es => " " ++ sexp e ++ sexpL es
end

end SqlglotModel.Expr
