/-
C17 — executable model of `sqlglot.lineage.to_node` (sqlglot/lineage.py:196-500) over a QUALIFIED query.

What is modelled
  * the qualified query is given as a FLATTENED list of scopes (children before parents, root last); every reference
    from scope `k` goes to an index `< k` (anything else yields the explicit `errLeaf` outcome);
  * the three shapes of `scope.expression` that `to_node` distinguishes: Select, SetOperation, Subquery wrapper;
  * the select lookup (by name: first projection with that alias, else the `scope.expression` fallback; by index:
    out of range = error), the set-operation index lookup, scalar subqueries (`UNWRAPPED_QUERIES`) of a projection,
    the recursion over the source columns of a projection, table leaves and `Placeholder` leaves;
  * the memo `_cache` with its key `(column, id(scope), scope_name, source_name, reference_node_name)`; the key
    components actually used are DATA (`Cfg.comps`, re-extracted from the source on every run, Generated/C17.lean);
    hit => the cached node is what gets attached; set-operation nodes are cached only when the call created them;
    a Subquery-scope call does not cache a passed-in upstream; `source_name` / `reference_node_name` propagation.
  * a node graph is rendered functionally: a call returns the node's identity fields and the LIST OF LEAVES that the
    sub-graph hanging under it contributes (a cached node stands for its whole sub-graph).
What is not modelled: pivots, UDTF/lateral sources, unexpanded stars (unknown schema), `trim_selects` labels, `on_node`,
  Python `set` iteration order of the source columns (the model takes the columns as a list; outputs are compared as
  sorted sets), the real object graph (so the self-loop that the "don't cache a passed-in upstream" guard prevents is
  represented only by the guard itself).
No proofs in this file.
-/
import SqlglotModel.Model.Ident

namespace SqlglotModel.Lineage

abbrev Leaf := String × String

/-- explicit outcome for everything the real code answers with an exception (or the model cannot represent) -/
def errLeaf : Leaf := ("!error", "")

inductive Col
  | name (s : String)
  | idx (i : Nat)
  deriving DecidableEq, Repr

def Col.str : Col → String
  | .name s => s
  | .idx i => toString i

inductive Src
  | table (name : String)
  /-- `isCte`: ScopeType.CTE (else DERIVED_TABLE); `refName`: `scope.selected_sources[alias][0].name` for a CTE;
      `srcTag`: the `/* source: x */` comment `exp.expand` puts on a derived table built from `sources=` -/
  | scope (idx : Nat) (isCte : Bool) (refName : Option String) (srcTag : Option String)
  deriving Repr

structure Proj where
  name : String
  /-- `find_all_in_scope(select, exp.Column)` as (table alias, column name) -/
  cols : List (String × String)
  /-- `find_all_in_scope(select, *UNWRAPPED_QUERIES)`: scope index and `subquery.named_selects` -/
  subqs : List (Nat × List String)
  deriving Repr

inductive LScope
  | select (projs : List Proj) (fallback : Proj) (srcs : List (String × Src))
  | union (op : String) (l r : Nat) (names : List String)
  | wrap (inner : Nat)
  deriving Repr

def lookupSrc (t : String) : List (String × Src) → Option Src
  | [] => none
  | (a, s) :: rest => if a = t then some s else lookupSrc t rest

def findProj (n : String) : List Proj → Option Proj
  | [] => none
  | p :: rest => if p.name = n then some p else findProj n rest

/-- lineage.py:219-245 — `none` = "Cannot find column's source with index" -/
def pickProj (projs : List Proj) (fb : Proj) : Col → Option Proj
  | .idx i => projs[i]?
  | .name n => some ((findProj n projs).getD fb)

def findIdx (n : String) : List String → Nat → Option Nat
  | [], _ => none
  | x :: rest, i => if x = n then some i else findIdx n rest i.succ

/-- lineage.py:273-288 — `none` = the index/ValueError outcomes -/
def unionIdx (names : List String) : Col → Option Nat
  | .idx i => if i < names.length then some i else none
  | .name n => findIdx n names 0

/-! ### reference semantics: plain structural data flow (no cache, no names) -/

def guard (k i : Nat) (r : List Leaf) : List Leaf := if i < k then r else [errLeaf]

def flowCol (rec : Nat → Col → List Leaf) (k : Nat) (srcs : List (String × Src)) (tc : String × String) : List Leaf :=
  match lookupSrc tc.1 srcs with
  | some (.table n) => [(n, tc.2)]
  | some (.scope i _ _ _) => guard k i (rec i (.name tc.2))
  | none => [("<placeholder>", tc.2)]

def flowSubq (rec : Nat → Col → List Leaf) (k : Nat) (sq : Nat × List String) : List Leaf :=
  sq.2.flatMap fun n => guard k sq.1 (rec sq.1 (.name n))

def flowStep (rec : Nat → Col → List Leaf) (k : Nat) : LScope → Col → List Leaf
  | .select projs fb srcs, c =>
    match pickProj projs fb c with
    | none => [errLeaf]
    | some p => p.subqs.flatMap (flowSubq rec k) ++ p.cols.flatMap (flowCol rec k srcs)
  | .union _ l r names, c =>
    match unionIdx names c with
    | none => [errLeaf]
    | some ix => guard k l (rec l (.idx ix)) ++ guard k r (rec r (.idx ix))
  | .wrap i, c => guard k i (rec i c)

def flowF : Nat → List LScope → Nat → Col → List Leaf
  | 0, _, _, _ => [errLeaf]
  | f + 1, scopes, k, c =>
    match scopes[k]? with
    | none => [errLeaf]
    | some sc => flowStep (flowF f scopes) k sc c

/-- the flags `to_node` reads only to label nodes / build cache keys -/
def Src.erase : Src → Src
  | .table n => .table n
  | .scope i _ _ _ => .scope i false none none

def LScope.erase : LScope → LScope
  | .select projs fb srcs => .select projs fb (srcs.map fun as => (as.1, as.2.erase))
  | .union op l r names => .union op l r names
  | .wrap i => .wrap i

/-- the syntactic flow of column `c` of scope `k`: the base-table columns feeding it -/
def flow (scopes : List LScope) (k : Nat) (c : Col) : List Leaf :=
  flowF (k + 1) (scopes.map LScope.erase) k c

/-! ### `to_node` with the memo cache -/

inductive KeyComp
  | column | scope | scopeName | sourceName | refName
  deriving DecidableEq, Repr

structure Args where
  col : Col
  scope : Nat
  scopeName : Option String
  /-- `upstream is not None` -/
  hasUp : Bool
  sourceName : Option String
  refName : Option String
  deriving Repr

/-- a cache key; a component that the source does not put into `cache_key` is `none` -/
structure Key where
  col : Option Col
  scope : Option Nat
  scopeName : Option (Option String)
  sourceName : Option (Option String)
  refName : Option (Option String)
  deriving DecidableEq, Repr

/-- lineage.py:210 `cache_key = (column, id(scope), scope_name, source_name, reference_node_name)`;
    which components are present is `comps` (Generated/C17.lean) -/
def cacheKey (comps : List KeyComp) (a : Args) : Key :=
  { col := if KeyComp.column ∈ comps then some a.col else none
    scope := if KeyComp.scope ∈ comps then some a.scope else none
    scopeName := if KeyComp.scopeName ∈ comps then some a.scopeName else none
    sourceName := if KeyComp.sourceName ∈ comps then some a.sourceName else none
    refName := if KeyComp.refName ∈ comps then some a.refName else none }

/-- what a call returns: the node's identity fields and the leaves of the sub-graph under it;
    `isUp` = the returned object is the passed-in upstream (set operation under an upstream) -/
structure Res where
  leaves : List Leaf
  isUp : Bool
  name : String
  sourceName : String
  refName : String
  deriving Repr

abbrev Cache := List (Key × Res)

def Cache.find (key : Key) : Cache → Option Res
  | [] => none
  | (k, v) :: rest => if k = key then some v else Cache.find key rest

structure Cfg where
  comps : List KeyComp
  /-- `_cache is not None` -/
  useCache : Bool

def errRes : Res := ⟨[errLeaf], false, "!error", "", ""⟩

abbrev Rec := Args → Cache → Res × Cache

def callGuard (rec : Rec) (k : Nat) (a : Args) (cache : Cache) : Res × Cache :=
  if a.scope < k then rec a cache else (errRes, cache)

def nodeName (scopeName : Option String) (c : Col) : String :=
  match scopeName with
  | some s => if s.isEmpty then c.str else s ++ "." ++ c.str
  | none => c.str

/-- lineage.py:405-411 -/
def refNameFor (t : String) (isCte : Bool) (refN : Option String) (tag : Option String) : Option String :=
  if isCte then refN else if tag.isNone then some t else none

/-- lineage.py:420 `source_names.get(table) or source_name` -/
def sourceNameFor (tag : Option String) (inherited : Option String) : Option String :=
  match tag with
  | some s => some s
  | none => inherited

/-- one source column `c` of the projection (lineage.py:399-496, without pivots) -/
def colOne (rec : Rec) (k : Nat) (srcs : List (String × Src)) (a : Args) (tc : String × String) (cache : Cache) :
    List Leaf × Cache :=
  match lookupSrc tc.1 srcs with
  | some (.table n) => ([(n, tc.2)], cache)
  | some (.scope i isCte refN tag) =>
    let r := callGuard rec k
      { col := .name tc.2, scope := i, scopeName := some tc.1, hasUp := true,
        sourceName := sourceNameFor tag a.sourceName, refName := refNameFor tc.1 isCte refN tag } cache
    (r.1.leaves, r.2)
  | none => ([("<placeholder>", tc.2)], cache)

def colsLoop (rec : Rec) (k : Nat) (srcs : List (String × Src)) (a : Args) : List (String × String) → Cache → List Leaf × Cache
  | [], cache => ([], cache)
  | tc :: rest, cache =>
    let r1 := colOne rec k srcs a tc cache
    let r2 := colsLoop rec k srcs a rest r1.2
    (r1.1 ++ r2.1, r2.2)

/-- lineage.py:337-351: `for name in subquery.named_selects: to_node(name, scope=subquery_scope, upstream=node, …)` -/
def namesLoop (rec : Rec) (k i : Nat) : List String → Cache → List Leaf × Cache
  | [], cache => ([], cache)
  | n :: rest, cache =>
    let r1 := callGuard rec k
      { col := .name n, scope := i, scopeName := none, hasUp := true, sourceName := none, refName := none } cache
    let r2 := namesLoop rec k i rest r1.2
    (r1.1.leaves ++ r2.1, r2.2)

def subqsLoop (rec : Rec) (k : Nat) : List (Nat × List String) → Cache → List Leaf × Cache
  | [], cache => ([], cache)
  | sq :: rest, cache =>
    let r1 := namesLoop rec k sq.1 sq.2 cache
    let r2 := subqsLoop rec k rest r1.2
    (r1.1 ++ r2.1, r2.2)

def insertIf (b : Bool) (key : Key) (v : Res) (cache : Cache) : Cache :=
  if b then (key, v) :: cache else cache

/-- lineage.py:247-267 -/
def stepWrap (cfg : Cfg) (rec : Rec) (a : Args) (cache : Cache) (key : Key) (i : Nat) : Res × Cache :=
  let r := callGuard rec a.scope { a with scope := i, scopeName := none } cache
  (r.1, insertIf (cfg.useCache && !r.1.isUp) key r.1 r.2)

/-- lineage.py:268-308 -/
def stepUnion (cfg : Cfg) (rec : Rec) (a : Args) (cache : Cache) (key : Key) (op : String) (l r : Nat)
    (names : List String) : Res × Cache :=
  match unionIdx names a.col with
  | none => (errRes, cache)
  | some ix =>
    let r1 := callGuard rec a.scope
      { col := .idx ix, scope := l, scopeName := none, hasUp := true, sourceName := a.sourceName, refName := a.refName } cache
    let r2 := callGuard rec a.scope
      { col := .idx ix, scope := r, scopeName := none, hasUp := true, sourceName := a.sourceName, refName := a.refName } r1.2
    let node : Res := ⟨r1.1.leaves ++ r2.1.leaves, a.hasUp, op, "", ""⟩
    (node, insertIf (cfg.useCache && !a.hasUp) key node r2.2)

/-- lineage.py:310-499 -/
def stepSelect (cfg : Cfg) (rec : Rec) (a : Args) (cache : Cache) (key : Key) (projs : List Proj) (fb : Proj)
    (srcs : List (String × Src)) : Res × Cache :=
  match pickProj projs fb a.col with
  | none => (errRes, cache)
  | some p =>
    let s1 := subqsLoop rec a.scope p.subqs cache
    let s2 := colsLoop rec a.scope srcs a p.cols s1.2
    let node : Res := ⟨s1.1 ++ s2.1, false, nodeName a.scopeName a.col, a.sourceName.getD "", a.refName.getD ""⟩
    (node, insertIf cfg.useCache key node s2.2)

def stepBody (cfg : Cfg) (scopes : List LScope) (rec : Rec) (a : Args) (cache : Cache) (key : Key) : Res × Cache :=
  match scopes[a.scope]? with
  | none => (errRes, cache)
  | some (.wrap i) => stepWrap cfg rec a cache key i
  | some (.union op l r names) => stepUnion cfg rec a cache key op l r names
  | some (.select projs fb srcs) => stepSelect cfg rec a cache key projs fb srcs

def cacheGet (cfg : Cfg) (key : Key) (cache : Cache) : Option Res :=
  if cfg.useCache then cache.find key else none

/-- lineage.py:210-216 then the body -/
def step (cfg : Cfg) (scopes : List LScope) (rec : Rec) (a : Args) (cache : Cache) : Res × Cache :=
  match cacheGet cfg (cacheKey cfg.comps a) cache with
  | some v => ({ v with isUp := false }, cache)
  | none => stepBody cfg scopes rec a cache (cacheKey cfg.comps a)

def toNode (cfg : Cfg) (scopes : List LScope) : Nat → Args → Cache → Res × Cache
  | 0, _, cache => (errRes, cache)
  | f + 1, a, cache => step cfg scopes (toNode cfg scopes f) a cache

def rootArgs (root : Nat) (column : String) : Args :=
  { col := .name column, scope := root, scopeName := none, hasUp := false, sourceName := none, refName := none }

/-- `lineage(column, …)` after qualification: one `to_node` call on the root scope with an empty cache -/
def lineageOne (cfg : Cfg) (scopes : List LScope) (root : Nat) (column : String) : Res × Cache :=
  toNode cfg scopes (root + 1) (rootArgs root column) []

/-- `lineage(None, …)`: one `to_node` per output column, the cache shared between them (lineage.py:176-193) -/
def lineageAll (cfg : Cfg) (scopes : List LScope) (root : Nat) : List String → Cache → List (List Leaf)
  | [], _ => []
  | n :: rest, cache =>
    let r := toNode cfg scopes (root + 1) (rootArgs root n) cache
    r.1.leaves :: lineageAll cfg scopes root rest r.2

/-- same, also returning the final cache (driver: comparison with the real `_cache`) -/
def lineageAllCache (cfg : Cfg) (scopes : List LScope) (root : Nat) : List String → Cache → Cache
  | [], cache => cache
  | n :: rest, cache => lineageAllCache cfg scopes root rest (toNode cfg scopes (root + 1) (rootArgs root n) cache).2

/-! ### the rewritings of the property statement -/

/-- forget CTE-vs-derived (flag and the reference name it induces) -/
def Src.eraseCte : Src → Src
  | .table n => .table n
  | .scope i _ _ tag => .scope i false none tag

def LScope.eraseCte : LScope → LScope
  | .select projs fb srcs => .select projs fb (srcs.map fun as => (as.1, as.2.eraseCte))
  | .union op l r names => .union op l r names
  | .wrap i => .wrap i

/-- forget the `/* source: x */` tags -/
def Src.eraseTag : Src → Src
  | .table n => .table n
  | .scope i c rn _ => .scope i c rn none

def LScope.eraseTag : LScope → LScope
  | .select projs fb srcs => .select projs fb (srcs.map fun as => (as.1, as.2.eraseTag))
  | .union op l r names => .union op l r names
  | .wrap i => .wrap i

def Src.rename (ρ : String → String) : Src → Src
  | .table n => .table n
  | .scope i c rn tag => .scope i c (rn.map ρ) tag

def Proj.rename (ρ : String → String) (p : Proj) : Proj :=
  { p with cols := p.cols.map fun tc => (ρ tc.1, tc.2) }

/-- rename every table alias of every scope by `ρ` (the sources and the column qualifiers) -/
def LScope.rename (ρ : String → String) : LScope → LScope
  | .select projs fb srcs =>
    .select (projs.map (Proj.rename ρ)) (fb.rename ρ) (srcs.map fun as => (ρ as.1, as.2.rename ρ))
  | .union op l r names => .union op l r names
  | .wrap i => .wrap i


/-- the table aliases and column qualifiers a scope mentions (what a renaming of that scope has to keep apart) -/
def LScope.names : LScope → List String
  | .select projs fb srcs =>
    srcs.map (·.1) ++ (projs.flatMap fun p => p.cols.map (·.1)) ++ fb.cols.map (·.1)
  | .union _ _ _ _ => []
  | .wrap _ => []

/-- rename the aliases of scope `k` by `ρs k` — a different renaming per scope -/
def renameScopes (ρs : Nat → String → String) (scopes : List LScope) : List LScope :=
  scopes.mapIdx fun k sc => sc.rename (ρs k)


/-! ### `exp.expand` (sqlglot/expressions/builders.py:888-931) over flattened scopes

`lineage(…, sources={name: query})` first replaces every table reference whose (normalised) name is a key of `sources`
by `(<source query>) AS <alias or name> /* source: name */`, recursively inside the inserted query, a FRESH COPY per
reference.  On flattened scope lists: a `Src.table n` with `n` among the definitions becomes a `Src.scope` pointing at
a freshly instantiated copy of the definition's scopes (placed before the referencing scope, indices relocated),
flagged as a derived table carrying the tag `mk n` (`mk = some` for `expand`, `mk = fun _ => none` for writing the
derived tables inline by hand). -/

structure SrcDef where
  name : String
  /-- flattened scopes of the source query, children first, root last -/
  scopes : List LScope
  /-- (scope index in the fragment, alias) of the table references written WITHOUT an alias -/
  implicit : List (Nat × String) := []

def findDef (n : String) : List SrcDef → Option SrcDef
  | [] => none
  | d :: rest => if d.name = n then some d else findDef n rest

/-- relocate a fragment-relative scope index through the table of already placed scopes -/
def remapIdx (m : List Nat) (i : Nat) : Nat := (m[i]?).getD i

def remapProj (m : List Nat) (p : Proj) : Proj :=
  { p with subqs := p.subqs.map fun sq => (remapIdx m sq.1, sq.2) }

/-- a scope that answers every column with the error outcome (cyclic `sources`: the real code does not terminate) -/
def errScope : LScope := .union "!error" 0 0 []

abbrev RecDef := SrcDef → List LScope → List LScope × Nat

/-- `look` = how a table reference finds its definition (`normalized_sources.get(name)`): `findDef · defs` for
    definitions keyed by plain names, `lookupKeyed …` (below) for keys and references given as identifiers -/
abbrev Look := String → Option SrcDef

/-- the alias of the derived table that replaces a reference: (reference had an explicit alias?, its current alias,
    normalised name of the definition) ↦ alias.  The real rule is `expandAlias` below. -/
abbrev AliasFn := Bool → String → String → String

/-- where a fragment's references are and which of them carry no alias -/
structure FragCtx where
  implicit : List (Nat × String)
  /-- index of the scope being placed, within its fragment -/
  idx : Nat

def newAlias (al : AliasFn) (look : Look) (cx : FragCtx) (as : String × Src) : String :=
  match as.2 with
  | .scope _ _ _ _ => as.1
  | .table n =>
    match look n with
    | none => as.1
    | some d => al (!(cx.implicit.contains (cx.idx, as.1))) as.1 d.name

def expSrc (mk : String → Option String) (al : AliasFn) (recDef : RecDef) (look : Look) (cx : FragCtx) (m : List Nat)
    (as : String × Src) (out : List LScope) : (String × Src) × List LScope :=
  match as.2 with
  | .scope i c r t => ((as.1, .scope (remapIdx m i) c r t), out)
  | .table n =>
    match look n with
    | none => (as, out)
    | some d =>
      let r := recDef d out
      ((newAlias al look cx as, .scope r.2 false none (mk d.name)), r.1)

def expSrcs (mk : String → Option String) (al : AliasFn) (recDef : RecDef) (look : Look) (cx : FragCtx) (m : List Nat) :
    List (String × Src) → List LScope → List (String × Src) × List LScope
  | [], out => ([], out)
  | as :: rest, out =>
    let r1 := expSrc mk al recDef look cx m as out
    let r2 := expSrcs mk al recDef look cx m rest r1.2
    (r1.1 :: r2.1, r2.2)

def findSrc (a : String) : List (String × Src) → Option (String × Src)
  | [] => none
  | as :: rest => if as.1 = a then some as else findSrc a rest

/-- the column qualifiers follow the alias of their source -/
def aliasRename (al : AliasFn) (look : Look) (cx : FragCtx) (srcs : List (String × Src)) (a : String) : String :=
  match findSrc a srcs with
  | some as => newAlias al look cx as
  | none => a

def expScope (mk : String → Option String) (al : AliasFn) (recDef : RecDef) (look : Look) (cx : FragCtx) (m : List Nat)
    (sc : LScope) (out : List LScope) : LScope × List LScope :=
  match sc with
  | .select projs fb srcs =>
    let r := expSrcs mk al recDef look cx m srcs out
    let ρ := aliasRename al look cx srcs
    (.select (projs.map fun p => (remapProj m p).rename ρ) ((remapProj m fb).rename ρ) r.1, r.2)
  | .union op l r names => (.union op (remapIdx m l) (remapIdx m r) names, out)
  | .wrap i => (.wrap (remapIdx m i), out)

/-- place the scopes of one fragment, in order; returns the output list and the index of the fragment's root -/
def expFrag (mk : String → Option String) (al : AliasFn) (recDef : RecDef) (look : Look) (implicit : List (Nat × String)) :
    List LScope → List Nat → List LScope → List LScope × Nat
  | [], m, out => (out, (m.getLast?).getD out.length)
  | sc :: rest, m, out =>
    let r := expScope mk al recDef look ⟨implicit, m.length⟩ m sc out
    expFrag mk al recDef look implicit rest (m ++ [r.2.length]) (r.2 ++ [r.1])

def expandF (mk : String → Option String) (al : AliasFn) (look : Look) : Nat → RecDef
  | 0, _, out => (out ++ [errScope], out.length)
  | f + 1, d, out => expFrag mk al (expandF mk al look f) look d.implicit d.scopes [] out

/-- keep the alias the reference has in the un-expanded scopes (plain-name definitions, every reference aliased) -/
def keepAlias : AliasFn := fun _ cur _ => cur

/-- the whole query: (flattened scopes, root index); `implicit` = the un-aliased references of the main query -/
def expandQA (mk : String → Option String) (al : AliasFn) (look : Look) (fuel : Nat) (implicit : List (Nat × String))
    (main : List LScope) : List LScope × Nat :=
  expFrag mk al (expandF mk al look fuel) look implicit main [] []

def expandQ (mk : String → Option String) (look : Look) (fuel : Nat) (main : List LScope) : List LScope × Nat :=
  expandQA mk keepAlias look fuel [] main

/-! #### the keys of `sources=`: normalised exactly once (builders.py:913 for the dict keys, :917 for a reference)

`normalize_table_name` = parse the text to a table, `normalize_identifiers`, join the part NAMES with "." — the
result is UNQUOTED text.  Keys and references are modelled as identifier lists (name, quoted); `normKey` is that
function.  A second normalisation pass has only the unquoted text to start from (`reparseKey`): quoting is lost. -/

open SqlglotModel.Ident in
def normKey (f : CaseFns) (s : Strategy) (parts : List Ident) : String :=
  ".".intercalate (parts.map fun i => (normalize f s i).name)

def splitDots : List Char → List Char → List String
  | [], acc => [String.ofList acc.reverse]
  | c :: rest, acc => if c = '.' then String.ofList acc.reverse :: splitDots rest [] else splitDots rest (c :: acc)

open SqlglotModel.Ident in
/-- re-reading an already normalised key text: every part comes back unquoted -/
def reparseKey (k : String) : List Ident := (splitDots k.toList []).map fun p => ⟨p, false⟩

open SqlglotModel.Ident in
/-- the text a definition is registered under after `passes` normalisation passes (`passes` is extracted from the
    source: Generated.C17.keyNormalisations; the property needs 1) -/
def defKey (f : CaseFns) (s : Strategy) : Nat → List Ident → String
  | 0, parts => ".".intercalate (parts.map (·.name))
  | 1, parts => normKey f s parts
  | n + 2, parts => normKey f s (reparseKey (defKey f s (n + 1) parts))

structure KeyedDef where
  key : List SqlglotModel.Ident.Ident
  scopes : List LScope
  implicit : List (Nat × String) := []

/-- a Python dict built in order: a later equal key replaces an earlier one -/
def findKeyed (k : String) : List SrcDef → Option SrcDef
  | [] => none
  | d :: rest =>
    match findKeyed k rest with
    | some d' => some d'
    | none => if d.name = k then some d else none

def lookupRef (n : String) : List (String × List SqlglotModel.Ident.Ident) → Option (List SqlglotModel.Ident.Ident)
  | [] => none
  | (a, r) :: rest => if a = n then some r else lookupRef n rest

open SqlglotModel.Ident in
/-- `normalized_sources.get(normalize_table_name(node))`: `refs` gives the identifier parts of each table reference -/
def lookupKeyed (f : CaseFns) (s : Strategy) (passes : Nat) (defs : List KeyedDef) (refs : List (String × List Ident)) : Look :=
  fun n =>
    match lookupRef n refs with
    | none => none
    | some r => findKeyed (normKey f s r) (defs.map fun d => { name := defKey f s passes d.key, scopes := d.scopes, implicit := d.implicit })


/-! #### the alias of the replacing derived table (builders.py:923 `parsed_source.subquery(node.alias or name)`) -/

/-- which expression the alias is built from (extracted from the source: Generated.C17.expandAliasVariant) -/
inductive AliasVariant
  | fullName      -- `node.alias or name`  (name = the full normalised dotted name)
  | aliasOrName   -- `node.alias_or_name`  (the LAST name part)
  | other
  deriving DecidableEq, Repr

def lastPart (key : String) : String := ((splitDots key.toList []).getLast?).getD key

/-- the alias TEXT handed to `.subquery(…)` -/
def expandAliasText (v : AliasVariant) (explicit : Option String) (key : String) : String :=
  match explicit with
  | some a => a
  | none =>
    match v with
    | .aliasOrName => lastPart key
    | _ => key

def isWordChar (c : Char) : Bool := c.isAlphanum || c = '_'

/-- `SAFE_IDENTIFIER_RE = ^[_a-zA-Z]\w*$` (ASCII): `to_identifier` quotes everything else -/
def isSafeIdent (s : String) : Bool :=
  match s.toList with
  | [] => false
  | c :: rest => (c.isAlpha || c = '_') && rest.all isWordChar

open SqlglotModel.Ident in
/-- the alias as the scopes show it: `to_identifier(text)` (quoted iff not a safe identifier) then the identifier
    normalisation of `qualify`; an explicit alias is kept as the un-expanded scopes have it -/
def expandAlias (v : AliasVariant) (f : CaseFns) (s : Strategy) : AliasFn :=
  fun explicit cur key =>
    if explicit then cur
    else
      let text := expandAliasText v none key
      (normalize f s ⟨text, !isSafeIdent text⟩).name


/-- what `to_node` reads back from the tag `exp.expand` wrote: `dt.comments[0].split()[1]` of `"source: <name>"`,
    i.e. the first whitespace-delimited word of the normalised name (a name containing a space is cut) -/
def firstWord (n : String) : String :=
  String.ofList ((n.toList.dropWhile Char.isWhitespace).takeWhile fun c => !c.isWhitespace)

/-- the tagging of `exp.expand` as `to_node` sees it -/
def expandTag (n : String) : Option String := some (firstWord n)


/-! ### lexical visibility of CTE names while the scopes are built
    (sqlglot/optimizer/scope.py: `Scope.branch` hands every child scope its own copy of the parent's `cte_sources`;
    `_traverse_ctes` adds a scope's own WITH to that mapping IN PLACE)

A parent scope whose mapping is `E` (what it inherited plus its own WITH) branches its derived tables and subqueries
in order, each WITHOUT extra CTEs; child `i` then adds the names of its own nested WITH (`sibs[i]`).
`copies = true`: every child starts from a copy of `E`.  `copies = false` (the shared-dict variant): a child is handed
the parent's dict itself unless that dict is empty (an empty mapping is replaced by a fresh one in `Scope.__init__`),
so its in-place update is seen by the parent's mapping and by every child branched later. -/

abbrev CteEnv := List (String × Nat)

def envGet (n : String) : CteEnv → Option Nat
  | [] => none
  | (a, i) :: rest => if a = n then some i else envGet n rest

/-- the parent's mapping after a child with own definitions `own` has been traversed (`dict.update`: own entries win) -/
def afterChild (copies : Bool) (E own : CteEnv) : CteEnv :=
  if copies || E.isEmpty then E else own ++ E

/-- the parent's mapping at the moment child `i` is branched -/
def parentEnvAt (copies : Bool) : CteEnv → List CteEnv → Nat → CteEnv
  | E, _, 0 => E
  | E, [], _ + 1 => E
  | E, own :: rest, i + 1 => parentEnvAt copies (afterChild copies E own) rest i

/-- what child `i` resolves the name `n` to: its own WITH over what it was handed -/
def cteVisible (copies : Bool) (E : CteEnv) (sibs : List CteEnv) (i : Nat) (n : String) : Option Nat :=
  envGet n ((sibs[i]?).getD [] ++ parentEnvAt copies E sibs i)


/-! ### a memo in front of `normalize_table_name` (string inputs)

`Dialect.__eq__/__hash__` compare the dialect CLASS only, so a cache keyed `(text, dialect)` is keyed by
(text, class): two dialect objects of one class with different `normalization_strategy` share its entries.
`keyHasSettings = true` models a key that also contains the settings the result depends on. -/

open SqlglotModel.Ident in
structure MemoKey where
  parts : List Ident
  cls : String
  strat : Option Strategy
  deriving DecidableEq

open SqlglotModel.Ident in
def memoKey (keyHasSettings : Bool) (parts : List Ident) (cls : String) (s : Strategy) : MemoKey :=
  ⟨parts, cls, if keyHasSettings then some s else none⟩

abbrev NormMemo := List (MemoKey × String)

def memoFind (k : MemoKey) : NormMemo → Option String
  | [] => none
  | (k', v) :: rest => if k' = k then some v else memoFind k rest

open SqlglotModel.Ident in
/-- one call of the memoised `normalize_table_name`: (answer, memo afterwards) -/
def normKeyMemo (keyHasSettings : Bool) (f : CaseFns) (cls : String) (s : Strategy) (parts : List Ident)
    (memo : NormMemo) : String × NormMemo :=
  match memoFind (memoKey keyHasSettings parts cls s) memo with
  | some v => (v, memo)
  | none => (normKey f s parts, (memoKey keyHasSettings parts cls s, normKey f s parts) :: memo)

open SqlglotModel.Ident in
/-- a call history: (class, strategy, key parts) in order; the answers -/
def runNormMemo (keyHasSettings : Bool) (f : CaseFns) : List (String × Strategy × List Ident) → NormMemo → List String
  | [], _ => []
  | (cls, s, parts) :: rest, memo =>
    let r := normKeyMemo keyHasSettings f cls s parts memo
    r.1 :: runNormMemo keyHasSettings f rest r.2

end SqlglotModel.Lineage
