/-
  C06 — executable model of the expression language of the property and of the small deterministic rewrite
  rules of sqlglot/optimizer/simplify.py and normalize.py (statement-by-statement mirrors), plus the
  *step checkers* used for the order-dependent rules.  No proofs here (see Proofs/Simplify.lean).

  Modelled: typed columns (bool / int, optionally NOT NULL), NULL / boolean / integer literals, AND, OR, NOT,
  Paren, the six comparisons, IS NULL / IS TRUE / IS FALSE, BETWEEN, IN-list, COALESCE, searched CASE, IF,
  + - * and unary minus.  Lists (IN list, COALESCE arguments, CASE branches) are encoded inside `E` with
  `cons`/`nil` so that `E` is a plain inductive type; `absent` is a missing optional child (CASE without ELSE,
  IF without false branch).
  Not modelled: strings, dates/intervals, casts, XOR, simple CASE (with operand), subqueries, `Is(negate=True)`.
-/
import SqlglotModel.Sem.ThreeVL

namespace SqlglotModel.Simplify
open SqlglotModel.ThreeVL

inductive E
  | null
  | absent
  | nil
  | cons (h t : E)
  | bool (v : Bool)
  | int (n : Int)
  | bcol (k : Nat) (nn : Bool)
  | icol (k : Nat) (nn : Bool)
  | and (a b : E)
  | or (a b : E)
  | not (a : E)
  | paren (a : E)
  | cmp (op : Cmp) (a b : E)
  | is (a b : E)
  | between (a lo hi : E)
  | inList (a xs : E)
  | coalesce (xs : E)
  | case (ifs dflt : E)
  | iff (c t f : E)
  | add (a b : E)
  | sub (a b : E)
  | mul (a b : E)
  | neg (a : E)
  deriving DecidableEq, Repr, Inhabited

structure Env where
  b : Nat → Option Bool
  i : Nat → Option Int

/-- `IS` with a NULL / TRUE / FALSE right-hand side (anything else is outside the fragment: NULL) -/
def isVal (x : Val) : E → Val
  | .null => .b (decide (x = .null))
  | .bool v => .b (decide (truth x = some v))
  | _ => .null

def negVal (x : Val) : Val :=
  match toInt? x with
  | some a => .i (-a)
  | none => .null

mutual
def eval (env : Env) : E → Val
  | .null => .null
  | .absent => .null
  | .nil => .null
  | .cons _ _ => .null
  | .bool v => .b v
  | .int n => .i n
  | .bcol k nn => match env.b k with
    | some v => .b v
    | none => if nn then .b false else .null
  | .icol k nn => match env.i k with
    | some v => .i v
    | none => if nn then .i 0 else .null
  | .and a b => ofB3 (and3 (truth (eval env a)) (truth (eval env b)))
  | .or a b => ofB3 (or3 (truth (eval env a)) (truth (eval env b)))
  | .not a => ofB3 (not3 (truth (eval env a)))
  | .paren a => eval env a
  | .cmp op a b => cmpVal op (eval env a) (eval env b)
  | .is a b => isVal (eval env a) b
  | .between a lo hi =>
    ofB3 (and3 (truth (cmpVal .gte (eval env a) (eval env lo))) (truth (cmpVal .lte (eval env a) (eval env hi))))
  | .inList a xs => ofB3 (evalIn env (eval env a) xs)
  | .coalesce xs => evalCoalesce env xs
  | .case ifs d => match evalCase env ifs with
    | some v => v
    | none => eval env d
  | .iff c t f => if truth (eval env c) = some true then eval env t else eval env f
  | .add a b => arith (· + ·) (eval env a) (eval env b)
  | .sub a b => arith (· - ·) (eval env a) (eval env b)
  | .mul a b => arith (· * ·) (eval env a) (eval env b)
  | .neg a => negVal (eval env a)
def evalIn (env : Env) (v : Val) : E → B3
  | .cons h t => or3 (truth (cmpVal .eq v (eval env h))) (evalIn env v t)
  | _ => some false
def evalCoalesce (env : Env) : E → Val
  | .cons h t => match eval env h with
    | .null => evalCoalesce env t
    | v => v
  | _ => .null
def evalCase (env : Env) : E → Option Val
  | .cons h rest => match h with
    | .iff c t _ => if truth (eval env c) = some true then some (eval env t) else evalCase env rest
    | _ => evalCase env rest
  | _ => none
end

/-! ## helpers mirroring simplify.py's predicates -/

def isNullE : E → Bool
  | .null => true
  | _ => false

def isFalseE : E → Bool
  | .bool false => true
  | _ => false

/-- `is_zero`: a (non-string) literal whose python value is 0 -/
def isZeroE : E → Bool
  | .int n => n == 0
  | _ => false

/-- `always_true`: TRUE or a non-zero number literal -/
def alwaysTrue : E → Bool
  | .bool true => true
  | .int n => n != 0
  | _ => false

def alwaysFalse (e : E) : Bool := isFalseE e || isNullE e || isZeroE e

def isConn : E → Bool
  | .and _ _ => true
  | .or _ _ => true
  | _ => false

/-- `exp._wrap(e, Connector)` -/
def wrapConn (e : E) : E := if isConn e then .paren e else e

/-- `exp.not_(e, copy=False)` -/
def mkNot (e : E) : E := .not (wrapConn e)

/-- `exp.and_(a, b, copy=False)` / `exp.or_` (two operands) -/
def mkAnd (a b : E) : E := .and (wrapConn a) (wrapConn b)
def mkOr (a b : E) : E := .or (wrapConn a) (wrapConn b)

/-- `Expression.unnest` -/
def unnest : E → E
  | .paren a => unnest a
  | e => e

/-- `is_number` / `to_py` for number literals (a literal or a negated number) -/
def numVal? : E → Option Int
  | .int n => some n
  | .neg a => (numVal? a).map (fun n => -n)
  | _ => none

/-- `exp.Literal.number(n)`: negative numbers become `Neg(Literal)` -/
def mkNum (n : Int) : E := if n < 0 then .neg (.int (-n)) else .int n

/-- `_is_constant`: Literal / Boolean / Null, possibly under one `Neg` -/
def isConstLeaf : E → Bool
  | .int _ => true
  | .bool _ => true
  | .null => true
  | _ => false

def isConstant : E → Bool
  | .neg a => isConstLeaf a
  | e => isConstLeaf e

/-- kind of the parent node, as far as the rules look at it -/
inductive PK
  | none | not | and | or | paren | cmp | is | between | inList | coalesce | case | iff | add | sub | mul | neg | other
  deriving DecidableEq, Repr

structure Flags where
  safeDoubleNeg : Bool
  coalesceNonStd : Bool

/-- `_parenthesize_nested_connector` -/
def parenthesizeNested (e : E) (p : PK) : E :=
  match e, p with
  | .and _ _, .not => .paren e
  | .and _ _, .or => .paren e
  | .or _ _, .not => .paren e
  | .or _ _, .and => .paren e
  | _, _ => e

/-! ## rewrite_between -/

/-- `wrap` of rewrite_between (5af9b60): the parent is a Binary, Unary or Predicate that is neither a Connector nor a Paren
    (NOT is a Unary, so the original NOT case is included) -/
def pkWrapsBetween : PK → Bool
  | .not | .neg | .cmp | .is | .between | .inList | .add | .sub | .mul => true
  | _ => false

def rewriteBetween (p : PK) : E → E
  | .between a lo hi =>
    let r := E.and (.cmp .gte a lo) (.cmp .lte a hi)
    if pkWrapsBetween p then .paren r else r
  | e => e

/-- snapshot of rewrite_between as it was before 5af9b60 (parentheses only under NOT), kept for the witness theorem -/
def rewriteBetweenNotOnly (p : PK) : E → E
  | .between a lo hi =>
    let r := E.and (.cmp .gte a lo) (.cmp .lte a hi)
    if p = .not then .paren r else r
  | e => e

/-! ## simplify_not  (`complement` is the regenerated COMPLEMENT_COMPARISONS table) -/
def notNull (p : PK) : E := parenthesizeNested (.and .null (.bool true)) p

def simplifyNotTail (fl : Flags) (innerBool : Bool) (this e : E) : E :=
  if alwaysTrue this then .bool false
  else if isFalseE this then .bool true
  else match this with
    | .not inner => if fl.safeDoubleNeg && innerBool then inner else e
    | _ => e

def simplifyNotParen (cond e : E) (p : PK) : E :=
  match cond with
  | .and l r => .paren (mkOr (mkNot l) (mkNot r))
  | .or l r => .paren (mkAnd (mkNot l) (mkNot r))
  | .null => notNull p
  | _ => e

def simplifyNot (complement : Cmp → Cmp) (fl : Flags) (p : PK) (innerBool : Bool) (e : E) : E :=
  match e with
  | .not this =>
    match this with
    | .null => notNull p
    | .cmp op a b => .cmp (complement op) a b
    | .paren _ => simplifyNotParen (unnest this) e p
    | _ => simplifyNotTail fl innerBool this e
  | _ => e

/-! ## _simplify_comparison  (the range reasoning on two comparisons sharing a column) -/

/-- a member of `COMPARISONS`: kind (`none` = IS), `this`, `expression` -/
def cmpParts : E → Option (Option Cmp × E × E)
  | .cmp op a b => some (some op, a, b)
  | .is a b => some (none, a, b)
  | _ => Option.none

inductive PairRes
  | none          -- Python `None`: no simplification
  | same          -- the connector itself is returned (`StopIteration` path): no simplification
  | res (e : E)
  deriving DecidableEq, Repr

def isLtLte : Option Cmp → Bool
  | some .lt => true
  | some .lte => true
  | _ => false

def isGtGte : Option Cmp → Bool
  | some .gt => true
  | some .gte => true
  | _ => false

/-- one iteration of the `for (a, av), (b, bv) in permutations(...)` loop; `none` = fall through.
    `tie = true` is the code as it is now (a8389e4): on equal constants with different strictness AND keeps the strict
    comparison and OR the inclusive one; `tie = false` is the earlier behaviour (first operand wins), kept for the witness. -/
def cmpStep (tie : Bool) (or_ : Bool) (left right : E) (ka : Option Cmp) (a : E) (av : Int) (kb : Option Cmp) (b : E) (bv : Int) : Option E :=
  if isLtLte ka && isLtLte kb then
    some (if tie && decide (av = bv) && ka != kb then (if (ka == some .lt) != or_ then a else b)
          else if (if or_ then decide (av > bv) else decide (av ≤ bv)) then left else right)
  else if isGtGte ka && isGtGte kb then
    some (if tie && decide (av = bv) && ka != kb then (if (ka == some .gt) != or_ then a else b)
          else if (if or_ then decide (av < bv) else decide (av ≥ bv)) then left else right)
  else if or_ then Option.none
  else if ka = some .lt && isGtGte kb then
    (if av ≤ bv then some (.bool false) else Option.none)
  else if ka = some .gt && isLtLte kb then
    (if av ≥ bv then some (.bool false) else Option.none)
  else if ka = some .eq then
    match kb with
    | some .lt => some (if av ≥ bv then .bool false else a)
    | some .lte => some (if av > bv then .bool false else a)
    | some .gt => some (if av ≤ bv then .bool false else a)
    | some .gte => some (if av < bv then .bool false else a)
    | some .neq => some (if av = bv then .bool false else a)
    | _ => Option.none
  else Option.none

/-- first `some` of two attempts, as a `PairRes` -/
def firstSome (a b : Option E) : PairRes :=
  match a with
  | some x => .res x
  | Option.none =>
    match b with
    | some x => .res x
    | Option.none => .none

/-- the decision phase: both permutations of the loop -/
def cmpDecide (tie : Bool) (or_ : Bool) (left right : E) (kl : Option Cmp) (lv : Int) (kr : Option Cmp) (rv : Int) : PairRes :=
  firstSome (cmpStep tie or_ left right kl left lv kr right rv) (cmpStep tie or_ left right kr right rv kl left lv)

def cmpPair (or_ : Bool) (left right : E) : PairRes :=
  match cmpParts left, cmpParts right with
  | some (kl, ll, lr), some (kr, rl, rr) =>
    let matching := [ll, lr].filter (fun m => m == rl || m == rr)
    let columns := matching.filter (fun m => !isConstant m)
    if columns.isEmpty then .none
    else
      match ([ll, lr].filter (fun m => !columns.contains m)).head?,
            ([rl, rr].filter (fun m => !columns.contains m)).head? with
      | some l, some r =>
        match numVal? l, numVal? r with
        | some lv, some rv => cmpDecide true or_ left right kl lv kr rv
        | _, _ => .none
      | _, _ => .same
  | _, _ => .none

/-! ## _simplify_connectors (the AND / OR pair tables of simplify_connectors) -/

/-- the constant part of the table (everything before the fall-through to `_simplify_comparison`) -/
def connConst (isAnd : Bool) (l r : E) : Option E :=
  if isAnd then
    if isFalseE l || isFalseE r then some (.bool false)
    else if isZeroE l || isZeroE r then some (.bool false)
    else if (isNullE l && isNullE r) || (isNullE l && alwaysTrue r) || (alwaysTrue l && isNullE r) then some .null
    else if alwaysTrue l && alwaysTrue r then some (.bool true)
    else if alwaysTrue l then some r
    else if alwaysTrue r then some l
    else none
  else
    if alwaysTrue l || alwaysTrue r then some (.bool true)
    else if (isNullE l && isNullE r) || (isNullE l && alwaysFalse r) || (alwaysFalse l && isNullE r) then some .null
    else if isFalseE l then some r
    else if isFalseE r then some l
    else none

def connPair (isAnd : Bool) (l r : E) : PairRes :=
  match connConst isAnd l r with
  | some x => .res x
  | none => cmpPair (!isAnd) l r

/-! ## _simplify_binary (literal folding) -/
inductive BinK
  | cmp (op : Cmp) | is | add | sub | mul
  deriving DecidableEq, Repr

def BinK.mk : BinK → E → E → E
  | .cmp op, a, b => .cmp op a b
  | .is, a, b => .is a b
  | .add, a, b => .add a b
  | .sub, a, b => .sub a b
  | .mul, a, b => .mul a b

def isLiteral : E → Bool
  | .int _ => true
  | _ => false

def binPairNum (k : BinK) (sameParent : Bool) (a b : E) : Option E :=
  match numVal? a, numVal? b with
  | some x, some y =>
    match k with
    | .add => some (mkNum (x + y))
    | .mul => some (mkNum (x * y))
    | .sub => if sameParent then some (mkNum (x - y)) else none
    | .cmp op => some (.bool (op.test x y))
    | .is => none
  | _, _ => none

def binPair (k : BinK) (parentIsIf sameParent : Bool) (a b : E) : Option E :=
  match k with
  | .is =>
    if isNullE b then
      if isLiteral a then some (.bool false)
      else if isNullE a then some (.bool true)
      else binPairNum k sameParent a b
    else binPairNum k sameParent a b
  | _ =>
    if (isNullE a || isNullE b) && parentIsIf then some .null
    else binPairNum k sameParent a b

/-! ## simplify_literals: the `Neg(Neg(x))` case (the binary case is `_flat_simplify` over `binPair`) -/
def simplifyNegNeg : E → E
  | .neg (.neg x) => x
  | e => e

/-! ## simplify_equality  (`inverseCmp` = INVERSE_COMPARISONS with identity default; INVERSE_OPS: Add ↔ Sub) -/
def simplifyEquality (inverseCmp : Cmp → Cmp) (addInvIsSub subInvIsAdd : Bool) (e : E) : E :=
  match e with
  | .cmp op l r =>
    if (numVal? r).isNone then e else
    match l with
    | .add a b =>
      if !addInvIsSub then e else
      if (numVal? a).isNone && (numVal? b).isSome then .cmp op a (.sub r b)
      else if (numVal? b).isNone && (numVal? a).isSome then .cmp op b (.sub r a)
      else e
    | .sub a b =>
      if !subInvIsAdd then e else
      if (numVal? a).isNone && (numVal? b).isSome then .cmp op a (.add r b)
      else if (numVal? b).isNone && (numVal? a).isSome then .cmp (inverseCmp op) b (.sub a r)
      else e
    | _ => e
  | _ => e

/-- `_parenthesize_for_parent(expression, parent)` (a4faa75): an argument that replaces the CASE / IF / COALESCE it was in
    is parenthesised when both it and its new parent are a Binary, Unary or Predicate (and it is not already a Paren) -/
def pkBinUnPred : PK → Bool
  | .and | .or | .cmp | .is | .add | .sub | .mul | .not | .neg | .paren | .between | .inList => true
  | _ => false

def eBinUnPredNoParen : E → Bool
  | .and _ _ | .or _ _ | .cmp _ _ _ | .is _ _ | .add _ _ | .sub _ _ | .mul _ _ | .not _ | .neg _ | .between _ _ _ | .inList _ _ => true
  | _ => false

def wrapForParent (e : E) (p : PK) : E := if pkBinUnPred p && eBinUnPredNoParen e then .paren e else e

/-- the variant that skips the parentheses when the argument is the same operation as its new parent ("such a chain is
    flattened anyway" — true for AND / OR / + / *, false for `-`), kept for the witness -/
def wrapForParentSkipSameOp (e : E) (p : PK) : E :=
  let sameOp := match e, p with
    | .and _ _, .and | .or _ _, .or | .add _ _, .add | .sub _ _, .sub | .mul _ _, .mul | .not _, .not | .neg _, .neg => true
    | _, _ => false
  if pkBinUnPred p && eBinUnPredNoParen e && !sameOp then .paren e else e

/-! ## simplify_conditionals -/

/-- `reverse kept ++ rest` on the `cons`-encoded list -/
def appRev (kept : List E) (rest : E) : E := kept.foldl (fun acc x => .cons x acc) rest

/-- the `for case in ifs` loop of the CASE branch; `kept` is the reversed list of surviving branches.
    Removing a branch while iterating over the live list skips the following one (mirrored).
    `firstOnly = true` is the code as it is now: a constant-TRUE condition only collapses the CASE when it is the first
    remaining branch (otherwise the loop stops); `firstOnly = false` is the unrepaired variant kept for the witness. -/
def caseLoop (firstOnly : Bool) (p : PK) (dflt : E) : (fuel : Nat) → (kept : List E) → (rest : E) → E
  | 0, kept, rest => .case (appRev kept rest) dflt
  | fuel + 1, kept, rest =>
    match rest with
    | .cons h tl =>
      match h with
      | .iff c t _ =>
        if alwaysTrue c then
          (if firstOnly && !kept.isEmpty then .case (appRev kept rest) dflt else wrapForParent t p)
        else if alwaysFalse c then
          match kept, tl with
          | [], .nil => wrapForParent (if dflt = .absent then .null else dflt) p
          | _, .cons nxt tl' => caseLoop firstOnly p dflt fuel (nxt :: kept) tl'
          | _, _ => .case (appRev kept tl) dflt
        else caseLoop firstOnly p dflt fuel (h :: kept) tl
      | _ => caseLoop firstOnly p dflt fuel (h :: kept) tl
    | _ => .case (appRev kept rest) dflt

/-- the variant with a `reachable_before` flag instead of the identity test `case is ifs[0]` (kept for the witness): the flag
    is set only for branches the loop VISITS, and the branch right after a popped one is never visited -/
def caseLoopFlag (p : PK) (dflt : E) : (fuel : Nat) → (reach : Bool) → (kept : List E) → (rest : E) → E
  | 0, _, kept, rest => .case (appRev kept rest) dflt
  | fuel + 1, reach, kept, rest =>
    match rest with
    | .cons h tl =>
      match h with
      | .iff c t _ =>
        if alwaysTrue c then
          (if reach then .case (appRev kept rest) dflt else wrapForParent t p)
        else if alwaysFalse c then
          match kept, tl with
          | [], .nil => wrapForParent (if dflt = .absent then .null else dflt) p
          | _, .cons nxt tl' => caseLoopFlag p dflt fuel reach (nxt :: kept) tl'
          | _, _ => .case (appRev kept tl) dflt
        else caseLoopFlag p dflt fuel true (h :: kept) tl
      | _ => caseLoopFlag p dflt fuel true (h :: kept) tl
    | _ => .case (appRev kept rest) dflt

def listLen : E → Nat
  | .cons _ t => listLen t + 1
  | _ => 0

def simplifyConditionals (p : PK) (e : E) : E :=
  match e with
  | .case ifs dflt => caseLoop true p dflt (listLen ifs + 1) [] ifs
  | .iff c t f =>
    if p = .case then e
    else if alwaysTrue c then wrapForParent t p
    else if alwaysFalse c then wrapForParent (if f = .absent then .null else f) p
    else e
  | _ => e

/-! ## simplify_coalesce -/
def isNonnullConstant : E → Bool
  | .int _ => true
  | .bool _ => true
  | _ => false

/-- may this argument end the COALESCE?  `skipNull = true` is the code as it is now (e0979fa): a constant that is not
    the NULL literal (nor `-NULL`); `skipNull = false` is the earlier `_is_constant(arg)`, kept for the witness -/
def endsCoalesce (skipNull : Bool) (h : E) : Bool :=
  isConstant h && !(skipNull && (isNullE h || (match h with | .neg x => isNullE x | _ => false)))

/-- split the COALESCE tail at the first argument that ends it: (prefix, that constant) -/
def splitAtConst (skipNull : Bool) : E → Option (E × E)
  | .cons h t =>
    if endsCoalesce skipNull h then some (.nil, h)
    else match splitAtConst skipNull t with
      | some (pre, c) => some (.cons h pre, c)
      | none => none
  | _ => none

def mkCmpLike (k : Option Cmp) (a b : E) : E :=
  match k with
  | some op => .cmp op a b
  | none => .is a b

/-- b0a036f: a NOT subject of the `IS NULL` guards is parenthesised (`NOT x IS NULL` would parse back as NOT (x IS NULL)) -/
def wrapNotSubject : E → E
  | .not a => .paren (.not a)
  | e => e

def coalesceRewrite (skipNull : Bool) (k : Option Cmp) (coalesceLeft : Bool) (first rest other : E) : Option E :=
  if !isConstant other then none else
  match splitAtConst skipNull rest with
  | none => none
  | some (pre, c) =>
    let truncated := E.coalesce (.cons first pre)
    let this := wrapNotSubject (if pre = .nil then first else truncated)
    let exprCopy := if coalesceLeft then mkCmpLike k truncated other else mkCmpLike k other truncated
    let constCmp := if coalesceLeft then mkCmpLike k c other else mkCmpLike k other c
    some (.paren (mkOr (mkAnd (.not (.is this .null)) exprCopy) (mkAnd (.is this .null) constCmp)))

/-- the variant in which the guard subject is always the FIRST argument (`this = coalesce.this`) instead of the truncated
    `COALESCE(a1 … ak)`: kept only for the witness that the whole prefix is needed -/
def coalesceRewriteFirstArgGuard (k : Option Cmp) (first rest other : E) : Option E :=
  match splitAtConst true rest with
  | none => none
  | some (pre, c) =>
    let truncated := E.coalesce (.cons first pre)
    some (.paren (mkOr (mkAnd (.not (.is first .null)) (mkCmpLike k truncated other)) (mkAnd (.is first .null) (mkCmpLike k c other))))

def simplifyCoalesce (fl : Flags) (p : PK) (e : E) : E :=
  match e with
  | .coalesce (.cons first rest) =>
    if rest = .nil || isNonnullConstant first then wrapForParent first p else e
  | _ =>
    if fl.coalesceNonStd then e else
    match cmpParts e with
    | some (k, l, r) =>
      match l with
      | .coalesce (.cons first rest) => (coalesceRewrite true k true first rest r).getD e
      | _ =>
        match r with
        | .coalesce (.cons first rest) => (coalesceRewrite true k false first rest l).getD e
        | _ => e
    | none => e

/-! ## simplify_parens -/
def pkIsPredicate : PK → Bool
  | .cmp | .is | .between | .inList => true
  | _ => false

def pkIsBinaryNonConn : PK → Bool
  | .cmp | .is | .add | .sub | .mul => true
  | _ => false

def eIsPredicate : E → Bool
  | .cmp _ _ _ | .is _ _ | .between _ _ _ | .inList _ _ => true
  | _ => false

def eIsBinary : E → Bool
  | .cmp _ _ _ | .is _ _ | .add _ _ | .sub _ _ | .mul _ _ | .and _ _ | .or _ _ => true
  | _ => false

def simplifyParens (p : PK) (e : E) : E :=
  match e with
  | .paren this =>
    if eIsPredicate this && !(pkIsPredicate p || p = .neg || pkIsBinaryNonConn p) then this
    else if p = .none || p = .other || p = .paren then this
    else if !eIsBinary this && !((match this with | .not _ => true | .is _ _ => true | _ => false) && pkIsPredicate p)
        -- NOT and the non-binary predicates bind looser than arithmetic and unary minus (kept since the text-level fix)
        && !((eIsPredicate this || (match this with | .not _ => true | _ => false)) && (p = .neg || p = .add || p = .sub || p = .mul))
      then this
    else match this, p with
      | .add _ _, .add => this
      | .mul _ _, .mul => this
      | .mul _ _, .add => this
      | .mul _ _, .sub => this
      | _, _ => e
  | _ => e

/-! ## flatten (one level, as in simplify.flatten) -/
def flattenChild (isAnd : Bool) (node : E) : E :=
  match unnest node, isAnd with
  | .and a b, true => .and a b
  | .or a b, false => .or a b
  | _, _ => node

def flatten1 : E → E
  | .and a b => .and (flattenChild true a) (flattenChild true b)
  | .or a b => .or (flattenChild false a) (flattenChild false b)
  | e => e


/-! ## _flat_simplify (the queue algorithm), parametric in the pair function -/

inductive FK
  | and | or | add | mul
  deriving DecidableEq, Repr

def FK.mk : FK → E → E → E
  | .and, a, b => .and a b
  | .or, a, b => .or a b
  | .add, a, b => .add a b
  | .mul, a, b => .mul a b

/-- `expression.flatten(unnest=False)`: the operands of the same-class chain, pre-order, parentheses kept -/
def flattenOps : FK → E → List E
  | .and, .and a b => flattenOps .and a ++ flattenOps .and b
  | .or, .or a b => flattenOps .or a ++ flattenOps .or b
  | .add, .add a b => flattenOps .add a ++ flattenOps .add b
  | .mul, .mul a b => flattenOps .mul a ++ flattenOps .mul b
  | _, e => [e]

/-- the inner `for b in queue` loop: first `b` that combines with `a`; returns the result and the queue without `b` -/
def tryPair (pair : E → E → Option E) (a : E) : List E → Option (E × List E)
  | [] => none
  | b :: rest =>
    match pair a b with
    | some r => some (r, rest)
    | none =>
      match tryPair pair a rest with
      | some (r, rest') => some (r, b :: rest')
      | none => none

/-- the `while queue` loop: `ops` is the reversed `operands` list -/
def flatLoop (pair : E → E → Option E) : Nat → List E → List E → List E
  | 0, q, ops => ops.reverse ++ q
  | _ + 1, [], ops => ops.reverse
  | fuel + 1, a :: q, ops =>
    match tryPair pair a q with
    | some (r, q') => flatLoop pair fuel (r :: q') ops
    | none => flatLoop pair fuel q (a :: ops)

/-- `CONNECTOR_COMBINABLE` -/
def isCombinable : E → Bool
  | .bool _ | .int _ | .null | .cmp _ _ _ | .is _ _ => true
  | _ => false

def FK.isConnector : FK → Bool
  | .and | .or => true
  | _ => false

/-- `_flat_simplify(expression, simplifier, root)`; `gate` = `root or not expression.same_parent` -/
def flatSimplify (k : FK) (pair : E → E → Option E) (gate : Bool) (e : E) : E :=
  if !gate then e else
  let xs := flattenOps k e
  if k.isConnector && !xs.any isCombinable then e else
  let ops := flatLoop pair xs.length xs []
  if ops.length < xs.length then
    match ops with
    | x :: rest => rest.foldl k.mk x
    | [] => e
  else e

/-- the pair function `_simplify_connectors` as `_flat_simplify` uses it (`None` and "returned the connector itself" both mean no change) -/
def connPairOpt (isAnd : Bool) (a b : E) : Option E :=
  match connPair isAnd a b with
  | .res r => some r
  | _ => none

/-- the part of the pair table whose results are exact in 3-valued logic: the constant table and every
    `_simplify_comparison` result on `c op l`, `c op' r` except the `→ FALSE` ones -/
def exactPair (isAnd : Bool) (a b : E) : Option E :=
  match connConst isAnd a b with
  | some x => some x
  | none =>
    match a, b with
    | .cmp opl c l, .cmp opr c' r =>
      if c = c' then
        match numVal? l, numVal? r with
        | some lv, some rv =>
          match cmpDecide true (!isAnd) a b (some opl) lv (some opr) rv with
          | .res x => if x = .bool false then none else some x
          | _ => none
        | _, _ => none
      else none
    | _, _ => none



/-! ## remove_complements and uniq_sort as mirrored functions -/

/-- `expression.flatten()` (unnest=True): operands of the same-class chain, each with its parentheses stripped -/
def flattenU : FK → E → List E
  | .and, .and a b => flattenU .and a ++ flattenU .and b
  | .or, .or a b => flattenU .or a ++ flattenU .or b
  | _, e => [unnest e]

def connKind : E → Option FK
  | .and _ _ => some .and
  | .or _ _ => some .or
  | _ => none

/-- `remove_complements(expression, root)`; `gate` = `root or not same_parent`, `nonnull` = the connector's `nonnull` meta -/
def removeComplements (gate nonnull : Bool) (e : E) : E :=
  match connKind e with
  | none => e
  | some k =>
    if !gate then e else
    let ops := flattenU k e
    if nonnull && ops.any (fun op => match op with | .not x => ops.contains x | _ => false) then
      .bool (k != .and)
    else e

/-- `result_func(*xs, copy=False)` (`exp.and_` / `exp.or_`): a left-nested chain, connector operands parenthesised -/
def mkChain (k : FK) : List E → E
  | [] => .bool (k == .and)
  | [x] => x
  | x :: rest => rest.foldl (fun acc y => k.mk acc (wrapConn y)) (wrapConn x)

def sameSet (xs ys : List E) : Bool := xs.all (fun x => ys.contains x) && ys.all (fun y => xs.contains y)

/-- `uniq_sort(expression, root)` with the operand order of the result as an explicit parameter (the real order comes from
    sorting `gen()` texts, which is not modelled): `order` must be a duplicate-free rearrangement of the operands -/
def uniqSortWith (order : List E) (gate : Bool) (e : E) : E :=
  match connKind e with
  | none => e
  | some k =>
    if !gate then e else
    let ops := flattenU k e
    if order == ops then e
    else if !sameSet order ops then e
    else match order with
      | [x] => mkAnd x (.bool true)
      | _ => mkChain k order

/-! ## sort_comparison — checked, not mirrored (its choice depends on `gen()` text order) -/
def checkSortComparison (inverseCmp : Cmp → Cmp) (before after : E) : Bool :=
  before == after ||
  match before with
  | .cmp op l r => after == .cmp (inverseCmp op) r l
  | _ => false

/-! ## normalize.normalized -/
def hasConn (isAnd : Bool) : E → Bool
  | .and a b => isAnd || hasConn isAnd a || hasConn isAnd b
  | .or a b => !isAnd || hasConn isAnd a || hasConn isAnd b
  | .not a | .paren a | .neg a | .coalesce a => hasConn isAnd a
  | .cmp _ a b | .is a b | .inList a b | .case a b | .add a b | .sub a b | .mul a b | .cons a b =>
    hasConn isAnd a || hasConn isAnd b
  | .between a b c | .iff a b c => hasConn isAnd a || hasConn isAnd b || hasConn isAnd c
  | _ => false

/-- `normalized(e, dnf)`: no `root` connector (OR for DNF, AND for CNF) below an `ancestor` connector -/
def normalizedM (dnf : Bool) : E → Bool
  | .and a b => (if dnf then !(hasConn false a || hasConn false b) else true) && normalizedM dnf a && normalizedM dnf b
  | .or a b => (if dnf then true else !(hasConn true a || hasConn true b)) && normalizedM dnf a && normalizedM dnf b
  | .not a | .paren a | .neg a | .coalesce a => normalizedM dnf a
  | .cmp _ a b | .is a b | .inList a b | .case a b | .add a b | .sub a b | .mul a b | .cons a b =>
    normalizedM dnf a && normalizedM dnf b
  | .between a b c | .iff a b c => normalizedM dnf a && normalizedM dnf b && normalizedM dnf c
  | _ => true


/-! ## propagate_constants (as repaired: only `column = literal` conjuncts of the AND are harvested) -/

def isColumn : E → Bool
  | .bcol _ _ | .icol _ _ => true
  | _ => false

/-- the `column = literal` conjuncts on the AND / Paren spine (what `_is_conjunct_of` admits) -/
def conjBindings : E → List (E × Int)
  | .and a b => conjBindings a ++ conjBindings b
  | .paren a => conjBindings a
  | .cmp .eq c (.int n) => if isColumn c then [(c, n)] else []
  | _ => []

def lookupB (m : List (E × Int)) (c : E) : Option Int :=
  match m with
  | [] => none
  | (c', n) :: rest => if c' = c then some n else lookupB rest c

/-- replace every bound column by its constant, except under `col IS NULL` -/
def substAll (m : List (E × Int)) : E → E
  | .bcol k nn => match lookupB m (.bcol k nn) with | some n => .int n | none => .bcol k nn
  | .icol k nn => match lookupB m (.icol k nn) with | some n => .int n | none => .icol k nn
  | .is a b => if b = .null && isColumn a then .is a b else .is (substAll m a) b
  | .and a b => .and (substAll m a) (substAll m b)
  | .or a b => .or (substAll m a) (substAll m b)
  | .not a => .not (substAll m a)
  | .paren a => .paren (substAll m a)
  | .neg a => .neg (substAll m a)
  | .cmp op a b => .cmp op (substAll m a) (substAll m b)
  | .add a b => .add (substAll m a) (substAll m b)
  | .sub a b => .sub (substAll m a) (substAll m b)
  | .mul a b => .mul (substAll m a) (substAll m b)
  | .between a lo hi => .between (substAll m a) (substAll m lo) (substAll m hi)
  | .inList a xs => .inList (substAll m a) (substAll m xs)
  | .coalesce xs => .coalesce (substAll m xs)
  | .case ifs d => .case (substAll m ifs) (substAll m d)
  | .iff c t f => .iff (substAll m c) (substAll m t) (substAll m f)
  | .cons h t => .cons (substAll m h) (substAll m t)
  | e => e

/-- the substitution along the spine: the defining `column = literal` conjuncts stay as they are -/
def substSpine (m : List (E × Int)) : E → E
  | .and a b => .and (substSpine m a) (substSpine m b)
  | .paren a => .paren (substSpine m a)
  | .cmp .eq c (.int n) => if isColumn c then .cmp .eq c (.int n) else substAll m (.cmp .eq c (.int n))
  | e => substAll m e

def hasDupCols : List (E × Int) → Bool
  | [] => false
  | (c, _) :: rest => rest.any (fun p => p.1 == c) || hasDupCols rest

/-- `propagate_constants(expression, root)`; `gate` = `root or not same_parent`.  `none`: a column is bound by two
    conjuncts (which one wins depends on the BFS visiting order of `walk_in_scope`, not modelled) -/
def propagateConstants (gate : Bool) (e : E) : Option E :=
  match e with
  | .and _ _ =>
    if gate && normalizedM true e then
      let m := conjBindings e
      if hasDupCols m then none else some (substSpine m e)
    else some e
  | _ => some e

/-! ## normalize.py: normalization_distance, distributive_law, _distribute -/

/-- `len(tuple(e.find_all(exp.Connector)))` -/
def countConn : E → Nat
  | .and a b => countConn a + countConn b + 1
  | .or a b => countConn a + countConn b + 1
  | .not a | .paren a | .neg a | .coalesce a => countConn a
  | .cmp _ a b | .is a b | .inList a b | .case a b | .add a b | .sub a b | .mul a b | .cons a b => countConn a + countConn b
  | .between a b c | .iff a b c => countConn a + countConn b + countConn c
  | _ => 0

/-- `_predicate_lengths` (without the depth cut-off, which needs nesting deeper than `max_distance`) -/
def predLengths (dnf : Bool) : E → List Nat
  | .paren a => predLengths dnf a
  | .and a b =>
    if dnf then (predLengths dnf a).flatMap (fun x => (predLengths dnf b).map (fun y => x + y))
    else predLengths dnf a ++ predLengths dnf b
  | .or a b =>
    if dnf then predLengths dnf a ++ predLengths dnf b
    else (predLengths dnf a).flatMap (fun x => (predLengths dnf b).map (fun y => x + y))
  | _ => [1]

/-- `normalization_distance(e, dnf)` with `max_ = inf` -/
def normalizationDistance (dnf : Bool) (e : E) : Int :=
  ((predLengths dnf e).foldl (· + ·) 0 : Nat) - ((countConn e + 1 : Nat) : Int)

/-- split a connector of the given polarity -/
def splitConn (isAnd : Bool) : E → Option (E × E)
  | .and a b => if isAnd then some (a, b) else none
  | .or a b => if isAnd then none else some (a, b)
  | _ => none

def mkConn (isAnd : Bool) (a b : E) : E := if isAnd then mkAnd a b else mkOr a b
def rawConn (isAnd : Bool) (a b : E) : E := if isAnd then .and a b else .or a b

/-- `_distribute(a, b, from_func, to_func, simplifier)`; `toAnd` = the target polarity (CNF: AND), `us` = uniq_sort
    (order-dependent, a parameter here), `b` is a connector of the target polarity -/
def distribute (us : E → E) (toAnd : Bool) (a b : E) : E :=
  match splitConn toAnd b with
  | none => rawConn (!toAnd) a b
  | some (bl, br) =>
    let f := fun c => mkConn toAnd (us (flatten1 (mkConn (!toAnd) c bl))) (us (flatten1 (mkConn (!toAnd) c br)))
    match splitConn toAnd a with
    | some (al, ar) => rawConn toAnd (f al) (f ar)
    | none => f a

/-- the top-level step of `distributive_law` on a node whose children are already processed -/
def distTop (us : E → E) (dnf : Bool) (e : E) : E :=
  match splitConn dnf e with
  | none => e
  | some (a0, b0) =>
    let a := unnest a0
    let b := unnest b0
    let isTo := fun x => (splitConn (!dnf) x).isSome
    if isTo a && isTo b then
      (if countConn a > countConn b then distribute us (!dnf) a b else distribute us (!dnf) b a)
    else if isTo a then distribute us (!dnf) b a
    else if isTo b then distribute us (!dnf) a b
    else e

mutual
/-- `distributive_law(e, dnf, max_distance)` on the path where the distance check does not raise -/
def distLaw (us : E → E) (dnf : Bool) : E → E
  | .and a b => if normalizedM dnf (.and a b) then .and a b else distTop us dnf (.and (distLaw us dnf a) (distLaw us dnf b))
  | .or a b => if normalizedM dnf (.or a b) then .or a b else distTop us dnf (.or (distLaw us dnf a) (distLaw us dnf b))
  | .not a => .not (distLaw us dnf a)
  | .paren a => .paren (distLaw us dnf a)
  | .neg a => .neg (distLaw us dnf a)
  | .cmp op a b => .cmp op (distLaw us dnf a) (distLaw us dnf b)
  | .is a b => .is (distLaw us dnf a) b
  | .add a b => .add (distLaw us dnf a) (distLaw us dnf b)
  | .sub a b => .sub (distLaw us dnf a) (distLaw us dnf b)
  | .mul a b => .mul (distLaw us dnf a) (distLaw us dnf b)
  | .between a lo hi => .between (distLaw us dnf a) (distLaw us dnf lo) (distLaw us dnf hi)
  | .inList a xs => .inList (distLaw us dnf a) (distLawL us dnf xs)
  | .coalesce xs => .coalesce (distLawL us dnf xs)
  | .case ifs d => .case (distLawIfs us dnf ifs) (distLaw us dnf d)
  | .iff c t f => .iff (distLaw us dnf c) (distLaw us dnf t) (distLaw us dnf f)
  | e => e
def distLawL (us : E → E) (dnf : Bool) : E → E
  | .cons h t => .cons (distLaw us dnf h) (distLawL us dnf t)
  | e => e
def distLawIfs (us : E → E) (dnf : Bool) : E → E
  | .cons h rest =>
    match h with
    | .iff c t f => .cons (.iff (distLaw us dnf c) (distLaw us dnf t) (distLaw us dnf f)) (distLawIfs us dnf rest)
    | _ => .cons h (distLawIfs us dnf rest)
  | e => e
end

/-- every BETWEEN rewritten (what `node.transform(rewrite_between)` does inside normalize) -/
def rbAll : E → E
  | .between a lo hi => .and (.cmp .gte (rbAll a) (rbAll lo)) (.cmp .lte (rbAll a) (rbAll hi))
  | .and a b => .and (rbAll a) (rbAll b)
  | .or a b => .or (rbAll a) (rbAll b)
  | .not (.between a lo hi) => .not (.paren (.and (.cmp .gte (rbAll a) (rbAll lo)) (.cmp .lte (rbAll a) (rbAll hi))))
  | .not a => .not (rbAll a)
  | .paren a => .paren (rbAll a)
  | e => e

/-! ## the verified 3-valued truth-table checker (for uniq_sort, absorb_and_eliminate, remove_complements,
     flatten, De Morgan, distributive_law and whole `normalize` runs)

  Maximal non-connector subterms are atoms; `x BETWEEN l AND h` is read as its two comparisons (so a step
  may contain `rewrite_between`).  An atom built only from NOT NULL columns and literals by comparisons can
  never be NULL and is enumerated over {TRUE, FALSE} only. -/

def absE (σ : E → B3) : E → B3
  | .and a b => and3 (absE σ a) (absE σ b)
  | .or a b => or3 (absE σ a) (absE σ b)
  | .not a => not3 (absE σ a)
  | .paren a => absE σ a
  | .bool v => some v
  | .null => none
  | .int n => some (n != 0)
  | .between a lo hi => and3 (σ (.cmp .gte a lo)) (σ (.cmp .lte a hi))
  | e => σ e

def atomsOf : E → List E
  | .and a b => atomsOf a ++ atomsOf b
  | .or a b => atomsOf a ++ atomsOf b
  | .not a => atomsOf a
  | .paren a => atomsOf a
  | .bool _ => []
  | .null => []
  | .int _ => []
  | .between a lo hi => [.cmp .gte a lo, .cmp .lte a hi]
  | e => [e]

/-- syntactic "can never evaluate to NULL" -/
def nonNullE : E → Bool
  | .bool _ => true
  | .int _ => true
  | .bcol _ nn => nn
  | .icol _ nn => nn
  | .cmp _ a b => nonNullE a && nonNullE b
  | .add a b | .sub a b | .mul a b => nonNullE a && nonNullE b
  | .neg a => nonNullE a
  | .paren a => nonNullE a
  | .not a => nonNullE a
  | .and a b | .or a b => nonNullE a && nonNullE b
  | .is _ .null => true
  | .is _ (.bool _) => true
  | _ => false

def upd (σ : E → B3) (x : E) (v : B3) : E → B3 := fun y => if y = x then v else σ y

def checkAll : List E → (E → B3) → E → E → Bool
  | [], σ, a, b => absE σ a == absE σ b
  | x :: xs, σ, a, b =>
    checkAll xs (upd σ x (some true)) a b && checkAll xs (upd σ x (some false)) a b &&
      (nonNullE x || checkAll xs (upd σ x none) a b)

def ttCheck (a b : E) : Bool := checkAll ((atomsOf a ++ atomsOf b).eraseDups) (fun _ => none) a b

/-- syntactic "evaluates to NULL / TRUE / FALSE only" (so truth-equivalence is value equality) -/
def boolish : E → Bool
  | .null | .bool _ | .bcol _ _ => true
  | .and _ _ | .or _ _ | .not _ | .cmp _ _ _ | .between _ _ _ | .inList _ _ => true
  | .is _ .null | .is _ (.bool _) => true
  | .paren a => boolish a
  | _ => false

inductive Rule
  | uniqSort | absorbAndEliminate | removeComplements | flatten | distributiveLaw | normalize | sortComparison
  deriving DecidableEq, Repr

/-- the step checker: accept ⇒ (by `checkStep_sound`) before and after have the same 3-valued truth value
    under every assignment, and the same value when both are `boolish` -/
def checkStep (inverseCmp : Cmp → Cmp) (r : Rule) (before after : E) : Bool :=
  match r with
  | .sortComparison => checkSortComparison inverseCmp before after
  | _ => before == after || ttCheck before after


/-! ## text level: when may a pair of parentheses be dropped without changing how the printed SQL parses back?

  `reparseSafe p pos c` abstracts the precedence ladder of the base-dialect parser (OR < AND < prefix NOT < =,<> <
  <,<=,>,>= < IS / IN / BETWEEN < + - < * < unary minus < atoms): a child of kind `c` printed without parentheses in
  operand slot `pos` (0 = this / left / subject, 1 = right / low bound / list member, 2 = high bound) of a parent of kind
  `p` parses back with the same meaning.  Conservative (never `true` for an unsafe slot); validated on every run against
  the real parser by the harness.  The guard list of `simplify_parens` is regenerated from the source (Generated/C06.lean:
  `parensGuard`) and must only drop parentheses where this table says it is safe. -/
inductive PKind
  | none | func | paren | or | and | not | eq | rel | is | between | inList | add | sub | mul | neg | atom
  deriving DecidableEq, Repr

def parentKinds : List PKind := [.none, .func, .paren, .or, .and, .not, .eq, .rel, .is, .inList, .add, .sub, .mul, .neg]
def childKinds : List PKind := [.paren, .or, .and, .not, .eq, .rel, .is, .between, .inList, .add, .sub, .mul, .neg, .atom, .func]

/-- level of the parser's ladder at which a node of this kind is produced -/
def prodLevel : PKind → Nat
  | .or => 1
  | .and => 2
  | .not => 3
  | .eq => 4
  | .rel => 5
  | .is | .between | .inList => 6
  | .add | .sub => 8
  | .mul => 9
  | .neg => 10
  | _ => 11

def reparseSafe (p : PKind) (pos : Nat) (c : PKind) : Bool :=
  match c with
  | .not =>  -- a prefix NOT takes everything up to the next AND / OR as its operand
    (match p with
     | .none | .func | .paren | .or | .and | .not => true
     | .inList => pos != 0
     | _ => false)
  | _ =>
    match p with
    | .none | .func | .paren | .atom | .or => true
    | .and => prodLevel c ≥ 2
    | .not => prodLevel c ≥ 4
    | .eq => if pos = 0 then prodLevel c ≥ 4 else prodLevel c ≥ 5
    | .rel => if pos = 0 then prodLevel c ≥ 5 else prodLevel c ≥ 6
    | .is => prodLevel c ≥ 6
    | .between => if pos = 0 then prodLevel c ≥ 6 else prodLevel c ≥ 7
    | .inList => if pos = 0 then prodLevel c ≥ 6 else true
    | .add => if pos = 0 then prodLevel c ≥ 8 else (prodLevel c ≥ 9 || c = .add || c = .sub)
    | .sub => if pos = 0 then prodLevel c ≥ 8 else prodLevel c ≥ 9
    | .mul => if pos = 0 then prodLevel c ≥ 9 else (prodLevel c ≥ 10 || c = .mul)
    | .neg => prodLevel c ≥ 10

/-- the slots of the repaired text-level defect (before the fix `simplify_parens` dropped the parentheses of a NOT / IN /
    BETWEEN operand of + - * or unary minus: `(NOT a) + 1 → NOT a + 1`, `-(a IN (1)) → -a IN (1)`) -/
def knownUnsafeParens (p c : PKind) : Bool :=
  (p = .add || p = .sub || p = .mul || p = .neg) && (c = .not || c = .inList || c = .between)

/-- snapshot of the guard list of `simplify_parens` as it was BEFORE that fix (kept only for the witness theorem; the live
    guard is regenerated into Generated/C06.lean) -/
def oldParensGuard (t p : PKind) : Bool :=
  let pred := fun k => k = PKind.eq || k = .rel || k = .is || k = .between || k = .inList
  let bin := fun k => k = PKind.eq || k = .rel || k = .is || k = .add || k = .sub || k = .mul || k = .or || k = .and
  let conn := fun k => k = PKind.or || k = .and
  if pred t && !(pred p || p = .neg || (bin p && !conn p)) then true
  else if p = .none || p = .paren
      || (!bin t && !((t = .not || t = .is) && pred p))
      || (t = .add && p = .add) || (t = .mul && p = .mul) || (t = .mul && (p = .add || p = .sub)) then true
  else false


/-! ## copy discipline of normalize._distribute (object identity, which `eval` cannot see)

  `_distribute` builds clauses with `from_func(x, y)`; every operand is either deep-copied (`copy=True`, the default of
  `exp.and_` / `exp.or_`) or MOVED into the new clause.  An operand object moved into two places is shared: the next
  `while_changing` iteration rewrites it in place and changes both clauses.  The uses are regenerated from the source
  (Generated/C06.lean: `distributeUses`); the same-polarity branch runs its lambda once per child of `a` (two children). -/
inductive DOp
  | a | c | bLeft | bRight | other
  deriving DecidableEq, Repr

structure DistUse where
  perChild : Bool   -- inside the `replace_children(a, lambda c: …)` of the same-polarity branch
  operand : DOp
  copied : Bool
  deriving DecidableEq, Repr

/-- the operand objects MOVED into the output by one call (tagged with the child index for the loop variable `c`) -/
def movedObjects (uses : List DistUse) : List (DOp × Nat) :=
  (uses.filter (fun u => !u.perChild && !u.copied)).map (fun u => (u.operand, 0)) ++
  [1, 2].flatMap (fun i => (uses.filter (fun u => u.perChild && !u.copied)).map
    (fun u => (u.operand, if u.operand = .c then i else 0)))

def hasDup : List (DOp × Nat) → Bool
  | [] => false
  | x :: xs => xs.contains x || hasDup xs

/-- no operand object ends up in two places of the output -/
def noSharing (uses : List DistUse) : Bool := !hasDup (movedObjects uses)

/-- snapshot of the seeded variant (second clause built with `copy=False` in both branches) -/
def distributeUsesCopyFalse : List DistUse :=
  [⟨true, .c, true⟩, ⟨true, .bLeft, true⟩, ⟨true, .c, false⟩, ⟨true, .bRight, false⟩,
   ⟨false, .a, true⟩, ⟨false, .bLeft, true⟩, ⟨false, .a, false⟩, ⟨false, .bRight, false⟩]

/-- what is checked on every observed `normalize(e, dnf) = e'`: equivalence (truth table) AND the result is in the
    requested normal form (mirrored `normalized`) or is the input (possibly with BETWEEN rewritten) -/
def checkNormalize (inverseCmp : Cmp → Cmp) (dnf : Bool) (e e' : E) : Bool :=
  checkStep inverseCmp .normalize e e' && (normalizedM dnf e' || e' == e || e' == rbAll e)

end SqlglotModel.Simplify
