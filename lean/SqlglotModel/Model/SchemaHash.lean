/-
  C18 — `_find_cache` and `_normalized_table_cache` are Python dicts keyed by `exp.Table` EXPRESSIONS.
  `Expr.__eq__` is `type(self) is type(other) and hash(self) == hash(other)` and `hash` is CACHED in the node
  (`_hash`), so what a dict really compares is the content the cached hash was computed from — not the current
  content.  The rest of the C18 model keys these caches by content; this module states the assumption that makes
  that right — *every key's cached hash is the hash of its current content* (`HKey.Fresh`) — proves that under it
  expression-keyed dicts are content-keyed dicts, and shows what happens without it.

  Who guarantees `Fresh`: C08 (`Properties.C08.cached_hash_is_recomputed`): a cached hash equals the recomputed
  one as long as nodes are mutated through `set / append / replace / pop`; a direct `node.args[k] = v` write is
  outside that API.  The translator therefore records whether `_normalize_table` renames the parts of its private
  copy through the API (`part.replace(...)`) or by a direct `args` write (Generated.C18.tableRenameKeepsHash).
-/
import SqlglotModel.Model.Schema

namespace SqlglotModel.Schema
open SqlglotModel.Ident

/-- an expression used as a dict key: its current content, and the content its cached `_hash` was computed from
    (`none`: not hashed yet — the hash will be computed from the content on first use) -/
structure HKey where
  content : List Ident
  hashed : Option (List Ident)
deriving DecidableEq, Repr

/-- what `hash(key)` returns (and caches) -/
def HKey.hashOf (k : HKey) : List Ident :=
  match k.hashed with
  | some h => h
  | none => k.content

def HKey.Fresh (k : HKey) : Prop := k.hashOf = k.content

/-- `dict.get(key)` on a dict keyed by expressions: keys are compared by their (cached) hashes -/
def hLookup {β} (m : List (HKey × β)) (k : HKey) : Option β :=
  match m with
  | [] => none
  | (k', v) :: rest => if k'.hashOf = k.hashOf then some v else hLookup rest k

/-- `dict[key] = value` -/
def hSet {β} (m : List (HKey × β)) (k : HKey) (v : β) : List (HKey × β) :=
  match m with
  | [] => [(k, v)]
  | (k', v') :: rest => if k'.hashOf = k.hashOf then (k', v) :: rest else (k', v') :: hSet rest k v

/-- the content-keyed view of such a dict (what Model/SchemaFull.lean works with) -/
def contentView {β} (m : List (HKey × β)) : List (List Ident × β) := m.map (fun kv => (kv.1.content, kv.2))

/-- `maybe_parse(table, copy=True)` then renaming every part: `viaApi = true` is `part.replace(new)` / `set`
    (the hash is invalidated and later recomputed), `false` is `part.args["this"] = new` on a deep copy that
    carried the cached `_hash` of an already hashed input over -/
def renameParts (viaApi : Bool) (f : Ident → Ident) (t : HKey) : HKey :=
  ⟨t.content.map f, if viaApi then none else t.hashed⟩

/-- a one-table schema reduced to what matters here: `find` through an expression-keyed cache after
    `_normalize_table`; `look` is the uncached lookup by content -/
def findVia (viaApi : Bool) (look : List Ident → Option Cols) (cache : List (HKey × Cols)) (f : Ident → Ident)
    (norm : Bool) (t : HKey) : List (HKey × Cols) × Option Cols :=
  -- the caller's Table is hashed by the `_normalized_table_cache.get((table, …))` probe
  let t' : HKey := ⟨t.content, some t.hashOf⟩
  let nt := if norm then renameParts viaApi f t' else t'
  match hLookup cache nt with
  | some c => (cache, some c)
  | none =>
    match look nt.content with
    | some c => (hSet cache nt c, some c)
    | none => (cache, none)

end SqlglotModel.Schema
