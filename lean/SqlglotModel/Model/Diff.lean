/-
  Model of sqlglot/diff.py `ChangeDistiller` over abstract node ids (C20).  Executable, core Lean only, no proofs.

  Layer A (`Env`, `leafPass`, `innerPass`, `matchAll`, `script`): the matching engine and the edit-script skeleton
  over plain id lists with every similarity notion a PARAMETER (arbitrary oracle):
    * `sameType`  — `_is_same_type`
    * `dice`      — `_dice_coefficient` (order-embedded into Nat, see the note on scores)
    * `psim`      — `_parent_similarity_score`
    * `innerSim`  — the leaf-similarity / dice threshold test of `_compute_matching_set`, given the leaf matching
    * `moves`, `isUpdate` — what `_generate_edit_script` emits for one matched pair besides Keep
  Python `set`s are duplicate-free lists (`srcIndex`, `tgtIndex` = BFS order of the non-ignored nodes); iteration
  order over a hash set is not modelled (results are compared as sorted multisets).

  Layer B (`Tree`, `Params`, `envOf`, `diffTrees`): the oracles that are algorithms in diff.py, computed from two
  trees given as id-indexed functions: BFS, `_get_expression_leaves`, `_parent_similarity_score` (parent chains),
  the inner-node threshold test (exact rationals), `_lcs` (row DP over suffixes of the reversed sequences, with the code's tie-break), move detection,
  Keep-vs-Update.  Deep equality `==`, the dict of non-expression leaves, `_is_same_type`'s class and the class
  identity are shipped as equivalence-class numbers; the dice coefficient as the exact value the real code computed.

  Layer C (`Wrapper`): `diff()` itself — shared-node detection, which trees are copied, where hashes are cached and
  what `finally` evicts — on an arena of objects with `.parent` pointers and hash-cache bits; its shape (`Policy`) is
  extracted from the source on every run.

  NOT modelled: SQL generation / bigram histograms behind the dice value (axiomatised by `DiceOk`, validated on every
  shipped pair), `Expr.__eq__`/`__hash__` (axiomatised by `EqcCongr`, validated likewise), the translation of
  `matchings=` onto the copies (`compute_node_mappings`; covered by the search oracle on the real code).
-/
namespace SqlglotModel.Diff

abbrev Id := Nat

/-- A similarity score.  diff.py only ever COMPARES dice coefficients (with each other in the heap key, with `self.f`),
    so any order-embedding of the floats will do: the harness ships the rank of each float among all the values of the
    run (including `f`); equal floats get equal ranks. -/
-- (scores are plain `Nat`s)

inductive Edit where
  | remove (s : Id)
  | insert (t : Id)
  | keep (s t : Id)
  | update (s t : Id)
  | move (s t : Id)
  | keyError (s : Id)   -- `matchings[a]` / `_source_index[..]` on a missing key
  deriving Repr, DecidableEq, Inhabited

def Edit.isKeep : Edit → Bool
  | .keep _ _ => true
  | _ => false

/-- `Remove(n)` -/
def Edit.removes (n : Id) : Edit → Bool
  | .remove s => s == n
  | _ => false
/-- `Insert(n)` -/
def Edit.inserts (n : Id) : Edit → Bool
  | .insert t => t == n
  | _ => false
/-- `Keep(n, _)` or `Update(n, _)` -/
def Edit.pairsSrc (n : Id) : Edit → Bool
  | .keep s _ => s == n
  | .update s _ => s == n
  | _ => false
/-- `Keep(_, n)` or `Update(_, n)` -/
def Edit.pairsTgt (n : Id) : Edit → Bool
  | .keep _ t => t == n
  | .update _ t => t == n
  | _ => false

/-! ### Layer A: the matching engine over arbitrary oracles -/

structure Env where
  srcLeaves : List Id
  tgtLeaves : List Id
  srcIndex : List Id
  tgtIndex : List Id
  sameType : Id → Id → Bool
  dice : Id → Id → Nat
  psim : Id → Id → Nat
  f : Nat
  innerSim : List (Id × Id) → Id → Id → Bool
  moves : List (Id × Id) → List Id → Id → Id → List (Id × Option Id)
  isUpdate : Id → Id → Bool
  /-- do caller-matched pairs count in the leaf similarity of the inner pass? (proposed fix; today: no) -/
  countPre : Bool

/-- one heap entry `(-similarity, -parent_similarity, len(heap), source_leaf, target_leaf)` -/
structure Cand where
  score : Nat
  psim : Nat
  idx : Nat
  s : Id
  t : Id
  deriving Repr, Inhabited

/-- heap order: the tuple order of `(-score, -psim, idx)`; `idx` is unique so the nodes are never compared -/
def Cand.before (a b : Cand) : Bool :=
  decide (b.score < a.score) ||
    (a.score == b.score && (decide (b.psim < a.psim) || (a.psim == b.psim && decide (a.idx ≤ b.idx))))

/-- the `(source_leaf, target_leaf)` pairs pushed on the heap, in push order -/
def rawCands (E : Env) : List (Id × Id) :=
  E.srcLeaves.flatMap fun s =>
    (E.tgtLeaves.filter fun t => E.sameType s t && decide (E.f ≤ E.dice s t)).map fun t => (s, t)

/-- number the pushes: `len(candidate_matchings)` at push time -/
def enumFrom (E : Env) : Nat → List (Id × Id) → List Cand
  | _, [] => []
  | n, (s, t) :: rest => ⟨E.dice s t, E.psim s t, n, s, t⟩ :: enumFrom E (n + 1) rest

def cands (E : Env) : List Cand := enumFrom E 0 (rawCands E)

def insertCand (c : Cand) : List Cand → List Cand
  | [] => [c]
  | d :: ds => if c.before d then c :: d :: ds else d :: insertCand c ds

/-- insertion sort by the heap key (keys are pairwise distinct, so every correct sort gives the same list) -/
def sortCands (l : List Cand) : List Cand := l.foldr insertCand []

/-- `heappop` until empty = the candidates sorted by the heap key -/
def popOrder (E : Env) : List Cand := sortCands (cands E)

/-- matching state: the two `_unmatched_*` sets and the pairs matched so far -/
structure MState where
  us : List Id
  ut : List Id
  acc : List (Id × Id)
  deriving Repr

/-- the `while candidate_matchings:` loop -/
def greedy : List Cand → MState → MState
  | [], st => st
  | c :: rest, st =>
    if st.us.contains c.s && st.ut.contains c.t then
      greedy rest ⟨st.us.erase c.s, st.ut.erase c.t, st.acc ++ [(c.s, c.t)]⟩
    else greedy rest st

def unmatched0 (idx : List Id) (pre : List Id) : List Id := idx.filter fun x => !pre.contains x

def leafPass (E : Env) (pre : List (Id × Id)) : MState :=
  greedy (popOrder E) ⟨unmatched0 E.srcIndex (pre.map (·.1)), unmatched0 E.tgtIndex (pre.map (·.2)), []⟩

/-- the nested `for source … for target … break` loop of `_compute_matching_set`; `ot` is
    `ordered_unmatched_target_nodes` (entries are popped when matched); the sources iterated are the snapshot taken
    before the loop, the state's `us` / `ut` are `_unmatched_source_nodes` / `_unmatched_target_nodes`
    (`set.remove` of a present element: every iterated source is still unmatched at its turn because the snapshot
    has no duplicates) -/
def innerLoop (cond : Id → Id → Bool) : List Id → MState → MState
  | [], st => st
  | s :: os, st =>
    match st.ut.find? (cond s) with
    | some t => innerLoop cond os ⟨st.us.erase s, st.ut.erase t, st.acc ++ [(s, t)]⟩
    | none => innerLoop cond os st

structure Matching where
  /-- `_compute_matching_set()` -/
  computed : List (Id × Id)
  /-- `matching_set | set(pre_matched_nodes.items())` -/
  all : List (Id × Id)
  unmatchedS : List Id
  unmatchedT : List Id
  leafPairs : List (Id × Id)
  deriving Repr

def innerCond (E : Env) (lm : List (Id × Id)) (s t : Id) : Bool := E.sameType s t && E.innerSim lm s t

/-- the `leaves_matching_set` the inner pass counts common leaves in -/
def innerLm (E : Env) (pre lacc : List (Id × Id)) : List (Id × Id) := if E.countPre then lacc ++ pre else lacc

def matchAll (E : Env) (pre : List (Id × Id)) : Matching :=
  let l := leafPass E pre
  -- ordered_unmatched_*: BFS order restricted to what is still unmatched (same order as `l.us` / `l.ut`)
  let r := innerLoop (innerCond E (innerLm E pre l.acc)) l.us ⟨l.us, l.ut, []⟩
  { computed := l.acc ++ r.acc
    all := l.acc ++ r.acc ++ pre
    unmatchedS := r.us
    unmatchedT := r.ut
    leafPairs := l.acc }

/-- a Move edit, or the `KeyError` of `matchings[a]` -/
def moveToEdit : Id × Option Id → Edit
  | (a, some b) => .move a b
  | (a, none) => .keyError a

/-- what one matched pair contributes: Move edits, then exactly one of Update / Keep -/
def pairEdits (E : Env) (M : Matching) (p : Id × Id) : List Edit :=
  (E.moves M.all M.unmatchedS p.1 p.2).map moveToEdit ++ [if E.isUpdate p.1 p.2 then .update p.1 p.2 else .keep p.1 p.2]

/-- `_generate_edit_script(matchings, delta_only=False)` -/
def script (E : Env) (M : Matching) : List Edit :=
  M.unmatchedS.map .remove ++ M.unmatchedT.map .insert ++ M.all.flatMap (pairEdits E M)

/-- `delta_only=True` drops exactly the Keep edits -/
def delta (E : Env) (M : Matching) : List Edit := (script E M).filter fun e => !e.isKeep

/-! ### Layer B: the oracles diff.py computes itself, from two trees -/

structure Tree where
  root : Id
  size : Nat                -- fuel: number of nodes
  cls : Id → Nat            -- `type(node)`
  ty : Id → Nat             -- class of `_is_same_type` (type, Join side, Anonymous name)
  parent : Id → Option Id
  kids : Id → List Id       -- `iter_expressions()` order
  ignored : Id → Bool       -- isinstance(node, IGNORED_LEAF_EXPRESSION_TYPES)
  updatable : Id → Bool     -- isinstance(node, UPDATABLE_EXPRESSION_TYPES)
  nel : Id → Nat            -- class of `dict(_get_non_expression_leaves(node))` under `==`
  eqc : Id → Nat            -- class of the node under `Expr.__eq__`
  akey : Id → Nat           -- class of the node's `arg_key` (which argument of its parent holds it)
  txt : Id → Nat            -- class of the SQL text `_bigram_histo` renders for the node (only used by `DiceOk`)
  lay : Id → Nat            -- class of the child layout [(arg key, is-Identifier)] in `iter_expressions()` order

structure Params where
  f : Nat                 -- self.f (rank among the dice values of the run)
  t : Nat × Nat             -- self.t as the fraction the caller meant
  hi : Nat × Nat            -- 0.8
  lo : Nat × Nat            -- 0.4
  minLeaves : Nat           -- 4
  cmpIdents : Bool          -- does `_generate_edit_script` compare ignored (Identifier) children? (fix f25f43a)
  countPre : Bool           -- do caller-matched leaves count in `leaf_similarity_score`? (fix 8a55b44)
  identsAsDict : Bool       -- does `_get_ignored_leaves` return a dict keyed by arg key (a seeded regression) instead of a list?

/-- `Expr.bfs()` -/
def bfsGo (kids : Id → List Id) : Nat → List Id → List Id
  | 0, _ => []
  | _, [] => []
  | fuel + 1, x :: q => x :: bfsGo kids fuel (q ++ kids x)

def Tree.bfs (T : Tree) : List Id := bfsGo T.kids T.size [T.root]

/-- `_source_index` / `_target_index` keys in insertion order -/
def Tree.index (T : Tree) : List Id := T.bfs.filter fun x => !T.ignored x

/-- `_expression_only_args` -/
def Tree.exprArgs (T : Tree) (x : Id) : List Id := (T.kids x).filter fun k => !T.ignored k

/-- `_get_expression_leaves` -/
def leavesGo (T : Tree) : Nat → Id → List Id
  | 0, x => [x]
  | fuel + 1, x =>
    match T.exprArgs x with
    | [] => [x]
    | ks => ks.flatMap (leavesGo T fuel)

def Tree.leaves (T : Tree) (x : Id) : List Id := leavesGo T T.size x

/-- `_parent_similarity_score` -/
def psimGo (S T : Tree) : Nat → Option Id → Option Id → Nat
  | 0, _, _ => 0
  | fuel + 1, some a, some b =>
    if S.cls a == T.cls b then 1 + psimGo S T fuel (S.parent a) (T.parent b) else 0
  | _ + 1, _, _ => 0

def psimOf (S T : Tree) (a b : Id) : Nat := psimGo S T (S.size + 1) (some a) (some b)

/-- `c / m >= p / q` as the code evaluates it (`leaf_similarity_score = 0.0` when `m = 0`) -/
def geFrac (c m : Nat) (pq : Nat × Nat) : Bool :=
  if m = 0 then pq.1 = 0 else pq.1 * m ≤ c * pq.2

def innerSimOf (P : Params) (S T : Tree) (dice : Id → Id → Nat) (lm : List (Id × Id)) (s t : Id) : Bool :=
  -- `len({id(l) for l in leaves})` is the list length: leaves of one node are distinct objects (`Tree.wf`, checked by the driver)
  let sl := S.leaves s
  let tl := T.leaves t
  let mx := max sl.length tl.length
  let common := (lm.filter fun p => sl.contains p.1 && tl.contains p.2).length
  let adjT := if min sl.length tl.length > P.minLeaves then P.t else P.lo
  geFrac common mx P.hi || (geFrac common mx adjT && decide (P.f ≤ dice s t))

/-- input well-formedness (decidable; the driver refuses inputs that fail it, the theorems about trees assume it):
    distinct node objects, leaves of every node distinct, reachable from the root and in the index, children know their
    parent and come later in BFS order, the root is the only parentless node -/
def Tree.wfWith (S : Tree) (bfs idx rootLeaves : List Id) : Bool :=
  decide bfs.Nodup && decide rootLeaves.Nodup && S.parent S.root == none &&
  idx.all fun x =>
    decide (S.leaves x).Nodup && decide (S.exprArgs x).Nodup &&
    (S.leaves x).all (fun l => rootLeaves.contains l && idx.contains l) &&
    (S.exprArgs x).all (fun c => S.parent c == some x && idx.contains c &&
      decide (bfs.idxOf x < bfs.idxOf c)) &&
    (match S.parent x with
     | some p => idx.contains p && (S.exprArgs p).contains x
     | none => x == S.root)

def Tree.wf (S : Tree) : Bool := S.wfWith S.bfs S.index (S.leaves S.root)

/-- the node that structurally owns `c` (the first node in walk order that lists `c` among its children) -/
def Tree.structParent (S : Tree) (c : Id) : Option Id := S.bfs.find? fun p => (S.kids p).contains c

/-- **the C08 link invariant, as far as diff.py depends on it**: the `.parent` pointer of every node of the tree is the
    node that structurally owns it (and the root has none).  `_generate_edit_script` decides Move by comparing `.parent`
    objects and `_parent_similarity_score` climbs them, so the model's guarantees about copies are stated UNDER this
    assumption on both inputs; the harness checks it on every real input tree (correspondence stage) and the driver
    checks it on every shipped tree. -/
def Tree.linkedB (S : Tree) : Bool :=
  let bfs := S.bfs
  bfs.all fun c => S.parent c == bfs.find? fun p => (S.kids p).contains c

def lookup (m : List (Id × Id)) (k : Id) : Option Id := (m.find? fun p => p.1 == k).map (·.2)

/-- `_lcs`, one row.  The table of diff.py is indexed by PREFIXES of the two sequences; read on the reversed sequences
    it is a table over SUFFIXES, which is structurally recursive: `prev` is the row of the shorter suffix `xs` (one entry
    per suffix of `ys`, longest first), the result is the row of `x :: xs`.
    `prev.headD []` is `L[i-1][j]`, `prev.tail.headD []` is `L[i-1][j-1]`, `rest.headD []` is `L[i][j-1]`. -/
def lcsStep (eq : Id → Id → Bool) (x : Id) : List Id → List (List Id) → List (List Id)
  | [], _ => [[]]
  | y :: ys, prev =>
    let rest := lcsStep eq x ys prev.tail
    let cur :=
      if eq x y then x :: prev.tail.headD []
      else if (prev.headD []).length > (rest.headD []).length then prev.headD [] else rest.headD []
    cur :: rest

def lcsRows (eq : Id → Id → Bool) : List Id → List Id → List (List Id)
  | [], ys => List.replicate (ys.length + 1) []
  | x :: xs, ys => lcsStep eq x ys (lcsRows eq xs ys)

/-- the table entry for the two whole (reversed) sequences, itself reversed -/
def lcsS (eq : Id → Id → Bool) (xs ys : List Id) : List Id := (lcsRows eq xs ys).headD []

/-- `_lcs(seq_a, seq_b, equal)` -/
def lcs (eq : Id → Id → Bool) (as bs : List Id) : List Id := (lcsS eq as.reverse bs.reverse).reverse

/-- `_generate_move_edits` -/
def moveEdits (S T : Tree) (m : List (Id × Id)) (unmatchedS : List Id) (s t : Id) : List (Id × Option Id) :=
  let sa := S.exprArgs s
  let ta := T.exprArgs t
  let common := lcs (fun l r => lookup m l == some r) sa ta
  sa.flatMap fun a =>
    if !common.contains a && !unmatchedS.contains a then
      [(a, lookup m a)]
    else []

def parentMoved (S T : Tree) (m : List (Id × Id)) (s t : Id) : Bool :=
  match S.parent s, T.parent t with
  | some _, none => true
  | none, some _ => true
  | some ps, some pt => lookup m ps != some pt
  | none, none => false

def identical (S T : Tree) (s t : Id) : Bool := S.eqc s == T.eqc t

/-- the Move edits emitted for a matched pair -/
def movesOf (S T : Tree) (m : List (Id × Id)) (unmatchedS : List Id) (s t : Id) : List (Id × Option Id) :=
  if !S.updatable s || identical S T s t then
    if identical S T s t then
      (if parentMoved S T m s t then [(s, some t)] else [])
    else moveEdits S T m unmatchedS s t
  else []

/-- `_get_ignored_leaves(node)`: the ignored (Identifier) direct children in `iter_expressions()` order, each as
    (class of its arg key, its class under `==`) — an ORDERED list with repetitions (several identifiers may sit in one
    list argument, e.g. `USING (a, b)`) -/
def Tree.idk (S : Tree) (x : Id) : List (Nat × Nat) :=
  ((S.kids x).filter S.ignored).map fun k => (S.akey k, S.eqc k)

/-- the value a Python dict built from the pairs holds for a key: the LAST pair with that key -/
def dictGet (l : List (Nat × Nat)) (k : Nat) : Option Nat := (l.reverse.find? fun p => p.1 == k).map (·.2)

/-- `==` of two dicts built from the pair lists (order-insensitive, later pairs overwrite earlier ones) -/
def dictEq (a b : List (Nat × Nat)) : Bool :=
  a.all (fun p => dictGet a p.1 == dictGet b p.1) && b.all (fun p => dictGet a p.1 == dictGet b p.1)

/-- the comparison `_get_ignored_leaves(source_node) != _get_ignored_leaves(target_node)`, negated -/
def identsEq (P : Params) (S T : Tree) (s t : Id) : Bool :=
  if P.identsAsDict then dictEq (S.idk s) (T.idk t) else S.idk s == T.idk t

/-- whether the pair ends in `Update` (else `Keep`) -/
def isUpdateOf (P : Params) (S T : Tree) (s t : Id) : Bool :=
  if !S.updatable s || identical S T s t then
    S.nel s != T.nel t || (P.cmpIdents && !identical S T s t && !identsEq P S T s t)
  else true

def envOf (P : Params) (S T : Tree) (dice : Id → Id → Nat) : Env where
  srcLeaves := S.leaves S.root
  tgtLeaves := T.leaves T.root
  srcIndex := S.index
  tgtIndex := T.index
  sameType := fun s t => S.ty s == T.ty t
  dice := dice
  psim := psimOf S T
  f := P.f
  innerSim := innerSimOf P S T dice
  moves := movesOf S T
  isUpdate := isUpdateOf P S T
  countPre := P.countPre

/-- `dict(matching_set)`: keys are unique for well-formed input, so the dict is the pair list -/
structure Result where
  matching : List (Id × Id)
  edits : List Edit
  deriving Repr

/-- `ChangeDistiller(f, t).diff(source, target, matchings, delta_only)` -/
def diffTrees (P : Params) (S T : Tree) (dice : Id → Id → Nat) (pre : List (Id × Id)) (deltaOnly : Bool) : Result :=
  let E := envOf P S T dice
  let M := matchAll E pre
  ⟨M.all, if deltaOnly then delta E M else script E M⟩

/-! ### `diff()`, the wrapper around `ChangeDistiller.diff`: shared-node detection, copying, hash caches

  Objects are ids.  A walked input tree is the list of its objects in `walk()` order, each with the walk position of
  its structural parent (how the walk reached it) and the value of its `.parent` POINTER field (an object has a single
  pointer even when it is referenced from two trees).  `_hash` caches are a predicate on objects.
  NOT modelled: what the hashes are, `compute_node_mappings`' translation of `matchings` to the copies. -/
namespace Wrapper

inductive CopyRule where
  | whenShared    -- `x.copy() if copy else x`
  | whenSelfDup   -- copy only when the tree references one of its OWN objects twice (the seeded regression's shape)
  | never
  deriving DecidableEq, Repr

inductive EvictRule where
  | ownUnlessCopiesHashed -- `if not (copy and matchings): for node in unhashed` — only what diff() cached itself (b176b7b)
  | unlessCopiesHashed    -- `if not (copy and matchings)`: every input node (6c26962 .. b176b7b)
  | whenNotCopied         -- `if not copy`: every input node (before 6c26962)
  | always
  | never
  deriving DecidableEq, Repr

/-- the shape of `diff()` as extracted from the source on every run -/
structure Policy where
  copySource : CopyRule
  copyTarget : CopyRule
  evict : EvictRule
  deriving DecidableEq, Repr

/-- today's `diff()` -/
def today : Policy := ⟨.whenShared, .whenShared, .ownUnlessCopiesHashed⟩

structure WNode where
  obj : Id
  pp : Option Nat     -- walk position of the structural parent
  ptr : Option Id     -- the object's `.parent` field
  deriving DecidableEq, Repr

abbrev Walk := List WNode

def objs (w : Walk) : List Id := w.map (·.obj)

def selfDup (w : Walk) : Bool := !decide (objs w).Nodup

/-- `copy = len(source_nodes) != len(source_ids) or len(target_nodes) != len(target_ids) or source_ids & target_ids` -/
def needCopy (sw tw : Walk) : Bool := selfDup sw || selfDup tw || (objs sw).any (objs tw).contains

def applyRule (r : CopyRule) (copy : Bool) (w : Walk) : Bool :=
  match r with
  | .whenShared => copy
  | .whenSelfDup => selfDup w
  | .never => false

/-- `tree.copy()`: the object at walk position `i` becomes the fresh object `fresh i`, pointers follow the structure -/
def copyFrom (fresh : Nat → Id) : Nat → Walk → Walk
  | _, [] => []
  | i, n :: rest => ⟨fresh i, n.pp, n.pp.map fresh⟩ :: copyFrom fresh (i + 1) rest

def copyWalk (fresh : Nat → Id) (w : Walk) : Walk := copyFrom fresh 0 w

structure Run where
  copied : Bool × Bool
  seenS : Walk            -- what `ChangeDistiller.diff` receives as source
  seenT : Walk
  hashAfter : Id → Bool   -- `_hash is not None` when `diff()` returns

/-- `diff(source, target, matchings)`; `touched` = the nodes whose hash the distiller computes (`==` on seen nodes) -/
def runDiff (pol : Policy) (sw tw : Walk) (fs ft : Nat → Id) (hasMatchings : Bool) (touched : Id → Bool)
    (hash0 : Id → Bool) : Run :=
  let copy := needCopy sw tw
  let cS := applyRule pol.copySource copy sw
  let cT := applyRule pol.copyTarget copy tw
  let seenS := if cS then copyWalk fs sw else sw
  let seenT := if cT then copyWalk ft tw else tw
  let seen := objs seenS ++ objs seenT
  let inputs := objs sw ++ objs tw
  -- `if copy and matchings:` hash the nodes of the (copied) trees, `else:` hash the input nodes
  let filled := if copy && hasMatchings then seen else inputs
  let h1 : Id → Bool := fun x => hash0 x || filled.contains x
  let h2 : Id → Bool := fun x => h1 x || (touched x && seen.contains x)
  -- `finally`: which input objects get `_hash = None`
  let clear : Id → Bool := fun x => inputs.contains x && match pol.evict with
    | .ownUnlessCopiesHashed => !(copy && hasMatchings) && !hash0 x   -- `unhashed`: `_hash is None` before hashing
    | .unlessCopiesHashed => !(copy && hasMatchings)
    | .whenNotCopied => !copy
    | .always => true
    | .never => false
  ⟨(cS, cT), seenS, seenT, fun x => if clear x then false else h2 x⟩

/-- every object's `.parent` pointer agrees with the structure of the walk it is seen in -/
def consistentB (w : Walk) : Bool :=
  (List.range w.length).all fun k =>
    match w[k]? with
    | some n => n.ptr == n.pp.bind (fun j => (w[j]?).map (·.obj))
    | none => true

end Wrapper

/-! ### which scalar argument values are "no value": diff's non-expression leaves vs `Expr.__eq__` / `__hash__`

  `_generate_edit_script` decides Keep vs Update from `dict(_get_non_expression_leaves(node))`; `Expr.__eq__` decides
  equality from `__hash__`.  Both drop some values of a non-expression argument.  The two skip sets are re-extracted from
  the source on every run as decision tables over nine value classes. -/

inductive ValClass where
  | absent | none | false_ | emptyList | zero | emptyStr | one | str | true_
  deriving DecidableEq, Repr

def ValClass.all : List ValClass :=
  [.absent, .none, .false_, .emptyList, .zero, .emptyStr, .one, .str, .true_]

structure LeafPolicy where
  /-- `_get_non_expression_leaves` does not yield the argument -/
  diffSkips : ValClass → Bool
  /-- `__hash__` (classes without `_hash_raw_args`) does not feed the argument into the hash -/
  eqIgnores : ValClass → Bool

/-- Python `==` between two present values of the nine classes (`True == 1`, `False == 0`) -/
def pyEq (a b : ValClass) : Bool :=
  a == b || (a == .one && b == .true_) || (a == .true_ && b == .one) ||
    (a == .zero && b == .false_) || (a == .false_ && b == .zero)

/-- can a predicate with skip set `skip` tell the two values of one argument apart? -/
def sameUnder (skip : ValClass → Bool) (a b : ValClass) : Bool :=
  if skip a && skip b then true else if skip a || skip b then false else pyEq a b

/-- the `not value` variant of the leaf predicate (drops 0 and "" as well) -/
def notValuePolicy (eqIgnores : ValClass → Bool) : LeafPolicy :=
  ⟨fun v => match v with
     | .absent | .none | .false_ | .emptyList | .zero | .emptyStr => true
     | _ => false, eqIgnores⟩

end SqlglotModel.Diff
