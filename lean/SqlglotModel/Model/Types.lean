/-
  C16 — executable model of sqlglot's type annotation (sqlglot/optimizer/annotate_types.py) for a fragment of scalar
  expressions under the DuckDB dialect, and of the engine's typing as a class-level table (assumption A-duck).

  Modelled (hand-written mirrors of the Python code):
    * `TypeAnnotator._maybe_coerce`            -> `coerce`        (parameterised types win, UNKNOWN absorbs, NULL is the identity,
                                                                   otherwise a COERCES_TO lookup; "first operand wins" across chains)
    * `TypeAnnotator._annotate_by_args`        -> `byArgs`        (literal / non-literal accumulators, early UNKNOWN, promote)
    * `TypeAnnotator._annotate_binary`         -> `annotBinary`   (predicate/connector -> BOOLEAN, BINARY_COERCIONS, else by-args)
    * `_coerce_date_literal`, `_coerce_date`   -> `coDateLiteral`, `coDate`
    * `TypeAnnotator._annotate_unary`          -> `Meta.unary`    (NOT -> BOOLEAN, else the operand's type)
    * `TypeAnnotator._annotate_div`            -> `annotDiv`
    * `TypeAnnotator._annotate_literal`        -> `Meta.literal`
    * `TypeAnnotator._annotate_extract`        -> `Meta.extract`  (only the YEAR part is generated)
    * the dispatch on `EXPRESSION_METADATA`    -> `annotNode`     (the table itself is data: `Tables.meta`, regenerated each run)
    * `TypeAnnotator.annotate`'s final NULL -> DEFAULT_NULL_TYPE replacement -> `finalTy`
  Data (fields of `Tables`, written by the translator into Generated/C16.lean on every run): COERCES_TO restricted to the modelled
  types, BINARY_COERCIONS keys classified by behaviour, INTEGER/REAL/FLOAT_TYPES, the metadata entry of every modelled node
  class, TYPED_DIVISION, DEFAULT_NULL_TYPE, and the engine table (DuckDB `typeof` over representatives, see vf/props/c16.py).

  NOT modelled: precision/scale of decimals (one parameterised `decimalP` stands for DECIMAL(p, s)); nested types; the ~600 other
  function signatures; scopes/CTEs/set operations (columns are typed leaves); `nonnull` meta; PRIORITIZE_NON_LITERAL_TYPES = True
  (the translator reports a structure change if DuckDB ever sets it); the text of a non-literal text operand of
  `<text> ± INTERVAL` is assumed not to be an ISO date (it is a column name or empty).
-/
namespace SqlglotModel.Types

/-- sqlglot types (`exp.DType`) that the modelled fragment can produce; `decimalP` = a DECIMAL with precision/scale parameters;
    `timestampntz` / `text` / `decimalP` are what the duckdb dialect parses `TIMESTAMP` / `VARCHAR` / `DECIMAL` into
    (TIMESTAMPNTZ is in no COERCES_TO chain; string literals and string functions are VARCHAR). -/
inductive Ty
  | boolean | tinyint | smallint | int | bigint | double | decimal | decimalP | varchar | text | date | datetime | timestamp
  | timestampntz | interval | null | unknown
  deriving DecidableEq, Repr, Inhabited

def Ty.all : List Ty :=
  [.boolean, .tinyint, .smallint, .int, .bigint, .double, .decimal, .decimalP, .varchar, .text, .date, .datetime, .timestamp,
   .timestampntz, .interval, .null, .unknown]

/-- the property's type classes -/
inductive TyClass
  | boolean | integer | decimal | text | date | timestamp | interval | nullUnknown
  deriving DecidableEq, Repr, Inhabited

def classOf : Ty → TyClass
  | .boolean => .boolean
  | .tinyint | .smallint | .int | .bigint => .integer
  | .double | .decimal | .decimalP => .decimal
  | .varchar | .text => .text
  | .date => .date
  | .datetime | .timestamp | .timestampntz => .timestamp
  | .interval => .interval
  | .null | .unknown => .nullUnknown

/-- engine-side classes: finer than `TyClass` where DuckDB's binder distinguishes (HUGEINT, DOUBLE vs fixed-point DECIMAL,
    a string LITERAL vs a VARCHAR value); `other` = a type outside the property's classes, `error` = rejected. -/
inductive ETy
  | boolean | integer | hugeint | double | decimal | text | strlit | date | timestamp | interval | null | other | error
  deriving DecidableEq, Repr, Inhabited

def ETy.all : List ETy :=
  [.boolean, .integer, .hugeint, .double, .decimal, .text, .strlit, .date, .timestamp, .interval, .null, .other, .error]

def eclassOf : ETy → Option TyClass
  | .boolean => some .boolean
  | .integer | .hugeint => some .integer
  | .double | .decimal => some .decimal
  | .text | .strlit => some .text
  | .date => some .date
  | .timestamp => some .timestamp
  | .interval => some .interval
  | .null => some .nullUnknown
  | .other | .error => none

/-- what the text of a string literal looks like to `is_iso_date` / `is_iso_datetime` -/
inductive Iso | other | num | isoDate | isoDatetime
  deriving DecidableEq, Repr, Inhabited

/-- Summary of an operand as the annotator sees it: its type, whether the node is an `exp.Literal` (by-args keeps literal and
    non-literal accumulators), the literal's text kind and an `exp.Interval`'s unit kind (read by BINARY_COERCIONS). -/
inductive Sm
  | of (t : Ty)            -- any non-literal node of type t
  | intLit | decLit        -- exp.Literal number
  | strLit (i : Iso)       -- exp.Literal string
  | iv (dateUnit : Bool)   -- exp.Interval node with a date unit (DAY) / a time unit (HOUR)
  deriving DecidableEq, Repr, Inhabited

def Sm.all : List Sm :=
  Ty.all.map .of ++ [.intLit, .decLit, .strLit .other, .strLit .num, .strLit .isoDate, .strLit .isoDatetime, .iv true, .iv false]

def Sm.ty : Sm → Ty
  | .of t => t
  | .intLit => .int
  | .decLit => .double
  | .strLit _ => .varchar
  | .iv _ => .interval

def Sm.isLit : Sm → Bool
  | .intLit | .decLit | .strLit _ => true
  | _ => false

inductive UnK
  | neg | not | isNull | length | upper | lower | abs | sqrt | ln | exp | sign | year | month | day | extractYear
  | count | sum | min | max | avg | sumOver | maxOver | countOver | avgOver
  | cast (to : Ty)
  deriving DecidableEq, Repr, Inhabited

def castTargets : List Ty :=
  [.boolean, .tinyint, .smallint, .int, .bigint, .double, .decimalP, .text, .date, .timestampntz]

def UnK.all : List UnK :=
  [.neg, .not, .isNull, .length, .upper, .lower, .abs, .sqrt, .ln, .exp, .sign, .year, .month, .day, .extractYear, .count, .sum, .min, .max, .avg,
   .sumOver, .maxOver, .countOver, .avgOver] ++ castTargets.map .cast

inductive BinK
  | add | sub | mul | div | intdiv | mod | pow | eq | neq | lt | le | gt | ge | and | or | dpipe | like | coalesce | nullif | concat
  deriving DecidableEq, Repr, Inhabited

def BinK.all : List BinK :=
  [.add, .sub, .mul, .div, .intdiv, .mod, .pow, .eq, .neq, .lt, .le, .gt, .ge, .and, .or, .dpipe, .like, .coalesce, .nullif, .concat]

inductive TernK | caseWhen | iff
  deriving DecidableEq, Repr, Inhabited

def TernK.all : List TernK := [.caseWhen, .iff]

/-- the sqlglot node classes whose EXPRESSION_METADATA entry the model reads -/
inductive NodeC
  | neg | not | is | length | upper | lower | abs | sqrt | ln | exp | sign | year | month | day | extract | count | sum | min | max | avg
  | window | cast
  | add | sub | mul | div | intdiv | mod | pow | eq | neq | lt | le | gt | ge | and | or | dpipe | like | coalesce | nullif | concat
  | case | if_ | literal | null | boolean | interval
  deriving DecidableEq, Repr, Inhabited

/-- the behaviour classes of BINARY_COERCIONS entries -/
inductive CoKind
  | textInterval   -- _coerce_date_literal(l, r.unit)        key (text, INTERVAL)
  | intervalText   -- the same with the operands swapped      key (INTERVAL, text)
  | leftType       -- l.type                                  key (numeric, text)
  | rightType      -- r.type                                  key (text, numeric)
  | dateInterval   -- _coerce_date(l, r.unit)                 key (DATE, INTERVAL)
  | intervalDate   -- swapped                                 key (INTERVAL, DATE)
  deriving DecidableEq, Repr, Inhabited

/-- the shape of an EXPRESSION_METADATA entry (classified by the translator with a spy annotator) -/
inductive Meta
  | returns (t : Ty)                                -- {"returns": t}
  | binary (predicate : Bool)                       -- _annotate_binary; predicate = issubclass(cls, (Connector, Predicate))
  | unary                                           -- _annotate_unary
  | div                                             -- _annotate_div
  | byArgs (mask : List Bool) (promote : Bool)      -- _annotate_by_args over the masked children
  | castTo                                          -- _set_type(e, e.args["to"])
  | literal                                         -- _annotate_literal
  | extract                                         -- _annotate_extract
  | notModelled                                     -- anything else (the translator also reports a structure change)
  deriving DecidableEq, Repr, Inhabited

structure Tables where
  coercesTo : Ty → Ty → Bool                 -- b ∈ COERCES_TO[a]
  integerTypes : Ty → Bool
  realTypes : Ty → Bool
  floatTypes : Ty → Bool
  binCo : Ty → Ty → Option CoKind            -- BINARY_COERCIONS, keyed on `.this` of both operand types
  md : NodeC → Meta
  typedDivision : Bool                       -- what the duckdb parser writes into Div.typed
  defaultNullType : Ty
  duckUn : UnK → ETy → ETy                   -- A-duck
  duckBin : BinK → ETy → ETy → ETy
  duckTern : TernK → ETy → ETy → ETy         -- over the two branches; the condition must be BOOLEAN
  duckCol : Ty → ETy                         -- typeof(column of that declared type)

section
variable (T : Tables)

/-- `DataType.this`: drops the parameters -/
def stripParam : Ty → Ty
  | .decimalP => .decimal
  | t => t

/-- `TypeAnnotator._maybe_coerce(type1, type2)` -/
def coerce (a b : Ty) : Ty :=
  if a = .decimalP then a
  else if b = .decimalP then b
  else if a = .unknown ∨ b = .unknown then .unknown
  else if a = .null then b
  else if b = .null then a
  else if T.coercesTo a b then b else a

structure Acc where
  lit : Option Ty
  non : Option Ty
  deriving DecidableEq, Repr

/-- the loop of `_annotate_by_args`; `none` = the early `UNKNOWN` return -/
def byArgsLoop : List Sm → Acc → Option Acc
  | [], acc => some acc
  | s :: rest, acc =>
    if s.ty = .unknown then none
    else if s.isLit then byArgsLoop rest { acc with lit := some (coerce T (acc.lit.getD s.ty) s.ty) }
    else byArgsLoop rest { acc with non := some (coerce T (acc.non.getD s.ty) s.ty) }

def byArgsResult : Acc → Ty
  | ⟨some l, some n⟩ => coerce T n l      -- PRIORITIZE_NON_LITERAL_TYPES = False
  | ⟨some l, none⟩ => l
  | ⟨none, some n⟩ => n
  | ⟨none, none⟩ => .unknown

def promoteTy (t : Ty) : Ty :=
  if T.integerTypes (stripParam t) then .bigint
  else if T.floatTypes (stripParam t) then .double
  else t

def byArgs (args : List Sm) (promote : Bool) : Ty :=
  match byArgsLoop T args ⟨none, none⟩ with
  | none => .unknown
  | some acc => if promote then promoteTy T (byArgsResult T acc) else byArgsResult T acc

/-- `_coerce_date_literal(l, unit)` -/
def coDateLiteral (iso : Option Iso) (dateUnit : Bool) : Ty :=
  match iso with
  | some .isoDate => if dateUnit then .date else .datetime
  | some .isoDatetime => .datetime
  | _ => .unknown

/-- `l.name` of a non-literal text operand is assumed not to be ISO -/
def smIso : Sm → Option Iso
  | .strLit i => some i
  | _ => none

/-- `r.args.get("unit")`: only an `exp.Interval` node has one -/
def smDateUnit : Sm → Bool
  | .iv d => d
  | _ => false

/-- `_coerce_date(l, unit)` -/
def coDate (l : Sm) (dateUnit : Bool) : Ty :=
  if dateUnit then stripParam l.ty else .datetime

def applyCo : CoKind → Sm → Sm → Ty
  | .textInterval, l, r => coDateLiteral (smIso l) (smDateUnit r)
  | .intervalText, l, r => coDateLiteral (smIso r) (smDateUnit l)
  | .leftType, l, _ => l.ty
  | .rightType, _, r => r.ty
  | .dateInterval, l, r => coDate l (smDateUnit r)
  | .intervalDate, l, r => coDate r (smDateUnit l)

/-- `_annotate_binary` -/
def annotBinary (pred : Bool) (l r : Sm) : Ty :=
  if pred then .boolean
  else match T.binCo (stripParam l.ty) (stripParam r.ty) with
    | some k => applyCo k l r
    | none => byArgs T [l, r] false

/-- `_annotate_div` -/
def annotDiv (l r : Sm) : Ty :=
  if T.typedDivision && T.integerTypes (stripParam l.ty) && T.integerTypes (stripParam r.ty) then .bigint
  else
    let c := coerce T (stripParam l.ty) (stripParam r.ty)
    if T.realTypes (stripParam c) then c else coerce T c .double

def applyMask : List Bool → List Sm → List Sm
  | true :: m, s :: ss => s :: applyMask m ss
  | false :: m, _ :: ss => applyMask m ss
  | _, _ => []

/-- the dispatch of `_annotate_expression` on the node class's metadata entry -/
def annotNode (c : NodeC) (args : List Sm) (castTo : Ty) : Ty :=
  match T.md c with
  | .returns t => t
  | .binary p => match args with
    | [l, r] => annotBinary T p l r
    | _ => .unknown
  | .unary => match args with
    | [a] => if c = .not then .boolean else a.ty
    | _ => .unknown
  | .div => match args with
    | [l, r] => annotDiv T l r
    | _ => .unknown
  | .byArgs m p => byArgs T (applyMask m args) p
  | .castTo => castTo
  | .literal => .unknown       -- literals are leaves (see `smLeaf`)
  | .extract => .int           -- part YEAR: neither TIME, DATE nor an EPOCH part
  | .notModelled => .unknown

def leafReturns (c : NodeC) : Ty :=
  match T.md c with
  | .returns t => t
  | _ => .unknown

def unNode : UnK → NodeC
  | .neg => .neg | .not => .not | .isNull => .is | .length => .length | .upper => .upper | .lower => .lower | .abs => .abs
  | .sqrt => .sqrt | .ln => .ln | .exp => .exp | .sign => .sign
  | .year => .year | .month => .month | .day => .day | .extractYear => .extract
  | .count | .countOver => .count | .sum | .sumOver => .sum | .min => .min | .max | .maxOver => .max | .avg | .avgOver => .avg
  | .cast _ => .cast

def isOver : UnK → Bool
  | .sumOver | .maxOver | .countOver | .avgOver => true
  | _ => false

def annotUn (k : UnK) (a : Sm) : Ty :=
  let inner : Ty :=
    match k with
    | .isNull => annotNode T .is [a, .of (leafReturns T .null)] .unknown     -- `a IS NULL` = Is(a, Null())
    | .cast to => annotNode T .cast [a] to
    | k => annotNode T (unNode k) [a] .unknown
  if isOver k then annotNode T .window [.of inner] .unknown else inner        -- Window(this = the aggregate)

def binNode : BinK → NodeC
  | .add => .add | .sub => .sub | .mul => .mul | .div => .div | .intdiv => .intdiv | .mod => .mod | .pow => .pow | .eq => .eq | .neq => .neq
  | .lt => .lt | .le => .le | .gt => .gt | .ge => .ge | .and => .and | .or => .or | .dpipe => .dpipe | .like => .like
  | .coalesce => .coalesce | .nullif => .nullif | .concat => .concat

def annotBin (k : BinK) (a b : Sm) : Ty := annotNode T (binNode k) [a, b] .unknown

def ternNode : TernK → NodeC
  | .caseWhen => .case
  | .iff => .if_

/-- children in the order (condition, then-branch, else-branch) -/
def annotTern (k : TernK) (c a b : Sm) : Ty := annotNode T (ternNode k) [c, a, b] .unknown

/-- typed expressions -/
inductive TExpr
  | col (t : Ty)
  | intLit | decLit | strLit (i : Iso) | nullLit | boolLit
  | interval (dateUnit : Bool)
  | un (k : UnK) (a : TExpr)
  | bin (k : BinK) (a b : TExpr)
  | tern (k : TernK) (c a b : TExpr)
  deriving Repr, Inhabited

/-- the annotator's view of a node after annotating it (bottom-up, as `_annotate_expression`'s explicit stack does) -/
def sm : TExpr → Sm
  | .col t => .of t
  | .intLit => if T.md .literal = .literal then .intLit else .of .unknown
  | .decLit => if T.md .literal = .literal then .decLit else .of .unknown
  | .strLit i => if T.md .literal = .literal then .strLit i else .of .unknown
  | .nullLit => .of (leafReturns T .null)
  | .boolLit => .of (leafReturns T .boolean)
  | .interval d => if T.md .interval = .returns .interval then .iv d else .of (leafReturns T .interval)
  | .un k a => .of (annotUn T k (sm a))
  | .bin k a b => .of (annotBin T k (sm a) (sm b))
  | .tern k c a b => .of (annotTern T k (sm c) (sm a) (sm b))

/-- the type `_annotate_expression` leaves on the node -/
def annot (e : TExpr) : Ty := (sm T e).ty

/-- after `annotate`: NULL-typed nodes are rewritten to DEFAULT_NULL_TYPE -/
def finalTy (t : Ty) : Ty := if t = .null then T.defaultNullType else t

def annotFinal (e : TExpr) : Ty := finalTy T (annot T e)

/-- A-duck: the engine's class for an expression, composed from the class-level table -/
def eng : TExpr → ETy
  | .col t => T.duckCol t
  | .intLit => .integer
  | .decLit => .decimal
  | .strLit _ => .strlit
  | .nullLit => .null
  | .boolLit => .boolean
  | .interval _ => .interval
  | .un k a => T.duckUn k (eng a)
  | .bin k a b => T.duckBin k (eng a) (eng b)
  | .tern k c a b => if eng c = .boolean then T.duckTern k (eng a) (eng b) else .error

end

/-- the annotator's summary and the engine's class describe the same kind of value -/
def Rel (s : Sm) (e : ETy) : Bool :=
  match s with
  | .strLit _ => e == .strlit
  | s => e != .strlit && eclassOf e == some (classOf s.ty)

def compat (s : Sm) : List ETy := ETy.all.filter (Rel s)

/-! ### The domain of the agreement theorem (`WellFormed`)

Class-level conditions on a node's operands, stated on what the annotator sees (`Sm`) and on the engine's operand classes.
Everything outside is either rejected by DuckDB or one of the disagreement families listed in known_pending/C16.json
(cross-chain operands where sqlglot keeps the first type, temporal differences, DATE ± INTERVAL, NULLIF, NULL-only arithmetic,
`x || NULL`, fixed-point DECIMAL ∘ NULL ...). -/

def smClass (s : Sm) : TyClass := classOf s.ty

def isNum (s : Sm) : Bool := smClass s == .integer || smClass s == .decimal

def isNullTy (s : Sm) : Bool := s.ty == .null

/-- the column types of the property's quantifier -/
def colTypes : List Ty :=
  [.boolean, .tinyint, .smallint, .int, .bigint, .double, .decimalP, .text, .date, .timestampntz]

def domUn (k : UnK) (a : Sm) (_ea : ETy) : Bool :=
  match k with
  | .not | .isNull | .count | .countOver => true
  | .cast to => castTargets.contains to
  | .neg | .abs | .sqrt | .ln | .exp | .sign | .sum | .sumOver | .avg | .avgOver => isNum a
  | .length | .upper | .lower => smClass a == .text
  | .year | .month | .day | .extractYear => smClass a == .date || smClass a == .timestamp
  | .min | .max | .maxOver => true

/-- branches of CASE / IF / COALESCE: within one coercion chain (both numeric, or the same class), or a NULL branch -/
def branchesOk (a b : Sm) : Bool :=
  (isNum a && isNum b) || smClass a == smClass b || isNullTy a || isNullTy b

def isArith : BinK → Bool
  | .add | .sub | .mul | .div | .intdiv | .mod | .pow => true
  | _ => false

def domBin (k : BinK) (a b : Sm) (ea eb : ETy) : Bool :=
  match k with
  | .eq | .neq | .lt | .le | .gt | .ge | .and | .or | .like | .concat => true
  | .dpipe => ea != .null && eb != .null
  | .coalesce => branchesOk a b
  | .nullif => smClass a == smClass b || isNullTy b
  | .pow => isNum a && isNum b
  | k =>
    -- arithmetic
    (isNum a && isNum b)
    || (isNum a && isNullTy b && ea != .decimal) || (isNullTy a && isNum b && eb != .decimal)
    || ((k == .add || k == .sub) && smClass a == .date && smClass b == .integer)
    || ((k == .add || k == .sub) && smClass a == .timestamp && smClass b == .interval)

def domTern (_k : TernK) (a b : Sm) : Bool := branchesOk a b

def hasCol : TExpr → Bool
  | .col _ => true
  | .un _ a => hasCol a
  | .bin _ a b => hasCol a || hasCol b
  | .tern _ c a b => hasCol c || hasCol a || hasCol b
  | _ => false

def isLeaf : TExpr → Bool
  | .un _ _ | .bin _ _ _ | .tern _ _ _ _ => false
  | _ => true

def isNullLit : TExpr → Bool
  | .nullLit => true
  | _ => false

/-- no NULL literal as a direct operand of a NULL-propagating operator (DuckDB's binder folds such a call to a constant NULL);
    NULL literals remain allowed as CASE / IF branches and COALESCE arguments -/
def nullSafe : TExpr → Bool
  | .un _ a => !isNullLit a && nullSafe a
  | .bin k a b => (k == .coalesce || (!isNullLit a && !isNullLit b)) && nullSafe a && nullSafe b
  | .tern _ c a b => !isNullLit c && nullSafe c && nullSafe a && nullSafe b
  | _ => true

/-- an operand is a leaf, or mentions a column and is `nullSafe` (it is not folded to a constant at bind time) -/
def operandOk (e : TExpr) : Bool := isLeaf e || (hasCol e && nullSafe e)

section
variable (T : Tables)

/-- `WellFormed`: every node is inside the domain and accepted by the engine table; columns have one of the property's types;
    every compound operand mentions a column and has no NULL literal under a NULL-propagating operator (DuckDB folds constant
    operands at bind time, and a constant that folds to NULL is typed like the NULL literal by some functions whatever its
    declared type — outside a class-level table; at the root, `t.i + NULL` etc. are covered by the table). -/
def WF : TExpr → Bool
  | .col t => colTypes.contains t
  | .intLit | .decLit | .strLit _ | .nullLit | .boolLit | .interval _ => true
  | .un k a => WF a && operandOk a && domUn k (sm T a) (eng T a) && T.duckUn k (eng T a) != .error
  | .bin k a b =>
    WF a && WF b && (operandOk a && operandOk b)
    && domBin k (sm T a) (sm T b) (eng T a) (eng T b) && T.duckBin k (eng T a) (eng T b) != .error
  | .tern k c a b =>
    WF c && WF a && WF b && (operandOk c && operandOk a && operandOk b) && eng T c == .boolean
    && domTern k (sm T a) (sm T b) && T.duckTern k (eng T a) (eng T b) != .error

/-! the finite obligations on the tables (decided completely in Properties/C16.lean against the generated tables) -/

def leafCheck : Bool :=
  colTypes.all (fun t => Rel (.of t) (T.duckCol t))
  && T.md .literal == .literal
  && T.md .interval == .returns .interval
  && Rel (.of (leafReturns T .null)) .null
  && Rel (.of (leafReturns T .boolean)) .boolean

def unCheck : Bool :=
  UnK.all.all fun k => Sm.all.all fun a => (compat a).all fun ea =>
    !(domUn k a ea) || T.duckUn k ea == .error || Rel (.of (annotUn T k a)) (T.duckUn k ea)

def binCheck : Bool :=
  BinK.all.all fun k => Sm.all.all fun a => Sm.all.all fun b => (compat a).all fun ea => (compat b).all fun eb =>
    !(domBin k a b ea eb) || T.duckBin k ea eb == .error || Rel (.of (annotBin T k a b)) (T.duckBin k ea eb)

def ternCheck : Bool :=
  TernK.all.all fun k => Sm.all.all fun c => Sm.all.all fun a => Sm.all.all fun b =>
    (compat a).all fun ea => (compat b).all fun eb =>
      !(domTern k a b) || T.duckTern k ea eb == .error || Rel (.of (annotTern T k c a b)) (T.duckTern k ea eb)

def TablesOk : Bool := leafCheck T && unCheck T && binCheck T && ternCheck T

end

end SqlglotModel.Types
