/-
  C16 — executable model of sqlglot's type annotation (sqlglot/optimizer/annotate_types.py) for a fragment of scalar
  expressions under the DuckDB dialect, and of the engine's typing as a class-level table (assumption A-duck).

  Modelled (hand-written mirrors of the Python code):
    * `TypeAnnotator._maybe_coerce`            -> `coerce`        (parameterised types win, UNKNOWN absorbs, NULL is the identity,
                                                                   otherwise a COERCES_TO lookup; "first operand wins" across chains)
    * `TypeAnnotator._annotate_by_args`        -> `byArgs`        (literal / non-literal accumulators, early UNKNOWN, promote)
    * `TypeAnnotator._annotate_binary`         -> `annotBinary`   (predicate/connector -> BOOLEAN, BINARY_COERCIONS, else by-args)
    * `_coerce_date_literal`, `_coerce_date`   -> `coDateLiteral`, `coDate`
    * `TypeAnnotator._annotate_unary`          -> `Meta.unary`    (NOT -> BOOLEAN, else the operand's type)
    * `TypeAnnotator._annotate_div`            -> `annotDiv`
    * `TypeAnnotator._annotate_literal`        -> `Meta.literal`
    * `TypeAnnotator._annotate_extract`        -> `Meta.extract`  (only the YEAR part is generated)
    * the dispatch on `EXPRESSION_METADATA`    -> `annotNode`     (the table itself is data: `Tables.meta`, regenerated each run)
    * `TypeAnnotator.annotate`'s final NULL -> DEFAULT_NULL_TYPE replacement -> `finalTy`
  Data (fields of `Tables`, written by the translator into Generated/C16.lean on every run): COERCES_TO restricted to the modelled
  types, BINARY_COERCIONS keys classified by behaviour, INTEGER/REAL/FLOAT_TYPES, the metadata entry of every modelled node
  class, TYPED_DIVISION, DEFAULT_NULL_TYPE, and the engine table (DuckDB `typeof` over representatives, see vf/props/c16.py).

  NOT modelled: precision/scale of decimals (one parameterised `decimalP` stands for DECIMAL(p, s)); nested types; the ~600 other
  function signatures; scopes/CTEs/set operations (columns are typed leaves); `nonnull` meta; PRIORITIZE_NON_LITERAL_TYPES = True
  (the translator reports a structure change if DuckDB ever sets it); the text of a non-literal text operand of
  `<text> ± INTERVAL` is assumed not to be an ISO date (it is a column name or empty).
-/
namespace SqlglotModel.Types

/-- sqlglot types (`exp.DType`) that the modelled fragment can produce; `decimalP` = a DECIMAL with precision/scale parameters;
    `timestampntz` / `text` / `decimalP` are what the duckdb dialect parses `TIMESTAMP` / `VARCHAR` / `DECIMAL` into
    (TIMESTAMPNTZ is in no COERCES_TO chain; string literals and string functions are VARCHAR). -/
inductive Ty
  | boolean | tinyint | smallint | int | bigint | double | decimal | decimalP | varchar | text | date | datetime | timestamp
  | timestampntz | interval | null | unknown
  deriving DecidableEq, Repr, Inhabited

def Ty.all : List Ty :=
  [.boolean, .tinyint, .smallint, .int, .bigint, .double, .decimal, .decimalP, .varchar, .text, .date, .datetime, .timestamp,
   .timestampntz, .interval, .null, .unknown]

/-- the property's type classes -/
inductive TyClass
  | boolean | integer | decimal | text | date | timestamp | interval | nullUnknown
  deriving DecidableEq, Repr, Inhabited

def classOf : Ty → TyClass
  | .boolean => .boolean
  | .tinyint | .smallint | .int | .bigint => .integer
  | .double | .decimal | .decimalP => .decimal
  | .varchar | .text => .text
  | .date => .date
  | .datetime | .timestamp | .timestampntz => .timestamp
  | .interval => .interval
  | .null | .unknown => .nullUnknown

/-- engine-side classes: finer than `TyClass` where DuckDB's binder distinguishes (HUGEINT, DOUBLE vs fixed-point DECIMAL,
    a string LITERAL vs a VARCHAR value); `other` = a type outside the property's classes, `error` = rejected. -/
inductive ETy
  | boolean | integer | hugeint | double | decimal | text | strlit | date | timestamp | interval | null | other | error
  deriving DecidableEq, Repr, Inhabited

def ETy.all : List ETy :=
  [.boolean, .integer, .hugeint, .double, .decimal, .text, .strlit, .date, .timestamp, .interval, .null, .other, .error]

def eclassOf : ETy → Option TyClass
  | .boolean => some .boolean
  | .integer | .hugeint => some .integer
  | .double | .decimal => some .decimal
  | .text | .strlit => some .text
  | .date => some .date
  | .timestamp => some .timestamp
  | .interval => some .interval
  | .null => some .nullUnknown
  | .other | .error => none

/-- what the text of a string literal looks like to `is_iso_date` / `is_iso_datetime` -/
inductive Iso | other | num | isoDate | isoDatetime
  deriving DecidableEq, Repr, Inhabited

/-- Summary of an operand as the annotator sees it: its type, whether the node is an `exp.Literal` (by-args keeps literal and
    non-literal accumulators), the literal's text kind and an `exp.Interval`'s unit kind (read by BINARY_COERCIONS). -/
inductive Sm
  | of (t : Ty)            -- any non-literal node of type t
  | intLit | decLit        -- exp.Literal number
  | strLit (i : Iso)       -- exp.Literal string
  | iv (dateUnit : Bool)   -- exp.Interval node with a date unit (DAY) / a time unit (HOUR)
  deriving DecidableEq, Repr, Inhabited

def Sm.all : List Sm :=
  Ty.all.map .of ++ [.intLit, .decLit, .strLit .other, .strLit .num, .strLit .isoDate, .strLit .isoDatetime, .iv true, .iv false]

def Sm.ty : Sm → Ty
  | .of t => t
  | .intLit => .int
  | .decLit => .double
  | .strLit _ => .varchar
  | .iv _ => .interval

def Sm.isLit : Sm → Bool
  | .intLit | .decLit | .strLit _ => true
  | _ => false


inductive UnK
  | neg | not | isNull | length | upper | lower | abs | sqrt | ln | exp | sign | ceil | floor | round
  | year | month | day | extractYear
  | count | sum | min | max | avg
  | anyValue | stddev | variance | boolAnd | boolOr | groupConcat | approxDistinct      -- more aggregates
  | lag | lead | firstValue | lastValue   -- window functions over one argument, rendered `F(x) OVER ()` = Window(this = F(x))
  | subq | exists               -- `(SELECT x FROM t)` (scalar subquery), `EXISTS (SELECT x FROM t)`
  -- one-level containers, the element class carried through a constructor + accessor pair:
  | structField                 -- `{'k': x}.k`         Dot(Struct(PropertyEQ(k, x)), k)
  | arrayAggElem                -- `ARRAY_AGG(x)[1]`    Bracket(ArrayAgg(x), 1)
  | mapElem                     -- `MAP(['k'], [x])['k']`  Bracket(Map(Array(k), Array(x)), k)
  | over | filter               -- wrappers around an aggregate: `agg OVER ()`, `agg FILTER (WHERE <boolean column>)`
  | cast (to : Ty) | tryCast (to : Ty)
  deriving DecidableEq, Repr, Inhabited

def castTargets : List Ty :=
  [.boolean, .tinyint, .smallint, .int, .bigint, .double, .decimalP, .text, .date, .timestampntz]

def UnK.all : List UnK :=
  [.neg, .not, .isNull, .length, .upper, .lower, .abs, .sqrt, .ln, .exp, .sign, .ceil, .floor, .round, .year, .month, .day,
   .extractYear, .count, .sum, .min, .max, .avg, .anyValue, .stddev, .variance, .boolAnd, .boolOr, .groupConcat,
   .approxDistinct, .lag, .lead, .firstValue, .lastValue, .subq, .exists, .structField, .arrayAggElem, .mapElem, .over, .filter]
  ++ castTargets.map .cast ++ castTargets.map .tryCast

inductive BinK
  | add | sub | mul | div | intdiv | mod | pow | eq | neq | lt | le | gt | ge | and | or | dpipe | like
  | coalesce | nullif | concat | greatest | least | corr
  | isDistinct | ilike           -- more predicates: `a IS DISTINCT FROM b`, `a ILIKE b`
  | arrayElem                    -- `[a, b][1]`: Bracket(Array(a, b), 1)
  | listConcatElem               -- `LIST_CONCAT([a], [b])[1]`
  | sliceElem                    -- `[a, b][1:2][1]`
  | unnest2                      -- `UNNEST([a, b])` in a projection (parsed as Explode)
  | unionCol                     -- the column of `SELECT a AS c UNION ALL SELECT b AS c`, read through a derived table
  deriving DecidableEq, Repr, Inhabited

def BinK.all : List BinK :=
  [.add, .sub, .mul, .div, .intdiv, .mod, .pow, .eq, .neq, .lt, .le, .gt, .ge, .and, .or, .dpipe, .like, .coalesce, .nullif,
   .concat, .greatest, .least, .corr, .isDistinct, .ilike, .arrayElem, .listConcatElem, .sliceElem, .unnest2, .unionCol]

inductive TernK | caseWhen | iff
  deriving DecidableEq, Repr, Inhabited

def TernK.all : List TernK := [.caseWhen, .iff]

/-- three-operand predicates: `a BETWEEN b AND c`, `a IN (b, c)` -/
inductive Pred3K | between | inList
  deriving DecidableEq, Repr, Inhabited

def Pred3K.all : List Pred3K := [.between, .inList]

/-- window functions without an argument: `ROW_NUMBER() OVER ()` … = Window(this = RowNumber()) -/
inductive Win0K | rowNumber | rank | denseRank | cumeDist | percentRank
  deriving DecidableEq, Repr, Inhabited

def Win0K.all : List Win0K := [.rowNumber, .rank, .denseRank, .cumeDist, .percentRank]

/-- number literals by magnitude / notation: 3000000000 (needs BIGINT), 99999999999999999999 (needs HUGEINT), a 40-digit
    integer (beyond HUGEINT), 1e10 (scientific notation). `_annotate_literal` only asks `is_int`. -/
inductive NumLitK | big | huge | overflow | sci
  deriving DecidableEq, Repr, Inhabited

def NumLitK.all : List NumLitK := [.big, .huge, .overflow, .sci]

/-- n-ary forms: COALESCE(a1..an), GREATEST, LEAST, CASE WHEN c THEN a1 WHEN c THEN a2 ... ELSE an END (n ≥ 1; the WHEN
    conditions are a BOOLEAN column: they do not take part in the typing on either side) -/
inductive NaryK | coalesce | greatest | least | caseN
  deriving DecidableEq, Repr, Inhabited

def NaryK.all : List NaryK := [.coalesce, .greatest, .least, .caseN]

/-- the sqlglot node classes whose EXPRESSION_METADATA entry the model reads -/
inductive NodeC
  | neg | not | is | length | upper | lower | abs | sqrt | ln | exp | sign | ceil | floor | round
  | year | month | day | extract | count | sum | min | max | avg | window | filter | cast | tryCast
  | anyValue | stddev | variance | logicalAnd | logicalOr | groupConcat | approxDistinct | lag | lead | firstValue | lastValue
  | subquery | exists | between | in_ | rowNumber | rank | denseRank | cumeDist | percentRank | nullSafeNeq | ilike | array
  | bracket | struct | dot | propertyEq | map | arrayAgg | arrayConcat | explode
  | add | sub | mul | div | intdiv | mod | pow | eq | neq | lt | le | gt | ge | and | or | dpipe | like | coalesce | nullif | concat
  | greatest | least | corr
  | case | if_ | literal | null | boolean | interval
  deriving DecidableEq, Repr, Inhabited

/-- the behaviour classes of BINARY_COERCIONS entries -/
inductive CoKind
  | textInterval   -- _coerce_date_literal(l, r.unit)        key (text, INTERVAL)
  | intervalText   -- the same with the operands swapped      key (INTERVAL, text)
  | leftType       -- l.type                                  key (numeric, text)
  | rightType      -- r.type                                  key (text, numeric)
  | dateInterval   -- _coerce_date(l, r.unit)                 key (DATE, INTERVAL)
  | intervalDate   -- swapped                                 key (INTERVAL, DATE)
  deriving DecidableEq, Repr, Inhabited

/-- the shape of an EXPRESSION_METADATA entry (classified by the translator with a spy annotator) -/
inductive Meta
  | returns (t : Ty)                                -- {"returns": t}
  | binary (predicate : Bool)                       -- _annotate_binary; predicate = issubclass(cls, (Connector, Predicate))
  | unary                                           -- _annotate_unary
  | div                                             -- _annotate_div
  | byArgs (mask : List Bool) (promote : Bool)      -- _annotate_by_args over the masked children
  | castTo                                          -- _set_type(e, e.args["to"])
  | literal                                         -- _annotate_literal
  | extract                                         -- _annotate_extract
  | subquery                                        -- _annotate_subquery: the type of the single projection
  | arrayOf (mask : List Bool)                      -- _annotate_by_args(..., array=True): ARRAY<by-args result>
  | bracket                                         -- _annotate_bracket: the element type of an ARRAY operand
  | annotator (method : String)                     -- calls one other annotator method with the node (struct, dot, map, explode)
  | notModelled                                     -- anything else (the translator also reports a structure change)
  deriving DecidableEq, Repr, Inhabited


structure Tables where
  coercesTo : Ty → Ty → Bool                 -- b ∈ COERCES_TO[a]
  integerTypes : Ty → Bool
  realTypes : Ty → Bool
  floatTypes : Ty → Bool
  binCo : Ty → Ty → Option CoKind            -- BINARY_COERCIONS, keyed on `.this` of both operand types
  md : NodeC → Meta
  typedDivision : Bool                       -- what the duckdb parser writes into Div.typed
  defaultNullType : Ty
  duckUn : UnK → ETy → ETy                   -- A-duck
  duckBin : BinK → ETy → ETy → ETy
  duckTern : TernK → ETy → ETy → ETy         -- over the two branches; the condition must be BOOLEAN
  duckPred3 : Pred3K → ETy → ETy → ETy → ETy
  duckWin0 : Win0K → ETy
  duckNumLit : NumLitK → ETy
  duckJoin : NaryK → ETy → ETy → ETy         -- pairwise join of n-ary branch classes (string literals stay literals)
  duckCol : Ty → ETy                         -- typeof(column of that declared type)

section
variable (T : Tables)

/-- `DataType.this`: drops the parameters -/
def stripParam : Ty → Ty
  | .decimalP => .decimal
  | t => t

/-- `TypeAnnotator._maybe_coerce(type1, type2)` -/
def coerce (a b : Ty) : Ty :=
  if a = .decimalP then a
  else if b = .decimalP then b
  else if a = .unknown ∨ b = .unknown then .unknown
  else if a = .null then b
  else if b = .null then a
  else if T.coercesTo a b then b else a

structure Acc where
  lit : Option Ty
  non : Option Ty
  deriving DecidableEq, Repr

/-- the loop of `_annotate_by_args`; `none` = the early `UNKNOWN` return -/
def byArgsLoop : List Sm → Acc → Option Acc
  | [], acc => some acc
  | s :: rest, acc =>
    if s.ty = .unknown then none
    else if s.isLit then byArgsLoop rest { acc with lit := some (coerce T (acc.lit.getD s.ty) s.ty) }
    else byArgsLoop rest { acc with non := some (coerce T (acc.non.getD s.ty) s.ty) }

def byArgsResult : Acc → Ty
  | ⟨some l, some n⟩ => coerce T n l      -- PRIORITIZE_NON_LITERAL_TYPES = False
  | ⟨some l, none⟩ => l
  | ⟨none, some n⟩ => n
  | ⟨none, none⟩ => .unknown

def promoteTy (t : Ty) : Ty :=
  if T.integerTypes (stripParam t) then .bigint
  else if T.floatTypes (stripParam t) then .double
  else t

def byArgs (args : List Sm) (promote : Bool) : Ty :=
  match byArgsLoop T args ⟨none, none⟩ with
  | none => .unknown
  | some acc => if promote then promoteTy T (byArgsResult T acc) else byArgsResult T acc

/-- `_coerce_date_literal(l, unit)` -/
def coDateLiteral (iso : Option Iso) (dateUnit : Bool) : Ty :=
  match iso with
  | some .isoDate => if dateUnit then .date else .datetime
  | some .isoDatetime => .datetime
  | _ => .unknown

/-- `l.name` of a non-literal text operand is assumed not to be ISO -/
def smIso : Sm → Option Iso
  | .strLit i => some i
  | _ => none

/-- `r.args.get("unit")`: only an `exp.Interval` node has one -/
def smDateUnit : Sm → Bool
  | .iv d => d
  | _ => false

/-- `_coerce_date(l, unit)` -/
def coDate (l : Sm) (dateUnit : Bool) : Ty :=
  if dateUnit then stripParam l.ty else .datetime

def applyCo : CoKind → Sm → Sm → Ty
  | .textInterval, l, r => coDateLiteral (smIso l) (smDateUnit r)
  | .intervalText, l, r => coDateLiteral (smIso r) (smDateUnit l)
  | .leftType, l, _ => l.ty
  | .rightType, _, r => r.ty
  | .dateInterval, l, r => coDate l (smDateUnit r)
  | .intervalDate, l, r => coDate r (smDateUnit l)

/-- `_annotate_binary` -/
def annotBinary (pred : Bool) (l r : Sm) : Ty :=
  if pred then .boolean
  else match T.binCo (stripParam l.ty) (stripParam r.ty) with
    | some k => applyCo k l r
    | none => byArgs T [l, r] false

/-- `_annotate_div` -/
def annotDiv (l r : Sm) : Ty :=
  if T.typedDivision && T.integerTypes (stripParam l.ty) && T.integerTypes (stripParam r.ty) then .bigint
  else
    let c := coerce T (stripParam l.ty) (stripParam r.ty)
    if T.realTypes (stripParam c) then c else coerce T c .double

def applyMask : List Bool → List Sm → List Sm
  | true :: m, s :: ss => s :: applyMask m ss
  | false :: m, _ :: ss => applyMask m ss
  | _, _ => []

/-- what an EXPRESSION_METADATA entry of shape `m` puts on a node with the given children (`isNot`: the node is exp.Not) -/
def annotShape (m : Meta) (isNot : Bool) (args : List Sm) (castTo : Ty) : Ty :=
  match m with
  | .returns t => t
  | .binary p => match args with
    | [l, r] => annotBinary T p l r
    | _ => .unknown
  | .unary => match args with
    | [a] => if isNot then .boolean else a.ty
    | _ => .unknown
  | .div => match args with
    | [l, r] => annotDiv T l r
    | _ => .unknown
  | .byArgs m p => byArgs T (applyMask m args) p
  | .castTo => castTo
  | .literal => .unknown       -- literals are leaves (see `sm`)
  | .extract => .int           -- part YEAR: neither TIME, DATE nor an EPOCH part
  | .subquery => match args with
    | [a] => a.ty              -- `selects[0].type` of the (already annotated) inner scope
    | _ => .unknown
  | .arrayOf _ => .unknown     -- a nested type: only its element type is modelled (see `annotBin .arrayElem`)
  | .bracket => .unknown
  | .annotator _ => .unknown   -- container annotators: modelled through the constructor + accessor composites
  | .notModelled => .unknown

/-- the dispatch of `_annotate_expression` on the node class's metadata entry -/
def annotNode (c : NodeC) (args : List Sm) (castTo : Ty) : Ty :=
  annotShape T (T.md c) (c == .not) args castTo

def leafReturns (c : NodeC) : Ty :=
  match T.md c with
  | .returns t => t
  | _ => .unknown


def unNode : UnK → NodeC
  | .neg => .neg | .not => .not | .isNull => .is | .length => .length | .upper => .upper | .lower => .lower | .abs => .abs
  | .sqrt => .sqrt | .ln => .ln | .exp => .exp | .sign => .sign | .ceil => .ceil | .floor => .floor | .round => .round
  | .year => .year | .month => .month | .day => .day | .extractYear => .extract
  | .count => .count | .sum => .sum | .min => .min | .max => .max | .avg => .avg
  | .anyValue => .anyValue | .stddev => .stddev | .variance => .variance | .boolAnd => .logicalAnd | .boolOr => .logicalOr
  | .groupConcat => .groupConcat | .approxDistinct => .approxDistinct
  | .lag => .lag | .lead => .lead | .firstValue => .firstValue | .lastValue => .lastValue
  | .subq => .subquery | .exists => .exists
  | .structField => .dot | .arrayAggElem => .bracket | .mapElem => .bracket
  | .over => .window | .filter => .filter
  | .cast _ => .cast | .tryCast _ => .tryCast

/-- `agg OVER ()` = Window(this = agg), `agg FILTER (WHERE c)` = Filter(this = agg, expression = Where(c)) -/
def isWrap : UnK → Bool
  | .over | .filter => true
  | _ => false

def isAgg : UnK → Bool
  | .count | .sum | .min | .max | .avg | .anyValue | .stddev | .variance | .boolAnd | .boolOr | .groupConcat
  | .approxDistinct => true
  | _ => false

/-- window-only functions: the node is Window(this = F(x)) -/
def isWinFn : UnK → Bool
  | .lag | .lead | .firstValue | .lastValue => true
  | _ => false

def annotUn (k : UnK) (a : Sm) : Ty :=
  match k with
  | .isNull => annotNode T .is [a, .of (leafReturns T .null)] .unknown     -- `a IS NULL` = Is(a, Null())
  | .cast to => annotNode T .cast [a] to
  | .tryCast to => annotNode T .tryCast [a] to
  | .structField =>
    -- PropertyEQ: by-args over its value; `_annotate_struct`: STRUCT<k: that type> (no struct type when it is UNKNOWN);
    -- `_annotate_dot`: the kind of the field of that name
    match T.md .propertyEq, T.md .struct, T.md .dot with
    | .byArgs m p, .annotator "_annotate_struct", .annotator "_annotate_dot" => byArgs T (applyMask m [.of .unknown, a]) p
    | _, _, _ => .unknown
  | .arrayAggElem =>
    match T.md .arrayAgg, T.md .bracket with
    | .arrayOf m, .bracket => byArgs T (applyMask m [a]) false
    | _, _ => .unknown
  | .mapElem =>
    -- Array(x): ARRAY<by-args [x]>; `_annotate_map`: MAP<key type, value element type>; `_annotate_bracket` on a Map node
    -- whose keys contain the subscript: the type of the value node at that position
    match T.md .array, T.md .map, T.md .bracket with
    | .arrayOf _, .annotator "_annotate_map", .bracket => a.ty
    | _, _, _ => .unknown
  | k =>
    if isWinFn k then annotNode T .window [.of (annotNode T (unNode k) [a] .unknown)] .unknown
    else annotNode T (unNode k) [a] .unknown

def binNode : BinK → NodeC
  | .add => .add | .sub => .sub | .mul => .mul | .div => .div | .intdiv => .intdiv | .mod => .mod | .pow => .pow | .eq => .eq
  | .neq => .neq | .lt => .lt | .le => .le | .gt => .gt | .ge => .ge | .and => .and | .or => .or | .dpipe => .dpipe
  | .like => .like | .coalesce => .coalesce | .nullif => .nullif | .concat => .concat | .greatest => .greatest
  | .least => .least | .corr => .corr | .isDistinct => .nullSafeNeq | .ilike => .ilike | .arrayElem => .bracket | .unionCol => .subquery
  | .listConcatElem => .bracket | .sliceElem => .bracket | .unnest2 => .explode

def annotBin (k : BinK) (a b : Sm) : Ty :=
  match k with
  | .arrayElem =>
    -- Array: by-args over the elements, wrapped as ARRAY<result>; Bracket: the element type of its ARRAY operand
    match T.md .array, T.md .bracket with
    | .arrayOf m, .bracket => byArgs T (applyMask m [a, b]) false
    | _, _ => .unknown
  | .sliceElem =>
    -- a slice keeps the array's type (`_annotate_bracket`), the element access then yields its element type
    match T.md .array, T.md .bracket with
    | .arrayOf m, .bracket => byArgs T (applyMask m [a, b]) false
    | _, _ => .unknown
  | .unnest2 =>
    -- `_annotate_explode`: the element type of its ARRAY operand
    match T.md .array, T.md .explode with
    | .arrayOf m, .annotator "_annotate_explode" => byArgs T (applyMask m [a, b]) false
    | _, _ => .unknown
  | .listConcatElem =>
    -- ArrayConcat is typed by-args, which stops at the FIRST nested type: the first list's type wins
    match T.md .array, T.md .arrayConcat, T.md .bracket with
    | .arrayOf m, .byArgs [true, true] false, .bracket => byArgs T (applyMask m [a]) false
    | _, _, _ => .unknown
  | .unionCol =>
    -- `_get_setop_column_types`: `_maybe_coerce(left projection type, right projection type)` (full types, literal-ness
    -- plays no part), then coerced with NULL (identity); the scalar subquery around it takes its single projection's type
    if T.md .subquery = .subquery then coerce T a.ty b.ty else .unknown
  | k => annotNode T (binNode k) [a, b] .unknown

def pred3Node : Pred3K → NodeC
  | .between => .between
  | .inList => .in_

def win0Node : Win0K → NodeC
  | .rowNumber => .rowNumber | .rank => .rank | .denseRank => .denseRank | .cumeDist => .cumeDist
  | .percentRank => .percentRank

def ternNode : TernK → NodeC
  | .caseWhen => .case
  | .iff => .if_

/-- children in the order (condition, then-branch, else-branch) -/
def annotTern (k : TernK) (c a b : Sm) : Ty := annotNode T (ternNode k) [c, a, b] .unknown

def naryNode : NaryK → NodeC
  | .coalesce => .coalesce | .greatest => .greatest | .least => .least | .caseN => .case

/-- the by-args entry (classified on a two-branch sample) takes every branch: `this` + `expressions` for
    Coalesce/Greatest/Least, every THEN + the default (and not the condition) for Case -/
def branchMask (k : NaryK) (m : List Bool) : Bool :=
  match k with
  | .caseN => m == [false, true, true]
  | _ => m == [true, true]

/-- `_annotate_by_args` over arbitrarily many branches -/
def annotNary (k : NaryK) (args : List Sm) : Ty :=
  match T.md (naryNode k) with
  | .returns t => t
  | .byArgs m p => if branchMask k m then byArgs T args p else .unknown
  | _ => .unknown

/-- an expression made of string literals only is a VARCHAR value for whoever consumes it -/
def resolveE : ETy → ETy
  | .strlit => .text
  | e => e

/-- A-duck (n-ary): the engine's class of COALESCE/GREATEST/LEAST/CASE is the left fold of the pairwise join -/
def engNary (k : NaryK) : List ETy → ETy
  | [] => .error
  | e :: rest => resolveE (rest.foldl (T.duckJoin k) e)

/-- A-duck (wrappers): `agg OVER ()` / `agg FILTER (WHERE c)` have the aggregate's own type -/
def engUn (k : UnK) (ea : ETy) : ETy := if isWrap k then resolveE ea else T.duckUn k ea

/-- how a column reference is qualified -/
inductive Qual
  | none                      -- `c`
  | this                      -- `t.c`: the base table of the scope
  | derived (alias : String)  -- `s.c`: a derived table / CTE of the scope (a child scope)
  | other                     -- qualified with something that is not a source of the scope
  deriving DecidableEq, Repr, Inhabited

/-- the projections of a child scope as the parent sees them: name ↦ (the type left on the projection by annotating the
    child scope first, the engine's type class of that column) -/
abbrev Selects := List (String × (Ty × ETy))

/-- the sources of one scope: the base table `t` with its schema columns (normalised lower-case names), and the derived
    tables / CTEs of the scope with their already annotated projections (`_get_source_scope_selects`) -/
structure Schema where
  table : List (String × Ty)
  derived : List (String × Selects) := []

mutual
/-- typed expressions over the columns of one table -/
inductive TExpr
  | col (q : Qual) (name : String)
  | intLit | decLit | strLit (i : Iso) | nullLit | boolLit
  | interval (dateUnit : Bool)
  | numLit (k : NumLitK)
  | win0 (k : Win0K)
  | pred3 (k : Pred3K) (a b c : TExpr)
  | un (k : UnK) (a : TExpr)
  | bin (k : BinK) (a b : TExpr)
  | tern (k : TernK) (c a b : TExpr)
  | nary (k : NaryK) (args : TArgs)
inductive TArgs
  | nil
  | cons (e : TExpr) (rest : TArgs)
end

instance : Inhabited TExpr := ⟨.nullLit⟩

variable (S : Schema)

/-- `_annotate_expression` on a Column: a column qualified with the base table is looked up in the schema
    (`schema.get_column_type`, UNKNOWN when there is no such column); a column qualified with a derived table / CTE takes the
    type of the child scope's projection of that name (`_get_scope_source_selects`); an unqualified column, or one qualified
    with something that is not a source, is left UNKNOWN (annotate_types does not qualify). -/
def annotCol (q : Qual) (name : String) : Ty :=
  match q with
  | .this => (S.table.lookup name).getD .unknown
  | .derived a =>
    -- `_get_scope_source_selects(scope, alias).get(name)`; no such source / no such projection: UNKNOWN
    match (S.derived.lookup a).bind (·.lookup name) with
    | some (t, _) => t
    | none => .unknown
  | _ => .unknown

mutual
/-- the annotator's view of a node after annotating it (bottom-up, as `_annotate_expression`'s explicit stack does) -/
def sm : TExpr → Sm
  | .col q n => .of (annotCol S q n)
  | .intLit => if T.md .literal = .literal then .intLit else .of .unknown
  | .decLit => if T.md .literal = .literal then .decLit else .of .unknown
  | .strLit i => if T.md .literal = .literal then .strLit i else .of .unknown
  | .nullLit => .of (leafReturns T .null)
  | .boolLit => .of (leafReturns T .boolean)
  | .interval d => if T.md .interval = .returns .interval then .iv d else .of (leafReturns T .interval)
  | .numLit k =>
    if T.md .literal = .literal then (match k with | .sci => .decLit | _ => .intLit) else .of .unknown
  | .win0 k => .of (annotNode T .window [.of (leafReturns T (win0Node k))] .unknown)
  | .pred3 k _ _ _ => .of (leafReturns T (pred3Node k))
  | .un k a => .of (annotUn T k (sm a))
  | .bin k a b => .of (annotBin T k (sm a) (sm b))
  | .tern k c a b => .of (annotTern T k (sm c) (sm a) (sm b))
  | .nary k args => .of (annotNary T k (smArgs args))
def smArgs : TArgs → List Sm
  | .nil => []
  | .cons e rest => sm e :: smArgs rest
end

/-- the type `_annotate_expression` leaves on the node -/
def annot (e : TExpr) : Ty := (sm T S e).ty

/-- after `annotate`: NULL-typed nodes are rewritten to DEFAULT_NULL_TYPE -/
def finalTy (t : Ty) : Ty := if t = .null then T.defaultNullType else t

def annotFinal (e : TExpr) : Ty := finalTy T (annot T S e)

mutual
/-- A-duck: the engine's class for an expression, composed from the class-level table -/
def eng : TExpr → ETy
  | .col q n =>
    match q with
    | .other => .error                -- no such table
    | .derived a =>
      match (S.derived.lookup a).bind (·.lookup n) with
      | some (_, e) => e
      | none => .error
    | _ =>
      match S.table.lookup n with
      | some t => T.duckCol t         -- DuckDB resolves an unqualified column of the only table
      | none => .error
  | .intLit => .integer
  | .decLit => .decimal
  | .strLit _ => .strlit
  | .nullLit => .null
  | .boolLit => .boolean
  | .interval _ => .interval
  | .numLit k => T.duckNumLit k
  | .win0 k => T.duckWin0 k
  | .pred3 k a b c => T.duckPred3 k (eng a) (eng b) (eng c)
  | .un k a => engUn T k (eng a)
  | .bin k a b => T.duckBin k (eng a) (eng b)
  | .tern k c a b => if eng c = .boolean then T.duckTern k (eng a) (eng b) else .error
  | .nary k args => engNary T k (engArgs args)
def engArgs : TArgs → List ETy
  | .nil => []
  | .cons e rest => eng e :: engArgs rest
end

end

/-- the annotator's summary and the engine's class describe the same kind of value -/
def Rel (s : Sm) (e : ETy) : Bool :=
  match s with
  | .strLit _ => e == .strlit
  | s => e != .strlit && eclassOf e == some (classOf s.ty)

def compat (s : Sm) : List ETy := ETy.all.filter (Rel s)

/-- operand summaries with an inferred type (an operand left UNKNOWN is outside `WellFormed`) -/
def Sm.typed : List Sm := Sm.all.filter (· != .of .unknown)

/-! ### The disagreement families

Decidable predicates over operator × operand summaries (what the annotator sees) × operand engine classes. Properties/C16.lean
proves by complete finite decision that, for typed operands, an operator/operand combination the engine accepts disagrees
IF AND ONLY IF it is in one of these families; each family is a known-finding entry of the check. -/

inductive Family
  | nullOnlyArith        -- arithmetic / SUM over NULL literals only: sqlglot NULL -> UNKNOWN, DuckDB picks an integer overload
  | decimalNullArith     -- fixed-point DECIMAL ∘ NULL: DuckDB reports the SQLNULL type
  | strlitNullArith      -- string literal ∘ NULL: sqlglot VARCHAR, DuckDB a numeric overload
  | concatNull           -- x || NULL: sqlglot VARCHAR, DuckDB SQLNULL
  | dateInterval         -- DATE ± INTERVAL <date unit>: sqlglot DATE, DuckDB TIMESTAMP
  | temporalDiff         -- <temporal | string literal | NULL> - <temporal>: sqlglot the coerced operand type, DuckDB BIGINT / INTERVAL
  | mixedChainArith      -- operands from different chains: the first type (or a parameterised DECIMAL) is kept
  | intervalMinusString  -- INTERVAL - 'literal': BINARY_COERCIONS types it as a date literal, DuckDB as INTERVAL
  | mixedChainBranches   -- CASE / IF / COALESCE / GREATEST / LEAST branches from different chains
  | sumBoolean           -- SUM(BOOLEAN): sqlglot BOOLEAN, DuckDB HUGEINT
  | avgTemporal          -- AVG(date | timestamp | interval): sqlglot DOUBLE, DuckDB the temporal type
  | ceilFloorInt         -- CEIL / FLOOR declared INT; DuckDB keeps DOUBLE / DECIMAL
  | roundDouble          -- ROUND declared DOUBLE; DuckDB keeps the integer
  | corrBinary           -- CORR typed as a Binary (coerced operand type); DuckDB DOUBLE
  | intLiteralOverflow   -- an integer literal beyond HUGEINT: `_annotate_literal` says INT, DuckDB reads it as DOUBLE
  | genericFunction      -- a disagreement of one of the generic (not individually modelled) metadata functions, see `famFn`
  deriving DecidableEq, Repr, Inhabited

def Family.all : List Family :=
  [.nullOnlyArith, .decimalNullArith, .strlitNullArith, .concatNull, .dateInterval, .temporalDiff, .mixedChainArith,
   .intervalMinusString, .mixedChainBranches, .sumBoolean, .avgTemporal, .ceilFloorInt, .roundDouble, .corrBinary,
   .intLiteralOverflow]

def smClass (s : Sm) : TyClass := classOf s.ty

def isNum (s : Sm) : Bool := smClass s == .integer || smClass s == .decimal

def isNullTy (s : Sm) : Bool := s.ty == .null

def isStr : Sm → Bool
  | .strLit _ => true
  | _ => false

def isTemporal (s : Sm) : Bool := smClass s == .date || smClass s == .timestamp

/-- the column types of the property's quantifier (as the duckdb dialect parses BOOLEAN, TINYINT..BIGINT, DOUBLE,
    DECIMAL(18,3), VARCHAR, DATE, TIMESTAMP) -/
def colTypes : List Ty :=
  [.boolean, .tinyint, .smallint, .int, .bigint, .double, .decimalP, .text, .date, .timestampntz]

def famUn (k : UnK) (a : Sm) (_ea : ETy) : Option Family :=
  match k with
  | .neg | .abs => if isNullTy a then some .nullOnlyArith else none
  | .sum => if isNullTy a then some .nullOnlyArith else if smClass a == .boolean then some .sumBoolean else none
  | .avg => if isTemporal a || smClass a == .interval then some .avgTemporal else none
  | .ceil | .floor => if isNum a || isNullTy a then some .ceilFloorInt else none
  | .round => if smClass a == .integer || isNullTy a then some .roundDouble else none
  | _ => none

/-- CASE / IF / COALESCE / GREATEST / LEAST over two branches -/
def famBranches (a b : Sm) : Option Family :=
  if (smClass a == .boolean && smClass b == .integer)
     || (a == .intLit && smClass b == .boolean)
     || (smClass a == .date && b == .of .timestampntz)     -- TIMESTAMPNTZ is in no chain
     || (isStr a && (b == .intLit || b == .decLit))
  then some .mixedChainBranches else none

def isArith : BinK → Bool
  | .add | .sub | .mul | .div | .intdiv | .mod | .pow => true
  | _ => false

/-- DuckDB's implicit-cast order between classes, as UNION uses it (NULL lowest, VARCHAR highest) -/
def unionRank : TyClass → Nat
  | .nullUnknown => 0 | .boolean => 1 | .integer => 2 | .decimal => 3 | .date => 4 | .timestamp => 5 | .interval => 6
  | .text => 7

/-- UNION branches: `_maybe_coerce` keeps the first branch's type across chains, DuckDB casts to the higher class: they
    disagree exactly when the coerced type's class is below one of the branch classes in DuckDB's order -/
def famUnion (T : Tables) (a b : Sm) : Option Family :=
  let r := unionRank (classOf (coerce T a.ty b.ty))
  if r < unionRank (smClass a) || r < unionRank (smClass b) then some .mixedChainBranches else none

def famBin (T : Tables) (k : BinK) (a b : Sm) (ea eb : ETy) : Option Family :=
  match k with
  | .coalesce | .greatest | .least | .arrayElem | .sliceElem | .unnest2 => famBranches a b
  | .unionCol => famUnion T a b
  | .listConcatElem =>
    -- the first list's element type is kept; DuckDB casts both lists to the higher class
    if unionRank (smClass a) < unionRank (smClass b) then some .mixedChainBranches else none
  | .dpipe => if ea == .null || eb == .null then some .concatNull else none
  | .corr => if smClass a == .decimal || smClass b == .decimal then none else some .corrBinary
  | .add | .sub | .mul | .intdiv | .mod | .div =>
    if isNullTy a && isNullTy b && k != .div then some .nullOnlyArith
    else if (k == .add || k == .sub || k == .mul || k == .mod) && ((ea == .decimal && isNullTy b) || (isNullTy a && eb == .decimal))
      then some .decimalNullArith
    else if k != .mul && ((isStr a && isNullTy b) || (isNullTy a && isStr b)) then some .strlitNullArith
    else if (k == .add || k == .sub) && ((smClass a == .date && b == .iv true) || (k == .add && a == .iv true && smClass b == .date))
      then some .dateInterval
    else if k == .sub && isTemporal b && (isTemporal a || isStr a || isNullTy a) then some .temporalDiff
    else if k == .sub && smClass a == .interval && isStr b then some .intervalMinusString
    else if (k == .add && smClass a == .integer && !a.isLit && smClass b == .date)
         || (k == .add && smClass a == .interval && smClass b == .timestamp)
         || (k == .mul && isNum a && !a.isLit && smClass b == .interval)
         || (k == .mul && smClass a == .interval && b == .of .decimalP)
      then some .mixedChainArith
    else none
  | _ => none

def famTern (_k : TernK) (a b : Sm) : Option Family := famBranches a b

def famNumLit : NumLitK → Option Family
  | .overflow => some .intLiteralOverflow
  | _ => none

mutual
def hasCol : TExpr → Bool
  | .col _ _ => true
  | .un _ a => hasCol a
  | .bin _ a b => hasCol a || hasCol b
  | .tern _ c a b => hasCol c || hasCol a || hasCol b
  | .pred3 _ a b c => hasCol a || hasCol b || hasCol c
  | .nary _ args => hasColArgs args
  | _ => false
def hasColArgs : TArgs → Bool
  | .nil => false
  | .cons e rest => hasCol e || hasColArgs rest
end

def isLeaf : TExpr → Bool
  | .un _ _ | .bin _ _ _ | .tern _ _ _ _ | .nary _ _ | .pred3 _ _ _ _ => false
  | _ => true

def isNullLit : TExpr → Bool
  | .nullLit => true
  | _ => false

/-- CAST only to the listed target types -/
def unKnown : UnK → Bool
  | .cast to => castTargets.contains to
  | .tryCast to => castTargets.contains to
  | _ => true

def isAggNode : TExpr → Bool
  | .un k _ => isAgg k
  | _ => false

section
variable (T : Tables) (S : Schema)

mutual
/-- no operand of the engine's SQLNULL type (a NULL literal, or e.g. `CASE WHEN c THEN NULL ELSE NULL END`) directly under a
    NULL-propagating operator: DuckDB's binder folds such a call to a constant NULL, which `||` and DECIMAL arithmetic then
    type like the NULL literal. SQLNULL operands remain allowed as CASE / IF branches and COALESCE / GREATEST / LEAST
    arguments. -/
def nullSafe : TExpr → Bool
  | .un _ a => eng T S a != .null && nullSafe a
  | .bin k a b => (k == .coalesce || (eng T S a != .null && eng T S b != .null)) && nullSafe a && nullSafe b
  | .tern _ c a b => eng T S c != .null && nullSafe c && nullSafe a && nullSafe b
  | .pred3 _ a b c =>
    eng T S a != .null && eng T S b != .null && eng T S c != .null && nullSafe a && nullSafe b && nullSafe c
  | .nary _ args => nullSafeArgs args
  | _ => true
def nullSafeArgs : TArgs → Bool
  | .nil => true
  | .cons e rest => nullSafe e && nullSafeArgs rest
end

/-- an operand is a leaf, or mentions a column and is `nullSafe` (it is not folded to a constant at bind time) -/
def operandOk (e : TExpr) : Bool := isLeaf e || (hasCol e && nullSafe T S e)

/-- an operand the theorem talks about: well-scoped and with an inferred type -/
def typedOperand (e : TExpr) : Bool := operandOk T S e && sm T S e != .of .unknown

/-! n-ary branches: the state of `_annotate_by_args` (two accumulators) runs along the engine's running join -/

/-- the by-args state seen as an operand summary -/
def accSm (acc : Acc) : Option Sm :=
  match acc.non, acc.lit with
  | none, none => none
  | none, some .int => some .intLit
  | none, some .double => some .decLit
  | none, some .varchar => some (.strLit .other)
  | none, some l => some (.of l)
  | some n, none => some (.of n)
  | some n, some l => some (.of (coerce T n l))

/-- one iteration of the loop of `_annotate_by_args` -/
def byArgsStep (acc : Acc) (s : Sm) : Option Acc := byArgsLoop T [s] acc

/-- a literal accumulator seen as a literal operand -/
def litSm : Ty → Sm
  | .int => .intLit
  | .double => .decLit
  | .varchar => .strLit .other
  | t => .of t

/-- the next branch is not a mixed-chain pair (`famBranches`) with the running result, nor with the LITERAL accumulator on its
    own: `COALESCE('abc', t.i, 1.5)` keeps INT (the literal accumulator stays VARCHAR and the non-literal one wins) although
    `COALESCE('abc', t.i)` and `COALESCE(t.i, 1.5)` both agree with DuckDB -/
def stepOk (acc : Acc) (s : Sm) : Bool :=
  match accSm T acc with
  | none => true
  | some r =>
    (famBranches r s).isNone
    && (match acc.lit with
        | some l => (famBranches (litSm l) s).isNone
        | none => true)

/-- the states of the by-args loop run along the engine's running join: every further branch stays in chain (`stepOk`) and
    the join table accepts it -/
def naryRun (k : NaryK) : Acc → ETy → List Sm → List ETy → Bool
  | _, _, [], [] => true
  | acc, e, s :: ss, es :: ess =>
    stepOk T acc s
    && (match byArgsStep T acc s with
        | none => false
        | some acc' => T.duckJoin k e es != .error && naryRun k acc' (T.duckJoin k e es) ss ess)
  | _, _, _, _ => false

def naryOk (k : NaryK) (ss : List Sm) (es : List ETy) : Bool :=
  match ss, es with
  | s :: ss', e :: es' =>
    (match byArgsStep T ⟨none, none⟩ s with
     | none => false
     | some acc => naryRun T k acc e ss' es')
  | _, _ => false

mutual
/-- `WellFormed`: columns are qualified columns of the table with one of the property's types; every operand is well-scoped
    (see `operandOk`) and has an inferred type; every node is accepted by the engine table and is in none of the disagreement
    families; an n-ary node's branches stay in one coercion chain (`stepOk`). -/
def WF : TExpr → Bool
  | .col q n =>
    match q with
    | .this => (match S.table.lookup n with | some t => colTypes.contains t | none => false)
    | .derived a =>
      -- a projection of a child scope: it has an inferred type that describes the engine's column type
      (match (S.derived.lookup a).bind (·.lookup n) with
       | some (t, e) => Rel (.of t) e && t != .unknown
       | none => false)
    | _ => false
  | .intLit | .decLit | .strLit _ | .nullLit | .boolLit | .interval _ | .win0 _ => true
  | .numLit k => (famNumLit k).isNone
  | .pred3 k a b c =>
    WF a && WF b && WF c && (typedOperand T S a && typedOperand T S b && typedOperand T S c)
    && T.duckPred3 k (eng T S a) (eng T S b) (eng T S c) != .error
  | .un k a =>
    WF a && typedOperand T S a && (!isWrap k || isAggNode a) && unKnown k
    && (famUn k (sm T S a) (eng T S a)).isNone && engUn T k (eng T S a) != .error
  | .bin k a b =>
    WF a && WF b && (typedOperand T S a && typedOperand T S b)
    && (famBin T k (sm T S a) (sm T S b) (eng T S a) (eng T S b)).isNone && T.duckBin k (eng T S a) (eng T S b) != .error
  | .tern k c a b =>
    WF c && WF a && WF b && (typedOperand T S c && typedOperand T S a && typedOperand T S b) && eng T S c == .boolean
    && (famTern k (sm T S a) (sm T S b)).isNone && T.duckTern k (eng T S a) (eng T S b) != .error
  | .nary k args =>
    WFArgs args && naryOk T k (smArgs T S args) (engArgs T S args) && argsTyped args
def WFArgs : TArgs → Bool
  | .nil => true
  | .cons e rest => WF e && WFArgs rest
def argsTyped : TArgs → Bool
  | .nil => true
  | .cons e rest => typedOperand T S e && argsTyped rest
end

end

section
variable (T : Tables)

/-! the finite obligations on the tables (decided completely in Properties/C16.lean against the generated tables) -/

def leafCheck : Bool :=
  colTypes.all (fun t => Rel (.of t) (T.duckCol t))
  && T.md .literal == .literal
  && T.md .interval == .returns .interval
  && Rel (.of (leafReturns T .null)) .null
  && Rel (.of (leafReturns T .boolean)) .boolean

/-- the added leaves and the three-operand predicates: number literals agree iff not in a family; argument-less window
    functions agree; BETWEEN / IN are BOOLEAN on both sides whatever their (accepted) operands -/
def extraCheck : Bool :=
  (NumLitK.all.all fun k =>
    (famNumLit k).isNone ==
      Rel (if T.md .literal = .literal then (match k with | .sci => Sm.decLit | _ => Sm.intLit) else .of .unknown) (T.duckNumLit k))
  && (Win0K.all.all fun k => Rel (.of (annotNode T .window [.of (leafReturns T (win0Node k))] .unknown)) (T.duckWin0 k))
  && (Pred3K.all.all fun k => ETy.all.all fun ea => ETy.all.all fun eb => ETy.all.all fun ec =>
        T.duckPred3 k ea eb ec == .error || Rel (.of (leafReturns T (pred3Node k))) (T.duckPred3 k ea eb ec))

/-- for typed operands: accepted ⇒ (agrees ⇔ in no family) -/
def unCheck : Bool :=
  UnK.all.all fun k => Sm.typed.all fun a => (compat a).all fun ea =>
    engUn T k ea == .error || ((famUn k a ea).isNone == Rel (.of (annotUn T k a)) (engUn T k ea))

def binCheck : Bool :=
  BinK.all.all fun k => Sm.typed.all fun a => Sm.typed.all fun b => (compat a).all fun ea => (compat b).all fun eb =>
    T.duckBin k ea eb == .error || ((famBin T k a b ea eb).isNone == Rel (.of (annotBin T k a b)) (T.duckBin k ea eb))

/-- the condition of CASE / IF takes no part in the typing -/
def ternCondCheck : Bool :=
  TernK.all.all fun k => Sm.all.all fun c => Sm.typed.all fun a => Sm.typed.all fun b =>
    annotTern T k c a b == annotTern T k (.of .boolean) a b

def ternCheck : Bool :=
  TernK.all.all fun k => Sm.typed.all fun a => Sm.typed.all fun b => (compat a).all fun ea => (compat b).all fun eb =>
    T.duckTern k ea eb == .error
    || ((famTern k a b).isNone == Rel (.of (annotTern T k (.of .boolean) a b)) (T.duckTern k ea eb))

/-! n-ary -/

def litTys : List (Option Ty) := [none, some .int, some .double, some .varchar]

def Acc.all : List Acc := litTys.flatMap fun l => (none :: Ty.all.map some).map fun n => ⟨l, n⟩

def litOk (acc : Acc) : Bool := litTys.contains acc.lit

/-- the by-args state and the engine's running (unresolved) join describe the same kind of value -/
def InvN (acc : Acc) (e : ETy) : Bool :=
  match accSm T acc with
  | none => false
  | some s => Rel s e && s != .of .unknown

def naryPromote (k : NaryK) : Option Bool :=
  match T.md (naryNode k) with
  | .byArgs m p => if branchMask k m then some p else none
  | _ => none

def finishTy (p : Bool) (acc : Acc) : Ty := if p then promoteTy T (byArgsResult T acc) else byArgsResult T acc

def naryCheck : Bool :=
  -- the metadata entries take every branch
  (NaryK.all.all fun k => (naryPromote T k).isSome)
  -- the first branch establishes the invariant
  && (Sm.typed.all fun s => (compat s).all fun es =>
        match byArgsStep T ⟨none, none⟩ s with
        | none => false
        | some acc => InvN T acc es && litOk acc)
  -- every in-chain step preserves it
  && (NaryK.all.all fun k => Acc.all.all fun acc =>
        match accSm T acc with
        | none => true
        | some r => (compat r).all fun e => Sm.typed.all fun s => (compat s).all fun es =>
            !(InvN T acc e && litOk acc && stepOk T acc s) ||
            (match byArgsStep T acc s with
             | none => true
             | some acc' => T.duckJoin k e es == .error || (InvN T acc' (T.duckJoin k e es) && litOk acc')))
  -- at the end the by-args result and the resolved join agree
  && (NaryK.all.all fun k => Acc.all.all fun acc =>
        match accSm T acc with
        | none => true
        | some r => (compat r).all fun e =>
            !(InvN T acc e) || Rel (.of (finishTy T ((naryPromote T k).getD false) acc)) (resolveE e))

def TablesOk : Bool :=
  leafCheck T && unCheck T && binCheck T && ternCondCheck T && ternCheck T && naryCheck T

/-- the depth-1 census: (accepted, agreeing, disagreeing per family) over operator × typed operand summaries × compatible
    engine classes -/
def censusUn : List (Option Family) :=
  UnK.all.flatMap fun k => Sm.typed.flatMap fun a => (compat a).filterMap fun ea =>
    if engUn T k ea == .error then none else some (famUn k a ea)
def censusBin : List (Option Family) :=
  BinK.all.flatMap fun k => Sm.typed.flatMap fun a => Sm.typed.flatMap fun b => (compat a).flatMap fun ea =>
    (compat b).filterMap fun eb => if T.duckBin k ea eb == .error then none else some (famBin T k a b ea eb)
def censusTern : List (Option Family) :=
  TernK.all.flatMap fun k => Sm.typed.flatMap fun a => Sm.typed.flatMap fun b => (compat a).flatMap fun ea =>
    (compat b).filterMap fun eb => if T.duckTern k ea eb == .error then none else some (famTern k a b)

end

/-! ### scopes: derived tables, and the per-call cache of their projections -/

/-- what a column of a derived table is to the engine: a projected string literal is a VARCHAR column; every other class is
    kept, including the SQLNULL type of a projected NULL literal (validated against DuckDB by the harness) -/
def resolveCol : ETy → ETy
  | .strlit => .text
  | e => e

section
variable (T : Tables)

/-- annotate a child scope first (`traverse_scope` yields inner scopes before outer ones): its projections `e AS name` over
    the sources `S`, as the parent scope will see them -/
def selectsOf (S : Schema) (projs : List (String × TExpr)) : Selects :=
  projs.map fun (n, e) => (n, (annot T S e, resolveCol (eng T S e)))

/-- the parent scope: the same base table, plus the derived tables `alias ↦ projections` (each annotated over `S`) -/
def deriveScope (S : Schema) (ds : List (String × List (String × TExpr))) : Schema :=
  { table := S.table, derived := ds.map fun (a, ps) => (a, selectsOf T S ps) }

end

/-- `TypeAnnotator._scope_source_selects`: the key is `(scope, source_name)` — or, `withScope = false`, the source name alone -/
abbrev SelCache := List ((Nat × String) × Selects)

def cacheKey (withScope : Bool) (scopeId : Nat) (alias : String) : Nat × String :=
  (if withScope then scopeId else 0, alias)

/-- what `_get_scope_source_selects` computes on a miss -/
def sourceSelects (S : Schema) (alias : String) : Selects := (S.derived.lookup alias).getD []

def cachedSelects (withScope : Bool) (cache : SelCache) (scopeId : Nat) (S : Schema) (alias : String) : SelCache × Selects :=
  match cache.lookup (cacheKey withScope scopeId alias) with
  | some sel => (cache, sel)
  | none => ((cacheKey withScope scopeId alias, sourceSelects S alias) :: cache, sourceSelects S alias)

def selTy (sel : Selects) (name : String) : Ty :=
  match sel.lookup name with
  | some (t, _) => t
  | none => .unknown

/-- the column references `alias.name` of one scope, resolved in order through the shared cache -/
def resolveRefs (withScope : Bool) (scopeId : Nat) (S : Schema) : SelCache → List (String × String) → SelCache × List Ty
  | cache, [] => (cache, [])
  | cache, (a, n) :: rest =>
    let (cache1, sel) := cachedSelects withScope cache scopeId S a
    let (cache2, tys) := resolveRefs withScope scopeId S cache1 rest
    (cache2, selTy sel n :: tys)

/-- one `annotate_types` call over a statement: scope after scope (ids in traversal order), ONE cache for the whole call -/
def runScopes (withScope : Bool) : SelCache → Nat → List (Schema × List (String × String)) → List (List Ty)
  | _, _, [] => []
  | cache, i, (S, refs) :: rest =>
    let (cache', tys) := resolveRefs withScope i S cache refs
    tys :: runScopes withScope cache' (i + 1) rest

/-- the specification: every reference resolved against its own scope's sources -/
def uncachedScopes (qs : List (Schema × List (String × String))) : List (List Ty) :=
  qs.map fun (S, refs) => refs.map fun (a, n) => selTy (sourceSelects S a) n

/-- the per-call caches of `TypeAnnotator` whose VALUE depends on the scope they were computed in -/
def scopeDependentCaches : List String := ["_scope_source_selects"]

/-- the caches the model knows: those keyed by `id(node)` are scope independent -/
def knownCaches : List String := ["_visited", "_null_expressions", "_setop_column_types", "_scope_source_selects"]

/-- obligation on the cache inventory extracted from the source (`name`, `every key expression mentions a Scope`): only known
    caches, every scope-dependent one is present and has the scope in its key -/
def cachesOk (inv : List (String × Bool)) : Bool :=
  inv.all (fun (n, hasScope) => knownCaches.contains n && (!(scopeDependentCaches.contains n) || hasScope))
  && scopeDependentCaches.all (fun n => (inv.map (·.1)).contains n)

/-! ### where annotate_types writes (for "annotation never changes the SQL that the tree generates") -/

inductive WriteKind
  | setsType    -- sets the inferred type on the node
  | metaOnly    -- annotation metadata on the node (`nonnull`, `query_type`, `dot_parts`): not rendered
  | freshType   -- fills in a DataType that was just built
  | treeRewrite -- rewrites the tree itself
  deriving DecidableEq, Repr, Inhabited

/-- the audited write sites of sqlglot/optimizer/annotate_types.py: (function, target, call|assign) ↦ kind. The only tree
    rewrite is `_restore_dot_parts` (it un-normalises the keys of dot access into JSON / MAP / VARIANT columns, by design);
    the two known "annotation changed the SQL" findings come from type-directed GENERATION (generators/duckdb.py reads the
    `.type` annotation left on the argument of UPPER / LOWER / BOOL_AND / BOOL_OR), not from a rewrite here. -/
def auditedWriteSites : List ((String × String × String) × WriteKind) :=
  [(("_set_type", "expression._type", "assign"), .setsType),
   (("_annotate_binary", "expression.meta", "assign"), .metaOnly),
   (("_annotate_unary", "expression.meta", "assign"), .metaOnly),
   (("_annotate_literal", "expression.meta", "assign"), .metaOnly),
   (("_annotate_expression", "expr.meta", "assign"), .metaOnly),
   (("annotate_scope", "scope.expression.meta", "assign"), .metaOnly),
   (("_restore_dot_parts", "expr.meta.pop", "call"), .metaOnly),
   (("_annotate_map", "map_type.set", "call"), .freshType),
   (("_annotate_to_map", "map_type.set", "call"), .freshType),
   (("_restore_dot_parts", "identifier.set", "call"), .treeRewrite),
   (("_restore_dot_parts", "identifier.replace", "call"), .treeRewrite)]

def writeKind (s : String × String × String) : Option WriteKind := auditedWriteSites.lookup s

/-- every write site found in the source is audited, and the tree-rewriting ones are exactly those of `_restore_dot_parts` -/
def writeSitesOk (sites : List (String × String × String)) : Bool :=
  sites.all (fun s => (writeKind s).isSome)
  && (sites.filter fun s => writeKind s == some .treeRewrite).all (fun s => s.1 == "_restore_dot_parts")

/-! ### the other EXPRESSION_METADATA entries (generic functions; table regenerated and decided in the THOROUGH tier) -/

/-- the generic-function tables written into Generated/C16Fn.lean: entry `i` is one duckdb EXPRESSION_METADATA class (not among
    the modelled node classes) instantiated with `arity` scalar arguments whose duckdb rendering parses back to the same node -/
structure FnTables where
  count : Nat
  name : Nat → String
  arity : Nat → Nat
  shape : Nat → Meta                    -- the entry's shape (spy annotator), mask over the instantiated arguments
  duck1 : Nat → ETy → ETy               -- A-duck for the function, arity 1
  duck2 : Nat → ETy → ETy → ETy         -- arity 2

/-- the known disagreements among the generic functions, by function name and the type the entry's shape yields. All are
    Binary / Unary subclasses typed by the blanket `_annotate_binary` / `_annotate_unary` entries (the coerced operand type)
    while DuckDB's function has a fixed result class: they agree only when the coerced type happens to be in that class.
    * ArrayPosition (LIST_POSITION → INTEGER), BitwiseAnd/Or/Xor/LeftShift/RightShift/Not (→ an integer) with NULL or
      string-literal operands; * JSONExtractScalar (`->>` → VARCHAR); * DateBin with a NULL origin (by-args over it). -/
def famFn (name : String) (annotated : Ty) : Option Family :=
  let c := classOf annotated
  if (name == "ArrayPosition" || name == "BitwiseAnd" || name == "BitwiseOr" || name == "BitwiseXor"
      || name == "BitwiseLeftShift" || name == "BitwiseRightShift" || name == "BitwiseNot") && c != .integer
  then some .genericFunction
  else if name == "JSONExtractScalar" && c != .text then some .genericFunction
  else if name == "DateBin" && c == .nullUnknown then some .genericFunction
  else none

section
variable (T : Tables) (F : FnTables)

/-- the engine makes a claim in one of the property's classes -/
def claims (e : ETy) : Bool := e != .error && e != .other

/-- complete decision for the generic functions: accepted (with a result in one of the property's classes) ⇒ (agrees ⇔ not a
    known disagreement), over every entry × typed operand summaries × compatible engine classes -/
def fnCheck : Bool :=
  (List.range F.count).all fun i =>
    if F.arity i == 1 then
      Sm.typed.all fun a => (compat a).all fun ea =>
        let t := annotShape T (F.shape i) false [a] .unknown
        !(claims (F.duck1 i ea)) || ((famFn (F.name i) t).isNone == Rel (.of t) (F.duck1 i ea))
    else
      Sm.typed.all fun a => Sm.typed.all fun b => (compat a).all fun ea => (compat b).all fun eb =>
        let t := annotShape T (F.shape i) false [a, b] .unknown
        !(claims (F.duck2 i ea eb)) || ((famFn (F.name i) t).isNone == Rel (.of t) (F.duck2 i ea eb))

/-- (entry, operands) combinations on which the engine makes a claim: (agreeing, disagreeing) -/
def censusFn : Nat × Nat :=
  let l : List Bool := (List.range F.count).flatMap fun i =>
    if F.arity i == 1 then
      Sm.typed.flatMap fun a => (compat a).filterMap fun ea =>
        if claims (F.duck1 i ea) then some (famFn (F.name i) (annotShape T (F.shape i) false [a] .unknown)).isNone else none
    else
      Sm.typed.flatMap fun a => Sm.typed.flatMap fun b => (compat a).flatMap fun ea => (compat b).filterMap fun eb =>
        if claims (F.duck2 i ea eb) then some (famFn (F.name i) (annotShape T (F.shape i) false [a, b] .unknown)).isNone
        else none
  ((l.filter id).length, (l.filter (!·)).length)

end

/-! ### decimals' precision / scale

sqlglot never computes a precision or scale: `_maybe_coerce` returns a parameterised `type1` as it is, else a parameterised
`type2` as it is ("we assume type1 does not coerce into type2"), and `_annotate_div` works on `.this` (parameters dropped).
DuckDB computes DECIMAL(p, s) results with storage-width dependent caps; the property compares type CLASSES only, and the
class of DECIMAL arithmetic is in the engine table (`decimal` / `double`). -/

structure Dec where
  p : Nat
  s : Nat
  deriving DecidableEq, Repr

/-- the parameters of `_maybe_coerce(type1, type2)` when the operands are numeric and `none` = not parameterised -/
def sgDecCoerce (a b : Option Dec) : Option Dec :=
  match a with
  | some d => some d
  | none => b

/-- the parameters of the type annotated on `a <op> b` (both non-literal operands): by-args for + - * %, `_annotate_div` for / -/
def sgDecArith (isDiv : Bool) (a b : Option Dec) : Option Dec := if isDiv then none else sgDecCoerce a b

end SqlglotModel.Types
