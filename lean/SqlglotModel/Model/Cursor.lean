/-
  C05 — cursor discipline of `sqlglot.parser.Parser` (sqlglot/parser.py:1991-2131, 8918-8953, 9765-9767).

  What is modelled (exactly, statement by statement):
    * `_advance(k)`      — index += k, one step; IndexError (`tokens[index - 1]`) iff the new index is > size
    * `_retreat(i)`      — no-op when already there, otherwise one `_advance(i - index)`
    * `_match`, `_match_set`, `_match_pair`, `_match(…, advance=False)`
    * `raise_error`      — raises ParseError under IMMEDIATE, otherwise appends to `self.errors`
    * `_try_parse`       — forces IMMEDIATE, swallows ParseError, `finally:` retreat when the result is falsy or
                           `retreat=True`, restores the error level (also when an internal exception flies through)
    * `_parse_csv`       — element, then `while self._match(sep): element`
    * `_parse_wrapped`   — `(`, "Expecting (" unless optional, body, `_match_r_paren` only when wrapped
    * the idioms the ~200 `_parse_*` methods are built from: `x = p(); if not x: return None; return q()` (andThen),
      `a = p(); b = q(); return node` (both), `p() or q()` (orElse), save-index / retreat-on-failure (attempt),
      `while True: x = p(); if not x: break` (many)
    * the per-chunk funnel of `_parse_batch_statements`: body, "Invalid expression / Unexpected token" when tokens
      are left over, `check_errors` (ParseError under RAISE when errors were recorded)

  What is NOT modelled: trees (a result is only none / falsy / truthy), comments, token texts, `_match_texts`,
  the contents of the real `_parse_*` methods (they are arbitrary `P`s constrained by the contracts below, which
  the harness monitors on the real parser).

  Python partial operations are explicit: `Out.internal` is the IndexError of `_advance`; `Out.diverged` is a
  loop that is still running when the iteration fuel is exhausted (Python would not return).
  No proofs in this file.
-/
namespace SqlglotModel.Cursor

abbrev Tok := Nat

/-- `TokenType.L_PAREN`, `R_PAREN`, `COMMA` in the harness' token numbering -/
def LP : Tok := 0
def RP : Tok := 1
def COMMA : Tok := 2

inductive Level where
  | ignore | warn | raise | immediate
  deriving DecidableEq, Repr

/-- what the callers look at: `is None`, truthiness -/
inductive Val where
  | none    -- Python None
  | falsy   -- False / [] (not None, but `not x` holds)
  | truthy
  deriving DecidableEq, Repr

def Val.isTruthy : Val → Bool
  | .truthy => true
  | _ => false

def Val.ofBool (b : Bool) : Val := if b then .truthy else .falsy

/-- the mutable parser fields the cursor code touches -/
structure St where
  idx : Nat      -- self._index
  steps : Nat    -- number of Parser._advance activations so far (the harness' step counter)
  errs : Nat     -- len(self.errors)
  lvl : Level    -- self.error_level
  deriving DecidableEq, Repr

inductive Out where
  | ret (v : Val)
  | raised       -- ParseError
  | internal     -- IndexError out of `_advance`
  | diverged     -- loop fuel exhausted
  deriving DecidableEq, Repr

abbrev Res := Out × St

/-- a parse method: a closure over the parser object (token list fixed) -/
abbrev P := St → Res

/-- `self._curr.token_type`; `none` is SENTINEL_NONE -/
def curr (toks : List Tok) (i : Nat) : Option Tok := toks[i]?

/-- the state after `Parser._advance(k)`: the index is stored before `tokens[index - 1]` can raise -/
def bump (k : Nat) (s : St) : St := { s with idx := s.idx + k, steps := s.steps + 1 }

/-- `Parser._advance(k)` for k ≥ 1 -/
def advance (toks : List Tok) (k : Nat) : P := fun s =>
  if s.idx + k ≤ toks.length then (.ret .none, bump k s) else (.internal, bump k s)

/-- `Parser._retreat(target)`; `target` is always an index saved earlier in a non-exceptional state, hence in range
    (`Proofs/Cursor.lean: idx ≤ size` invariant), so the IndexError branch of `_advance` is not reachable here -/
def retreat (target : Nat) (s : St) : St :=
  if target = s.idx then s else { s with idx := target, steps := s.steps + 1 }

/-- `self._match(t, advance=adv)`: a matching current token exists, so the `_advance()` inside cannot raise -/
def matchTok (toks : List Tok) (t : Tok) (adv : Bool) : P := fun s =>
  if curr toks s.idx = some t then (.ret .truthy, if adv then bump 1 s else s) else (.ret .falsy, s)

def inSet (ts : List Tok) : Option Tok → Bool
  | some t => ts.contains t
  | none => false

/-- `self._match_set(ts)` -/
def matchSet (toks : List Tok) (ts : List Tok) : P := fun s =>
  if inSet ts (curr toks s.idx) then (.ret .truthy, bump 1 s) else (.ret .falsy, s)

/-- `self._match_pair(a, b)`: one `_advance(2)` -/
def matchPair (toks : List Tok) (a b : Tok) : P := fun s =>
  if curr toks s.idx = some a ∧ curr toks (s.idx + 1) = some b then (.ret .truthy, bump 2 s) else (.ret .falsy, s)

/-- `if self._curr: self._advance(); return self._prev` (e.g. `_advance_any`) -/
def anyTok (toks : List Tok) : P := fun s =>
  if (curr toks s.idx).isSome then (.ret .truthy, bump 1 s) else (.ret .none, s)

/-- `self.raise_error(msg)` -/
def failS : P := fun s =>
  if s.lvl = .immediate then (.raised, s) else (.ret .none, { s with errs := s.errs + 1 })

/-- `x = p(); if not x: return None; return q()` -/
def andThenS (p q : P) : P := fun s =>
  match p s with
  | (.ret v, s1) => if v.isTruthy then q s1 else (.ret .none, s1)
  | r => r

def bothK (q : P) (s1 : St) : Res :=
  match q s1 with
  | (.ret _, s2) => (.ret .truthy, s2)
  | r => r

/-- `a = p(); b = q(); return self.expression(Node(a, b))` -/
def bothS (p q : P) : P := fun s =>
  match p s with
  | (.ret _, s1) => bothK q s1
  | r => r

/-- `p() or q()` -/
def orElseS (p q : P) : P := fun s =>
  match p s with
  | (.ret v, s1) => if v.isTruthy then (.ret v, s1) else q s1
  | r => r

/-- `index = self._index; x = p(); if not x: self._retreat(index); return x` -/
def attemptS (p : P) : P := fun s =>
  match p s with
  | (.ret v, s1) => if v.isTruthy then (.ret v, s1) else (.ret v, retreat s.idx s1)
  | r => r

def restore (s0 : St) (s1 : St) : St := { retreat s0.idx s1 with lvl := s0.lvl }

/-- `Parser._try_parse(p, retreat=rt)` -/
def tryParseS (p : P) (rt : Bool) : P := fun s =>
  match p { s with lvl := .immediate } with
  | (.ret v, s1) => (.ret v, if !v.isTruthy || rt then restore s s1 else { s1 with lvl := s.lvl })
  | (.raised, s1) => (.ret .none, restore s s1)
  | (.internal, s1) => (.internal, restore s s1)
  | (.diverged, s1) => (.diverged, s1)

def csvAcc (acc : Val) (v : Val) : Val := if v = .none then acc else .truthy

/-- the `while self._match(sep): …` loop of `_parse_csv`; `acc` = truthiness of `items` -/
def csvLoop (toks : List Tok) (sep : Tok) (p : P) : Nat → Val → St → Res
  | 0, _, s => (.diverged, s)
  | fuel + 1, acc, s =>
    if curr toks s.idx = some sep then
      match p (bump 1 s) with
      | (.ret v, s2) => csvLoop toks sep p fuel (csvAcc acc v) s2
      | r => r
    else (.ret acc, s)

/-- `Parser._parse_csv(p, sep)` -/
def csvS (toks : List Tok) (sep : Tok) (fuel : Nat) (p : P) : P := fun s =>
  match p s with
  | (.ret v, s1) => csvLoop toks sep p fuel (csvAcc .falsy v) s1
  | r => r

/-- `if wrapped: self._match_r_paren()` -/
def closeK (toks : List Tok) (wrapped : Bool) (v : Val) (s2 : St) : Res :=
  if wrapped then
    if curr toks s2.idx = some RP then (.ret v, bump 1 s2)
    else match failS s2 with
      | (.ret _, s3) => (.ret v, s3)
      | r => r
  else (.ret v, s2)

def bodyK (toks : List Tok) (p : P) (wrapped : Bool) (s1 : St) : Res :=
  match p s1 with
  | (.ret v, s2) => closeK toks wrapped v s2
  | r => r

/-- `Parser._parse_wrapped(p, optional)` -/
def wrappedS (toks : List Tok) (p : P) (optional : Bool) : P := fun s =>
  if curr toks s.idx = some LP then bodyK toks p true (bump 1 s)
  else if optional then bodyK toks p false s
  else match failS s with
    | (.ret _, s1) => bodyK toks p false s1
    | r => r

/-- `while True: x = p(); if not x: break` ; the result is the (possibly empty) list of items -/
def manyLoop (p : P) : Nat → Val → St → Res
  | 0, _, s => (.diverged, s)
  | fuel + 1, acc, s =>
    match p s with
    | (.ret v, s1) => if v.isTruthy then manyLoop p fuel .truthy s1 else (.ret acc, s1)
    | r => r

def manyS (fuel : Nat) (p : P) : P := fun s => manyLoop p fuel .falsy s

/-- the bounds test in front of a manual lookahead `self._tokens[self._index + k]` -/
inductive Guard where
  | strict     -- `self._index + k < size`   (correct)
  | offByOne   -- `not (self._index + k > size)`, i.e. `≤`  (reads one past the end when the chunk ends right there)
  | none       -- no test at all
  deriving DecidableEq, Repr

def Guard.pass (g : Guard) (i k size : Nat) : Bool :=
  match g with
  | .strict => decide (i + k < size)
  | .offByOne => decide (i + k ≤ size)
  | .none => true

def lookAt (toks : List Tok) (j : Nat) (t : Tok) (s : St) : Res :=
  match toks[j]? with
  | some t' => (.ret (Val.ofBool (t' == t)), s)
  | none => (.internal, s)      -- IndexError: list index out of range

/-- a manual lookahead: `guard and self._tokens[self._index + k].token_type == t` -/
def peekAt (toks : List Tok) (k : Nat) (t : Tok) (g : Guard) : P := fun s =>
  if g.pass s.idx k toks.length then lookAt toks (s.idx + k) t s else (.ret .falsy, s)

/-- the token-by-token walk of `_match_text_seq`: (all texts matched?, state where it stopped) -/
def textSeqGo (toks : List Tok) : List Tok → St → Bool × St
  | [], s => (true, s)
  | t :: ts, s => if curr toks s.idx = some t then textSeqGo toks ts (bump 1 s) else (false, s)

/-- `self._match_text_seq(*texts, advance=adv)`: advances one token per matching text, retreats to the start as soon
    as a text does not match, and also after a full match when `advance=False` (a token "has text t" = has id t) -/
def matchTextSeq (toks : List Tok) (ts : List Tok) (adv : Bool) : P := fun s =>
  match textSeqGo toks ts s with
  | (true, s1) => (.ret .truthy, if adv then s1 else retreat s.idx s1)
  | (false, s1) => (.ret .falsy, retreat s.idx s1)

/-- `while self._curr: self._advance()` (`_parse_as_command`, the Command fallback): one step per remaining token -/
def restOfChunk (toks : List Tok) : P := fun s =>
  (.ret .truthy, if s.idx < toks.length then { s with idx := toks.length, steps := s.steps + (toks.length - s.idx) } else s)

/-- `if self._match_set(ts): return p()` … `return q()`  (`_parse_statement`'s dispatch on STATEMENT_PARSERS / COMMANDS) -/
def ifTokS (toks : List Tok) (ts : List Tok) (p q : P) : P := fun s =>
  if inSet ts (curr toks s.idx) then p (bump 1 s) else q s

def keyOf (keys : List Tok) : Option Tok → Option Tok
  | some k => if keys.contains k then some k else none
  | none => none

/-- the dispatch-table loops (`_parse_range` over RANGE_PARSERS, `_parse_column_ops` over COLUMN_OPERATORS,
    `_parse_query_modifiers` over QUERY_MODIFIER_PARSERS, …):
      while True:
          if self._match_set(TABLE, advance=consume):  x = TABLE[key](self …);  if not x: return this;  this = x
          else: break
    `consume = false` is the peeking variant (`advance=False`: the entry consumes its own keyword). -/
def tableLoop (toks : List Tok) (keys : List Tok) (consume : Bool) (entry : Tok → P) : Nat → Val → St → Res
  | 0, _, s => (.diverged, s)
  | fuel + 1, acc, s =>
    match keyOf keys (curr toks s.idx) with
    | some k =>
      match entry k (if consume then bump 1 s else s) with
      | (.ret v, s1) => if v.isTruthy then tableLoop toks keys consume entry fuel .truthy s1 else (.ret acc, s1)
      | r => r
    | none => (.ret acc, s)

def tableLoopS (toks : List Tok) (keys : List Tok) (consume : Bool) (fuel : Nat) (entry : Tok → P) : P :=
  fun s => tableLoop toks keys consume entry fuel .falsy s

/-- what an option loop does when its element parser finds nothing -/
inductive OnFail where
  | skip              -- shape 1: consume the offending token (`if self._curr: self._advance()`) and go on
  | breakAfterRaise   -- shape 2: `self.raise_error(…); break`
  | relyOnRaise       -- shape 3: `self.raise_error(…)` and nothing else — fine only if raise_error raises (IMMEDIATE)
  deriving DecidableEq, Repr

def skipTok (toks : List Tok) (s : St) : St := if (curr toks s.idx).isSome then bump 1 s else s

def failThen (k : St → Res) (s1 : St) : Res :=
  match failS s1 with
  | (.ret _, s2) => k s2
  | r => r

/-- the option loops (`_parse_wrapped_options`, `_parse_copy_parameters`, `_parse_system_versioning_property`, …):
      while self._curr and not self._match(close):
          x = p();   if x: <use it>   else: <mode> -/
def optionLoop (toks : List Tok) (close : Tok) (mode : OnFail) (p : P) : Nat → St → Res
  | 0, s => (.diverged, s)
  | fuel + 1, s =>
    match curr toks s.idx with
    | none => (.ret .truthy, s)
    | some t =>
      if t = close then (.ret .truthy, bump 1 s)
      else
        match p s with
        | (.ret v, s1) =>
          if v.isTruthy then optionLoop toks close mode p fuel s1
          else
            match mode with
            | .skip => optionLoop toks close mode p fuel (skipTok toks s1)
            | .breakAfterRaise => failThen (fun s2 => (.ret .truthy, s2)) s1
            | .relyOnRaise => failThen (fun s2 => optionLoop toks close mode p fuel s2) s1
        | r => r

/-- combinator programs: closed descriptions of parse methods written in the idioms above -/
inductive Comb where
  | eps                                   -- build a node, touch nothing
  | nothing                               -- return None, touch nothing
  | tok (t : Tok)                         -- self._match(t)
  | tokSet (ts : List Tok)                -- self._match_set(ts)
  | peek (t : Tok)                        -- self._match(t, advance=False)
  | pair (a b : Tok)                      -- self._match_pair(a, b)
  | anyTok                                -- self._curr and self._advance()
  | advance                               -- a bare self._advance()   (not well-formed: IndexError at the end)
  | fail                                  -- self.raise_error(…)
  | andThen (p q : Comb)
  | both (p q : Comb)
  | orElse (p q : Comb)
  | attempt (p : Comb)
  | tryParse (p : Comb) (rt : Bool)       -- self._try_parse(p, retreat=rt)
  | csv (p : Comb) (sep : Tok)            -- self._parse_csv(p, sep)
  | wrapped (p : Comb) (optional : Bool)  -- self._parse_wrapped(p, optional)
  | many (p : Comb)
  | textSeq (ts : List Tok) (adv : Bool)  -- self._match_text_seq(*ts, advance=adv)
  | restOfChunk                           -- while self._curr: self._advance()
  | ifTok (ts : List Tok) (p q : Comb)    -- if self._match_set(ts): return p() ; return q()
  | tableLoop (keys : List Tok) (p : Comb) (consume : Bool)   -- dispatch-table loop, one body for every key
  | peekAt (k : Nat) (t : Tok) (g : Guard)      -- guard and self._tokens[self._index + k].token_type == t
  | optionLoop (close : Tok) (p : Comb) (mode : OnFail)   -- while self._curr and not self._match(close): …
  deriving Repr

/-- the semantics; `fuel` caps the number of iterations of each single loop activation -/
def run (toks : List Tok) (fuel : Nat) : Comb → P
  | .eps => fun s => (.ret .truthy, s)
  | .nothing => fun s => (.ret .none, s)
  | .tok t => matchTok toks t true
  | .tokSet ts => matchSet toks ts
  | .peek t => matchTok toks t false
  | .pair a b => matchPair toks a b
  | .anyTok => anyTok toks
  | .advance => advance toks 1
  | .fail => failS
  | .andThen p q => andThenS (run toks fuel p) (run toks fuel q)
  | .both p q => bothS (run toks fuel p) (run toks fuel q)
  | .orElse p q => orElseS (run toks fuel p) (run toks fuel q)
  | .attempt p => attemptS (run toks fuel p)
  | .tryParse p rt => tryParseS (run toks fuel p) rt
  | .csv p sep => csvS toks sep fuel (run toks fuel p)
  | .wrapped p o => wrappedS toks (run toks fuel p) o
  | .many p => manyS fuel (run toks fuel p)
  | .textSeq ts adv => matchTextSeq toks ts adv
  | .restOfChunk => restOfChunk toks
  | .ifTok ts p q => ifTokS toks ts (run toks fuel p) (run toks fuel q)
  | .tableLoop keys p c => tableLoopS toks keys c fuel (fun _ => run toks fuel p)
  | .peekAt k t g => peekAt toks k t g
  | .optionLoop close p mode => optionLoop toks close mode (run toks fuel p) fuel

/-- never moves the cursor when it returns (syntactic sufficient condition) -/
def Comb.still : Comb → Bool
  | .eps | .nothing | .peek _ | .fail => true
  | .andThen p q | .both p q | .orElse p q => p.still && q.still
  | .attempt p => p.still
  | .tryParse p rt => rt || p.still
  | .textSeq _ adv => !adv
  | .peekAt _ _ _ => true
  | _ => false

/-- never returns a falsy value (syntactic sufficient condition) -/
def Comb.total : Comb → Bool
  | .eps | .both _ _ => true
  | .andThen p q => p.total && q.total
  | .orElse _ q => q.total
  | .attempt p => p.total
  | .wrapped p _ => p.total
  | .restOfChunk => true
  | .ifTok _ p q => p.total && q.total
  | _ => false

/-- never returns a falsy value with the cursor moved (syntactic sufficient condition) -/
def Comb.restoring : Comb → Bool
  | .eps | .nothing | .tok _ | .tokSet _ | .peek _ | .pair _ _ | .anyTok | .fail => true
  | .advance => false
  | .andThen p q => p.restoring && (q.total || (p.still && q.restoring))
  | .both _ _ => true
  | .orElse p q => p.restoring && q.restoring
  | .attempt _ => true
  | .tryParse _ _ => true
  | .csv _ _ => false
  | .wrapped _ _ => false
  | .many _ => false
  | .textSeq _ _ => true
  | .restOfChunk => true
  | .ifTok _ p q => p.total && q.restoring
  | .tableLoop _ _ _ => false
  | .peekAt _ _ _ => true
  | .optionLoop _ _ _ => false

/-- a truthy result means at least one token was consumed (syntactic sufficient condition) -/
def Comb.consuming : Comb → Bool
  | .tok _ | .tokSet _ | .pair _ _ | .anyTok | .nothing | .fail => true
  | .eps | .peek _ | .advance => false
  | .andThen p q => p.consuming || q.consuming
  | .both _ _ => false
  | .orElse p q => p.consuming && q.consuming
  | .attempt p => p.consuming
  | .tryParse p rt => p.consuming && !rt
  | .csv _ _ => false
  | .wrapped _ _ => false
  | .many _ => false
  | .textSeq ts adv => adv && !ts.isEmpty
  | .restOfChunk => false
  | .ifTok _ _ q => q.consuming
  | .tableLoop _ _ _ => false
  | .peekAt _ _ _ => false
  | .optionLoop _ _ _ => false

/-- no bare `_advance()`, and every `while True` loop body consumes input when it reports success -/
def Comb.wf : Comb → Bool
  | .advance => false
  | .eps | .nothing | .tok _ | .tokSet _ | .peek _ | .pair _ _ | .anyTok | .fail => true
  | .andThen p q | .both p q | .orElse p q => p.wf && q.wf
  | .attempt p | .tryParse p _ | .csv p _ | .wrapped p _ => p.wf
  | .many p => p.wf && p.consuming
  | .textSeq _ _ | .restOfChunk => true
  | .ifTok _ p q => p.wf && q.wf
  | .tableLoop _ p c => p.wf && (c || p.consuming)
  | .peekAt _ _ g => g == .strict
  | .optionLoop _ p mode => p.wf && p.consuming && mode != .relyOnRaise

/-- explicit step bound in the number `r` of remaining tokens -/
def Comb.bound : Comb → Nat → Nat
  | .eps, _ | .nothing, _ | .peek _, _ | .fail, _ => 0
  | .tok _, _ | .tokSet _, _ | .pair _ _, _ | .anyTok, _ | .advance, _ => 1
  | .andThen p q, r | .both p q, r | .orElse p q, r => p.bound r + q.bound r
  | .attempt p, r | .tryParse p _, r => p.bound r + 1
  | .csv p _, r => (r + 1) * (p.bound r + 1)
  | .wrapped p _, r => p.bound r + 2
  | .many p, r => (r + 1) * p.bound r
  | .textSeq ts _, _ => ts.length + 1
  | .restOfChunk, r => r
  | .ifTok _ p q, r => p.bound r + q.bound r + 1
  | .tableLoop _ p _, r => (r + 1) * (p.bound r + 1)
  | .peekAt _ _ _, _ => 0
  | .optionLoop _ p _, r => (r + 1) * (p.bound r + 1)

/-- loop nesting depth = degree of the bound -/
def Comb.depth : Comb → Nat
  | .eps | .nothing | .peek _ | .fail | .tok _ | .tokSet _ | .pair _ _ | .anyTok | .advance => 0
  | .andThen p q | .both p q | .orElse p q => max p.depth q.depth
  | .attempt p | .tryParse p _ | .wrapped p _ => p.depth
  | .csv p _ | .many p => p.depth + 1
  | .textSeq _ _ => 0
  | .restOfChunk => 1
  | .ifTok _ p q => max p.depth q.depth
  | .tableLoop _ p _ => p.depth + 1
  | .peekAt _ _ _ => 0
  | .optionLoop _ p _ => p.depth + 1

/-- leading coefficient of the bound -/
def Comb.coeff : Comb → Nat
  | .eps | .nothing | .peek _ | .fail => 0
  | .tok _ | .tokSet _ | .pair _ _ | .anyTok | .advance => 1
  | .andThen p q | .both p q | .orElse p q => p.coeff + q.coeff
  | .attempt p | .tryParse p _ => p.coeff + 1
  | .wrapped p _ => p.coeff + 2
  | .csv p _ => p.coeff + 1
  | .many p => p.coeff
  | .textSeq ts _ => ts.length + 1
  | .restOfChunk => 1
  | .ifTok _ p q => p.coeff + q.coeff + 1
  | .tableLoop _ p _ => p.coeff + 1
  | .peekAt _ _ _ => 0
  | .optionLoop _ p _ => p.coeff + 1

/-- `_parse_wrapped_csv(p, sep, optional)` = `_parse_wrapped(lambda: _parse_csv(p, sep), optional)` -/
def Comb.wrappedCsv (p : Comb) (sep : Tok) (optional : Bool) : Comb := .wrapped (.csv p sep) optional

/-- `_parse_wrapped_id_vars(optional)` = `_parse_wrapped_csv(_parse_id_var, optional=optional)`; `_parse_id_var` is seen
    as "match one token out of the identifier token set" -/
def Comb.wrappedIdVars (idToks : List Tok) (optional : Bool) : Comb := .wrappedCsv (.tokSet idToks) COMMA optional

/-- `_parse_statement`: STATEMENT_PARSERS dispatch, else the tokenizer's COMMANDS (`_parse_command`; here with the
    `_parse_as_command` tail that swallows the rest of the chunk), else an expression -/
def Comb.statement (stmtKeys : List Tok) (stmt : Comb) (cmdKeys : List Tok) (expr : Comb) : Comb :=
  .ifTok stmtKeys stmt (.ifTok cmdKeys .restOfChunk expr)

def initSt (lvl : Level) : St := ⟨0, 0, 0, lvl⟩

/-- one chunk of `_parse_batch_statements`: statement, leftover-token error, `check_errors` -/
def leftoverK (toks : List Tok) (v : Val) (s1 : St) : Res :=
  if s1.idx < toks.length then
    match failS s1 with
    | (.ret _, s2) => (.ret v, s2)
    | r => r
  else (.ret v, s1)

def checkErrorsK (r : Res) : Res :=
  match r with
  | (.ret v, s) => if s.lvl = .raise ∧ s.errs > 0 then (.raised, s) else (.ret v, s)
  | r => r

def parseTop (toks : List Tok) (fuel : Nat) (p : Comb) (lvl : Level) : Res :=
  match run toks fuel p (initSt lvl) with
  | (.ret v, s1) => checkErrorsK (leftoverK toks v s1)
  | r => r

/-- `_parse_batch_statements`: one `parseTop` per chunk; the loop is over the (finite) chunk list, whatever the statement
    parser does.  Stops at the first chunk that raises; result = outcome of the last chunk run and the total step count. -/
def parseBatch (fuel : Nat) (p : Comb) (lvl : Level) : List (List Tok) → Nat → Out × Nat
  | [], steps => (.ret .truthy, steps)
  | c :: cs, steps =>
    match parseTop c fuel p lvl with
    | (.ret _, s) => parseBatch fuel p lvl cs (steps + s.steps)
    | (o, s) => (o, steps + s.steps)

end SqlglotModel.Cursor
