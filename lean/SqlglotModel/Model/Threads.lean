/-
  C19 — model of sqlglot's lazy loading under threads (sqlglot/dialects/__init__.py `__getattr__`,
  sqlglot/optimizer/__init__.py `__getattr__`, the `_Dialect` registry and the generator `_DISPATCH_CACHE`).

  What is modelled
  * any number of threads (`Tid → Thread`; a thread with an empty program is inert), each running a program of
    `Op.access m` (a PEP 562 lazy attribute access that resolves to module `m`) and `Op.gen m` (first construction
    of a `Generator` subclass: `_DISPATCH_CACHE.get(cls)`, on a miss build and store);
  * one package lock of kind `rlock` (what the source uses), `plain` (a non re-entrant `threading.Lock`) or
    `absent` (no lock, or a lock that does not cover the import) — owner and depth;
  * `import_module` WITHOUT importlib's own per-module lock: a *test* of `sys.modules` (`started`) and, in a
    separate atomic step, the insertion + start of the module body (`load`), then the body's nested accesses one by
    one, then the registration of the class (`registered`, the `_Dialect.__new__` write) — so that in this model
    only the package lock can make loading happen once;
  * a module body is a list of nested accesses: `Item.lazy d` goes through `__getattr__` again (re-entrant
    acquisition: "a dialect may depend on other dialects"), `Item.direct d` is an ordinary
    `from sqlglot.dialects.d import D` executed while the outer access holds the lock (no acquisition);
  * one atomic step of one thread at a time, any interleaving (`step cfg s t`; `runSched` over a choice list).

  What is NOT in THIS first model (A): importlib's per-module locks and the `_Dialect._try_load` string route — they are
  in the two further models of this file: `Routes` (lock ORDER of package lock vs module locks, progress) and `Full`
  (package lock + re-entrant module locks, both routes, multi-step class configuration and registry order, the
  lock-free `sys.modules` fast path, the multi-step dispatch fill; safety). Assumptions that remain everywhere (see
  vf/props/c19.py): the GIL / bytecode-level atomicity of the individual steps, importlib's dead-lock DETECTION
  between module locks, the content of module bodies. No proofs in this file.
-/
namespace SqlglotModel.Threads

abbrev Tid := Nat
abbrev Mod := Nat
abbrev Val := Nat

inductive LockKind
  | rlock | plain | absent
  deriving DecidableEq, Repr, Inhabited

/-- a nested access made by a module body -/
inductive Item
  | lazy (m : Mod)
  | direct (m : Mod)
  deriving DecidableEq, Repr, Inhabited

def Item.mod : Item → Mod
  | .lazy m => m
  | .direct m => m

inductive Op
  | access (m : Mod)
  | gen (m : Mod)
  deriving DecidableEq, Repr, Inhabited

inductive Res
  | attr (m : Mod) (ok : Bool)   -- the lazy access returned the attribute (ok) / found a half-initialised module
  | disp (m : Mod) (v : Val)     -- the dispatch table the generator instance ended up with
  deriving DecidableEq, Repr, Inhabited

structure Cfg where
  kind : LockKind
  body : Mod → List Item
  build : Mod → Val

/-- one activation record of a lazy / direct access; `l` = "this frame acquired the lock" -/
inductive Frame
  | want (m : Mod)                                -- about to acquire the package lock
  | test (m : Mod) (l : Bool)                     -- import_module: about to look at sys.modules
  | load (m : Mod) (l : Bool)                     -- saw a miss: about to insert into sys.modules and start the body
  | body (m : Mod) (l : Bool) (rest : List Item)  -- executing the module body, `rest` still to do
  | leave (m : Mod) (l : Bool)                    -- about to release / return
  deriving DecidableEq, Repr, Inhabited

def Frame.mod : Frame → Mod
  | .want m => m
  | .test m _ => m
  | .load m _ => m
  | .body m _ _ => m
  | .leave m _ => m

def Frame.isWant : Frame → Bool
  | .want _ => true
  | _ => false

def Frame.isBody : Frame → Bool
  | .body _ _ _ => true
  | _ => false

/-- does this frame account for one level of lock depth? -/
def Frame.holding : Frame → Bool
  | .want _ => false
  | .test _ l => l
  | .load _ l => l
  | .body _ l _ => l
  | .leave _ l => l

structure Thread where
  stack : List Frame        -- head = innermost
  pending : Option Mod      -- a dispatch-cache miss was observed for this class, the store is still to come
  todo : List Op            -- head = the operation in flight (removed when it completes)
  results : List Res
  deriving Repr, Inhabited

structure State where
  lock : Option (Tid × Nat)
  started : Mod → Bool       -- `name in sys.modules`
  registered : Mod → Bool    -- the class exists: module attribute and `_Dialect._classes[...]`
  loads : Mod → Nat          -- ghost: how many times the body of the module was started
  cache : Mod → Option Val   -- `_DISPATCH_CACHE`
  threads : Tid → Thread

inductive Label
  | call (m : Mod)    -- entering `__getattr__` (top level or nested)
  | acq
  | imp (m : Mod)     -- `importlib.import_module` called from `__getattr__`
  | exec (m : Mod)    -- module body starts
  | reg (m : Mod)     -- module body finished, class registered
  | rel
  | tau               -- not observable from outside (direct imports that hit, returns of direct imports)
  | chit (m : Mod)
  | cmiss (m : Mod)
  | cset (m : Mod)
  deriving DecidableEq, Repr, Inhabited

def setT (s : State) (t : Tid) (th : Thread) : State :=
  { s with threads := fun u => if u = t then th else s.threads u }

def acquire (k : LockKind) (lock : Option (Tid × Nat)) (t : Tid) : Option (Option (Tid × Nat)) :=
  match k, lock with
  | .absent, lk => some lk
  | .rlock, none => some (some (t, 1))
  | .rlock, some (o, d) => if o = t then some (some (t, d + 1)) else none
  | .plain, none => some (some (t, 1))
  | .plain, some _ => none

/-- `none` = releasing a lock one does not own (RuntimeError in CPython): the step does not exist -/
def release (k : LockKind) (lock : Option (Tid × Nat)) (t : Tid) : Option (Option (Tid × Nat)) :=
  match k, lock with
  | .absent, lk => some lk
  | _, none => none
  | _, some (o, d) => if o = t then (if d ≤ 1 then some none else some (some (t, d - 1))) else none

def impLabel (m : Mod) (l : Bool) : Label := if l then .imp m else .tau

def relLabel (l : Bool) : Label := if l then .rel else .tau

/-- the thread returns from a frame: pop; a top-level access completes and records its result -/
def popFrame (s : State) (th : Thread) (m : Mod) (fs : List Frame) : Thread :=
  match fs with
  | [] => { th with stack := [], todo := th.todo.tail, results := th.results ++ [.attr m (s.registered m)] }
  | _ :: _ => { th with stack := fs }

def stepLeave (cfg : Cfg) (s : State) (t : Tid) (th : Thread) (m : Mod) (l : Bool) (fs : List Frame) :
    Option (Label × State) :=
  if l then
    match release cfg.kind s.lock t with
    | none => none
    | some lk => some (.rel, setT { s with lock := lk } t (popFrame s th m fs))
  else some (.tau, setT s t (popFrame s th m fs))

def stepBody (s : State) (t : Tid) (th : Thread) (m : Mod) (l : Bool) (rest : List Item) (fs : List Frame) :
    Label × State :=
  match rest with
  | [] => (.reg m, setT { s with registered := fun x => if x = m then true else s.registered x } t
                      { th with stack := .leave m l :: fs })
  | .lazy d :: rest' => (.call d, setT s t { th with stack := .want d :: .body m l rest' :: fs })
  | .direct d :: rest' => (.tau, setT s t { th with stack := .test d false :: .body m l rest' :: fs })

def stepFrame (cfg : Cfg) (s : State) (t : Tid) (th : Thread) (f : Frame) (fs : List Frame) :
    Option (Label × State) :=
  match f with
  | .want m =>
    match acquire cfg.kind s.lock t with
    | none => none
    | some lk => some (.acq, setT { s with lock := lk } t { th with stack := .test m true :: fs })
  | .test m l =>
    if s.started m then some (impLabel m l, setT s t { th with stack := .leave m l :: fs })
    else some (impLabel m l, setT s t { th with stack := .load m l :: fs })
  | .load m l =>
    some (.exec m, setT { s with started := fun x => if x = m then true else s.started x,
                                 loads := fun x => if x = m then s.loads m + 1 else s.loads x } t
                        { th with stack := .body m l (cfg.body m) :: fs })
  | .body m l rest => some (stepBody s t th m l rest fs)
  | .leave m l => stepLeave cfg s t th m l fs

def stepStart (s : State) (t : Tid) (th : Thread) : Option (Label × State) :=
  match th.todo with
  | [] => none
  | .access m :: _ => some (.call m, setT s t { th with stack := [.want m] })
  | .gen m :: rest =>
    match s.cache m with
    | some v => some (.chit m, setT s t { th with todo := rest, results := th.results ++ [.disp m v] })
    | none => some (.cmiss m, setT s t { th with pending := some m })

def stepFill (cfg : Cfg) (s : State) (t : Tid) (th : Thread) (m : Mod) : Label × State :=
  (.cset m, setT { s with cache := fun x => if x = m then some (cfg.build m) else s.cache x } t
              { th with pending := none, todo := th.todo.tail, results := th.results ++ [.disp m (cfg.build m)] })

/-- one atomic step of thread `t`; `none` = the thread is finished or blocked -/
def step (cfg : Cfg) (s : State) (t : Tid) : Option (Label × State) :=
  match (s.threads t).pending with
  | some m => some (stepFill cfg s t (s.threads t) m)
  | none =>
    match (s.threads t).stack with
    | [] => stepStart s t (s.threads t)
    | f :: fs => stepFrame cfg s t (s.threads t) f fs

def initThread (prog : List Op) : Thread := { stack := [], pending := none, todo := prog, results := [] }

def initState (progs : Tid → List Op) : State :=
  { lock := none, started := fun _ => false, registered := fun _ => false, loads := fun _ => 0,
    cache := fun _ => none, threads := fun t => initThread (progs t) }

/-- run a scheduler choice list; choosing a blocked or finished thread is a stutter -/
def runSched (cfg : Cfg) (s : State) : List Tid → State
  | [] => s
  | t :: ts =>
    match step cfg s t with
    | some (_, s') => runSched cfg s' ts
    | none => runSched cfg s ts

def Thread.finished (th : Thread) : Bool := th.stack.isEmpty && th.pending.isNone && th.todo.isEmpty

/-- every thread has run its program to the end -/
def Complete (s : State) : Prop := ∀ t, (s.threads t).finished = true

def expected (cfg : Cfg) : Op → Res
  | .access m => .attr m true
  | .gen m => .disp m (cfg.build m)

/-- what a thread gets when it runs alone (proved to be what `runSched` gives for one thread: `sequential_baseline`) -/
def seqResults (cfg : Cfg) (prog : List Op) : List Res := prog.map (expected cfg)

/-- module bodies only access modules of smaller rank (no circular imports) -/
def Acyclic (cfg : Cfg) : Prop := ∀ m x, x ∈ cfg.body m → x.mod < m

/-- some frame of the thread is past the acquisition: the thread is inside the critical section -/
def Thread.critical (th : Thread) : Bool := th.stack.any fun f => !f.isWant

def Thread.held (th : Thread) : Nat := th.stack.countP Frame.holding


/-! ### what the translator records about the source (Generated/C19.lean) -/

/-- structural facts about one lazy `__getattr__` and its `_import_lock`, read from the source on every run -/
structure LockFacts where
  kind : LockKind          -- `type(_import_lock)` of the live module object (absent: no such attribute)
  lockDefs : Nat           -- module-level assignments to `_import_lock`
  imports : Nat            -- `importlib.import_module` / `__import__` calls inside `__getattr__`
  importsInside : Nat      -- … of those lexically inside `with _import_lock:`
  writes : Nat             -- `globals()[name] = value` stores inside `__getattr__`
  writesInside : Nat       -- … of those lexically inside `with _import_lock:`
  deriving DecidableEq, Repr

/-- the lock really covers the test-and-load sequence and the publishing write -/
def LockFacts.covers (f : LockFacts) : Bool :=
  f.lockDefs == 1 && decide (0 < f.imports) && f.importsInside == f.imports && f.writesInside == f.writes

/-- the lock kind the model has to be run with: a lock that does not cover the import protects nothing -/
def LockFacts.effective (f : LockFacts) : LockKind := if f.covers then f.kind else .absent

/-- both packages together: `rlock` only if both are -/
def combineKinds (a b : LockKind) : LockKind :=
  match a, b with
  | .rlock, .rlock => .rlock
  | .absent, _ => .absent
  | _, .absent => .absent
  | _, _ => .plain


/-! ### the two routes to a module: package lock and importlib's module locks together

  A second, smaller model for the lock ORDER. A dialect module can be reached first
  * by the attribute route `sqlglot.dialects.<Name>`: take the package lock, then (inside `import_module`) importlib's
    lock of the module, run the body, release both;
  * by the string route `Dialect.get_or_raise("name")` / `import sqlglot.dialects.name` (`_Dialect._try_load`): take only
    importlib's module lock, run the body, release it.
  `reentry m` says that the BODY of module `m` goes through the package's lazy `__getattr__` again
  (`from sqlglot.dialects import X`, `sqlglot.dialects.X`, `from sqlglot.optimizer import x` at import time): it then asks
  for the package lock while holding a module lock — the reverse order of the attribute route. importlib's dead-lock
  detection only knows module locks, so nothing breaks the cycle. (Module locks are modelled as plain mutexes: a body
  never imports the module it belongs to; nested plain imports of OTHER modules are left out — they only take
  further module locks, which importlib orders / breaks itself.) -/
namespace Routes

inductive Route
  | attr (m : Mod)
  | str (m : Mod)
  deriving DecidableEq, Repr, Inhabited

inductive Pc
  | idle
  | wantP (m : Mod)                 -- attribute route: about to take the package lock
  | wantM (m : Mod) (viaP : Bool)   -- about to take importlib's lock of module m (holding the package lock iff viaP)
  | body (m : Mod) (viaP : Bool)    -- holds the module lock, looks at sys.modules / runs the body
  | reWantP (m : Mod) (viaP : Bool) -- the body re-enters the lazy __getattr__: asks for the package lock
  | reHasP (m : Mod) (viaP : Bool)  -- … got it (nested), about to give it back and finish the body
  | relM (m : Mod) (viaP : Bool)    -- about to release the module lock
  | relP (m : Mod)                  -- about to release the package lock
  deriving DecidableEq, Repr, Inhabited

structure RCfg where
  reentry : Mod → Bool

structure RState where
  pkg : Option (Tid × Nat)      -- the package RLock
  modLock : Mod → Option Tid    -- importlib's per-module locks
  loaded : Mod → Bool
  pc : Tid → Pc
  todo : Tid → List Route

def setPc (s : RState) (t : Tid) (p : Pc) : RState := { s with pc := fun u => if u = t then p else s.pc u }

def rstepIdle (s : RState) (t : Tid) : Option RState :=
  match s.todo t with
  | [] => none
  | .attr m :: rest => some { s with pc := fun u => if u = t then .wantP m else s.pc u,
                                     todo := fun u => if u = t then rest else s.todo u }
  | .str m :: rest => some { s with pc := fun u => if u = t then .wantM m false else s.pc u,
                                    todo := fun u => if u = t then rest else s.todo u }

def rstepBody (cfg : RCfg) (s : RState) (t : Tid) (m : Mod) (v : Bool) : RState :=
  if s.loaded m then setPc s t (.relM m v)
  else if cfg.reentry m then setPc s t (.reWantP m v)
  else setPc { s with loaded := fun x => if x = m then true else s.loaded x } t (.relM m v)

/-- one atomic step of thread `t`; `none` = finished or blocked -/
def rstep (cfg : RCfg) (s : RState) (t : Tid) : Option RState :=
  match s.pc t with
  | .idle => rstepIdle s t
  | .wantP m =>
    match acquire .rlock s.pkg t with
    | none => none
    | some lk => some (setPc { s with pkg := lk } t (.wantM m true))
  | .wantM m v =>
    match s.modLock m with
    | some _ => none
    | none => some (setPc { s with modLock := fun x => if x = m then some t else s.modLock x } t (.body m v))
  | .body m v => some (rstepBody cfg s t m v)
  | .reWantP m v =>
    match acquire .rlock s.pkg t with
    | none => none
    | some lk => some (setPc { s with pkg := lk } t (.reHasP m v))
  | .reHasP m v =>
    match release .rlock s.pkg t with
    | none => none
    | some lk => some (setPc { s with pkg := lk, loaded := fun x => if x = m then true else s.loaded x } t (.relM m v))
  | .relM m v =>
    some (setPc { s with modLock := fun x => if x = m then none else s.modLock x } t (if v then .relP m else .idle))
  | .relP _ =>
    match release .rlock s.pkg t with
    | none => none
    | some lk => some (setPc { s with pkg := lk } t .idle)

def rinit (progs : Tid → List Route) : RState :=
  { pkg := none, modLock := fun _ => none, loaded := fun _ => false, pc := fun _ => .idle, todo := progs }

def rrun (cfg : RCfg) (s : RState) : List Tid → RState
  | [] => s
  | t :: ts =>
    match rstep cfg s t with
    | some s' => rrun cfg s' ts
    | none => rrun cfg s ts

def RComplete (s : RState) : Prop := ∀ t, s.pc t = .idle ∧ s.todo t = []

def Pc.holdsP : Pc → Bool
  | .wantM _ v => v
  | .body _ v => v
  | .reWantP _ v => v
  | .reHasP _ _ => true
  | .relM _ v => v
  | .relP _ => true
  | _ => false

def Pc.holdsM : Pc → Option Mod
  | .body m _ => some m
  | .reWantP m _ => some m
  | .reHasP m _ => some m
  | .relM m _ => some m
  | _ => none

def Pc.isRe : Pc → Bool
  | .reWantP _ _ => true
  | .reHasP _ _ => true
  | _ => false

end Routes


/-! ### the full model: package lock AND importlib's module locks, both routes, class configuration, dispatch fill

  `Full` extends the package-lock model above with what it left to assumptions:
  * importlib's per-module locks (`mlock`, re-entrant per thread: "a thread never blocks on a module lock it already
    holds" is all that is kept of importlib's dead-lock avoidance): `import_module` = acquire the module lock, test
    `sys.modules`, (miss) insert + run the body, configure and register the class, finish the body, release;
  * the string route `Dialect.get("name")` (`Op.lookup`): one atomic read of the registry (and, when `lookupWaits`, of
    the module's `_initializing` flag); on a miss / initialising module `_try_load` = `import_module` WITHOUT the package
    lock, then `_classes.get`;
  * `_Dialect.__new__` as a multi-step configuration (`conf m l k`), with the `_classes[...] = klass` store either FIRST
    (`registerFirst`, the ordering before ddc0df6) or LAST; the rest of the module body after the class statement (`fin`);
  * the lazy `__getattr__` optionally with a lock-free `sys.modules` fast path (`fastPath`, the seeded optimizer variant);
  * the dispatch cache fill as a multi-step write: either into a private table that is stored when complete, or
    (`publishEarly`) stored empty and filled in place.
  One package per model instance (dialects, optimizer). Progress (dead-lock freedom) is NOT claimed here — see
  `deadlock_free` (package lock alone) and `Routes` (lock order); this model carries the safety theorems. -/
namespace Full

inductive Op
  | access (m : Mod)
  | lookup (m : Mod)
  | gen (m : Mod)
  deriving DecidableEq, Repr, Inhabited

inductive Res
  | attr (m : Mod) (moduleDone : Bool)                     -- the lazy attribute access returned this module('s class)
  | cls (m : Mod) (found configured moduleDone : Bool)     -- what `Dialect.get` handed out, as it was at that moment
  | disp (m : Mod) (entries : Nat)                         -- the dispatch table the generator got, entries it had then
  deriving DecidableEq, Repr, Inhabited

structure FCfg where
  body : Mod → List Item
  cfgSteps : Mod → Nat
  tableSize : Mod → Nat
  registerFirst : Bool
  lookupWaits : Bool
  fastPath : Bool
  publishEarly : Bool

inductive Frame
  | wantP (m : Mod)
  | wantM (m : Mod) (l : Bool)
  | test (m : Mod) (l : Bool)
  | load (m : Mod) (l : Bool)
  | body (m : Mod) (l : Bool) (rest : List Item)
  | conf (m : Mod) (l : Bool) (k : Nat)
  | fin (m : Mod) (l : Bool)
  | leave (m : Mod) (l : Bool)
  deriving DecidableEq, Repr, Inhabited

def Frame.mod : Frame → Mod
  | .wantP m => m
  | .wantM m _ => m
  | .test m _ => m
  | .load m _ => m
  | .body m _ _ => m
  | .conf m _ _ => m
  | .fin m _ => m
  | .leave m _ => m

def Frame.isBody : Frame → Bool
  | .body _ _ _ => true
  | _ => false

/-- the frame accounts for one level of the module lock of … -/
def Frame.holdsMod : Frame → Option Mod
  | .wantP _ => none
  | .wantM _ _ => none
  | f => some f.mod

/-- the module body of … is running in this frame (started, not done) -/
def Frame.inProgress : Frame → Option Mod
  | .body m _ _ => some m
  | .conf m _ _ => some m
  | .fin m _ => some m
  | _ => none

structure Thread where
  stack : List Frame
  pending : Option (Mod × Nat)   -- dispatch fill in flight: class, entries written so far (private table)
  todo : List Op
  results : List Res
  deriving Repr, Inhabited

structure FState where
  pkg : Option (Tid × Nat)
  mlock : Mod → Option (Tid × Nat)
  started : Mod → Bool       -- in sys.modules
  done : Mod → Bool          -- body finished (`_initializing` = started ∧ ¬done)
  registered : Mod → Bool    -- key in `_Dialect._classes`
  confDone : Mod → Bool      -- `__new__` has configured the class completely
  loads : Mod → Nat
  cache : Mod → Option Nat   -- `_DISPATCH_CACHE[cls]`: number of entries the stored table has right now
  threads : Tid → Thread

def setT (s : FState) (t : Tid) (th : Thread) : FState :=
  { s with threads := fun u => if u = t then th else s.threads u }

def initializing (s : FState) (m : Mod) : Bool := s.started m && !s.done m

def finishOp (th : Thread) (r : Res) : Thread :=
  { th with todo := th.todo.tail, results := th.results ++ [r] }

/-- the result a completed import hands to the operation in flight -/
def opResult (s : FState) (op : Option Op) (m : Mod) : Res :=
  match op with
  | some (.lookup _) => .cls m (s.registered m) (s.confDone m) (s.done m)
  | _ => .attr m (s.done m)

def popFrame (s : FState) (th : Thread) (m : Mod) (fs : List Frame) : Thread :=
  match fs with
  | [] => { finishOp th (opResult s th.todo.head? m) with stack := [] }
  | _ :: _ => { th with stack := fs }

def stepStart (cfg : FCfg) (s : FState) (t : Tid) (th : Thread) : Option FState :=
  match th.todo with
  | [] => none
  | .access m :: _ =>
    if cfg.fastPath && s.started m then some (setT s t (finishOp th (.attr m (s.done m))))
    else some (setT s t { th with stack := [.wantP m] })
  | .lookup m :: _ =>
    if s.registered m && (!cfg.lookupWaits || !initializing s m) then
      some (setT s t (finishOp th (.cls m true (s.confDone m) (s.done m))))
    else some (setT s t { th with stack := [.wantM m false] })
  | .gen m :: _ =>
    match s.cache m with
    | some n => some (setT s t (finishOp th (.disp m n)))
    | none =>
      if cfg.publishEarly then
        some (setT { s with cache := fun x => if x = m then some 0 else s.cache x } t { th with pending := some (m, 0) })
      else some (setT s t { th with pending := some (m, 0) })

def stepFill (cfg : FCfg) (s : FState) (t : Tid) (th : Thread) (m : Mod) (n : Nat) : FState :=
  if cfg.publishEarly then
    let k := (s.cache m).getD 0
    if k < cfg.tableSize m then
      setT { s with cache := fun x => if x = m then some (k + 1) else s.cache x } t th
    else setT s t { finishOp th (.disp m k) with pending := none }
  else if n < cfg.tableSize m then setT s t { th with pending := some (m, n + 1) }
  else setT { s with cache := fun x => if x = m then some n else s.cache x } t
         { finishOp th (.disp m n) with pending := none }

def stepBody (cfg : FCfg) (s : FState) (t : Tid) (th : Thread) (m : Mod) (l : Bool) (rest : List Item)
    (fs : List Frame) : FState :=
  match rest with
  | [] => setT { s with registered := fun x => if x = m then (cfg.registerFirst || s.registered m) else s.registered x } t
               { th with stack := .conf m l (cfg.cfgSteps m) :: fs }
  | .lazy d :: rest' => setT s t { th with stack := .wantP d :: .body m l rest' :: fs }
  | .direct d :: rest' => setT s t { th with stack := .wantM d false :: .body m l rest' :: fs }

def stepLeave (s : FState) (t : Tid) (th : Thread) (m : Mod) (l : Bool) (fs : List Frame) : Option FState :=
  match release .rlock (s.mlock m) t with
  | none => none
  | some ml =>
    let s1 := { s with mlock := fun x => if x = m then ml else s.mlock x }
    if l then
      match release .rlock s.pkg t with
      | none => none
      | some lk => some (setT { s1 with pkg := lk } t (popFrame s th m fs))
    else some (setT s1 t (popFrame s th m fs))

def stepFrame (cfg : FCfg) (s : FState) (t : Tid) (th : Thread) (f : Frame) (fs : List Frame) : Option FState :=
  match f with
  | .wantP m =>
    match acquire .rlock s.pkg t with
    | none => none
    | some lk => some (setT { s with pkg := lk } t { th with stack := .wantM m true :: fs })
  | .wantM m l =>
    match acquire .rlock (s.mlock m) t with
    | none => none
    | some ml => some (setT { s with mlock := fun x => if x = m then ml else s.mlock x } t
                        { th with stack := .test m l :: fs })
  | .test m l =>
    if s.started m then some (setT s t { th with stack := .leave m l :: fs })
    else some (setT s t { th with stack := .load m l :: fs })
  | .load m l =>
    some (setT { s with started := fun x => if x = m then true else s.started x,
                        loads := fun x => if x = m then s.loads m + 1 else s.loads x } t
               { th with stack := .body m l (cfg.body m) :: fs })
  | .body m l rest => some (stepBody cfg s t th m l rest fs)
  | .conf m l (k + 1) => some (setT s t { th with stack := .conf m l k :: fs })
  | .conf m l 0 =>
    some (setT { s with confDone := fun x => if x = m then true else s.confDone x,
                        registered := fun x => if x = m then true else s.registered x } t
               { th with stack := .fin m l :: fs })
  | .fin m l =>
    some (setT { s with done := fun x => if x = m then true else s.done x } t { th with stack := .leave m l :: fs })
  | .leave m l => stepLeave s t th m l fs

/-- one atomic step of thread `t`; `none` = finished or blocked -/
def fstep (cfg : FCfg) (s : FState) (t : Tid) : Option FState :=
  match (s.threads t).pending with
  | some (m, n) => some (stepFill cfg s t (s.threads t) m n)
  | none =>
    match (s.threads t).stack with
    | [] => stepStart cfg s t (s.threads t)
    | f :: fs => stepFrame cfg s t (s.threads t) f fs

def finit (progs : Tid → List Op) : FState :=
  { pkg := none, mlock := fun _ => none, started := fun _ => false, done := fun _ => false,
    registered := fun _ => false, confDone := fun _ => false, loads := fun _ => 0, cache := fun _ => none,
    threads := fun t => { stack := [], pending := none, todo := progs t, results := [] } }

def frun (cfg : FCfg) (s : FState) : List Tid → FState
  | [] => s
  | t :: ts =>
    match fstep cfg s t with
    | some s' => frun cfg s' ts
    | none => frun cfg s ts

def Thread.finished (th : Thread) : Bool := th.stack.isEmpty && th.pending.isNone && th.todo.isEmpty

def FComplete (s : FState) : Prop := ∀ t, (s.threads t).finished = true

/-- what the call returns when it runs alone -/
def fexpected (cfg : FCfg) : Op → Res
  | .access m => .attr m true
  | .lookup m => .cls m true true true
  | .gen m => .disp m (cfg.tableSize m)

def fseq (cfg : FCfg) (prog : List Op) : List Res := prog.map (fexpected cfg)

end Full

/-- structural facts about `_Dialect.__new__` / `get` / `__getitem__`, the two `__getattr__`s and `Generator.__init__`,
    re-extracted from the source on every run -/
structure SourceShape where
  registerLast : Bool        -- `cls._classes[...] = klass` is the last statement of `__new__` before `return klass`
  lookupsWait : Bool         -- `get` and `__getitem__` call `_try_load` also while `_is_initializing(key)`
  dialectsLockFirst : Bool   -- no `sys.modules` / `globals()` read in the dialects `__getattr__` outside `with _import_lock`
  optimizerLockFirst : Bool  -- … same for the optimizer `__getattr__`
  buildThenStore : Bool      -- `Generator.__init__` stores into `_DISPATCH_CACHE` a table that is already complete
  deriving DecidableEq, Repr


/-! ### worker objects: per-run state must not be shared between calls in flight

  `Tokenizer` / `Parser` / `Generator` instances carry per-run state (the generator's `_next_name` counter behind the
  invented aliases `_t0, _t1, …`, `unsupported_messages`, the pretty-printing sentinels; the parser's cursor and
  errors). A `Dialect` INSTANCE is shared configuration: applications resolve it once and pass it to every call from
  every thread. The property therefore needs every call to own its worker. Model: a call of size `k` resets the
  worker's counter and then `k` times reads the counter, emits it as a name and increments it; its result is the list
  of names. With `cached = false` the worker is created by the call (the counter is private to the call in flight);
  with `cached = true` one worker hangs on the shared Dialect instance and all threads use it (`shared`). -/
namespace Workers

structure WCfg where
  cached : Bool

structure WThread where
  todo : List Nat                          -- sizes of the calls still to run (head = the one in flight, if any)
  run : Option (Nat × Nat × List Nat)      -- in flight: bumps left, private counter, names emitted so far
  results : List (List Nat)
  deriving Repr, Inhabited

structure WState where
  shared : Nat                             -- the counter of the worker cached on the shared Dialect instance
  threads : Tid → WThread

def wset (s : WState) (t : Tid) (th : WThread) : WState :=
  { s with threads := fun u => if u = t then th else s.threads u }

def wstepRun (cfg : WCfg) (s : WState) (t : Tid) (th : WThread) (r c : Nat) (e : List Nat) : WState :=
  match r with
  | 0 => wset s t { th with run := none, todo := th.todo.tail, results := th.results ++ [e] }
  | r' + 1 =>
    if cfg.cached then
      wset { s with shared := s.shared + 1 } t { th with run := some (r', c, e ++ [s.shared]) }
    else wset s t { th with run := some (r', c + 1, e ++ [c]) }

/-- one atomic step of thread `t`: start a call (reset), one read-emit-increment, or return -/
def wstep (cfg : WCfg) (s : WState) (t : Tid) : Option WState :=
  match (s.threads t).run with
  | some (r, c, e) => some (wstepRun cfg s t (s.threads t) r c e)
  | none =>
    match (s.threads t).todo with
    | [] => none
    | k :: _ =>
      if cfg.cached then some (wset { s with shared := 0 } t { (s.threads t) with run := some (k, 0, []) })
      else some (wset s t { (s.threads t) with run := some (k, 0, []) })

def winit (progs : Tid → List Nat) : WState :=
  { shared := 0, threads := fun t => { todo := progs t, run := none, results := [] } }

def wrun (cfg : WCfg) (s : WState) : List Tid → WState
  | [] => s
  | t :: ts =>
    match wstep cfg s t with
    | some s' => wrun cfg s' ts
    | none => wrun cfg s ts

def WComplete (s : WState) : Prop := ∀ t, (s.threads t).run = none ∧ (s.threads t).todo = []

/-- what a call of size k returns when it runs alone: the names 0 … k-1 -/
def wseq (prog : List Nat) : List (List Nat) := prog.map List.range

end Workers


/-! ### class construction: what loading one dialect may do to the tables of the others

  Class-level tables (VALID_INTERVAL_UNITS, TIME_MAPPING and its tries, escape tables, keyword tries, TRANSFORMS, …)
  are objects on a heap; a class attribute is a binding to an object, and a class that does not override an attribute
  is bound to the SAME object as its base. The metaclass (`_Dialect.__new__`, `Tokenizer.__init_subclass__`) is a
  function from (inherited tables, class body) to new tables, applied when the class is created — i.e. at the lazy first
  load of its module, possibly while other threads are working with other dialects. Each derived attribute is either
  REBOUND (a new object is allocated, filled from the inherited content plus the class's own entries, and the attribute
  of the NEW class is pointed at it) or updated IN PLACE (the object the attribute currently points at — the inherited
  one — is mutated). -/
namespace ClassTables

-- objects, classes and attributes are numbered (plain `Nat`s: `omega` does not look through abbreviations)
structure Store where
  heap : Nat → List Nat          -- object ↦ content of that table object
  bind : Nat → Nat → Nat         -- class ↦ attribute ↦ the object `Class.ATTR` evaluates to (inheritance resolved)
  next : Nat                     -- allocation pointer: every object ≥ next is unallocated

inductive Upd
  | rebind (a : Nat) (extra : List Nat)   -- klass.A = {*klass.A, *extra}
  | mutate (a : Nat) (extra : List Nat)   -- klass.A |= extra / klass.A.update(extra) / klass.A.pop(..)
  deriving Repr, Inhabited

def Upd.isRebind : Upd → Bool
  | .rebind _ _ => true
  | .mutate _ _ => false

/-- the class statement: `y` starts with the bindings of its base `b` -/
def inherit (s : Store) (y b : Nat) : Store :=
  { s with bind := fun c a => if c = y then s.bind b a else s.bind c a }

def applyUpd (y : Nat) (s : Store) : Upd → Store
  | .rebind a extra =>
    { heap := fun o => if o = s.next then s.heap (s.bind y a) ++ extra else s.heap o,
      bind := fun c a' => if c = y ∧ a' = a then s.next else s.bind c a',
      next := s.next + 1 }
  | .mutate a extra =>
    { s with heap := fun o => if o = s.bind y a then s.heap o ++ extra else s.heap o }

/-- create class `y` with base `b`; the metaclass then performs the updates `us` -/
def construct (s : Store) (y b : Nat) (us : List Upd) : Store := us.foldl (applyUpd y) (inherit s y b)

/-- every binding points at an allocated object -/
def WF (s : Store) : Prop := ∀ c a, s.bind c a < s.next

end ClassTables


/-! ### a shared, read-mostly table handed to every fresh worker (the per-class dispatch table)

  `Generator.__init__` hands every instance the SAME per-class table (`self._dispatch = _DISPATCH_CACHE[cls]`): it looks
  per-instance but is shared by all live generators of the class, whatever their dialect SETTINGS (`version=…`). Model:
  a call has a size `k` and a setting `v`; its fresh worker emits `k` entries `(name, handler)`. With a read-only table
  the handler is chosen from the call's own setting each time (`if self.dialect.version < …` inside the handler); with
  `ctorWrites` the worker's constructor stores the handler for ITS setting into the shared slot and rendering reads the
  slot. -/
namespace SharedTable

structure TCfg where
  ctorWrites : Bool

structure TThread where
  todo : List (Nat × Nat)                           -- (size, setting) of the calls still to run
  run : Option (Nat × Nat × Nat × List (Nat × Nat)) -- in flight: entries left, counter, setting, emitted so far
  results : List (List (Nat × Nat))
  deriving Repr, Inhabited

structure TState where
  slot : Nat                                        -- the shared table entry (`_dispatch[exp.GroupConcat]`)
  threads : Tid → TThread

def tset (s : TState) (t : Tid) (th : TThread) : TState :=
  { s with threads := fun u => if u = t then th else s.threads u }

def tstepRun (cfg : TCfg) (s : TState) (t : Tid) (th : TThread) (r c v : Nat) (e : List (Nat × Nat)) : TState :=
  match r with
  | 0 => tset s t { th with run := none, todo := th.todo.tail, results := th.results ++ [e] }
  | r' + 1 => tset s t { th with run := some (r', c + 1, v, e ++ [(c, if cfg.ctorWrites then s.slot else v)]) }

/-- one atomic step of thread `t`: construct the worker of the next call, emit one entry, or return -/
def tstep (cfg : TCfg) (s : TState) (t : Tid) : Option TState :=
  match (s.threads t).run with
  | some (r, c, v, e) => some (tstepRun cfg s t (s.threads t) r c v e)
  | none =>
    match (s.threads t).todo with
    | [] => none
    | (k, v) :: _ =>
      if cfg.ctorWrites then some (tset { s with slot := v } t { (s.threads t) with run := some (k, 0, v, []) })
      else some (tset s t { (s.threads t) with run := some (k, 0, v, []) })

def tinit (slot0 : Nat) (progs : Tid → List (Nat × Nat)) : TState :=
  { slot := slot0, threads := fun t => { todo := progs t, run := none, results := [] } }

def trun (cfg : TCfg) (s : TState) : List Tid → TState
  | [] => s
  | t :: ts =>
    match tstep cfg s t with
    | some s' => trun cfg s' ts
    | none => trun cfg s ts

def TComplete (s : TState) : Prop := ∀ t, (s.threads t).run = none ∧ (s.threads t).todo = []

/-- what a call (k, v) returns alone: entries 0 … k-1, each rendered by the handler of its own setting -/
def texpected (kv : Nat × Nat) : List (Nat × Nat) := (List.range kv.1).map fun i => (i, kv.2)

def tseq (prog : List (Nat × Nat)) : List (List (Nat × Nat)) := prog.map texpected

end SharedTable


/-! ### a bounded memo on the look-up hot path, with a non-atomic eviction

  `get_or_raise(key)`: hit → done; miss with a full cache → evict the oldest entry, then insert. `nonatomic`: the
  victim is PICKED (`next(iter(cache))`) and DELETED (`del cache[victim]`) in two steps — the delete raises KeyError when
  another thread has deleted the same victim in between. `atomic`: pick + delete + insert in one step (under a lock);
  `noEvict`: the memo is unbounded / absent (insert only). -/
namespace Memo

inductive Evict
  | nonatomic | atomic | noEvict
  deriving DecidableEq, Repr, Inhabited

inductive MPc
  | idle
  | picked (k victim : Nat)   -- miss on k, cache was full, victim chosen, `del` still to come
  | insert (k : Nat)          -- about to store k
  deriving DecidableEq, Repr, Inhabited

structure MThread where
  todo : List Nat
  pc : MPc
  errors : Nat        -- KeyErrors raised out of the caller's call
  finished : Nat      -- look-ups that returned
  deriving Repr, Inhabited

structure MState where
  cache : List Nat    -- keys in insertion order
  threads : Tid → MThread

structure MCfg where
  mode : Evict
  cap : Nat

def mset (s : MState) (t : Tid) (th : MThread) : MState :=
  { s with threads := fun u => if u = t then th else s.threads u }

def mstepIdle (cfg : MCfg) (s : MState) (t : Tid) (th : MThread) : Option MState :=
  match th.todo with
  | [] => none
  | k :: rest =>
    if s.cache.contains k then some (mset s t { th with todo := rest, finished := th.finished + 1 })
    else if s.cache.length < cfg.cap then some (mset s t { th with todo := rest, pc := .insert k })
    else
      match cfg.mode with
      | .noEvict => some (mset s t { th with todo := rest, pc := .insert k })
      | .atomic => some (mset { s with cache := s.cache.tail ++ [k] } t { th with todo := rest, finished := th.finished + 1 })
      | .nonatomic => some (mset s t { th with todo := rest, pc := .picked k (s.cache.headD 0) })

def mstep (cfg : MCfg) (s : MState) (t : Tid) : Option MState :=
  match (s.threads t).pc with
  | .idle => mstepIdle cfg s t (s.threads t)
  | .picked k v =>
    if s.cache.contains v then some (mset { s with cache := s.cache.erase v } t { (s.threads t) with pc := .insert k })
    else some (mset s t { (s.threads t) with pc := .idle, errors := (s.threads t).errors + 1 })   -- KeyError
  | .insert k =>
    some (mset { s with cache := if s.cache.contains k then s.cache else s.cache ++ [k] } t
           { (s.threads t) with pc := .idle, finished := (s.threads t).finished + 1 })

def minit (cache0 : List Nat) (progs : Tid → List Nat) : MState :=
  { cache := cache0, threads := fun t => { todo := progs t, pc := .idle, errors := 0, finished := 0 } }

def mrun (cfg : MCfg) (s : MState) : List Tid → MState
  | [] => s
  | t :: ts =>
    match mstep cfg s t with
    | some s' => mrun cfg s' ts
    | none => mrun cfg s ts

def MPc.isPicked : MPc → Bool
  | .picked _ _ => true
  | _ => false

end Memo

end SqlglotModel.Threads
