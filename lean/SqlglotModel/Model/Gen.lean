/-
  C01 — the printer, mirroring sqlglot/generator.py (single-line mode):
    binary()        `this op expression`; the operator text is computed ONCE for the root of a same-class spine and the
                    spine is flattened on both sides with that text (matters for Like, whose text depends on `negate`)
    connector_sql   AND / OR: operands joined by ` OP `
    paren_sql       `(` this `)`
    neg_sql         `-` this, with a space when the guard fires; the guard's SHAPE (text-based `this_sql[0] == "-"` vs
                    node-based `isinstance(…, exp.Neg)` vs none) is extracted from the source per dialect (`Tables.negGuard`)
    not_sql         `NOT ` this          bitwisenot_sql `~` this, same guard mechanism (`Tables.bnotGuard`)
    is_sql          binary(IS / IS NOT)   in_sql  `this IN (a, b)`   between_sql  `this BETWEEN low AND high`
    _like_sql       binary([NOT ]LIKE)    anonymous_sql  `NAME(a, b)`
  sqlglot inserts NO parentheses from precedence; grouping lives in explicit `Paren` nodes made by the parser.

  The printer produces *pieces*: tokens interleaved with single spaces.  `text` is the SQL string (compared byte for
  byte with `Expression.sql()`), `toks` is the token list (compared with the real tokenizer's output on that text
  and used by the round-trip theorems).
-/
import SqlglotModel.Model.Expr

namespace SqlglotModel.Gen
open SqlglotModel.Expr

inductive Piece where
  | t (k : Tok)
  | sp
deriving Repr

def printTok (tbl : Tables) (k : Tok) : String :=
  if k.ty = "STRING" then "'" ++ k.text ++ "'"
  else if k.ty = "IDENTIFIER" then tbl.identStart ++ k.text ++ tbl.identEnd
  else k.text

def text (tbl : Tables) : List Piece → String
  | [] => ""
  | .t k :: ps => printTok tbl k ++ text tbl ps
  | .sp :: ps => " " ++ text tbl ps

def toks : List Piece → Toks
  | [] => []
  | .t k :: ps => k :: toks ps
  | .sp :: ps => toks ps

def kw (ty : String) (txt : String) : Piece := .t ⟨ty, txt⟩

/-- the operator piece of a ladder class: token type and text from the generated table -/
def opTok (tbl : Tables) (cls : String) : Tok :=
  match lookup3 tbl.genOps cls with
  | some (ty, txt) => ⟨ty, txt⟩
  | none => ⟨"UNKNOWN", cls⟩

def identPiece (p : String × Bool) : Piece :=
  .t ⟨if p.2 then "IDENTIFIER" else "VAR", p.1⟩

def colPieces : List (String × Bool) → List Piece
  | [] => []
  | [p] => [identPiece p]
  | p :: q :: rest => identPiece p :: kw "DOT" "." :: colPieces (q :: rest)

/-- `this_sql[0] == "-"` on the pieces -/
def startsDash (tbl : Tables) : List Piece → Bool
  | .t k :: _ => (printTok tbl k).front == '-'
  | _ => false

/-- `this_sql[:1] == "~"` on the pieces -/
def startsTilde (tbl : Tables) : List Piece → Bool
  | .t k :: _ => (printTok tbl k).front == '~'
  | _ => false

def isNeg : Expr → Bool
  | .neg _ => true
  | _ => false

def isBnot : Expr → Bool
  | .bnot _ => true
  | _ => false

/-- does the prefix-operator method separate itself from its operand? -/
def guardSep (g : Guard) (textStarts sameNode : Bool) : Bool :=
  match g with
  | .text => textStarts
  | .node => sameNode
  | .none => false
  | .unknown => false

def likeOp (negate : Bool) : List Piece :=
  if negate then [.sp, kw "NOT" "NOT", .sp, kw "LIKE" "LIKE", .sp] else [.sp, kw "LIKE" "LIKE", .sp]

def isOp (negate : Bool) : List Piece :=
  if negate then [.sp, kw "IS" "IS", .sp, kw "NOT" "NOT", .sp] else [.sp, kw "IS" "IS", .sp]

/-- operator text inherited from the root of an enclosing same-class spine (`true` = Like spine, `false` = Is spine) -/
abbrev Inh := Option (Bool × List Piece)

def inhOp (inh : Inh) (isLike : Bool) (own : List Piece) : List Piece :=
  match inh with
  | some (k, op) => if k = isLike then op else own
  | none => own

mutual
/-- `binary()` computes the operator text once, at the root of a same-class spine, and flattens the spine with it:
    `inh` carries that text down the spine (it only differs from a node's own text for Like / Is, whose text depends
    on `negate`) -/
def genI (tbl : Tables) : Inh → Expr → List Piece
  | _, .num s => [kw "NUMBER" s]
  | _, .str s => [kw "STRING" s]
  | _, .null => [kw "NULL" "NULL"]
  | _, .bool b => if b then [kw "TRUE" "TRUE"] else [kw "FALSE" "FALSE"]
  | _, .col parts => colPieces parts
  | _, .paren e => kw "L_PAREN" "(" :: genI tbl none e ++ [kw "R_PAREN" ")"]
  | _, .neg e =>
      kw "DASH" "-" :: ((if guardSep tbl.negGuard (startsDash tbl (genI tbl none e)) (isNeg e) then [.sp] else [])
        ++ genI tbl none e)
  | _, .not e => kw "NOT" "NOT" :: .sp :: genI tbl none e
  | _, .bnot e =>
      kw "TILDE" "~" :: ((if guardSep tbl.bnotGuard (startsTilde tbl (genI tbl none e)) (isBnot e) then [.sp] else [])
        ++ genI tbl none e)
  | _, .bin cls l r => genI tbl none l ++ [.sp, .t (opTok tbl cls), .sp] ++ genI tbl none r
  | inh, .isNull n e =>
      genI tbl (some (false, inhOp inh false (isOp n))) e ++ inhOp inh false (isOp n) ++ [kw "NULL" "NULL"]
  | _, .inList e items =>
      genI tbl none e ++ [.sp, kw "IN" "IN", .sp, kw "L_PAREN" "("] ++ genList tbl items ++ [kw "R_PAREN" ")"]
  | _, .between e lo hi =>
      genI tbl none e ++ [.sp, kw "BETWEEN" "BETWEEN", .sp] ++ genI tbl none lo ++ [.sp, kw "AND" "AND", .sp]
        ++ genI tbl none hi
  | inh, .like n e p =>
      genI tbl (some (true, inhOp inh true (likeOp n))) e ++ inhOp inh true (likeOp n)
        ++ genI tbl (some (true, inhOp inh true (likeOp n))) p
  | _, .func name args => kw "VAR" name :: kw "L_PAREN" "(" :: (genList tbl args ++ [kw "R_PAREN" ")"])
def genList (tbl : Tables) : List Expr → List Piece
  | [] => []
  | [e] => genI tbl none e
  | e :: f :: rest => genI tbl none e ++ [kw "COMMA" ",", .sp] ++ genList tbl (f :: rest)
end

def gen (tbl : Tables) (e : Expr) : List Piece := genI tbl none e

/-- the token list of the printed expression -/
def g (tbl : Tables) (e : Expr) : Toks := toks (gen tbl e)

/-- the printed SQL text -/
def sql (tbl : Tables) (e : Expr) : String := text tbl (gen tbl e)

end SqlglotModel.Gen
