/-
  C07 — exact string functions of sqlglot/generator.py (on character lists):
    sep, seg, indent (level / pad / skip_first / skip_last), wrap (given the inner text), expressions (flat / pretty /
    leading_comma / dynamic + too_wide / new_line / prefix; items given as already generated strings, no comments),
    _replace_line_breaks + the SENTINEL_LINE_BREAK replacement of generate() (`str.replace`, leftmost non-overlapping),
    sanitize_comment, maybe_comment (the non-separated form: `sql /* c1 */ /* c2 */`).
  NOT modelled: the ~1500 `*_sql` methods that call these helpers (search oracle only), separated comments.
  Whitespace for `str.strip()/rstrip()` is {space, \n, \t, \r} (the helper arguments are code constants and generated SQL).
-/
namespace SqlglotModel.Pretty

abbrev Str := List Char

structure Opts where
  pretty : Bool
  pad : Nat
  indent : Nat
  maxTextWidth : Nat
  leadingComma : Bool
deriving Repr

def isWs (c : Char) : Bool := c = ' ' || c = '\n' || c = '\t' || c = '\r'

def lstrip (l : Str) : Str := l.dropWhile isWs
def rstrip (l : Str) : Str := (lstrip l.reverse).reverse
def strip (l : Str) : Str := rstrip (lstrip l)

/-- the text with every whitespace character removed -/
def stripWs (l : Str) : Str := l.filter (fun c => !isWs c)

def sep (o : Opts) (s : Str) : Str := if o.pretty then strip s ++ ['\n'] else s

def seg (o : Opts) (sql s : Str) : Str := sep o s ++ sql

/-- `str.split("\n")` -/
def splitNl : Str → List Str
  | [] => [[]]
  | c :: cs =>
    if c = '\n' then [] :: splitNl cs
    else
      match splitNl cs with
      | l :: ls => (c :: l) :: ls
      | [] => [[c]]

/-- `"\n".join(lines)` -/
def joinNl : List Str → Str
  | [] => []
  | [l] => l
  | l :: m :: ls => l ++ '\n' :: joinNl (m :: ls)

def spaces (n : Nat) : Str := List.replicate n ' '

def indentAux (w : Nat) (skipFirst skipLast : Bool) : Bool → List Str → List Str
  | _, [] => []
  | first, [l] => [if (skipFirst && first) || skipLast then l else spaces w ++ l]
  | first, l :: m :: ls => (if skipFirst && first then l else spaces w ++ l) :: indentAux w skipFirst skipLast false (m :: ls)

/-- `Generator.indent(sql, level, pad, skip_first, skip_last)` -/
def indent (o : Opts) (sql : Str) (level : Nat) (pad : Option Nat) (skipFirst skipLast : Bool) : Str :=
  if !o.pretty || sql.isEmpty then sql
  else joinNl (indentAux (level * o.indent + pad.getD o.pad) skipFirst skipLast true (splitNl sql))

/-- `Generator.wrap` given the generated inner text -/
def wrap (o : Opts) (thisSql : Str) : Str :=
  if thisSql.isEmpty then ['(', ')']
  else '(' :: (sep o [] ++ indent o thisSql 1 (some 0) false false ++ seg o [')'] [])

def tooWide (o : Opts) (items : List Str) : Bool :=
  (items.foldl (fun acc s => acc + s.length) 0) > o.maxTextWidth

/-- the per-item strings of `expressions()` (empty items are skipped but keep their index) -/
def exprItems (o : Opts) (sepS pre : Str) (n : Nat) : Nat → List Str → List Str
  | _, [] => []
  | i, s :: rest =>
    if s.isEmpty then exprItems o sepS pre n (i + 1) rest
    else
      (if o.pretty && o.leadingComma then (if i > 0 then sepS else []) ++ pre ++ s
       else pre ++ s ++ (if i + 1 < n then sepS else [])) :: exprItems o sepS pre n (i + 1) rest

def joinAll : List Str → Str
  | [] => []
  | l :: ls => l ++ joinAll ls

def intercalateS (sepS : Str) : List Str → Str
  | [] => []
  | [l] => l
  | l :: m :: ls => l ++ sepS ++ intercalateS sepS (m :: ls)

/-- `Generator.expressions(sqls=items, flat, indent, skip_first, skip_last, sep, prefix, dynamic, new_line)` -/
def expressions (o : Opts) (items : List Str) (flat doIndent skipFirst skipLast : Bool) (sepS pre : Str)
    (dynamic newLine : Bool) : Str :=
  if items.isEmpty then []
  else if flat then intercalateS sepS (items.filter (fun s => !s.isEmpty))
  else
    (fun (rs : List Str) =>
      (fun (res : Str) => if doIndent then indent o res 0 none skipFirst skipLast else res)
        (if o.pretty && (!dynamic || tooWide o rs) then
          joinNl ((if newLine then [[]] ++ rs ++ [[]] else rs).map rstrip)
         else joinAll rs))
      (exprItems o sepS pre items.length 0 items)

def SENTINEL : Str := ['_', '_', 'S', 'Q', 'L', 'G', 'L', 'O', 'T', '_', '_', 'L', 'B', '_', '_']

def isPrefix : Str → Str → Bool
  | [], _ => true
  | _ :: _, [] => false
  | a :: as, b :: bs => a = b && isPrefix as bs

/-- `s.replace(pat, by)` for non-empty `pat`: leftmost, non-overlapping (fuel = length of `s`, always enough) -/
def replaceF (pat by_ : Str) : Nat → Str → Str
  | 0, s => s
  | _ + 1, [] => []
  | f + 1, c :: cs =>
    if isPrefix pat (c :: cs) then by_ ++ replaceF pat by_ f ((c :: cs).drop pat.length)
    else c :: replaceF pat by_ f cs

def replace (pat by_ s : Str) : Str := replaceF pat by_ (s.length + 1) s

/-- `_replace_line_breaks` -/
def replaceLineBreaks (o : Opts) (s : Str) : Str := if o.pretty then replace ['\n'] SENTINEL s else s

/-- `SENTINEL_LINE_BREAK.lower()` -/
def SENTINEL_LOWER : Str := ['_', '_', 's', 'q', 'l', 'g', 'l', 'o', 't', '_', '_', 'l', 'b', '_', '_']

/-- `.strip()` then the chain of `sql = sql.replace(<pattern>, "\n")` calls under `if self.pretty` -/
def finishWith (chain : List Str) (o : Opts) (sql : Str) : Str :=
  if o.pretty then chain.foldl (fun acc p => replace p ['\n'] acc) (strip sql) else strip sql

/-- the chain generate() has today (pinned against the source by `generated_sentinel_chain_ok`):
    the sentinel, then its lower-cased form -/
def sentinelChain : List Str := [SENTINEL, SENTINEL_LOWER]

def finish (o : Opts) (sql : Str) : Str := finishWith sentinelChain o sql

/-- the tail as it was before the lower-cased sentinel was handled (kept for the snapshot witness) -/
def finishOld (o : Opts) (sql : Str) : Str := finishWith [SENTINEL] o sql

/-- `str.lower()` on ASCII letters (what `normalize_func` does to an already rendered function name) -/
def lowerAscii (s : Str) : Str :=
  s.map fun c => if 'A' ≤ c ∧ c ≤ 'Z' then Char.ofNat (c.toNat + 32) else c

/-- a quote-free string literal through literal_sql → escape_str → generate -/
def literalOut (o : Opts) (v : Str) : Str := finish o ('\'' :: (replaceLineBreaks o v ++ ['\'']))

/-- `sanitize_comment` (non-empty comment) -/
def sanitizeComment (c : Str) : Str :=
  (fun c1 => (fun c2 => replace ['/', '*'] ['/', ' ', '*'] (replace ['*', '/'] ['*', ' ', '/'] c2))
      (match c1.getLast? with
       | some l => if !isWs l then c1 ++ [' '] else c1
       | none => c1))
    (match c with
     | x :: _ => if !isWs x then ' ' :: c else c
     | [] => c)

/-- `maybe_comment(sql, comments=cs)` in its inline form -/
def maybeComment (o : Opts) (commentsOn : Bool) (sql : Str) (cs : List Str) : Str :=
  if !commentsOn then sql
  else
    (fun (l : List Str) => if l.isEmpty then sql else sql ++ ' ' :: intercalateS [' '] l)
      ((cs.filter (fun c => !c.isEmpty)).map fun c => ['/', '*'] ++ replaceLineBreaks o (sanitizeComment c) ++ ['*', '/'])

/-! ### `_embed_ignore_nulls`: put `IGNORE NULLS` inside the aggregate call, before its closing parenthesis -/

/-- the aggregate call as the generator sees it: the rendered call WITHOUT comments (`self.sql(agg, comment=False)`, ending in
    `)`), and the node's comments -/
structure Call where
  body : Str            -- the call text up to, not including, the closing parenthesis
  comments : List Str

def renderComments (o : Opts) (cs : List Str) : Str := maybeComment o true [] cs

/-- the source: `self.sql(agg, comment=False)[:-1] + f" {text})"`, then `maybe_comment(…, comments=agg.comments)` -/
def embedSlice (o : Opts) (c : Call) (text : Str) : Str :=
  maybeComment o true (((c.body ++ [')']).dropLast) ++ ' ' :: text ++ [')']) c.comments

/-- index of the last `)` (`str.rfind(")")`), `none` when absent -/
def rfindParen (s : Str) : Option Nat :=
  (s.reverse.findIdx? (· == ')')).map (fun i => s.length - 1 - i)

/-- the variant: render WITH comments, insert before the last `)` of the whole text -/
def embedRfind (o : Opts) (c : Call) (text : Str) : Str :=
  (fun rendered =>
    match rfindParen rendered with
    | some i => rendered.take i ++ ' ' :: text ++ rendered.drop i
    | none => rendered)
  (maybeComment o true (c.body ++ [')']) c.comments)

end SqlglotModel.Pretty
