/-
  C18 — the FULL model of `MappingSchema`: the nested dict and nested trie (Model/SchemaTree.lean), all five
  caches (`_find_cache`, `_normalized_table_cache`, `_normalized_name_cache`, `_type_mapping_cache`, and the
  lazily filled `_depth` / `_supported_table_args`), `visible`, and the constructor path
  `__init__ -> _normalize(raw mapping)`.  This is the model the driver executes against the real code.
  `Proofs/SchemaFull.lean` proves that it answers exactly like the flat specification `Model/Schema.lean`.

  Key layouts and the eviction policy are parameters (`Layouts`), filled from Generated/C18.lean.

  Not modelled: `match_depth=False`; mappings deeper than 3 (`supported_table_args` raises "Invalid mapping
  shape"); column mappings given as `str` / `list`; UDFs; column types that are dicts or `DataType` objects.
  One deliberate simplification: the name cache is filled for the columns of an `add_table` call even when the
  call then fails its depth check (the real code raises before normalising them); entries are only ever
  consulted under their own key, so this is unobservable while the key determines the result.
-/
import SqlglotModel.Model.SchemaTree
import SqlglotModel.Model.SchemaMemo

namespace SqlglotModel.Schema
open SqlglotModel.Ident

structure Layouts where
  name : List NField
  table : List TField
  ty : List YField
  evict : Evict
deriving Repr

structure Core where
  mapping : Tree
  trie : Trie
  findCache : List (CKey × Cols)
  depthC : Nat          -- `_depth` (0 = not computed yet)
  argsC : Nat           -- `len(_supported_table_args)` (0 = not computed yet)
  types : TypeCache
deriving Repr

/-- `not self.mapping` -/
def Tree.isEmptyDict : Tree → Bool
  | .node [] => true
  | .leaf [] => true
  | _ => false

/-- `MappingSchema.depth()` -/
def cDepth (C : Core) : Core × Nat :=
  if !C.mapping.isEmptyDict && C.depthC == 0 then
    ({ C with depthC := dictDepth C.mapping - 1 }, dictDepth C.mapping - 1)
  else (C, C.depthC)

/-- `len(self.supported_table_args)` -/
def cArgs (C : Core) : Core × Nat :=
  if C.argsC == 0 && !C.mapping.isEmptyDict then
    ({ (cDepth C).1 with argsC := (cDepth C).2 }, (cDepth C).2)
  else (C, C.argsC)

/-- what `nested_get` found, as `find` uses it -/
def getOut (raise : Bool) : GetR → FindR
  | .found (.leaf cols) => .found cols
  | .found (.node _) => .err .internal          -- a namespace where a table was expected (never, if uniform)
  | .missing => if raise then .err .internal else .notFound
  | .value => .err .internal
  | .internal => .err .internal

/-- `AbstractMappingSchema.find` -/
def cFindU (C : Core) (table : List Ident) (raise : Bool) : Core × FindR :=
  let C1 := (cArgs C).1
  let n := (cArgs C).2
  let parts := ((table.map (·.name)).reverse).take n
  match findInTrieT C1.trie parts raise with
  | .none => (C1, .notFound)
  | .ambiguous => (C1, .err .ambiguous)
  | .parts ps => (C1, getOut raise (nestedGet C1.mapping ((ps.reverse).take n)))

/-- `{col: self._to_data_type(dtype) for col, dtype in schema.items()}` through the type cache -/
def convColsC (ty : String → String → String) (layout : List YField) (self : DialectRef) :
    TypeCache → Cols → TypeCache × Cols
  | m, [] => (m, [])
  | m, (c, t) :: rest =>
    let r1 := typeCall ty layout m ⟨t, self⟩
    let r2 := convColsC ty layout self r1.1 rest
    (r2.1, (c, r1.2) :: r2.2)

/-- `MappingSchema.find` -/
def cFind (E : Env) (L : Layouts) (C : Core) (table : List Ident) (raise ensure : Bool) : Core × FindR :=
  match lookup C.findCache (table, ensure) with
  | some cols => (C, .found cols)
  | none =>
    match cFindU C table raise with
    | (C1, .found cols) =>
      if ensure then
        let r := convColsC E.ty L.ty E.self C1.types cols
        ({ C1 with types := r.1, findCache := ((table, ensure), r.2) :: C1.findCache }, .found r.2)
      else ({ C1 with findCache := ((table, ensure), cols) :: C1.findCache }, .found cols)
    | (C1, r) => (C1, r)

/-- `get_column_type` after `find` -/
def cTypeOut (E : Env) (L : Layouts) (C : Core) (d : DialectRef) (nc : Name) (r : FindR) : Core × Out :=
  match r with
  | .found cols =>
    match lookup cols nc with
    | some ty =>
      let r := typeCall E.ty L.ty C.types ⟨ty, d⟩
      ({ C with types := r.1 }, .ty r.2)
    | none => (C, .ty "UNKNOWN")
  | .notFound => (C, .ty "UNKNOWN")
  | .err e => (C, .err e)

/-- the tail of `column_names` (reads `supported_table_args` only on the only-visible path) -/
def cNamesOut (E : Env) (C : Core) (nt : List Ident) (onlyVisible : Bool) (r : FindR) : Core × Out :=
  match r with
  | .found cols =>
    if !onlyVisible || E.visEmpty then (C, .names (cols.map (·.1))) else
    match E.vis ((nt.map (·.name)).take (cArgs C).2) with
    | some vs => ((cArgs C).1, .names ((cols.map (·.1)).filter (fun c => vs.contains c)))
    | none => ((cArgs C).1, .err .unknownTable)
  | .notFound => (C, .names [])
  | .err e => (C, .err e)

/-- the state `add_table` leaves behind: `nested_set(mapping, path, cols)`, `new_trie([parts], trie)`, eviction -/
def setCore (C1 : Core) (path : Path) (ncols : Cols) (fc : List (CKey × Cols)) : Core :=
  { C1 with
    mapping := nestedSet C1.mapping path (.leaf ncols)
    trie := trieInsert C1.trie path.reverse
    findCache := fc }

/-- the public methods on normalised arguments -/
def coreStep (E : Env) (L : Layouts) (C : Core) : NOp → Core × Out
  | .addTable nt ncols =>
    -- `match_depth and not self.empty and len(normalized_table.parts) != self.depth()`
    if !C.mapping.isEmptyDict && nt.length != (cDepth C).2 then ((cDepth C).1, .err .depthMismatch) else
    let C0 := if C.mapping.isEmptyDict then C else (cDepth C).1
    let r := cFind E L C0 nt false false
    match r.2 with
    | .err e => (r.1, .err e)                     -- an exception inside `find` propagates
    | fr =>
      if earlyReturn fr ncols then (r.1, .unit) else
      (setCore r.1 (nt.map (·.name)) ncols (evict L.evict r.1.findCache nt), .unit)
  | .columnNames nt ov =>
    let r := cFind E L C nt true false
    cNamesOut E r.1 nt ov r.2
  | .columnType nt nc d =>
    let r := cFind E L C nt false false
    cTypeOut E L r.1 d nc r.2
  | .hasColumn nt nc =>
    let r := cFind E L C nt false false
    (r.1, hasOut nc r.2)
  | .find table raise ensure =>
    let r := cFind E L C table raise ensure
    (r.1, .findR r.2)

/-- `add_table(..., match_depth=False)`: the nesting check — and the `depth()` call in it — is skipped -/
def coreAddNoCheck (E : Env) (L : Layouts) (C : Core) (nt : List Ident) (ncols : Cols) : Core × Out :=
  match (cFind E L C nt false false).2 with
  | .err e => ((cFind E L C nt false false).1, .err e)
  | fr =>
    if earlyReturn fr ncols then ((cFind E L C nt false false).1, .unit) else
    (setCore (cFind E L C nt false false).1 (nt.map Ident.name) ncols
      (evict L.evict (cFind E L C nt false false).1.findCache nt), .unit)

/-! ### arguments as the API receives them, and the cached normalisation phase -/

/-- a column argument: a `str` (parsed by `parse_identifier`) or an `exp.Identifier` / `exp.Column.this` -/
inductive ColArg where
  | str (text : String)
  | ident (i : Ident)
deriving Repr, DecidableEq

structure TableArg where
  parts : List Ident      -- outermost first (of the `exp.Table`, or of the parsed string)
  isStr : Bool
deriving Repr, DecidableEq

def ColArg.nameIn (c : ColArg) (d : DialectRef) (isTable norm : Bool) : NameIn :=
  match c with
  | .str s => ⟨s, false, d, isTable, norm⟩
  | .ident i => ⟨i.name, i.quoted, d, isTable, norm⟩

/-- `column_mapping` as `add_table` receives it (`list[str]` — names without types — is not modelled) -/
inductive ColMapping where
  | none_
  | dict (pairs : List (String × String))
  | str (text : String)
deriving Repr

def pyStrip (s : String) : String := s.trimAscii.toString

/-- `ensure_column_mapping`: `None -> {}`; a dict as is; `"a: int, b: text"` split on `,` and `:` with `strip()`
    into a dict (a repeated name keeps its first position and last type) -/
def ColMapping.pairs : ColMapping → List (String × String)
  | .none_ => []
  | .dict p => p
  | .str text =>
    ofPairs ((text.splitOn ",").map (fun x =>
      ((pyStrip ((pyStrip x).splitOn ":")[0]!), pyStrip (((pyStrip x).splitOn ":")[1]!))))

inductive FOp where
  | addTable (d : DialectRef) (norm : Bool) (t : TableArg) (cols : ColMapping)
  | columnNames (d : DialectRef) (norm : Bool) (t : TableArg) (onlyVisible : Bool)
  | columnType (d : DialectRef) (norm : Bool) (t : TableArg) (col : ColArg)
  | hasColumn (d : DialectRef) (norm : Bool) (t : TableArg) (col : ColArg)
  | find (table : List Ident) (raise ensure : Bool)
deriving Repr

/-- the identifier a column argument denotes -/
def ColArg.toIdent (c : ColArg) : Ident := (c.nameIn default false false).ident

/-- the same call in the vocabulary of the flat specification -/
def FOp.toOp : FOp → Op
  | .addTable d norm t cols => .addTable d norm t.parts (cols.pairs.map (fun c => ((ColArg.str c.1).toIdent, c.2)))
  | .columnNames d norm t ov => .columnNames d norm t.parts ov
  | .columnType d norm t col => .columnType d norm t.parts col.toIdent
  | .hasColumn d norm t col => .hasColumn d norm t.parts col.toIdent
  | .find table raise ensure => .find table raise ensure

structure FSt where
  core : Core
  names : NameCache
  tables : TableCache
deriving Repr

/-- `_normalize_name` over the keys of a column mapping, threading the cache -/
def normColsC (E : Env) (L : Layouts) (d : DialectRef) (norm : Bool) :
    NameCache → List (String × String) → NameCache × List (Name × String)
  | m, [] => (m, [])
  | m, (c, ty) :: rest =>
    let r1 := nameCall E.f L.name m ⟨c, false, d, false, norm⟩
    let r2 := normColsC E L d norm r1.1 rest
    (r2.1, (r1.2, ty) :: r2.2)

/-- the normalisation phase of each public method, through `_normalized_table_cache` / `_normalized_name_cache` -/
def fNormOp (E : Env) (L : Layouts) (F : FSt) : FOp → (NameCache × TableCache) × NOp
  | .addTable d norm t cols =>
    let rt := tableCall E.f L.table F.tables ⟨t.parts, t.isStr, d, norm⟩
    let rc := normColsC E L d norm F.names cols.pairs
    ((rc.1, rt.1), .addTable rt.2 (ofPairs rc.2))
  | .columnNames d norm t ov =>
    let rt := tableCall E.f L.table F.tables ⟨t.parts, t.isStr, d, norm⟩
    ((F.names, rt.1), .columnNames rt.2 ov)
  | .columnType d norm t col =>
    let rt := tableCall E.f L.table F.tables ⟨t.parts, t.isStr, d, norm⟩
    let rn := nameCall E.f L.name F.names (col.nameIn d false norm)
    ((rn.1, rt.1), .columnType rt.2 rn.2 d)
  | .hasColumn d norm t col =>
    let rt := tableCall E.f L.table F.tables ⟨t.parts, t.isStr, d, norm⟩
    let rn := nameCall E.f L.name F.names (col.nameIn d false norm)
    ((rn.1, rt.1), .hasColumn rt.2 rn.2)
  | .find table raise ensure => ((F.names, F.tables), .find table raise ensure)

/-- one public call on the full state -/
def fStep (E : Env) (L : Layouts) (F : FSt) (op : FOp) : FSt × Out :=
  let n := fNormOp E L F op
  let r := coreStep E L F.core n.2
  (⟨r.1, n.1.1, n.1.2⟩, r.2)

def fRun (E : Env) (L : Layouts) (F : FSt) (ops : List FOp) : FSt :=
  ops.foldl (fun s op => (fStep E L s op).1) F

/-! ### the constructor -/

/-- `AbstractMappingSchema.__init__` on an (already normalised) mapping: the trie is built from
    `flatten_schema(mapping, depth=self.depth())`, which also fills `_depth` -/
def coreOfMapping (m : Tree) : Core :=
  let C0 : Core := ⟨m, Trie.empty, [], 0, 0, []⟩
  let C1 := (cDepth C0).1
  { C1 with trie := trieOfPaths (flatten (cDepth C0).2 [] m) }

/-- `_normalize_name(key, is_table=True) for key in keys` -/
def normKeysC (E : Env) (L : Layouts) : NameCache → List Name → NameCache × List Name
  | m, [] => (m, [])
  | m, k :: rest =>
    let r1 := nameCall E.f L.name m ⟨k, false, E.self, true, true⟩
    let r2 := normKeysC E L r1.1 rest
    (r2.1, r1.2 :: r2.2)

/-- `nested_set(normalized_mapping, normalized_keys + [col], type)` : creates the table's dict on the way -/
def nestedSetCol (m : Tree) (path : Path) (col : Name) (ty : String) : Tree :=
  let cols0 := match nestedGet m path with
    | .found (.leaf c) => c
    | _ => []
  nestedSet m path (.leaf (dictSet cols0 col ty))

/-- the inner loop of `_normalize` over one table's columns -/
def ctorCols (E : Env) (L : Layouts) (nkeys : List Name) : NameCache × Tree → Cols → NameCache × Tree
  | acc, [] => acc
  | acc, (c, ty) :: rest =>
    let r := nameCall E.f L.name acc.1 ⟨c, false, E.self, false, true⟩
    ctorCols E L nkeys (r.1, nestedSetCol acc.2 nkeys r.2 ty) rest

/-- one iteration of `for keys in flattened_schema` -/
def ctorTable (E : Env) (L : Layouts) (raw : Tree) (acc : NameCache × Tree) (keys : List Name) :
    Except Err (NameCache × Tree) :=
  match nestedGet raw keys with
  | .found (.leaf []) => .error .noColumns
  | .found (.leaf cols) =>
    let rk := normKeysC E L acc.1 keys
    .ok (ctorCols E L rk.2 (rk.1, acc.2) cols)
  | .found (.node []) => .error .noColumns
  | .found (.node _) => .error .depthMismatch      -- `isinstance(first(columns.values()), dict)`
  | .value => .error .depthMismatch                -- `not isinstance(columns, dict)`
  | _ => .error .internal

def ctorLoop (E : Env) (L : Layouts) (raw : Tree) : NameCache × Tree → List (List Name) → Except Err (NameCache × Tree)
  | acc, [] => .ok acc
  | acc, keys :: rest =>
    match ctorTable E L raw acc keys with
    | .ok acc' => ctorLoop E L raw acc' rest
    | .error e => .error e

/-! #### the same constructor on the flat view (specification of `_normalize`, no cache) -/

/-- `[_normalize_name(key, is_table=True) for key in keys]` -/
def normKeys (E : Env) (keys : List Name) : Path :=
  keys.map (fun k => nameCompute E.f ⟨k, false, E.self, true, true⟩)

/-- `(_normalize_name(column_name), column_type)` for the columns of one raw table -/
def normColPairs (E : Env) (cols : Cols) : List (Name × String) :=
  cols.map (fun c => (nameCompute E.f ⟨c.1, false, E.self, false, true⟩, c.2))

/-- one iteration of `for keys in flattened_schema`: the columns are set one by one INTO whatever the
    normalised path already holds (two raw tables that normalise to the same path are merged) -/
def ctorFlatStep (E : Env) (m : List (Path × Cols)) (kc : List Name × Cols) : List (Path × Cols) :=
  dictSet m (normKeys E kc.1)
    ((normColPairs E kc.2).foldl (fun cs c => dictSet cs c.1 c.2)
      (match lookup m (normKeys E kc.1) with
       | some c => c
       | none => []))

def ctorFlat (E : Env) (raw : List (List Name × Cols)) : List (Path × Cols) := raw.foldl (ctorFlatStep E) []

/-- the `add_table(table, columns)` call that registers the same raw table on an existing schema -/
def addOpOf (E : Env) (kc : List Name × Cols) : Op :=
  .addTable E.self true (kc.1.map parseIdent) (kc.2.map (fun c => (parseIdent c.1, c.2)))

/-- `MappingSchema(schema, dialect, normalize)` -/
def fInit (E : Env) (L : Layouts) (raw : Tree) (normalize : Bool) : Except Err FSt :=
  if normalize then
    match ctorLoop E L raw ([], .node []) (flatten (dictDepth raw - 1) [] raw) with
    | .ok (names, m) => .ok ⟨coreOfMapping m, names, []⟩
    | .error e => .error e
  else .ok ⟨coreOfMapping raw, [], []⟩


/-! ### more than one schema: `copy()`, `from_mapping_schema`, `empty` -/

/-- `MappingSchema.copy()` / `MappingSchema.from_mapping_schema(s)`: a NEW schema is CONSTRUCTED from the current
    mapping with the same configuration — the constructor runs again (and re-normalises when `normalize` is on:
    a key that came from a quoted identifier is now parsed as an unquoted one).  Nothing of the old caches is kept. -/
def fCopy (E : Env) (L : Layouts) (F : FSt) (normalize : Bool) : Except Err FSt :=
  fInit E L F.core.mapping normalize

/-- `Schema.empty` -/
def fEmpty (F : FSt) : Bool := F.core.mapping.isEmptyDict

/-- several live schemas; every call addresses one of them -/
abbrev World := List FSt

def wStep (E : Env) (L : Layouts) (W : World) (i : Nat) (op : FOp) : World × Option Out :=
  match W[i]? with
  | some F => (W.set i (fStep E L F op).1, some (fStep E L F op).2)
  | none => (W, none)

def wCopy (E : Env) (L : Layouts) (W : World) (i : Nat) (normalize : Bool) : World × Option Err :=
  match W[i]? with
  | some F =>
    match fCopy E L F normalize with
    | .ok F' => (W ++ [F'], none)
    | .error e => (W, some e)
  | none => (W, some .internal)

end SqlglotModel.Schema
