/-
  Model for C04 (quoting of strings, identifiers and comments).  Executable, core Lean only, no proofs.

  What is mirrored (sqlglot/tokenizer_core.py, sqlglot/generator.py):
  * `scan`        — the slow path (`while True:` loop) of `TokenizerCore._extract_string` for a ONE-character
                    delimiter and `raw_string=False`: rule 1 (UNESCAPED_SEQUENCES), the escape branch with
                    `escaped_delimiter` / `self._peek in escapes` / `is_valid_custom_escape` (ESCAPE_FOLLOW_CHARS) and the
                    `self._char not in quotes or self._char == self._peek` guard, the delimiter test, end of input.
                    Exceptions (TokenError, and the IndexError of `_advance` past the end that `tokenize` wraps) are `.err`.
  * `fastPath`    — the `str.find` fast path of `_extract_string` with its four preconditions (found; not doubled;
                    no backslash to process; no CR in the text).
  * `extract`     — fast path if it applies, else slow path.
  * `escapeStr`   — `Generator.escape_str` (ESCAPED_SEQUENCES map when the generator's dialect supports it, then
                    `replace(QUOTE_END, _escaped_quote_end)`), `pretty=False` (the sentinel step is the identity then).
  * `identCfg`/`strCfg` — how `_scan_identifier` / `_scan_string` instantiate `_extract_string`, and how
                    `Generator.identifier_sql` (doubling IDENTIFIER_END) is the same `escapeStr` with no sequence map.
  * `sanitizeComment` — `Generator.sanitize_comment` (pad, the two `str.replace` calls in source order).
  * `scanC`       — the block-comment loop of `TokenizerCore._scan_comment` (nesting included).

  * `scanA`       — the same loop WITH the `alnum=True` bulk skip of `_advance` (`isAlnum` stands for `str.isalnum`);
                    proved equal to `scan` when no escape/delimiter character is alphanumeric (checked by the harness
                    against CPython for every extracted table).
  Not modelled here: multi-character delimiters (`'''`, `$$`, heredoc tags), raw strings, the bulk skip inside
  `_scan_comment` (same argument: `/` and `*` are not alphanumeric), positions (C13), `_scan`/`_scan_keywords` dispatch.
-/
namespace SqlglotModel.Str

/-- first match in an association list (`dict.get`) -/
def lookup {α β} [BEq α] (l : List (α × β)) (a : α) : Option β :=
  match l with
  | [] => none
  | (k, v) :: r => if k == a then some v else lookup r a

/-- One instantiation of `_extract_string` together with the generator-side escaping that feeds it. -/
structure Cfg where
  q        : Char                          -- delimiter passed to `_extract_string` (tokenizer side)
  escapes  : List Char                     -- the `escapes` set of this call
  quotes   : List Char                     -- one-character keys of the tokenizer's `_QUOTES`
  follow   : List Char                     -- ESCAPE_FOLLOW_CHARS
  unesc    : List ((Char × Char) × Char)   -- UNESCAPED_SEQUENCES the tokenizer holds (2 chars ↦ 1 char)
  gq       : Char                          -- the delimiter the GENERATOR replaces (QUOTE_END / IDENTIFIER_END of its dialect)
  esc0     : Char                          -- generator: `_escaped_quote_end[0]` / `_escaped_identifier_end[0]`
  esc1     : Char                          -- generator: `_escaped_quote_end[1]` / `_escaped_identifier_end[1]`
  escSeq   : List (Char × (Char × Char))   -- generator's dialect ESCAPED_SEQUENCES (1 char ↦ 2 chars)
  supports : Bool                          -- generator's dialect STRINGS_SUPPORT_ESCAPED_SEQUENCES (false for identifiers;
                                           -- BYTE_STRINGS_SUPPORT_ESCAPED_SEQUENCES for byte-string pairings)
  genBsEsc : Bool := false                 -- generator: `"\\" in self.dialect.tokenizer_class.STRING_ESCAPES` (rawstring_sql)
deriving Repr, DecidableEq

def Cfg.isEsc (c : Cfg) (x : Char) : Bool := c.escapes.contains x
def Cfg.isQuote (c : Cfg) (x : Char) : Bool := c.quotes.contains x

/-! ### generator side -/

/-- `.replace(delimiter, escaped_delimiter)` on one character -/
def escQ (c : Cfg) (x : Char) : List Char := if x = c.gq then [c.esc0, c.esc1] else [x]

/-- `ESCAPED_SEQUENCES.get(ch)` when the dialect supports escape sequences -/
def seqOf (c : Cfg) (ch : Char) : Option (Char × Char) :=
  if c.supports then lookup c.escSeq ch else none

/-- image of one value character under `escape_str` -/
def img (c : Cfg) (ch : Char) : List Char :=
  match seqOf c ch with
  | some (a, b) => escQ c a ++ escQ c b
  | none => escQ c ch

def escapeStr (c : Cfg) (v : List Char) : List Char := v.flatMap (img c)

/-- `Generator.identifier_sql`'s `text.replace(self._identifier_end, self._escaped_identifier_end)` -/
def identifierSql (c : Cfg) (v : List Char) : List Char := v.flatMap (escQ c)

/-- `escape_str(..., escape_backslash=False)`: the ESCAPED_SEQUENCES map skips the backslash -/
def imgNoBs (c : Cfg) (ch : Char) : List Char := if ch = '\\' then escQ c ch else img c ch

/-- `Generator.bytestring_sql` between BYTE_START and BYTE_END: `escape_str(this, escape_backslash=False, …)` on a byte pairing
    (`gq` = BYTE_END, `esc0 esc1` = `_escaped_byte_quote_end`, `supports` = BYTE_STRINGS_SUPPORT_ESCAPED_SEQUENCES) -/
def byteSql (c : Cfg) (v : List Char) : List Char := v.flatMap (imgNoBs c)

/-- `Generator.rawstring_sql` between QUOTE_START and QUOTE_END: backslashes doubled first when the backslash is a string
    escape, then `escape_str(string, escape_backslash=False)` -/
def rawSql (c : Cfg) (v : List Char) : List Char :=
  (if c.genBsEsc then v.flatMap (fun x => if x = '\\' then ['\\', '\\'] else [x]) else v).flatMap (imgNoBs c)

/-- `rawstring_sql` writes what `escape_str` writes -/
def wfRaw (c : Cfg) : Bool :=
  c.q != '\\' && c.gq != '\\'
  && (if c.genBsEsc then seqOf c '\\' == some ('\\', '\\') else seqOf c '\\' == none)

/-! ### tokenizer side: `_extract_string` -/

inductive R where
  | ok (text rest : List Char)
  | err
deriving DecidableEq, Repr

/-- rule 1: `unescaped_sequences.get(self._char + self._peek)` when `self._char in escapes` -/
def unescLookup (c : Cfg) (cur p : Char) : Option Char :=
  if !c.unesc.isEmpty && c.isEsc cur then lookup c.unesc (cur, p) else none

/-- `is_valid_custom_escape` -/
def validCustom (c : Cfg) (cur p : Char) : Bool :=
  !c.follow.isEmpty && cur == '\\' && !c.follow.contains p

/-- the condition of the escape branch (non-raw) -/
def escCond (c : Cfg) (cur p : Char) : Bool :=
  c.isEsc cur && (p == c.q || c.isEsc p || validCustom c cur p) && (!c.isQuote cur || cur == p)

/-- what the escape branch appends -/
def escOut (c : Cfg) (cur p : Char) : List Char :=
  if p == c.q then [p] else if validCustom c cur p && cur != p then [p] else [cur, p]

/-- the escape branch at the very end of the input (`self._peek == ""`): only the custom escape can fire, and it raises -/
def escCondEnd (c : Cfg) (cur : Char) : Bool :=
  c.isEsc cur && (!c.follow.isEmpty && cur == '\\') && !c.isQuote cur

/-- `scan c cur rest acc`: `cur` is `self._char`, `rest` what follows, `acc` is `text`. -/
def scan (c : Cfg) : Char → List Char → List Char → R
  | cur, [], acc =>
    if escCondEnd c cur then .err else if cur = c.q then .ok acc [] else .err
  | cur, p :: rest, acc =>
    match unescLookup c cur p with
    | some u =>
      match rest with
      | [] => .err                               -- `_advance(2)` past the end: IndexError → TokenError
      | n :: rest' => scan c n rest' (acc ++ [u])
    | none =>
      if escCond c cur p then
        match rest with
        | [] => .err                             -- "Missing delimiter"
        | n :: rest' => scan c n rest' (acc ++ escOut c cur p)
      else if cur = c.q then .ok acc (p :: rest)
      else scan c p rest (acc ++ [cur])

/-- `_advance(alnum=True)` arriving on `p` with `rest` ahead: bulk-skip the alphanumeric run.
    Returns (new `_char`, what follows it, the characters skipped over). -/
def skipAlnum (isAlnum : Char → Bool) : Char → List Char → List Char → Char × List Char × List Char
  | p, [], sk => (p, [], sk)
  | p, n :: r, sk => if isAlnum p && isAlnum n then skipAlnum isAlnum n r (sk ++ [p]) else (p, n :: r, sk)

/-- the slow loop with the bulk skip of `self._advance(alnum=True)`; `fuel` bounds the iterations -/
def scanA (isAlnum : Char → Bool) (c : Cfg) : Nat → Char → List Char → List Char → R
  | 0, _, _, _ => .err
  | _ + 1, cur, [], acc =>
    if escCondEnd c cur then .err else if cur = c.q then .ok acc [] else .err
  | fuel + 1, cur, p :: rest, acc =>
    match unescLookup c cur p with
    | some u =>
      match rest with
      | [] => .err
      | n :: rest' => scanA isAlnum c fuel n rest' (acc ++ [u])
    | none =>
      if escCond c cur p then
        match rest with
        | [] => .err
        | n :: rest' => scanA isAlnum c fuel n rest' (acc ++ escOut c cur p)
      else if cur = c.q then .ok acc (p :: rest)
      else
        let s := skipAlnum isAlnum p rest []
        scanA isAlnum c fuel s.1 s.2.1 (acc ++ [cur] ++ s.2.2)

/-- the loop entered on the stream after the opening delimiter, with `text = acc` -/
def scanL (c : Cfg) (l acc : List Char) : R :=
  match l with
  | [] => .err
  | x :: xs => scan c x xs acc

/-- `sql.find(delimiter, pos)` split: text before the first `q`, and what follows it -/
def splitAt (q : Char) : List Char → Option (List Char × List Char)
  | [] => none
  | x :: xs => if x = q then some ([], xs) else (splitAt q xs).map fun (a, b) => (x :: a, b)

/-- the `str.find` fast path; `none` when its preconditions fail -/
def fastPath (c : Cfg) (s : List Char) : Option (List Char × List Char) :=
  match splitAt c.q s with
  | none => none
  | some (pre, post) =>
    if (post.head? != some c.q || !c.isEsc c.q)
        && (!(!c.unesc.isEmpty || c.isEsc '\\') || !pre.contains '\\')
        && !pre.contains '\r' then some (pre, post)   -- a lone CR is a line break for `_advance`: slow path
    else none

/-- `_extract_string` (one-character delimiter, non-raw) on the stream after the opening delimiter -/
def extract (c : Cfg) (s : List Char) : R :=
  match fastPath c s with
  | some (t, r) => .ok t r
  | none => scanL c s []

/-! ### well-formedness of a (tokenizer, generator) pairing — decidable, decided per dialect on the extracted tables -/

def wf (c : Cfg) : Bool :=
  c.gq == c.q && c.esc1 == c.q                                              -- generator escapes the tokenizer's delimiter
  && c.isEsc c.esc0                                                          -- w1
  && (c.esc0 == c.q || !c.isQuote c.esc0)                                    -- w2
  && (c.isQuote c.q || !c.isEsc c.q || c.escapes.all (· == c.q))             -- w3
  && c.q != '\\'
  && (!c.supports || c.escSeq.all fun (ch, (a, b)) =>                        -- w4, w8
        c.isEsc a && lookup c.unesc (a, b) == some ch && a != c.q && b != c.q && !c.isQuote a)
  && (!c.supports || !(lookup c.escSeq c.q).isSome)
  && c.escapes.all (fun x => x == c.q || c.isQuote x || (seqOf c x).isSome)  -- w5
  && c.unesc.all (fun ((a, b), _) => a != c.q && !c.isQuote a && b != c.q)   -- w6

/-- what the fast path needs to agree with the slow path on every input -/
def wfFast (c : Cfg) : Bool :=
  c.escapes.all (fun x => x == '\\' || x == c.q || c.isQuote x)
  && c.unesc.all (fun ((a, _), _) => a == '\\')
  && (c.isQuote c.q || !c.isEsc c.q || c.escapes.all (· == c.q))
  && c.q != '\\'

/-- every pairing in `l` (except the listed positions) is non-degenerate and satisfies `p`; `l` is not empty -/
def cfgsOk (p : Cfg → Bool) (l : List (Bool × Cfg)) (skip : List Nat) : Bool :=
  !l.isEmpty && l.zipIdx.all fun ((ok, c), i) => skip.contains i || (ok && p c)

/-! ### fixed example configurations (snapshots used by non-vacuity examples and witnesses; NOT the generated tables) -/

def bsSeqs : List (Char × Char) :=
  [('\\', '\\'), ('a', Char.ofNat 7), ('b', Char.ofNat 8), ('f', Char.ofNat 12), ('n', '\n'), ('r', '\r'), ('t', '\t'), ('v', Char.ofNat 11)]
def bsUnesc : List ((Char × Char) × Char) := bsSeqs.map fun (k, v) => (('\\', k), v)
def bsEscSeq : List (Char × (Char × Char)) := bsSeqs.map fun (k, v) => (v, ('\\', k))

/-- base dialect strings: doubling only -/
def exBase : Cfg :=
  { q := '\'', escapes := ['\''], quotes := ['\''], follow := [], unesc := [], gq := '\'', esc0 := '\'', esc1 := '\'',
    escSeq := [], supports := false }
/-- MySQL strings: `'`, `"` and backslash escape, ESCAPE_FOLLOW_CHARS, escape sequences, quote doubled -/
def exMysql : Cfg :=
  { q := '\'', escapes := ['"', '\'', '\\'], quotes := ['"', '\''], follow := ['%', '0', 'Z', '_', 'b', 'n', 'r', 't'],
    unesc := bsUnesc, gq := '\'', esc0 := '\'', esc1 := '\'', escSeq := bsEscSeq, supports := true, genBsEsc := true }
/-- BigQuery strings: backslash is the only escape, the quote is written `\'` -/
def exBigquery : Cfg :=
  { q := '\'', escapes := ['\\'], quotes := ['"', '\''], follow := [], unesc := bsUnesc, gq := '\'', esc0 := '\\', esc1 := '\'',
    escSeq := bsEscSeq, supports := true, genBsEsc := true }
/-- T-SQL bracket identifiers: `[` … `]`, `]` doubled -/
def exBracketIdent : Cfg :=
  { q := ']', escapes := [']'], quotes := ['"', '\''], follow := [], unesc := [], gq := ']', esc0 := ']', esc1 := ']',
    escSeq := [], supports := false }
/-- Athena as of the pinned commit: the merged Trino+Hive tokenizer (backslash escapes) reads what the Trino generator
    (quote doubling only, no escape sequences) writes -/
def exAthenaMerged : Cfg :=
  { q := '\'', escapes := ['\'', '\\'], quotes := ['\''], follow := [], unesc := bsUnesc, gq := '\'', esc0 := '\'', esc1 := '\'',
    escSeq := [], supports := false }
/-- ClickHouse quoted identifiers as of the pinned commit: backslash is an IDENTIFIER_ESCAPE, `identifier_sql` only doubles `"` -/
def exClickhouseIdent : Cfg :=
  { q := '"', escapes := ['"', '\\'], quotes := ['\''], follow := [],
    unesc := bsUnesc ++ [(('\\', '0'), Char.ofNat 0)], gq := '"', esc0 := '"', esc1 := '"', escSeq := [], supports := false }

/-- PostgreSQL `e'…'` byte strings as of the pinned commit: the tokenizer's BYTE_STRING_ESCAPES are `'` and backslash, the
    generator maps escape sequences but (escape_backslash=False) never the backslash itself -/
def exPostgresByte : Cfg :=
  { q := '\'', escapes := ['\'', '\\'], quotes := ['\''], follow := [], unesc := bsUnesc, gq := '\'', esc0 := '\'', esc1 := '\'',
    escSeq := bsEscSeq, supports := true }

/-! ### comments -/

/-- Python `str.replace` for a two-character pattern: non-overlapping, left to right -/
def replace2 (a b : Char) (rep : List Char) : List Char → List Char
  | [] => []
  | [x] => [x]
  | x :: y :: r => if x = a ∧ y = b then rep ++ replace2 a b rep r else x :: replace2 a b rep (y :: r)

def padFront (isSpace : Char → Bool) (c : List Char) : List Char :=
  match c with
  | [] => []
  | x :: _ => if isSpace x then c else ' ' :: c

def padBack (isSpace : Char → Bool) (c : List Char) : List Char :=
  match c.getLast? with
  | none => []
  | some x => if isSpace x then c else c ++ [' ']

/-- `Generator.sanitize_comment` (`isSpace x` ⇔ `x.strip() == ""`); the comment is non-empty (`maybe_comment` filters) -/
def sanitizeComment (isSpace : Char → Bool) (c : List Char) : List Char :=
  replace2 '/' '*' ['/', ' ', '*'] (replace2 '*' '/' ['*', ' ', '/'] (padBack isSpace (padFront isSpace c)))

/-- does `[a, b]` occur as a contiguous pair -/
def hasPair (a b : Char) : List Char → Bool
  | [] => false
  | [_] => false
  | x :: y :: r => (x == a && y == b) || hasPair a b (y :: r)

/- The `/* … */` loop of `_scan_comment` (`scanC` below), entered after `_advance(len("/*"))` with `self._char` = head of the list and
    `comment_count = d`.  Returns what follows the comment, `none` for the TokenError (unterminated / IndexError). -/
def opensNested (nested : Bool) (nxt : Char) (r : List Char) : Bool :=
  nested && nxt == '/' && r.head? == some '*'

def scanC (nested : Bool) : Nat → Char → List Char → Option (List Char)
  | _, _, [] => none                     -- `_end`: loop exits, the final `_advance` raises IndexError
  | d, cur, nxt :: r =>
    if cur = '*' ∧ nxt = '/' ∧ d = 1 then some r
    else if r.isEmpty then none          -- one more `_advance`, then `_end` as above
    else if opensNested nested nxt r then
      match r with
      | _ :: n3 :: r3 => scanC nested ((if cur = '*' ∧ nxt = '/' then d - 1 else d) + 1) n3 r3
      | _ => none                        -- `_advance(2)` past the end
    else scanC nested (if cur = '*' ∧ nxt = '/' then d - 1 else d) nxt r

/-- `_scan_comment` for a `/*` comment on the stream after the opening `/*` -/
def scanCL (nested : Bool) (l : List Char) : Option (List Char) :=
  match l with
  | [] => none                           -- `_advance(2)` past the end
  | x :: xs => scanC nested 1 x xs

/-- `_scan_comment("/*")` with what it records: `self._comments.append(self._text[2:-1])` taken when the scanner stands on the
    `*` of the terminator, i.e. everything between `/*` and the closing `*/`.  Returns (comment text, what follows). -/
def readComment (nested : Bool) (s : List Char) : Option (List Char × List Char) :=
  (scanCL nested s).map fun rest => (s.take (s.length - rest.length - 2), rest)

end SqlglotModel.Str
