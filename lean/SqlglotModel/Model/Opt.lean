/-
  C03 — the *decisions* of the optimizer rules as executable predicates over abstract query shapes
  (no proofs here).  Mirrors, tied by the translator (guard atoms re-extracted from the source with `ast` on every
  run) and by correspondence against the real rules after `qualify`:

    * pushdown_predicates: which node a WHERE conjunct / an ON conjunct moves to
        (`pushdown_predicates`, `nodes_for_predicate`, `pushdown_cnf`; CNF-like predicates only, no UNNEST sources,
         no recursive CTEs)
    * merge_subqueries._mergeable: the rejecting atoms
    * eliminate_joins._should_eliminate_join
    * optimize_joins._is_reorderable

  What the decisions license semantically is stated and proved in Properties/C03.lean over Sem/Bag.lean.
  NOT modelled: unnest_subqueries, pushdown_projections, canonicalize, simplify (-> C06), qualify (-> C10),
  scope construction; they are covered by the engine-executing search only.
-/
import SqlglotModel.Sem.Bag

namespace SqlglotModel.Opt

inductive Side where
  | none | left | right | full
  deriving DecidableEq, Repr, Inhabited

def Side.ofString? : String → Option Side
  | "" => some .none
  | "LEFT" => some .left
  | "RIGHT" => some .right
  | "FULL" => some .full
  | _ => Option.none

-- ------------------------------------------------------------------------------------------ pushdown_predicates
/-- the conjuncts of the `if` guarding `nodes[table] = node` for a SELECT node in nodes_for_predicate -/
inductive PushAtom where
  | noGroup | refCountLt2 | noWindow | noLimit | noOffset | noQualify
  deriving DecidableEq, Repr

/-- a derived table / CTE body as nodes_for_predicate sees it -/
structure SelShape where
  group : Bool
  window : Bool
  limit : Bool
  offset : Bool
  qualify : Bool
  refCount : Nat
  deriving DecidableEq, Repr, Inhabited

def PushAtom.holds (s : SelShape) : PushAtom → Bool
  | .noGroup => !s.group
  | .refCountLt2 => s.refCount < 2
  | .noWindow => !s.window
  | .noLimit => !s.limit
  | .noOffset => !s.offset
  | .noQualify => !s.qualify

def canPushIntoSelect (atoms : List PushAtom) (s : SelShape) : Bool := atoms.all (·.holds s)

def allPushAtoms : List PushAtom := [.noGroup, .refCountLt2, .noWindow, .noLimit, .noOffset, .noQualify]

inductive SrcKind where
  | table
  | derived (s : SelShape)
  | cte (s : SelShape)
  deriving DecidableEq, Repr, Inhabited

def SrcKind.shape? : SrcKind → Option SelShape
  | .table => none
  | .derived s => some s
  | .cte s => some s

structure Source where
  name : String
  kind : SrcKind
  deriving DecidableEq, Repr, Inhabited

/-- FROM source and the joins in order (CROSS / INNER joins have side `none`) -/
structure PQuery where
  from_ : Source
  joins : List (Side × Source)
  deriving Repr, Inhabited

/-- a WHERE candidate: `idx = -1` and `side = none` for the FROM source -/
structure Cand where
  name : String
  idx : Int
  side : Option Side
  kind : SrcKind
  deriving Repr, Inhabited

def joinCands : Int → List (Side × Source) → List Cand
  | _, [] => []
  | i, (sd, s) :: rest => ⟨s.name, i, some sd, s.kind⟩ :: joinCands (i + 1) rest

def SrcKind.isDerived : SrcKind → Bool
  | .derived _ => true
  | _ => false

/-- `Scope.selected_sources` follows `Scope.references`: table references (plain tables and CTE references) in
    syntactic order first, then the derived tables — the order matters for "the first RIGHT-joined source" -/
def candidates (q : PQuery) : List Cand :=
  let cs := ⟨q.from_.name, -1, none, q.from_.kind⟩ :: joinCands 0 q.joins
  cs.filter (fun c => !c.kind.isDerived) ++ cs.filter (fun c => c.kind.isDerived)

/-- `max(i for i, join in enumerate(joins) if join.side == "FULL", default=-1)` -/
def lastFull (q : PQuery) : Int :=
  (joinCands 0 q.joins).foldl (fun acc c => if c.side == some .full then c.idx else acc) (-1)

/-- sources joined at or before the last FULL join are not WHERE candidates -/
def afterFull (q : PQuery) (cs : List Cand) : List Cand :=
  if lastFull q ≥ 0 then cs.filter (fun c => c.idx > lastFull q) else cs

/-- index of the last RIGHT join among ALL joins of the query (`last_right_join`, default -1) -/
def lastRight (q : PQuery) : Int :=
  (joinCands 0 q.joins).foldl (fun acc c => if c.side == some .right then c.idx else acc) (-1)

/-- `lastOnly = true` (the code since /repo b9fa271): the source of the LAST right join — if it is still a
    candidate — becomes the only candidate (earlier right-joined sources are NULL-padded by the later ones).
    `lastOnly = false` is the unrepaired variant (the first RIGHT-joined candidate in `references` order); it is
    kept so that a regression is tracked by the model and shows up as a failed table fact, not as model drift. -/
def restrictRight (lastOnly : Bool) (q : PQuery) (cs : List Cand) : List Cand :=
  match cs.find? (fun c => c.side == some .right && (!lastOnly || c.idx == lastRight q)) with
  | some c => [c]
  | none => cs

def whereCands (lastOnly : Bool) (q : PQuery) : List Cand := restrictRight lastOnly q (afterFull q (candidates q))

inductive Node where
  | join (name : String) (idx : Int)
  | select (name : String)
  deriving DecidableEq, Repr

/-- the SELECT-node branch of nodes_for_predicate -/
def selectNode (atoms : List PushAtom) (name : String) (single : Bool) (k : SrcKind) : Option Node :=
  match k.shape? with
  | some s => if single && canPushIntoSelect atoms s then some (.select name) else none
  | none => none

/-- one iteration of the loop in nodes_for_predicate for a WHERE conjunct.
    Outer `none` = the function returns `{}` (sided join that is not a pushable RIGHT source). -/
def nodeForWhere (atoms : List PushAtom) (single : Bool) (c : Cand) : Option (Option Node) :=
  match c.side with
  | none => some (selectNode atoms c.name single c.kind)             -- FROM: only a non-table source is a target
  | some .none => some (some (.join c.name c.idx))                   -- unsided join: its ON clause
  | some .right =>
    match c.kind with
    | .table => none
    | k => some (selectNode atoms c.name single k)                   -- RIGHT join: only into its own source
  | some _ => none                                                   -- LEFT / FULL: nothing is pushed at all

def nodesForWhere (atoms : List PushAtom) (cs : List Cand) (single : Bool) : List String → Option (List Node)
  | [] => some []
  | t :: ts =>
    match cs.find? (fun c => c.name == t) with
    | none => nodesForWhere atoms cs single ts
    | some c =>
      match nodeForWhere atoms single c with
      | none => none
      | some n =>
        match nodesForWhere atoms cs single ts with
        | none => none
        | some rest => some (n.toList ++ rest)

inductive Target where
  | on (join : String)
  | select (src : String)
  deriving DecidableEq, Repr

/-- `join_index.get(table, -1)` over ALL joins of the query -/
def joinIndex (q : PQuery) (t : String) : Int :=
  match (joinCands 0 q.joins).find? (fun c => c.name == t) with
  | some c => c.idx
  | none => -1

/-- pushdown_cnf over the nodes: the first eligible JOIN takes the predicate (break), SELECT nodes take a copy -/
def walkNodes (q : PQuery) (tables : List String) : List Node → List Target
  | [] => []
  | .join name idx :: rest =>
    if (tables.filter (· != name)).all (fun t => joinIndex q t < idx) then [.on name]
    else walkNodes q tables rest
  | .select name :: rest => .select name :: walkNodes q tables rest

/-- where one WHERE conjunct referencing `tables` (sorted, as `sorted(column_table_names(p))`) goes -/
def whereDecision (atoms : List PushAtom) (lastOnly : Bool) (q : PQuery) (tables : List String) : List Target :=
  match nodesForWhere atoms (whereCands lastOnly q) (tables.length == 1) tables with
  | none => []
  | some nodes => walkNodes q tables nodes

/-- where one ON conjunct of join number `j` referencing `tables` goes (second loop of pushdown_predicates) -/
def onDecision (atoms : List PushAtom) (q : PQuery) (j : Nat) (tables : List String) : List Target :=
  match q.joins[j]? with
  | none => []
  | some (side, src) =>
    if side == .right || side == .full then []
    else if tables == [src.name] then
      match src.kind with
      | .derived s => if canPushIntoSelect atoms s then [.select src.name] else []
      | _ => []
    else []

-- ------------------------------------------------------------------------------------------ merge_subqueries
/-- the rejecting disjuncts of `_mergeable` (first `if` and final `return`), in source order -/
inductive MergeAtom where
  | outerNotSelect | outerIsStar | innerNotSelect | innerUnmergeableArg | innerNoFrom | outerPivots
  | isolatedMultiSource | joinWithInnerJoins | sidedJoinInnerWhere | fromInnerWhereOuterFullRight
  | innerOrderOuterUnion | queryTransform
  | projAggSubqueryExplode
  | joinOnNonFirstInnerTable | windowBlocks | literalGroup | literalOrder | recursiveCte
  deriving DecidableEq, Repr

structure MergeShape where
  outerNotSelect : Bool := false
  outerIsStar : Bool := false
  innerNotSelect : Bool := false
  innerUnmergeableArg : Bool := false      -- any of UNMERGABLE_ARGS set: DISTINCT, GROUP BY, HAVING, LIMIT, OFFSET, QUALIFY, …
  innerNoFrom : Bool := false
  outerPivots : Bool := false
  isolatedMultiSource : Bool := false
  joinWithInnerJoins : Bool := false
  sidedJoinInnerWhere : Bool := false
  fromInnerWhereOuterFullRight : Bool := false
  innerOrderOuterUnion : Bool := false
  queryTransform : Bool := false
  projAggSubqueryExplode : Bool := false
  joinOnNonFirstInnerTable : Bool := false
  windowBlocks : Bool := false
  literalGroup : Bool := false
  literalOrder : Bool := false
  recursiveCte : Bool := false
  deriving DecidableEq, Repr, Inhabited

def MergeAtom.holds (s : MergeShape) : MergeAtom → Bool
  | .outerNotSelect => s.outerNotSelect
  | .outerIsStar => s.outerIsStar
  | .innerNotSelect => s.innerNotSelect
  | .innerUnmergeableArg => s.innerUnmergeableArg
  | .innerNoFrom => s.innerNoFrom
  | .outerPivots => s.outerPivots
  | .isolatedMultiSource => s.isolatedMultiSource
  | .joinWithInnerJoins => s.joinWithInnerJoins
  | .sidedJoinInnerWhere => s.sidedJoinInnerWhere
  | .fromInnerWhereOuterFullRight => s.fromInnerWhereOuterFullRight
  | .innerOrderOuterUnion => s.innerOrderOuterUnion
  | .queryTransform => s.queryTransform
  | .projAggSubqueryExplode => s.projAggSubqueryExplode
  | .joinOnNonFirstInnerTable => s.joinOnNonFirstInnerTable
  | .windowBlocks => s.windowBlocks
  | .literalGroup => s.literalGroup
  | .literalOrder => s.literalOrder
  | .recursiveCte => s.recursiveCte

def mergeable (atoms : List MergeAtom) (s : MergeShape) : Bool := !(atoms.any (·.holds s))

-- ------------------------------------------------------------------------------------------ eliminate_joins
structure ElimShape where
  isScope : Bool                  -- the joined source is a derived table / CTE
  used : Bool                     -- a column of it is referenced outside the ON clause
  side : Side
  hasOn : Bool
  uniqueOutputs : List String     -- `_unique_outputs` as decided by its DISTINCT / GROUP BY branches
  distinctOrGroup : Bool := false -- one of those branches was taken (their answer is final)
  namedSelects : List String := [] -- the answer of the last branch when `_has_single_output_row` holds
  joinKeys : List String          -- names of the joined source's columns equated in the ON clause
  allAgg : Bool
  limit1 : Bool
  noFrom : Bool
  group : Bool := false           -- the joined SELECT has GROUP BY
  having : Bool := false
  where_ : Bool := false
  deriving DecidableEq, Repr, Inhabited

inductive ElimAtom where
  | isScope | notUsed | sideLeft | joinedOnAllUnique | noOn | singleRow
  deriving DecidableEq, Repr

/-- the extra conditions `_has_single_output_row` imposes since /repo 030ac60 ("exactly one row") -/
inductive SingleRowAtom where
  | noHaving            -- `if expression.args.get("having") …: return False`
  | noFromlessWhere     -- `… or expression.args.get("where") and not expression.args.get("from_")`
  | noGroup             -- `not expression.args.get("group") and all(<aggregates>)`
  deriving DecidableEq, Repr

def allSingleRowAtoms : List SingleRowAtom := [.noHaving, .noFromlessWhere, .noGroup]

/-- `_has_single_output_row`; with `guards = []` this is the unrepaired variant `allAgg ∨ limit1 ∨ noFrom` -/
def hasSingleOutputRow (guards : List SingleRowAtom) (s : ElimShape) : Bool :=
  s.limit1 ||
  (!(guards.contains .noHaving && s.having) &&
   !(guards.contains .noFromlessWhere && s.where_ && s.noFrom) &&
   (s.noFrom || (!(guards.contains .noGroup && s.group) && s.allAgg)))

/-- `_unique_outputs` (its last branch consults `_has_single_output_row`) -/
def effectiveUnique (guards : List SingleRowAtom) (s : ElimShape) : List String :=
  if s.distinctOrGroup then s.uniqueOutputs
  else if hasSingleOutputRow guards s then s.namedSelects else []

def joinedOnAllUnique (guards : List SingleRowAtom) (s : ElimShape) : Bool :=
  !(effectiveUnique guards s).isEmpty && (effectiveUnique guards s).all (fun c => s.joinKeys.contains c)

def ElimAtom.holds (guards : List SingleRowAtom) (s : ElimShape) : ElimAtom → Bool
  | .isScope => s.isScope
  | .notUsed => !s.used
  | .sideLeft => s.side == .left
  | .joinedOnAllUnique => SqlglotModel.Opt.joinedOnAllUnique guards s
  | .noOn => !s.hasOn
  | .singleRow => hasSingleOutputRow guards s

/-- `top ∧ (branchA ∨ branchB)` with the three atom lists extracted from the source -/
def shouldEliminateJoin (guards : List SingleRowAtom) (top a b : List ElimAtom) (s : ElimShape) : Bool :=
  top.all (·.holds guards s) && (a.all (·.holds guards s) || b.all (·.holds guards s))

-- ------------------------------------------------------------------------------------------ optimize_joins
/-- `not any(join.side for join in joins)` -/
def isReorderable (requireNoSide : Bool) (sides : List Side) : Bool :=
  if requireNoSide then !(sides.any (· != .none)) else true

-- ------------------------------------------------------------------------------------------ unnest_subqueries
open SqlglotModel.Bag in
/-- a correlated scalar aggregate subquery `(SELECT proj(<aggregates>) FROM r WHERE on(a, r))` for outer row `a`:
    the projection over the (possibly empty) group of matches -/
def scalarSubq (proj : Table → Val) (on : Row → Row → B3) (a : Row) (r : Table) : Val :=
  proj (matchesOf on a r)

open SqlglotModel.Bag in
def coalesceVal (v d : Val) : Val := if v.isNull then d else v

open SqlglotModel.Bag in
/-- `decorrelate`'s rewrite when the projection contains COUNT: LEFT JOIN to the subquery grouped by the correlation
    key (a group exists iff there is a match; no group -> NULL) and `COALESCE(col, fallback)` -/
def scalarDecorrelated (proj : Table → Val) (fallback : Val) (on : Row → Row → B3) (a : Row) (r : Table) : Val :=
  coalesceVal (if (matchesOf on a r).isEmpty then Val.null else proj (matchesOf on a r)) fallback

-- ------------------------------------------------------------------------------------------ merge_subqueries: renaming an inner source
/-- a column node of the tree: its identity (Python object), the source it is qualified with, its name -/
structure ColRef where
  id : Nat
  table : String
  name : String
  deriving DecidableEq, Repr, Inhabited

/-- `_rename_inner_sources`: `for column in inner_scope.source_columns(conflict): column.set("table", new)` — the loop
    runs over the scope's CACHED column list (object identities), so only nodes that are in the cache are touched -/
def renameVia (cache : List Nat) (old new : String) (live : List ColRef) : List ColRef :=
  live.map fun c => if cache.contains c.id && c.table == old then { c with table := new } else c

/-- what renaming a source must achieve: every live column of that source follows it -/
def renameAll (old new : String) (live : List ColRef) : List ColRef :=
  live.map fun c => if c.table == old then { c with table := new } else c

-- ------------------------------------------------------------------------------------------ simplify.uniq_sort (as used by pushdown_predicates / the pipeline)
open SqlglotModel.Bag in
/-- the value of `p₁ AND p₂ AND …` on one row -/
def conj3 : List B3 → B3
  | [] => some true
  | x :: xs => and3 x (conj3 xs)

/-- `uniq_sort` de-duplicates the operands of an AND/OR chain by their generated KEY text (simplify.Gen): the first
    operand of every key survives -/
def dedupAux {α : Type} (seen : List String) : List (String × α) → List (String × α)
  | [] => []
  | x :: xs => if seen.contains x.1 then dedupAux seen xs else x :: dedupAux (x.1 :: seen) xs

def dedupByKey {α : Type} (l : List (String × α)) : List (String × α) := dedupAux [] l

-- ------------------------------------------------------------------------------------------ windows under a filter
open SqlglotModel.Bag in
/-- a window function with PARTITION BY key: an aggregate of the rows of the input that share the row's key -/
def winPart (key : Row → Val) (agg : Table → Val) (t : Table) (r : Row) : Val :=
  agg (t.filter (fun x => key x == key r))

-- ------------------------------------------------------------------------------------------ pushdown_projections
/-- the disjuncts of the `if` that sets `parent_selections = {SELECT_ALL}` (no column may be pruned) -/
inductive ProjAtom where
  | distinct | intersectExcept | selfRefCte
  deriving DecidableEq, Repr

-- ------------------------------------------------------------------------------------------ eliminate_subqueries / eliminate_ctes
/-- a WITH list as (name, names it references); SQL requires every reference to point at an EARLIER entry -/
def wellScopedFrom (seen : List String) : List (String × List String) → Bool
  | [] => true
  | (n, refs) :: rest => refs.all (fun r => seen.contains r) && wellScopedFrom (n :: seen) rest

def wellScoped (ctes : List (String × List String)) : Bool := wellScopedFrom [] ctes

-- ------------------------------------------------------------------------------------------ pipeline
/-- a rule is a function on queries; `Preserves sem r` = it never changes what a query returns -/
def Preserves {Q R : Type} (sem : Q → R) (r : Q → Q) : Prop := ∀ q, sem (r q) = sem q

def applyRules {Q : Type} (rules : List (Q → Q)) (q : Q) : Q := rules.foldl (fun acc r => r acc) q

end SqlglotModel.Opt
