/-
  C15 — determinism.  Executable model (no proofs here, no Mathlib).

  (a) The algorithms whose result must not depend on the iteration order of a `set` / `dict`
      (which CPython derives from the string-hash seed): the order is an explicit list argument and the theorems say
      `xs.Perm ys → f xs = f ys`.
        * `uniqSort`          — optimizer/simplify.py `Simplifier.uniq_sort` (dict de-duplication on `gen` text, `sorted`)
        * `tsort`             — helper.py `tsort` (layers of dependency-free nodes, each layer `sorted`)
        * `removeComplements` — optimizer/simplify.py `Simplifier.remove_complements` (iterates over a `set` of operands)
      Operands / nodes are numbers: the harness ships the rank of each `gen` text (resp. node name) in sorted order, so
      `<` on numbers is Python's `<` on the strings.
  (b) Per-call state of Parser / TokenizerCore / Generator as field→value maps; `setAll` = a block of attribute assignments.
      The field lists come from the translator (Generated/C15.lean).
-/
namespace SqlglotModel.Determinism

/-! ### (a) order-insensitive algorithms -/

def insertSorted (a : Nat) : List Nat → List Nat
  | [] => [a]
  | b :: l => if a ≤ b then a :: b :: l else b :: insertSorted a l

/-- Python's `sorted(...)` on keys (a total order: the result is unique, so any correct sort is this function) -/
def isort : List Nat → List Nat
  | [] => []
  | a :: l => insertSorted a (isort l)

/-- `sorted(xs, key=key)`: Python's sort is stable — elements whose keys tie keep the order they arrive in -/
def insertByKey (key : Nat → Nat) (a : Nat) : List Nat → List Nat
  | [] => [a]
  | b :: l => if key a ≤ key b then a :: b :: l else b :: insertByKey key a l

def isortBy (key : Nat → Nat) : List Nat → List Nat
  | [] => []
  | a :: l => insertByKey key a (isortBy key l)

/-- key order of `{k: … for k in xs}`: first occurrences, in order -/
def dedupFirst : List Nat → List Nat
  | [] => []
  | a :: l => a :: (dedupFirst l).filter (· ≠ a)

/-- `for i, (sql, e) in enumerate(arr[1:]): if sql < arr[i][0]` finds nothing -/
def ascending : List Nat → Bool
  | a :: b :: l => decide (a ≤ b) && ascending (b :: l)
  | _ => true

/-- what `uniq_sort` leaves as the connector's operands: the keys, and whether a literal TRUE was appended
    (`A AND A` becomes `A AND TRUE`) -/
structure Operands where
  keys : List Nat
  plusTrue : Bool := false
  deriving DecidableEq, Repr

/-- Simplifier.uniq_sort on the flattened operand keys `xs` of an AND / OR (`xor = false`) or XOR connector -/
def uniqSort (xor : Bool) (xs : List Nat) : Operands :=
  if xor then
    if ascending xs then ⟨xs, false⟩ else ⟨isort xs, false⟩
  else
    let d := dedupFirst xs
    if !ascending d then ⟨isort d, false⟩
    else if d.length < xs.length then
      (if d.length = 1 then ⟨d, true⟩ else ⟨d, false⟩)
    else ⟨xs, false⟩

abbrev Dag := List (Nat × List Nat)

def keys (d : Dag) : List Nat := d.map (·.1)

/-- `for node, deps in tuple(dag.items()): for dep in deps: if dep not in dag: dag[dep] = set()` -/
def closeDag (d : Dag) : Dag :=
  d ++ (dedupFirst ((d.flatMap (·.2)).filter fun x => !(keys d).contains x)).map fun x => (x, [])

/-- `{node for node, deps in dag.items() if not deps}` in iteration order -/
def ready (d : Dag) : List Nat := (d.filter fun p => p.2.isEmpty).map (·.1)

/-- `for node in current: dag.pop(node)` ; `for deps in dag.values(): deps -= current` -/
def stepDag (d : Dag) (cur : List Nat) : Dag :=
  (d.filter fun p => !cur.contains p.1).map fun p => (p.1, p.2.filter fun x => !cur.contains x)

/-- the `while dag:` loop; `none` = `ValueError("Cycle error")` -/
def tsortLoop : Nat → Dag → List Nat → Option (List Nat)
  | _, [], acc => some acc
  | 0, _ :: _, _ => none
  | n + 1, d, acc =>
    let cur := ready d
    if cur.isEmpty then none else tsortLoop n (stepDag d cur) (acc ++ isort cur)

def tsort (d : Dag) : Option (List Nat) :=
  let c := closeDag d
  tsortLoop c.length c []

/-- an operand of a flattened connector: an opaque expression or `NOT e` -/
inductive Opnd where
  | atom (k : Nat)
  | not (o : Opnd)
  deriving DecidableEq, Repr

/-- `for op in ops: if isinstance(op, Not) and op.this in ops: return FALSE/TRUE` — does the rule fire? -/
def isComplementIn (ops : List Opnd) : Opnd → Bool
  | .not x => ops.contains x
  | _ => false

def removeComplements (ops : List Opnd) : Bool := ops.any (isComplementIn ops)

/-! ### (b) per-call state -/

abbrev Assigns := List (String × String)
abbrev State := String → Option String

def update (st : State) (f v : String) : State := fun g => if g = f then some v else st g

/-- a block of `self.f = v` statements, executed in order -/
def setAll : Assigns → State → State
  | [], st => st
  | (f, v) :: rest, st => setAll rest (update st f v)

/-- the value a block finally leaves in field `f`, if it assigns it at all -/
def lastVal : Assigns → String → Option String
  | [], _ => none
  | (g, v) :: rest, f =>
    match lastVal rest f with
    | some w => some w
    | none => if f = g then some v else none

def fresh (init : Assigns) : State := setAll init fun _ => none

/-- every assignment of `reset()` repeats the value `__init__` leaves in that field -/
def resetRepeatsInit (init reset : Assigns) : Bool := reset.all fun p => lastVal init p.1 == some p.2

/-- every field some other method writes is re-assigned by `reset()` (or is on the exempt list) -/
def writesCovered (reset : Assigns) (written exempt : List String) : Bool :=
  written.all fun f => (reset.map (·.1)).contains f || exempt.contains f

/-! ### (a') absorb_and_eliminate (absorption part) and the CTE de-duplication of eliminate_subqueries -/

/-- `subset < superset` on Python sets -/
def properSubset (a b : List Nat) : Bool := a.all (b.contains ·) && !(b.all (a.contains ·))

/-- an operand of the flattened connector as absorb_and_eliminate sees it: the set of its sub-operands
    (`set(op.flatten())` when it is of the dual kind, `{op}` otherwise) in SOME iteration order -/
structure AOp where
  lits : List Nat
  dual : Bool
  deriving DecidableEq, Repr

/-- `subops[i]`: the sub-operand sets that contain `i`, in operand order -/
def subopsOf (ops : List AOp) (i : Nat) : List (List Nat) := (ops.filter fun o => o.lits.contains i).map (·.lits)

/-- `any(any(subset < superset for subset in subops[i]) for i in superset)` -/
def absorbed (ops : List AOp) (sup : List Nat) : Bool :=
  sup.any fun i => (subopsOf ops i).any fun sub => properSubset sub sup

/-- which operands the absorption rule replaces by FALSE / TRUE (`A OR (A AND B) -> A`) -/
def absorbPass (ops : List AOp) : List Bool := ops.map fun o => o.dual && absorbed ops o.lits

/-- names: a base followed by the numeric suffixes `find_new_name` appended (`cte`, `cte_2`, `cte_2_2`, …) -/
abbrev Name := List Nat

/-- helper.find_new_name: `base`, else the first of `base_2`, `base_3`, … that is not taken (fuel = |taken| + 1 suffices) -/
def findFrom (taken : List Name) (base : Name) : Nat → Nat → Name
  | 0, i => base ++ [i]
  | fuel + 1, i => if taken.contains (base ++ [i]) then findFrom taken base fuel (i + 1) else base ++ [i]

def findNewName (taken : List Name) (base : Name) : Name :=
  if taken.contains base then findFrom taken base (taken.length + 1) 2 else base

/-- dict lookup on the storage of a dict (an association list in SOME order, keys distinct) -/
def dget (d : List (Nat × Name)) (k : Nat) : Option Name := (d.find? fun p => p.1 == k).map (·.2)

structure CteSt where
  existing : List (Nat × Name)     -- `existing_ctes`: expression ↦ alias
  taken : List Name                -- keys of `taken`
  deriving Repr

/-- eliminate_subqueries._new_cte for a scope whose expression is `key` and whose parent alias is `alias` ([] = none):
    returns the name, whether a new CTE is created, and the updated tables -/
def newCte (st : CteSt) (key : Nat) (alias : Name) : Name × Bool × CteSt :=
  let name0 := if alias.isEmpty then findNewName st.taken [0] else alias
  match dget st.existing key with
  | some dup => (dup, false, { st with taken := dup :: st.taken })
  | none =>
    let name := if st.taken.contains name0 then findNewName st.taken name0 else name0
    (name, true, { existing := (key, name) :: st.existing, taken := name :: st.taken })

/-- the sequence of `_eliminate` calls of one eliminate_subqueries run: the (name, is-new) decisions -/
def elimAll : CteSt → List (Nat × Name) → List (Name × Bool)
  | _, [] => []
  | st, (k, a) :: rest => let r := newCte st k a; (r.1, r.2.1) :: elimAll r.2.2 rest

/-! ### (c) process-wide tables filled on demand (`_DISPATCH_CACHE`, the `_Dialect._classes` registry) -/

abbrev Table := List (Nat × Nat)

def tget (t : Table) (k : Nat) : Option Nat := (t.find? fun p => p.1 == k).map (·.2)

/-- `v = T.get(k); if v is None: v = build(k); T[k] = v` — returns the value used and the table afterwards -/
def fillGet (build : Nat → Nat) (t : Table) (k : Nat) : Nat × Table :=
  match tget t k with
  | some v => (v, t)
  | none => (build k, (k, build k) :: t)

/-- the table after a history of lookups -/
def runFills (build : Nat → Nat) : Table → List Nat → Table
  | t, [] => t
  | t, k :: ks => runFills build (fillGet build t k).2 ks

/-- the audited shape of the `_DISPATCH_CACHE` fill in Generator.__init__ (`fillGet` with key `cls` and `build = _build_dispatch`,
    a function of the key alone) -/
def expectedDispatchCacheFill : List String :=
  ["lookup:dispatch=_DISPATCH_CACHE.get(cls)", "if:dispatch is None", "then:dispatch = _build_dispatch(cls)",
   "then:_DISPATCH_CACHE[cls] = dispatch"]

/-- the audited sort calls of the set-ordering modules: none has a `key=` — each orders the elements themselves (node names in
    `tsort`, (text, expression) pairs with distinct texts in `uniq_sort`), i.e. by a total order in which distinct elements never
    tie; that is the hypothesis of `sorted_perm_invariant` -/
def expectedSortCalls : List (String × String × String × String × String) := [
  ("sqlglot/helper.py", "tsort", "sorted(current)", "-", "-"),
  ("sqlglot/helper.py", "merge_ranges", "sorted(ranges)", "-", "-"),
  ("sqlglot/optimizer/simplify.py", "Simplifier.uniq_sort", "sorted(arr)", "-", "-")
]

/-- the audited list of UPPER_CASE tables that are mutated after their creation.  Audit:
    * `_Dialect.__new__ : gen_cls.TRANSFORMS = {…}` (a rebind; it was `.pop` before the thread-safety repair) prunes the generator's JSON-path transforms when the DIALECT class is created —
      later than the generator class itself, so a class that copied `TRANSFORMS` in between keeps the unpruned entries
      (AthenaTrinoGenerator copying TrinoGenerator.TRANSFORMS: known finding / fix C15-athena-trino-transforms-order);
    * `Parser._parse_connect_with_prior` puts "PRIOR" into the class-level `NO_PAREN_FUNCTION_PARSERS` for the duration of one
      sub-parse and pops it again — not on the exception path before the repair (known finding / fix C15-connect-prior-table-restore);
    * `BigQuery.COERCES_TO[...] |= {…}` extends, in place, sets that the class-body dict `{**TypeAnnotator.COERCES_TO, …}` still shares
      with TypeAnnotator.COERCES_TO: importing the bigquery module changes type coercion for every dialect without a table of its
      own (known finding / fix C15-bigquery-coerces-to-shared-sets);
    * `Properties.PROPERTY_TO_NAME = {…}` is assigned once, at module level right after the class statement in the same module
      (import time, before anything can copy it);
    * `_DISPATCH_CACHE` and `cls._COMMENTS` are the fills covered by `dispatch_cache_idempotent` / class construction. -/
def expectedMutatedClassTables : List (String × String × String × String) := [
  ("sqlglot/dialects/bigquery.py", "BigQuery", "COERCES_TO[exp.DType.BIGINT]", "aug:BitOr-on-shallow-copy"),
  ("sqlglot/dialects/bigquery.py", "BigQuery", "COERCES_TO[exp.DType.DECIMAL]", "aug:BitOr-on-shallow-copy"),
  ("sqlglot/dialects/bigquery.py", "BigQuery", "COERCES_TO[exp.DType.VARCHAR]", "aug:BitOr-on-shallow-copy"),
  ("sqlglot/dialects/dialect.py", "_Dialect.__new__", "gen_cls.TRANSFORMS", "rebind"),
  ("sqlglot/expressions/properties.py", "<module>", "Properties.PROPERTY_TO_NAME", "rebind"),
  ("sqlglot/generator.py", "Generator.__init__", "_DISPATCH_CACHE", "setitem"),
  ("sqlglot/parser.py", "Parser._parse_connect_with_prior", "self.NO_PAREN_FUNCTION_PARSERS", "pop"),
  ("sqlglot/parser.py", "Parser._parse_connect_with_prior", "self.NO_PAREN_FUNCTION_PARSERS", "setitem"),
  ("sqlglot/tokens.py", "_TokenizerBase.__init_subclass__", "cls._COMMENTS", "setitem")
]

/-- the same list once the known defect is repaired (BigQuery copying the sets of TypeAnnotator.COERCES_TO before extending them) -/
def expectedMutatedClassTablesRepaired : List (String × String × String × String) :=
  expectedMutatedClassTables.filter fun e => !(e.1 == "sqlglot/dialects/bigquery.py" && e.2.2.1.startsWith "COERCES_TO[")

/-! ### MappingSchema.find: a cache whose key leaves out one input of the lookup (`raise_on_missing`) -/

/-- what a lookup answers: the table's columns, `None` (tolerant miss), or a SchemaError (strict miss / ambiguity) -/
inductive LRes where
  | found (v : Nat) | missing | raised
  deriving DecidableEq, Repr

/-- the uncached lookup (`AbstractMappingSchema.find`): a function of the mapping, the key AND the strictness flag -/
def resolve (m : Nat → Option Nat) (strict : Bool) (k : Nat) : LRes :=
  match m k with
  | some v => .found v
  | none => if strict then .raised else .missing

abbrev FindCache := List (Nat × Option Nat)

def cget (c : FindCache) (k : Nat) : Option (Option Nat) := (c.find? fun p => p.1 == k).map (·.2)

/-- `MappingSchema.find`: the cache key is `k` alone — the strictness flag is NOT part of it.
    `serveMisses = false`: `v = cache.get(k); if v is None: v = resolve(...); cache[k] = v` (a cached None is never served);
    `serveMisses = true` : `if k in cache: return cache[k]` (the seeded variant).
    A strict miss raises before the store, so nothing is cached for it. -/
def crecompute (m : Nat → Option Nat) (c : FindCache) (k : Nat) (strict : Bool) : LRes × FindCache :=
  match resolve m strict k with
  | .found v => (.found v, (k, some v) :: c)
  | .missing => (.missing, (k, none) :: c)
  | .raised => (.raised, c)

def cfind (serveMisses : Bool) (m : Nat → Option Nat) (c : FindCache) (k : Nat) (strict : Bool) : LRes × FindCache :=
  match cget c k with
  | some (some v) => (.found v, c)
  | some none => if serveMisses then (.missing, c) else crecompute m c k strict
  | none => crecompute m c k strict

/-- the cache after a history of lookups on one schema object -/
def runFinds (serveMisses : Bool) (m : Nat → Option Nat) : FindCache → List (Nat × Bool) → FindCache
  | c, [] => c
  | c, (k, strict) :: rest => runFinds serveMisses m (cfind serveMisses m c k strict).2 rest

/-- the audited shape of `MappingSchema.find`: the cache key is `(table, ensure_data_types)` — `raise_on_missing` is not part of
    it —, the cache is read with `.get`, a cached `None` is NOT served (`if schema is None:` recomputes), and the result of the
    uncached lookup is stored (`cfind false`) -/
def expectedSchemaFindShape : List String := ["0:cache_key = (table, ensure_data_types)", "0:schema = self._find_cache.get(cache_key)", "0:if schema is None", "1:schema = super().find(table, raise_on_missing=raise_on_missing)", "1:if ensure_data_types and isinstance(schema, dict)", "2:schema = {col: self._to_data_type(dtype) if isinstance(dtype, str) else dtype for col, dtype in schema.items()", "1:self._find_cache[cache_key] = schema", "0:return schema"]

/-! ### a class-level constant that holds an Expression NODE, embedded into parse results -/

/-- the objects of the process: cell id ↦ content (cell 0 = the class constant, e.g. `Identifier("offset")`);
    `returned` = the cells of the nodes handed out to callers so far, in order -/
structure SharedHeap where
  cells : List (Nat × Nat)
  next : Nat
  returned : List Nat
  deriving Repr

def hget (h : SharedHeap) (c : Nat) : Option Nat := (h.cells.find? fun p => p.1 == c).map (·.2)

def heapInit (c0 : Nat) : SharedHeap := ⟨[(0, c0)], 1, []⟩

/-- what a caller can do between two parses: parse again, or edit IN PLACE the i-th node it was given
    (`normalize_identifiers` / `qualify` with an upper-casing dialect rewrite `Identifier.this`) -/
inductive HeapOp where
  | parse
  | edit (i : Nat) (v : Nat)
  deriving Repr

/-- `copy = true`: the parser embeds `CONST.copy()` (a new object with the constant's content);
    `copy = false`: it embeds the constant itself -/
def heapStep (copy : Bool) (h : SharedHeap) : HeapOp → SharedHeap
  | .parse =>
    if copy then
      match hget h 0 with
      | some v => ⟨(h.next, v) :: h.cells, h.next + 1, h.returned ++ [h.next]⟩
      | none => h
    else { h with returned := h.returned ++ [0] }
  | .edit i v =>
    match h.returned[i]? with
    | some c => { h with cells := (c, v) :: h.cells }
    | none => h

def heapRun (copy : Bool) : SharedHeap → List HeapOp → SharedHeap
  | h, [] => h
  | h, op :: ops => heapRun copy (heapStep copy h op) ops

/-- what the next parse renders for the embedded node -/
def nextParseRenders (copy : Bool) (h : SharedHeap) : Option Nat :=
  let h' := heapStep copy h .parse
  match h'.returned.getLast? with
  | some c => hget h' c
  | none => none

/-- the audited constants that hold Expression nodes (live introspection of every dialect / parser / generator / tokenizer class
    and of the parser, generator, transforms, optimizer, typing modules).  Audit: the DuckDB generator templates are only ever
    instantiated through `replace_placeholders` (a copying transform) or `.copy()`; `ARRAY_EXCEPT_CONDITION` /
    `ARRAY_INTERSECTION_CONDITION` are handed to `_array_bag_sql`, which does the same; `MAX_BIT_POSITION` is embedded into a
    temporary tree inside the generator that is rendered and dropped (never returned to a caller); the `EXPRESSION_METADATA`
    tables hold type nodes that the annotator copies into `.type`.  NO parser constant holds a node: whatever a parse returns
    is built from fresh objects. -/
def expectedExpressionNodeConstants : List (String × String × String × String × String) := [
  ("sqlglot.dialects.databricks", "<module>", "EXPRESSION_METADATA", "dict", "uses=1 uncopied=0"),
  ("sqlglot.dialects.databricks", "Databricks", "EXPRESSION_METADATA", "dict", "uses=1 uncopied=0"),
  ("sqlglot.dialects.hive", "<module>", "EXPRESSION_METADATA", "dict", "uses=1 uncopied=0"),
  ("sqlglot.dialects.hive", "Hive", "EXPRESSION_METADATA", "dict", "uses=1 uncopied=0"),
  ("sqlglot.dialects.spark", "<module>", "EXPRESSION_METADATA", "dict", "uses=1 uncopied=0"),
  ("sqlglot.dialects.spark", "Spark", "EXPRESSION_METADATA", "dict", "uses=1 uncopied=0"),
  ("sqlglot.dialects.spark2", "<module>", "EXPRESSION_METADATA", "dict", "uses=1 uncopied=0"),
  ("sqlglot.dialects.spark2", "Spark2", "EXPRESSION_METADATA", "dict", "uses=1 uncopied=0"),
  ("sqlglot.generators.duckdb", "<module>", "MAX_BIT_POSITION", "Literal", "uses=1 uncopied=1"),
  ("sqlglot.generators.duckdb", "<module>", "_SEQ_BASE", "Paren", "uses=1 uncopied=0"),
  ("sqlglot.generators.duckdb", "<module>", "_SEQ_SIGNED", "Paren", "uses=2 uncopied=0"),
  ("sqlglot.generators.duckdb", "<module>", "_SEQ_UNSIGNED", "Mod", "uses=2 uncopied=0"),
  ("sqlglot.generators.duckdb", "DuckDBGenerator", "APPROXIMATE_SIMILARITY_TEMPLATE", "Select", "uses=1 uncopied=0"),
  ("sqlglot.generators.duckdb", "DuckDBGenerator", "ARRAYS_ZIP_TEMPLATE", "Case", "uses=1 uncopied=0"),
  ("sqlglot.generators.duckdb", "DuckDBGenerator", "ARRAY_BAG_TEMPLATE", "Case", "uses=1 uncopied=0"),
  ("sqlglot.generators.duckdb", "DuckDBGenerator", "ARRAY_EXCEPT_CONDITION", "GT", "uses=1 uncopied=1"),
  ("sqlglot.generators.duckdb", "DuckDBGenerator", "ARRAY_EXCEPT_SET_TEMPLATE", "Case", "uses=1 uncopied=0"),
  ("sqlglot.generators.duckdb", "DuckDBGenerator", "ARRAY_INTERSECTION_CONDITION", "LTE", "uses=1 uncopied=1"),
  ("sqlglot.generators.duckdb", "DuckDBGenerator", "BITMAP_CONSTRUCT_AGG_TEMPLATE", "Select", "uses=1 uncopied=0"),
  ("sqlglot.generators.duckdb", "DuckDBGenerator", "IN_UNNEST_TEMPLATE", "Case", "uses=1 uncopied=0"),
  ("sqlglot.generators.duckdb", "DuckDBGenerator", "MAPCAT_TEMPLATE", "Case", "uses=1 uncopied=0"),
  ("sqlglot.generators.duckdb", "DuckDBGenerator", "MINHASH_COMBINE_TEMPLATE", "Select", "uses=1 uncopied=0"),
  ("sqlglot.generators.duckdb", "DuckDBGenerator", "MINHASH_TEMPLATE", "Select", "uses=1 uncopied=0"),
  ("sqlglot.generators.duckdb", "DuckDBGenerator", "NORMAL_TEMPLATE", "Add", "uses=1 uncopied=0"),
  ("sqlglot.generators.duckdb", "DuckDBGenerator", "RANDSTR_TEMPLATE", "Select", "uses=1 uncopied=0"),
  ("sqlglot.generators.duckdb", "DuckDBGenerator", "SEEDED_RANDOM_TEMPLATE", "Div", "uses=2 uncopied=0"),
  ("sqlglot.generators.duckdb", "DuckDBGenerator", "SEQ_SIGNED", "Paren", "uses=0 uncopied=0"),
  ("sqlglot.generators.duckdb", "DuckDBGenerator", "SEQ_UNSIGNED", "Mod", "uses=0 uncopied=0"),
  ("sqlglot.generators.duckdb", "DuckDBGenerator", "STRTOK_TEMPLATE", "Case", "uses=1 uncopied=0"),
  ("sqlglot.generators.duckdb", "DuckDBGenerator", "STRTOK_TO_ARRAY_TEMPLATE", "Case", "uses=1 uncopied=0"),
  ("sqlglot.generators.duckdb", "DuckDBGenerator", "UUID_V5_TEMPLATE", "Subquery", "uses=1 uncopied=0"),
  ("sqlglot.generators.duckdb", "DuckDBGenerator", "ZIPF_TEMPLATE", "Select", "uses=1 uncopied=0"),
  ("sqlglot.typing.databricks", "<module>", "EXPRESSION_METADATA", "dict", "uses=1 uncopied=0"),
  ("sqlglot.typing.hive", "<module>", "EXPRESSION_METADATA", "dict", "uses=1 uncopied=0"),
  ("sqlglot.typing.spark", "<module>", "EXPRESSION_METADATA", "dict", "uses=1 uncopied=0"),
  ("sqlglot.typing.spark2", "<module>", "EXPRESSION_METADATA", "dict", "uses=0 uncopied=0"),
  ("sqlglot.typing.spark2", "<module>", "HIVE_EXPRESSION_METADATA", "dict", "uses=1 uncopied=0")
]

/-! ### methods that overwrite a configuration field for the duration of a sub-call (`_try_parse` and `error_level`) -/

/-- how a block of Python code is left -/
inductive Exit where
  | normal | parseError | otherException
  deriving DecidableEq, Repr

/-- where the assignment that puts the saved value back sits -/
inductive RestorePlace where
  | finallyBlock        -- `try: … except ParseError: … finally: self.f = saved`
  | afterTry            -- `try: … except ParseError: …` followed by plain `self.f = saved`
  deriving DecidableEq, Repr

/-- `saved = self.f; self.f = forced; try: body() except ParseError: pass [finally | then]: self.f = saved`.
    The handler catches ParseError only; a `finally` block runs on every exit, code after the try statement only when the
    try statement completes (normally or through the handler). -/
def runGuarded (place : RestorePlace) (f forced : String) (body : State → State × Exit) (st : State) : State × Exit :=
  let saved := st f
  let r := body (update st f forced)
  let restore : State → State := fun s => fun g => if g = f then saved else s g
  match r.2, place with
  | .otherException, .finallyBlock => (restore r.1, .otherException)
  | .otherException, .afterTry => (r.1, .otherException)          -- the exception propagates past the plain code
  | _, _ => (restore r.1, .normal)                                 -- completed or ParseError caught: both variants restore

/-- the audited body of `generator._build_dispatch(cls)`: the table is built from `cls.TRANSFORMS` and `dir(cls)` alone; it reads
    neither `_DISPATCH_CACHE` nor another class — so the value stored under a class key is a function of that class -/
def expectedBuildDispatchShape : List String := ["0:dispatch: dict[type[exp.Expr], t.Callable[..., str]] = dict(cls.TRANSFORMS)", "0:for attr_name in dir(cls)", "1:if not attr_name.endswith('_sql') or attr_name.startswith('_')", "2:continue", "1:expr_key = attr_name[:-4]", "1:expr_cls = exp.EXPR_CLASSES.get(expr_key)", "1:if expr_cls and expr_cls not in dispatch", "2:dispatch[expr_cls] = getattr(cls, attr_name)", "0:return dispatch", "reads _DISPATCH_CACHE: no", "reads another class (__mro__/__bases__/mro/super): no"]

/-- the variant that hands a class its PARENT's cached entry when there is one (`parent k`), instead of computing its own -/
def fillGetInherit (build parent : Nat → Nat) (t : Table) (k : Nat) : Nat × Table :=
  match tget t k with
  | some v => (v, t)
  | none =>
    match tget t (parent k) with
    | some pv => (pv, (k, pv) :: t)
    | none => (build k, (k, build k) :: t)

/-- explicit snapshot (NOT regenerated) of the per-call part of Generator.__init__ / Generator.generate before the repair
    "Generator.generate restarts the generated-alias counter": kept only as a witness of why the reset is needed -/
def preFixGeneratorInit : Assigns := [("unsupported_messages", "[]"), ("_next_name", "name_sequence('_t')")]
def preFixGeneratorReset : Assigns := [("unsupported_messages", "[]")]

/-- the audited allow-list of state that is shared by the whole process and written after import (compared with the list
    regenerated from the source by `decide`; a NEW process-wide cache or registry breaks the build and sends the check into
    its history / call-order search).  Audit: `_Dialect._classes` is the dialect registry (keyed by dialect name, one class
    per key, filled on import of the dialect module); `_DISPATCH_CACHE` is keyed by the generator class and holds a pure
    function of that class; `optimizer.__getattr__` fills the module namespace with lazily imported rules; the `cls.*`
    entries run once per class in `__init_subclass__` (class construction).  None of them is keyed by anything coarser
    than the identity of what it stores. -/
def expectedProcessWideState : List (String × String × String × String) := [
  ("sqlglot/dialects/dialect.py", "cls._classes", "class-attr", "_Dialect.__new__"),
  ("sqlglot/dialects/dialect.py", "cls._classes", "class-attr", "_Dialect._try_load"),
  ("sqlglot/expressions/core.py", "cls.key", "class-attr", "Expr.__init_subclass__"),
  ("sqlglot/expressions/core.py", "cls.required_args", "class-attr", "Expr.__init_subclass__"),
  ("sqlglot/generator.py", "_DISPATCH_CACHE", "module-global", "Generator.__init__"),
  ("sqlglot/generator.py", "_DISPATCH_CACHE", "named-cache", "<module>"),
  ("sqlglot/optimizer/__init__.py", "globals()", "module-namespace", "__getattr__"),
  ("sqlglot/tokens.py", "cls.BYTE_STRING_ESCAPES", "class-attr", "_TokenizerBase.__init_subclass__"),
  ("sqlglot/tokens.py", "cls._BYTE_STRING_ESCAPES", "class-attr", "_TokenizerBase.__init_subclass__"),
  ("sqlglot/tokens.py", "cls._COMMENTS", "class-attr", "_TokenizerBase.__init_subclass__"),
  ("sqlglot/tokens.py", "cls._ESCAPE_FOLLOW_CHARS", "class-attr", "_TokenizerBase.__init_subclass__"),
  ("sqlglot/tokens.py", "cls._FORMAT_STRINGS", "class-attr", "_TokenizerBase.__init_subclass__"),
  ("sqlglot/tokens.py", "cls._IDENTIFIERS", "class-attr", "_TokenizerBase.__init_subclass__"),
  ("sqlglot/tokens.py", "cls._IDENTIFIER_ESCAPES", "class-attr", "_TokenizerBase.__init_subclass__"),
  ("sqlglot/tokens.py", "cls._KEYWORD_TRIE", "class-attr", "_TokenizerBase.__init_subclass__"),
  ("sqlglot/tokens.py", "cls._QUOTES", "class-attr", "_TokenizerBase.__init_subclass__"),
  ("sqlglot/tokens.py", "cls._STRING_ESCAPES", "class-attr", "_TokenizerBase.__init_subclass__")
]

end SqlglotModel.Determinism
