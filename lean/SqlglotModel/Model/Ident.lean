/-
  Identifier normalisation: mirror of `Dialect.normalize_identifier`, `Dialect.case_sensitive`
  (sqlglot/dialects/dialect.py).  Shared by C10 and C18.

  Python's `str.lower` / `str.upper` (or the ASCII translate tables when ASCII_ONLY_NORMALIZATION is set)
  are *parameters* `lower upper : String → String`; the theorems need only the hypotheses recorded in
  `CaseFns.Ok`, which the harness validates against CPython.  The drivers instantiate them with the ASCII
  maps and the correspondence generators stay inside ASCII for model comparison.
-/
namespace SqlglotModel.Ident

inductive Strategy where
  | lowercase | uppercase | caseSensitive | caseInsensitive | caseInsensitiveUpper
deriving DecidableEq, Repr, Inhabited

def Strategy.ofString? : String → Option Strategy
  | "LOWERCASE" => some .lowercase
  | "UPPERCASE" => some .uppercase
  | "CASE_SENSITIVE" => some .caseSensitive
  | "CASE_INSENSITIVE" => some .caseInsensitive
  | "CASE_INSENSITIVE_UPPERCASE" => some .caseInsensitiveUpper
  | _ => none

structure Ident where
  name : String
  quoted : Bool
deriving DecidableEq, Repr, Inhabited

structure CaseFns where
  lower : String → String
  upper : String → String

/-- what the theorems assume about the case maps (validated against CPython by the harness) -/
structure CaseFns.Ok (f : CaseFns) : Prop where
  lower_idem : ∀ s, f.lower (f.lower s) = f.lower s
  upper_idem : ∀ s, f.upper (f.upper s) = f.upper s

/-- does `normalize_identifier` rewrite this identifier at all? (the big `if` condition) -/
def folds (s : Strategy) (quoted : Bool) : Bool :=
  match s with
  | .caseSensitive => false
  | .lowercase | .uppercase => !quoted
  | .caseInsensitive | .caseInsensitiveUpper => true

def foldsUpper : Strategy → Bool
  | .uppercase | .caseInsensitiveUpper => true
  | _ => false

/-- `Dialect.normalize_identifier` on an Identifier: only `this` changes, `quoted` is kept. -/
def normalize (f : CaseFns) (s : Strategy) (i : Ident) : Ident :=
  if folds s i.quoted then
    { i with name := if foldsUpper s then f.upper i.name else f.lower i.name }
  else i

def asciiFns : CaseFns := ⟨String.toLower, String.toUpper⟩

end SqlglotModel.Ident
