/-
  C12 — model of `sqlglot/serde.py` (`dump`, `load`, `_load`) and of the two `Expression` mutators `load`
  rebuilds through (`Expression.set`, `Expression.append`, `_set_parent`; sqlglot/expressions/core.py).

  What a syntax tree is here (own plain rose tree; nothing is shared with Model/Tree.lean):
    * `Val.node cls ty comments mta args` — an `Expression` object: its class name as `dump` prints it (an opaque
      string), `node.type` as `dump` reads it (`None`, or another value; the `Cast` fall-back of the `type` property
      and `DataType.type is self` are outside the model: the harness feeds what `dump` sees), `node.comments`
      (`None` or a list of strings), `node._meta` (`None` or a str-keyed dict of raw values) and `node.args`
      (an insertion-ordered dict: a list of `Arg`s; `WF` demands distinct keys).
    * `Val.dtype s` — a member of the `DType` enum (stored in `DataType.args["this"]`), `s` its `.value`.
    * `Val.raw r`  — any other arg value, carried verbatim: `None`, `bool`, `int`, `str`, or a list of those
      (a list *inside* a list-valued arg; a top-level list-valued arg is `Arg.many`).
  Python values outside this universe (tuple, set, float, enum other than DType, an Expression inside a nested
  list) are NOT modelled; the harness reports any such value it meets in a parsed tree.

  `dump` is the explicit-stack loop of the source (stack top = list head, so "push reversed at the end, pop
  from the end" becomes "prepend in order"); `flat` is the recursive pre-order specification.
  `load` rebuilds into an arena of cells through `set`/`append` (in-place dict update or insertion at the end,
  parent links written by `_set_parent`), `reify` reads the tree back from the arena.
  A Python exception (KeyError / IndexError / AttributeError) is the outcome `none`.
-/
namespace SqlglotModel.Serde

/-- raw (non-Expression) values an arg or a meta entry can hold; every one is a JSON value -/
inductive Raw where
  | null
  | bool (b : Bool)
  | int (i : Int)
  | str (s : String)
  | arr (l : List Raw)
deriving Repr, Inhabited

abbrev Comments := Option (List String)
abbrev Meta := Option (List (String × Raw))

mutual
inductive Val where
  | node (cls : String) (ty : Option Val) (comments : Comments) (mta : Meta) (args : List Arg)
  | dtype (s : String)
  | raw (r : Raw)
inductive Arg where
  | one (k : String) (v : Val)
  | many (k : String) (vs : List Val)
end

instance : Inhabited Val := ⟨.raw .null⟩

/-- the class name `dump` writes for a `DType` member -/
def dataTypeCls : String := "DataType.Type"

def Val.isNull : Val → Bool
  | .raw .null => true
  | _ => false

/-- a value `load` accepts as the first payload (has a CLASS): an Expression or a DType -/
def Val.isObj : Val → Bool
  | .node .. => true
  | .dtype _ => true
  | .raw _ => false

def Arg.key : Arg → String
  | .one k _ => k
  | .many k _ => k

/-- args `dump` writes nothing for: a `None` value, an empty list -/
def Arg.dropped : Arg → Bool
  | .one _ v => v.isNull
  | .many _ vs => vs.isEmpty

/-- `if node.comments:` — `None` and `[]` are both absent from the payload -/
def normC : Comments → Comments
  | some (c :: cs) => some (c :: cs)
  | _ => none

/- number of payload entries of a value (type sub-dumps are nested, not counted) -/
mutual
def Val.cnt : Val → Nat
  | .node _ _ _ _ args => 1 + cntArgs args
  | .dtype _ => 1
  | .raw _ => 1
def cntArgs : List Arg → Nat
  | [] => 0
  | a :: as => a.cnt + cntArgs as
def Arg.cnt : Arg → Nat
  | .one _ v => if v.isNull then 0 else v.cnt
  | .many _ vs => cntVals vs
def cntVals : List Val → Nat
  | [] => 0
  | v :: vs => v.cnt + cntVals vs
end

/- total size including type annotations (fuel of the dump loop) -/
mutual
def Val.size : Val → Nat
  | .node _ ty _ _ args => 1 + sizeOpt ty + sizeArgs args
  | .dtype _ => 1
  | .raw _ => 1
def sizeOpt : Option Val → Nat
  | none => 0
  | some v => v.size
def sizeArgs : List Arg → Nat
  | [] => 0
  | a :: as => a.size + sizeArgs as
def Arg.size : Arg → Nat
  | .one _ v => v.size
  | .many _ vs => sizeVals vs
def sizeVals : List Val → Nat
  | [] => 0
  | v :: vs => v.size + sizeVals vs
end

/- what survives a dump/load round trip: `None`-valued and empty-list args vanish, `comments == []` becomes
   `None` (neither is observable through `==`, `.sql()`, `.type`, `.comments or []`, `.meta`) -/
mutual
def Val.norm : Val → Val
  | .node cls ty c m args => .node cls (normOpt ty) (normC c) m (normArgs args)
  | .dtype s => .dtype s
  | .raw r => .raw r
def normOpt : Option Val → Option Val
  | none => none
  | some v => some v.norm
def normArgs : List Arg → List Arg
  | [] => []
  | a :: as => if a.dropped then normArgs as else a.norm :: normArgs as
def Arg.norm : Arg → Arg
  | .one k v => .one k v.norm
  | .many k vs => .many k (normVals vs)
def normVals : List Val → List Val
  | [] => []
  | v :: vs => v.norm :: normVals vs
end

def keysOf : List Arg → List String
  | [] => []
  | a :: as => a.key :: keysOf as

/- well-formed trees: what a Python object graph of Expressions always satisfies -/
mutual
def Val.WF : Val → Prop
  | .node cls ty _ _ args => cls ≠ dataTypeCls ∧ wfOpt ty ∧ (keysOf args).Nodup ∧ wfArgs args
  | .dtype _ => True
  | .raw _ => True
def wfOpt : Option Val → Prop
  | none => True
  | some v => v.isObj = true ∧ v.WF
def wfArgs : List Arg → Prop
  | [] => True
  | a :: as => a.WF ∧ wfArgs as
def Arg.WF : Arg → Prop
  | .one _ v => v.WF
  | .many _ vs => wfVals vs
def wfVals : List Val → Prop
  | [] => True
  | v :: vs => v.WF ∧ wfVals vs
end

/-! ## payloads -/

/-- one dict of the dumped list. `isArr = false` ⇔ key "a" absent; `value = some .null` ⇔ `"v": None`. -/
inductive Payload where
  | mk (index : Option Nat) (key : Option String) (isArr : Bool) (cls : Option String)
       (ty : Option (List Payload)) (comments : Comments) (mta : Meta) (value : Option Raw)

def pIndex : Payload → Option Nat
  | .mk i _ _ _ _ _ _ _ => i
def pKey : Payload → Option String
  | .mk _ k _ _ _ _ _ _ => k
def pArr : Payload → Bool
  | .mk _ _ a _ _ _ _ _ => a

instance : Inhabited Payload := ⟨.mk none none false none none none none none⟩

/-- the stack entry's `(index, arg_key, is_array)`; the root has none -/
structure Edge where
  parent : Nat
  key : String
  isArr : Bool
deriving Repr, DecidableEq

def eIndex : Option Edge → Option Nat
  | none => none
  | some e => some e.parent
def eKey : Option Edge → Option String
  | none => none
  | some e => some e.key
def eArr : Option Edge → Bool
  | none => false
  | some e => e.isArr

def nodeP (e : Option Edge) (cls : String) (ty : Option (List Payload)) (c : Comments) (m : Meta) : Payload :=
  .mk (eIndex e) (eKey e) (eArr e) (some cls) ty (normC c) m none
def dtypeP (e : Option Edge) (s : String) : Payload :=
  .mk (eIndex e) (eKey e) (eArr e) (some dataTypeCls) none none none (some (.str s))
def rawP (e : Option Edge) (r : Raw) : Payload :=
  .mk (eIndex e) (eKey e) (eArr e) none none none none (some r)

abbrev Item := Val × Option Edge

/-- the stack entries pushed for `node.args` of the node numbered `i`, in pop order -/
def edgesVals (k : String) (i : Nat) : List Val → List Item
  | [] => []
  | v :: vs => (v, some ⟨i, k, true⟩) :: edgesVals k i vs

def edgesArg (i : Nat) : Arg → List Item
  | .one k v => if v.isNull then [] else [(v, some ⟨i, k, false⟩)]
  | .many k vs => edgesVals k i vs

def edgesArgs (i : Nat) : List Arg → List Item
  | [] => []
  | a :: as => edgesArg i a ++ edgesArgs i as

/-- `serde.dump`: `while stack: pop; emit payload; push children; i += 1`. The type annotation is dumped by a
    recursive call (`dump(node.type)`), here with the remaining fuel. -/
def dumpLoop : Nat → List Item → Nat → List Payload → List Payload
  | 0, _, _, out => out
  | _, [], _, out => out
  | fuel + 1, (.node cls ty c m args, e) :: st, i, out =>
    dumpLoop fuel (edgesArgs i args ++ st) (i + 1)
      (out ++ [nodeP e cls (ty.map fun t => dumpLoop fuel [(t, none)] 0 []) c m])
  | fuel + 1, (.dtype s, e) :: st, i, out => dumpLoop fuel st (i + 1) (out ++ [dtypeP e s])
  | fuel + 1, (.raw r, e) :: st, i, out => dumpLoop fuel st (i + 1) (out ++ [rawP e r])

def dump (t : Val) : List Payload := dumpLoop t.size [(t, none)] 0 []

/- recursive specification: pre-order; the node numbered `i` is its children's parent index -/
mutual
def flat : Val → Option Edge → Nat → List Payload
  | .node cls ty c m args, e, i => nodeP e cls (flatTy ty) c m :: flatArgs args i (i + 1)
  | .dtype s, e, _ => [dtypeP e s]
  | .raw r, e, _ => [rawP e r]
def flatTy : Option Val → Option (List Payload)
  | none => none
  | some t => some (flat t none 0)
def flatArgs : List Arg → Nat → Nat → List Payload
  | [], _, _ => []
  | a :: as, p, i => flatArg a p i ++ flatArgs as p (i + a.cnt)
def flatArg : Arg → Nat → Nat → List Payload
  | .one k v, p, i => if v.isNull then [] else flat v (some ⟨p, k, false⟩) i
  | .many k vs, p, i => flatVals vs k p i
def flatVals : List Val → String → Nat → Nat → List Payload
  | [], _, _, _ => []
  | v :: vs, k, p, i => flat v (some ⟨p, k, true⟩) i ++ flatVals vs k p (i + v.cnt)
end

/-! ## the arena `load` builds -/

inductive Slot where
  | one (r : Nat)
  | many (rs : List Nat)
deriving Repr, DecidableEq

/-- `child.parent / child.arg_key / child.index` as `_set_parent` (+ `append`) leave them -/
structure Link where
  parent : Nat
  key : String
  index : Option Nat
deriving Repr, DecidableEq

abbrev Slots := List (String × Slot)

inductive Cell where
  | node (cls : String) (ty : Option Val) (comments : Comments) (mta : Meta) (args : Slots) (link : Option Link)
  | dtype (s : String)
  | raw (r : Raw)

instance : Inhabited Cell := ⟨.raw .null⟩

def lookupKey (k : String) : Slots → Option Slot
  | [] => none
  | (k', s) :: rest => if k' = k then some s else lookupKey k rest

/-- `d[k] = s` on an insertion-ordered dict -/
def setKey (k : String) (s : Slot) : Slots → Slots
  | [] => [(k, s)]
  | (k', s') :: rest => if k' = k then (k, s) :: rest else (k', s') :: setKey k s rest

/-- `d.pop(k, None)` -/
def eraseKey (k : String) : Slots → Slots
  | [] => []
  | (k', s') :: rest => if k' = k then rest else (k', s') :: eraseKey k rest

/-- `Expression.append(k, value)`: coerce `args[k]` to a list if it is not one, append; returns the new args and
    the position of the appended element (= `value.index`) -/
def appendRef (args : Slots) (k : String) (j : Nat) : Slots × Nat :=
  match lookupKey k args with
  | some (.many rs) => (setKey k (.many (rs ++ [j])) args, rs.length)
  | _ => (setKey k (.many [j]) args, 0)

def Cell.withLink : Cell → Link → Cell
  | .node cls ty c m args _, l => .node cls ty c m args (some l)
  | c, _ => c

def Cell.isRawNull : Cell → Bool
  | .raw .null => true
  | _ => false

def reifyRefs (f : Nat → Option Val) : List Nat → Option (List Val)
  | [] => some []
  | r :: rs => (f r).bind fun v => (reifyRefs f rs).bind fun vs => some (v :: vs)

def reifySlot (f : Nat → Option Val) (k : String) : Slot → Option Arg
  | .one r => (f r).map (Arg.one k)
  | .many rs => (reifyRefs f rs).map (Arg.many k)

def reifySlots (f : Nat → Option Val) : Slots → Option (List Arg)
  | [] => some []
  | (k, s) :: rest => (reifySlot f k s).bind fun a => (reifySlots f rest).bind fun as => some (a :: as)

def reifyCell (f : Nat → Option Val) : Cell → Option Val
  | .node cls ty c m args _ => (reifySlots f args).map (Val.node cls ty c m)
  | .dtype s => some (.dtype s)
  | .raw r => some (.raw r)

/-- read the tree rooted at cell `i` back (fuel bounds the depth; arenas built by `load` only refer forwards) -/
def reify (A : List Cell) : Nat → Nat → Option Val
  | 0, _ => none
  | fuel + 1, i => match A[i]? with
    | none => none
    | some c => reifyCell (reify A fuel) c

/-- the parent's side of one `load` iteration: `parent.append(k, node)` / `parent.set(k, node)` -/
def linkArgs (args : Slots) (k : String) (isArr : Bool) (j : Nat) (childIsNull : Bool) : Slots × Option Nat :=
  if isArr then
    let r := appendRef args k j
    (r.1, some r.2)
  else if childIsNull then (eraseKey k args, none)     -- `set(k, None)` pops the key
  else (setKey k (.one j) args, none)

/-- one iteration of the `for payload in tail` loop, given the freshly built node -/
def attach (A : List Cell) (cell : Cell) (idx : Nat) (k : String) (isArr : Bool) : Option (List Cell) :=
  if idx < A.length then          -- (`nodes[len(nodes)-1]` = the node itself would build a cycle: not modelled)
    match A[idx]? with
    | some (.node cls ty c m args l) =>
      let r := linkArgs args k isArr A.length cell.isRawNull
      some (A.set idx (.node cls ty c m r.1 l) ++ [cell.withLink ⟨idx, k, r.2⟩])
    | _ => none                    -- `.append` / `.set` on a str / int / DType: AttributeError
  else none

/- `load` / `_load`.  `loadTy` is `load(payload.get(TYPE))`: `none` = raises, `some none` = returns `None`. -/
mutual
def load : List Payload → Option (Option Val)
  | [] => some none
  | p :: tail => match mkRoot p with
    | none => none
    | some root => match loadList tail [root] with
      | none => none
      | some A => match reify A A.length 0 with
        | none => none
        | some v => some (some v)
def loadTy : Option (List Payload) → Option (Option Val)
  | none => some none
  | some ps => load ps
/-- `_load(payload)` given `payload[CLASS]`: a DType member, or an empty instance of the class with `_type`,
    `comments`, `_meta` filled in -/
def mkObj (cn : String) : Option (List Payload) → Comments → Meta → Option Raw → Option Cell
  | ty, c, m, value =>
    if cn = dataTypeCls then
      match value with
      | some (.str s) => some (.dtype s)
      | _ => none
    else match loadTy ty with
      | none => none
      | some tyv => some (.node cn tyv c m [] none)
/-- `_load(payload)` for the first payload: needs CLASS -/
def mkRoot : Payload → Option Cell
  | .mk _ _ _ none _ _ _ _ => none
  | .mk _ _ _ (some cn) ty c m value => mkObj cn ty c m value
/-- `_load(payload) if CLASS in payload else payload[VALUE]` -/
def mkCell : Payload → Option Cell
  | .mk _ _ _ none _ _ _ none => none
  | .mk _ _ _ none _ _ _ (some r) => some (.raw r)
  | .mk _ _ _ (some cn) ty c m value => mkObj cn ty c m value
def loadList : List Payload → List Cell → Option (List Cell)
  | [], A => some A
  | p :: ps, A => match mkCell p with
    | none => none
    | some cell => match pIndex p, pKey p with
      | some idx, some k => match attach A cell idx k (pArr p) with
        | some A' => loadList ps A'
        | none => none
      | _, _ => none
end

/-- the `nodes` list at the end of `load` (the object graph before it is read back) -/
def loadArena : List Payload → Option (List Cell)
  | [] => some []
  | p :: tail => match mkRoot p with
    | none => none
    | some root => loadList tail [root]

end SqlglotModel.Serde
