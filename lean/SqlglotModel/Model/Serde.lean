/-
  C12 — model of `sqlglot/serde.py` (`dump`, `load`, `_load`) and of the two `Expression` mutators `load`
  rebuilds through (`Expression.set`, `Expression.append`, `_set_parent`; sqlglot/expressions/core.py).

  What a syntax tree is here (own plain rose tree; nothing is shared with Model/Tree.lean):
    * `Val.node cls ty comments mta args` — an `Expression` object: its class name as `dump` prints it (an opaque
      string), `node.type` as `dump` reads it (`None`, or another value; the `Cast` fall-back of the `type` property
      and `DataType.type is self` are outside the model: the harness feeds what `dump` sees), `node.comments`
      (`None` or a list of strings), `node._meta` (`None` or a str-keyed dict of raw values) and `node.args`
      (an insertion-ordered dict: a list of `Arg`s; `WF` demands distinct keys).
    * `Val.dtype s` — a member of the `DType` enum (stored in `DataType.args["this"]`), `s` its `.value`.
    * `Val.raw r`  — any other arg value, carried verbatim: `None`, `bool`, `int`, `str`, or a list of those
      (a list *inside* a list-valued arg; a top-level list-valued arg is `Arg.many`).
  Python values outside this universe (tuple, set, float, enum other than DType, an Expression inside a nested
  list) are NOT modelled; the harness reports any such value it meets in a parsed tree.

  `dump` is the explicit-stack loop of the source (stack top = list head, so "push reversed at the end, pop
  from the end" becomes "prepend in order"); `flat` is the recursive pre-order specification.
  `load` rebuilds into an arena of cells through `set`/`append` (in-place dict update or insertion at the end,
  parent links written by `_set_parent`), `reify` reads the tree back from the arena.
  A Python exception (KeyError / IndexError / AttributeError) is the outcome `none`.

  Also modelled here: the `_hash` cache field of an Expression and its invalidation walk at the head of `set` / `append`
  (`clearUp`), `Expression.__deepcopy__` (`copyLoopWith`: explicit stack, children attached through `set` / `append`,
  nested copies of `_type` and of Expressions inside `_meta`, `_hash` carried over), `Expression.__reduce__` (`reduce` /
  `unpickle`), and the JSON view of a payload (`Py`, `JsonValue`, `Payload.toPy`).
-/
namespace SqlglotModel.Serde

/-- raw (non-Expression) values an arg or a meta entry can hold; every one is a JSON value -/
inductive Raw where
  | null
  | bool (b : Bool)
  | int (i : Int)
  | str (s : String)
  | arr (l : List Raw)
deriving Repr, Inhabited

abbrev Comments := Option (List String)

mutual
inductive Val where
  | node (cls : String) (ty : Option Val) (comments : Comments) (mta : Option (List MetaE)) (args : List Arg)
  | dtype (s : String)
  | raw (r : Raw)
inductive Arg where
  | one (k : String) (v : Val)
  | many (k : String) (vs : List Val)
/-- one entry of `node._meta` (a str-keyed dict): a raw value, or an Expression (annotate_types stores a DataType
    under "query_type"; `dump` writes it as `{"__expr__": dump(v)}`) -/
inductive MetaE where
  | raw (k : String) (r : Raw)
  | expr (k : String) (v : Val)
end

abbrev Meta := Option (List MetaE)

instance : Inhabited Val := ⟨.raw .null⟩

/-- the class name `dump` writes for a `DType` member -/
def dataTypeCls : String := "DataType.Type"

def Val.isNull : Val → Bool
  | .raw .null => true
  | _ => false

/-- a value `load` accepts as the first payload (has a CLASS): an Expression or a DType -/
def Val.isObj : Val → Bool
  | .node .. => true
  | .dtype _ => true
  | .raw _ => false

/-- an Expression (what `isinstance(v, exp.Expr)` accepts) -/
def Val.isNode : Val → Bool
  | .node .. => true
  | _ => false

def MetaE.key : MetaE → String
  | .raw k _ => k
  | .expr k _ => k

def Arg.key : Arg → String
  | .one k _ => k
  | .many k _ => k

/-- args `dump` writes nothing for: a `None` value, an empty list -/
def Arg.dropped : Arg → Bool
  | .one _ v => v.isNull
  | .many _ vs => vs.isEmpty

/-- `if node.comments:` — `None` and `[]` are both absent from the payload -/
def normC : Comments → Comments
  | some (c :: cs) => some (c :: cs)
  | _ => none

/- number of payload entries of a value (type sub-dumps are nested, not counted) -/
mutual
def Val.cnt : Val → Nat
  | .node _ _ _ _ args => 1 + cntArgs args
  | .dtype _ => 1
  | .raw _ => 1
def cntArgs : List Arg → Nat
  | [] => 0
  | a :: as => a.cnt + cntArgs as
def Arg.cnt : Arg → Nat
  | .one _ v => if v.isNull then 0 else v.cnt
  | .many _ vs => cntVals vs
def cntVals : List Val → Nat
  | [] => 0
  | v :: vs => v.cnt + cntVals vs
end

/- total size including type annotations (fuel of the dump loop) -/
mutual
def Val.size : Val → Nat
  | .node _ ty _ m args => 1 + sizeOpt ty + sizeMeta m + sizeArgs args
  | .dtype _ => 1
  | .raw _ => 1
def sizeOpt : Option Val → Nat
  | none => 0
  | some v => v.size
def sizeMeta : Option (List MetaE) → Nat
  | none => 0
  | some l => sizeMetaL l
def sizeMetaL : List MetaE → Nat
  | [] => 0
  | e :: es => e.size + sizeMetaL es
def MetaE.size : MetaE → Nat
  | .raw _ _ => 0
  | .expr _ v => v.size
def sizeArgs : List Arg → Nat
  | [] => 0
  | a :: as => a.size + sizeArgs as
def Arg.size : Arg → Nat
  | .one _ v => v.size
  | .many _ vs => sizeVals vs
def sizeVals : List Val → Nat
  | [] => 0
  | v :: vs => v.size + sizeVals vs
end

/- what survives a dump/load round trip: `None`-valued and empty-list args vanish, `comments == []` becomes
   `None` (neither is observable through `==`, `.sql()`, `.type`, `.comments or []`, `.meta`) -/
mutual
def Val.norm : Val → Val
  | .node cls ty c m args => .node cls (normOpt ty) (normC c) (normMeta m) (normArgs args)
  | .dtype s => .dtype s
  | .raw r => .raw r
def normOpt : Option Val → Option Val
  | none => none
  | some v => some v.norm
def normMeta : Option (List MetaE) → Option (List MetaE)
  | none => none
  | some l => some (normMetaL l)
def normMetaL : List MetaE → List MetaE
  | [] => []
  | e :: es => e.norm :: normMetaL es
def MetaE.norm : MetaE → MetaE
  | .raw k r => .raw k r
  | .expr k v => .expr k v.norm
def normArgs : List Arg → List Arg
  | [] => []
  | a :: as => if a.dropped then normArgs as else a.norm :: normArgs as
def Arg.norm : Arg → Arg
  | .one k v => .one k v.norm
  | .many k vs => .many k (normVals vs)
def normVals : List Val → List Val
  | [] => []
  | v :: vs => v.norm :: normVals vs
end

def keysOf : List Arg → List String
  | [] => []
  | a :: as => a.key :: keysOf as

/- well-formed trees: what a Python object graph of Expressions always satisfies -/
mutual
def Val.WF : Val → Prop
  | .node cls ty _ m args => cls ≠ dataTypeCls ∧ wfOpt ty ∧ wfMeta m ∧ (keysOf args).Nodup ∧ wfArgs args
  | .dtype _ => True
  | .raw _ => True
def wfOpt : Option Val → Prop
  | none => True
  | some v => v.isObj = true ∧ v.WF
def wfMeta : Option (List MetaE) → Prop
  | none => True
  | some l => wfMetaL l
def wfMetaL : List MetaE → Prop
  | [] => True
  | e :: es => e.WF ∧ wfMetaL es
def MetaE.WF : MetaE → Prop
  | .raw _ _ => True
  | .expr _ v => v.isNode = true ∧ v.WF
def wfArgs : List Arg → Prop
  | [] => True
  | a :: as => a.WF ∧ wfArgs as
def Arg.WF : Arg → Prop
  | .one _ v => v.WF
  | .many _ vs => wfVals vs
def wfVals : List Val → Prop
  | [] => True
  | v :: vs => v.WF ∧ wfVals vs
end

/-! ## payloads -/

-- one dict of the dumped list. `isArr = false` ⇔ key "a" absent; `value = some .null` ⇔ `"v": None`.
mutual
inductive Payload where
  | mk (index : Option Nat) (key : Option String) (isArr : Bool) (cls : Option String)
       (ty : Option (List Payload)) (comments : Comments) (mta : Option (List PMeta)) (value : Option Raw)
/-- one entry of the payload's META dict: the value verbatim, or `{"__expr__": [payloads]}` -/
inductive PMeta where
  | raw (k : String) (r : Raw)
  | expr (k : String) (ps : List Payload)
end

abbrev PMetas := Option (List PMeta)

def pIndex : Payload → Option Nat
  | .mk i _ _ _ _ _ _ _ => i
def pKey : Payload → Option String
  | .mk _ k _ _ _ _ _ _ => k
def pArr : Payload → Bool
  | .mk _ _ a _ _ _ _ _ => a

instance : Inhabited Payload := ⟨.mk none none false none none none none none⟩

/-- the stack entry's `(index, arg_key, is_array)`; the root has none -/
structure Edge where
  parent : Nat
  key : String
  isArr : Bool
deriving Repr, DecidableEq

def eIndex : Option Edge → Option Nat
  | none => none
  | some e => some e.parent
def eKey : Option Edge → Option String
  | none => none
  | some e => some e.key
def eArr : Option Edge → Bool
  | none => false
  | some e => e.isArr

def nodeP (e : Option Edge) (cls : String) (ty : Option (List Payload)) (c : Comments) (m : PMetas) : Payload :=
  .mk (eIndex e) (eKey e) (eArr e) (some cls) ty (normC c) m none
def dtypeP (e : Option Edge) (s : String) : Payload :=
  .mk (eIndex e) (eKey e) (eArr e) (some dataTypeCls) none none none (some (.str s))
def rawP (e : Option Edge) (r : Raw) : Payload :=
  .mk (eIndex e) (eKey e) (eArr e) none none none none (some r)

abbrev Item := Val × Option Edge

/-- the stack entries pushed for `node.args` of the node numbered `i`, in pop order -/
def edgesVals (k : String) (i : Nat) : List Val → List Item
  | [] => []
  | v :: vs => (v, some ⟨i, k, true⟩) :: edgesVals k i vs

def edgesArg (i : Nat) : Arg → List Item
  | .one k v => if v.isNull then [] else [(v, some ⟨i, k, false⟩)]
  | .many k vs => edgesVals k i vs

def edgesArgs (i : Nat) : List Arg → List Item
  | [] => []
  | a :: as => edgesArg i a ++ edgesArgs i as

/-- `{k: {META_EXPR: dump(v)} if isinstance(v, exp.Expr) else v for k, v in node._meta.items()}`, `f` = `dump` -/
def dumpMetaE (f : Val → List Payload) : MetaE → PMeta
  | .raw k r => .raw k r
  | .expr k v => .expr k (f v)

/-- `serde.dump`: `while stack: pop; emit payload; push children; i += 1`. The type annotation and Expression-valued
    meta entries are dumped by recursive calls (`dump(node.type)`, `dump(v)`), here with the remaining fuel. -/
def dumpLoop : Nat → List Item → Nat → List Payload → List Payload
  | 0, _, _, out => out
  | _, [], _, out => out
  | fuel + 1, (.node cls ty c m args, e) :: st, i, out =>
    dumpLoop fuel (edgesArgs i args ++ st) (i + 1)
      (out ++ [nodeP e cls (ty.map fun t => dumpLoop fuel [(t, none)] 0 []) c
        (m.map fun l => l.map (dumpMetaE fun v => dumpLoop fuel [(v, none)] 0 []))])
  | fuel + 1, (.dtype s, e) :: st, i, out => dumpLoop fuel st (i + 1) (out ++ [dtypeP e s])
  | fuel + 1, (.raw r, e) :: st, i, out => dumpLoop fuel st (i + 1) (out ++ [rawP e r])

def dump (t : Val) : List Payload := dumpLoop t.size [(t, none)] 0 []

/- recursive specification: pre-order; the node numbered `i` is its children's parent index -/
mutual
def flat : Val → Option Edge → Nat → List Payload
  | .node cls ty c m args, e, i => nodeP e cls (flatTy ty) c (flatMeta m) :: flatArgs args i (i + 1)
  | .dtype s, e, _ => [dtypeP e s]
  | .raw r, e, _ => [rawP e r]
def flatTy : Option Val → Option (List Payload)
  | none => none
  | some t => some (flat t none 0)
def flatMeta : Option (List MetaE) → Option (List PMeta)
  | none => none
  | some l => some (flatMetaL l)
def flatMetaL : List MetaE → List PMeta
  | [] => []
  | e :: es => e.flat :: flatMetaL es
def MetaE.flat : MetaE → PMeta
  | .raw k r => .raw k r
  | .expr k v => .expr k (flat v none 0)
def flatArgs : List Arg → Nat → Nat → List Payload
  | [], _, _ => []
  | a :: as, p, i => flatArg a p i ++ flatArgs as p (i + a.cnt)
def flatArg : Arg → Nat → Nat → List Payload
  | .one k v, p, i => if v.isNull then [] else flat v (some ⟨p, k, false⟩) i
  | .many k vs, p, i => flatVals vs k p i
def flatVals : List Val → String → Nat → Nat → List Payload
  | [], _, _, _ => []
  | v :: vs, k, p, i => flat v (some ⟨p, k, true⟩) i ++ flatVals vs k p (i + v.cnt)
end

/-! ## the arena `load` builds -/

inductive Slot where
  | one (r : Nat)
  | many (rs : List Nat)
deriving Repr, DecidableEq

/-- `child.parent / child.arg_key / child.index` as `_set_parent` (+ `append`) leave them -/
structure Link where
  parent : Nat
  key : String
  index : Option Nat
deriving Repr, DecidableEq

abbrev Slots := List (String × Slot)

/-- an object of the heap. `hash` is the `_hash` cache of an Expression (`None` = not cached). -/
inductive Cell where
  | node (cls : String) (ty : Option Val) (comments : Comments) (mta : Meta) (args : Slots) (link : Option Link)
         (hash : Option Nat)
  | dtype (s : String)
  | raw (r : Raw)

instance : Inhabited Cell := ⟨.raw .null⟩

def lookupKey (k : String) : Slots → Option Slot
  | [] => none
  | (k', s) :: rest => if k' = k then some s else lookupKey k rest

/-- `d[k] = s` on an insertion-ordered dict -/
def setKey (k : String) (s : Slot) : Slots → Slots
  | [] => [(k, s)]
  | (k', s') :: rest => if k' = k then (k, s) :: rest else (k', s') :: setKey k s rest

/-- `d.pop(k, None)` -/
def eraseKey (k : String) : Slots → Slots
  | [] => []
  | (k', s') :: rest => if k' = k then rest else (k', s') :: eraseKey k rest

/-- `Expression.append(k, value)`: coerce `args[k]` to a list if it is not one, append; returns the new args and
    the position of the appended element (= `value.index`) -/
def appendRef (args : Slots) (k : String) (j : Nat) : Slots × Nat :=
  match lookupKey k args with
  | some (.many rs) => (setKey k (.many (rs ++ [j])) args, rs.length)
  | _ => (setKey k (.many [j]) args, 0)

def Cell.withLink : Cell → Link → Cell
  | .node cls ty c m args _ h, l => .node cls ty c m args (some l) h
  | c, _ => c

def Cell.isRawNull : Cell → Bool
  | .raw .null => true
  | _ => false

def reifyRefs (f : Nat → Option Val) : List Nat → Option (List Val)
  | [] => some []
  | r :: rs => (f r).bind fun v => (reifyRefs f rs).bind fun vs => some (v :: vs)

def reifySlot (f : Nat → Option Val) (k : String) : Slot → Option Arg
  | .one r => (f r).map (Arg.one k)
  | .many rs => (reifyRefs f rs).map (Arg.many k)

def reifySlots (f : Nat → Option Val) : Slots → Option (List Arg)
  | [] => some []
  | (k, s) :: rest => (reifySlot f k s).bind fun a => (reifySlots f rest).bind fun as => some (a :: as)

def reifyCell (f : Nat → Option Val) : Cell → Option Val
  | .node cls ty c m args _ _ => (reifySlots f args).map (Val.node cls ty c m)
  | .dtype s => some (.dtype s)
  | .raw r => some (.raw r)

/-- read the tree rooted at cell `i` back (fuel bounds the depth; arenas built by `load` only refer forwards) -/
def reify (A : List Cell) : Nat → Nat → Option Val
  | 0, _ => none
  | fuel + 1, i => match A[i]? with
    | none => none
    | some c => reifyCell (reify A fuel) c

/-- the parent's side of one `load` iteration: `parent.append(k, node)` / `parent.set(k, node)` -/
def linkArgs (args : Slots) (k : String) (isArr : Bool) (j : Nat) (childIsNull : Bool) : Slots × Option Nat :=
  if isArr then
    let r := appendRef args k j
    (r.1, some r.2)
  else if childIsNull then (eraseKey k args, none)     -- `set(k, None)` pops the key
  else (setKey k (.one j) args, none)

/-- the head of `set` / `append`: `while node and node._hash is not None: node._hash = None; node = node.parent` -/
def clearUp (A : List Cell) : Nat → Nat → List Cell
  | 0, _ => A
  | fuel + 1, idx => match A[idx]? with
    | some (.node cls ty c m args l (some _)) =>
      match l with
      | some lk => clearUp (A.set idx (.node cls ty c m args l none)) fuel lk.parent
      | none => A.set idx (.node cls ty c m args l none)
    | _ => A

/-- one iteration of the `for payload in tail` loop, given the freshly built node.  `load` and `__deepcopy__` only call
    `set(arg_key, value)` / `append(arg_key, value)` — never `set(…, index=…)` — so the positional-edit branch of `set`
    (`if index is not None:` — list surgery, negative-index normalisation, sibling renumbering) is outside this mirror
    and no theorem about arenas depends on it. -/
def attach (A : List Cell) (cell : Cell) (idx : Nat) (k : String) (isArr : Bool) : Option (List Cell) :=
  if idx < A.length then          -- (`nodes[len(nodes)-1]` = the node itself would build a cycle: not modelled)
    let B := clearUp A A.length idx
    match B[idx]? with
    | some (.node cls ty c m args l h) =>
      let r := linkArgs args k isArr A.length cell.isRawNull
      some (B.set idx (.node cls ty c m r.1 l h) ++ [cell.withLink ⟨idx, k, r.2⟩])
    | _ => none                    -- `.append` / `.set` on a str / int / DType: AttributeError
  else none

/-- `_load(payload)` given `payload[CLASS]` and the results of `load(payload.get(TYPE))` and of decoding
    `payload.get(META)` (only looked at for a non-DType class): a DType member, or an empty instance of the class
    with `_type`, `comments`, `_meta` filled in -/
def mkObj (cn : String) (tyv : Option (Option Val)) (c : Comments) (mv : Option Meta) (value : Option Raw) :
    Option Cell :=
  if cn = dataTypeCls then
    match value with
    | some (.str s) => some (.dtype s)
    | _ => none
  else match tyv, mv with
    | some t, some m => some (.node cn t c m [] none none)    -- a fresh instance: no parent, no cached hash
    | _, _ => none

/- `load` / `_load`.  `loadTy` is `load(payload.get(TYPE))`: `none` = raises, `some none` = returns `None`. -/
mutual
def load : List Payload → Option (Option Val)
  | [] => some none
  | p :: tail => match mkRoot p with
    | none => none
    | some root => match loadList tail [root] with
      | none => none
      | some A => match reify A A.length 0 with
        | none => none
        | some v => some (some v)
def loadTy : Option (List Payload) → Option (Option Val)
  | none => some none
  | some ps => load ps
/-- `{k: load(v[META_EXPR]) if isinstance(v, dict) and META_EXPR in v else v for k, v in meta.items()}` -/
def loadMeta : Option (List PMeta) → Option (Option (List MetaE))
  | none => some none
  | some l => match loadMetaL l with
    | none => none
    | some r => some (some r)
def loadMetaL : List PMeta → Option (List MetaE)
  | [] => some []
  | e :: es => match loadMetaE e, loadMetaL es with
    | some x, some xs => some (x :: xs)
    | _, _ => none
def loadMetaE : PMeta → Option MetaE
  | .raw k r => some (.raw k r)
  | .expr k ps => match load ps with
    | none => none
    | some none => some (.raw k .null)          -- `load([])` is `None`
    | some (some v) => some (.expr k v)
/-- `_load(payload)` for the first payload: needs CLASS -/
def mkRoot : Payload → Option Cell
  | .mk _ _ _ none _ _ _ _ => none
  | .mk _ _ _ (some cn) ty c m value => mkObj cn (loadTy ty) c (loadMeta m) value
/-- `_load(payload) if CLASS in payload else payload[VALUE]` -/
def mkCell : Payload → Option Cell
  | .mk _ _ _ none _ _ _ none => none
  | .mk _ _ _ none _ _ _ (some r) => some (.raw r)
  | .mk _ _ _ (some cn) ty c m value => mkObj cn (loadTy ty) c (loadMeta m) value
def loadList : List Payload → List Cell → Option (List Cell)
  | [], A => some A
  | p :: ps, A => match mkCell p with
    | none => none
    | some cell => match pIndex p, pKey p with
      | some idx, some k => match attach A cell idx k (pArr p) with
        | some A' => loadList ps A'
        | none => none
      | _, _ => none
end

/-- the `nodes` list at the end of `load` (the object graph before it is read back) -/
def loadArena : List Payload → Option (List Cell)
  | [] => some []
  | p :: tail => match mkRoot p with
    | none => none
    | some root => loadList tail [root]


/-! ## `Expression.__deepcopy__` (sqlglot/expressions/core.py): iterative copy through `set` / `append`

  The source is a tree (`Val`, whose `ty` is read as `_type` here), `hashOf` says which source nodes have a cached
  `_hash`; the copy is built in an arena.  Stack entries are `(source node, index of its still-empty copy)`; the
  stack top is the list head, so "push children in order, pop the last" is `pushed.reverse ++ rest`. -/

/-- `cls()`: no args, no type / comments / meta, no parent, no cached hash -/
def emptyCell (cls : String) : Cell := .node cls none none none [] none none

def Val.toCell : Val → Cell
  | .node cls _ _ _ _ => emptyCell cls
  | .dtype s => .dtype s
  | .raw r => .raw r

abbrev CItem := Val × Nat

/-- `copy.comments = deepcopy(node.comments)`, `copy._type = deepcopy(node._type)`, `copy._meta = deepcopy(node._meta)`,
    `copy._hash = node._hash` (each only `if … is not None`; a fresh instance holds `None` there) -/
def fillCell (A : List Cell) (j : Nat) (c : Comments) (ty : Option Val) (m : Meta) (h : Option Nat) :
    Option (List Cell) :=
  match A[j]? with
  | some (.node cls _ _ _ args l _) => some (A.set j (.node cls ty c m args l h))
  | _ => none

/-- `copy.args[k] = value` for a non-Expression, non-list value (no `set`: no hash invalidation, no parent link);
    `s` is the slot written, `cells` the freshly allocated scalar cell(s) -/
def assignArg (A : List Cell) (j : Nat) (k : String) (s : Slot) (cells : List Cell) : Option (List Cell) :=
  match A[j]? with
  | some (.node cls ty c m args l h) => some (A.set j (.node cls ty c m (setKey k s args) l h) ++ cells)
  | _ => none

/-- the elements of a list-valued arg: `stack.append((v, v.__class__())); copy.append(k, new)` for an Expression,
    `copy.append(k, v)` otherwise -/
abbrev Attach := List Cell → Cell → Nat → String → Bool → Option (List Cell)

def copyVals (att : Attach) (j : Nat) (k : String) :
    List Val → List Cell → List CItem → Option (List Cell × List CItem)
  | [], A, pushed => some (A, pushed)
  | v :: vs, A, pushed =>
    match att A v.toCell j k true with
    | none => none
    | some A' => copyVals att j k vs A' (if v.isNode then pushed ++ [(v, A.length)] else pushed)

/-- `for k, vs in node.args.items(): …` -/
def copyArgs (att : Attach) (j : Nat) : List Arg → List Cell → List CItem → Option (List Cell × List CItem)
  | [], A, pushed => some (A, pushed)
  | .one k v :: rest, A, pushed =>
    if v.isNode then
      match att A v.toCell j k false with             -- `copy.set(k, vs.__class__())`
      | none => none
      | some A' => copyArgs att j rest A' (pushed ++ [(v, A.length)])
    else
      match assignArg A j k (.one A.length) [v.toCell] with   -- `copy.args[k] = vs` (also for `None`)
      | none => none
      | some A' => copyArgs att j rest A' pushed
  | .many k vs :: rest, A, pushed =>
    match assignArg A j k (.many []) [] with           -- `copy.args[k] = []`
    | none => none
    | some A0 =>
      match copyVals att j k vs A0 pushed with
      | none => none
      | some (A1, p1) => copyArgs att j rest A1 p1

def copyTyWith (cp : Val → Option Val) : Option Val → Option (Option Val)
  | none => some none
  | some t => (cp t).map some

def copyMetaLWith (cp : Val → Option Val) : List MetaE → Option (List MetaE)
  | [] => some []
  | .raw k r :: es => (copyMetaLWith cp es).map (MetaE.raw k r :: ·)
  | .expr k v :: es => (cp v).bind fun v' => (copyMetaLWith cp es).map (MetaE.expr k v' :: ·)

def copyMetaWith (cp : Val → Option Val) : Meta → Option Meta
  | none => some none
  | some l => (copyMetaLWith cp l).map some

/-- the `while stack:` loop of `__deepcopy__`; `deepcopy(node._type)` and Expression values inside `deepcopy(node._meta)`
    re-enter `__deepcopy__` (here with the remaining fuel; the nested result is read back as a value). `none` = a Python
    exception or fuel exhausted (never for fuel ≥ size, see `copy_eq`). -/
def copyLoopWith (att : Attach) (hashOf : Val → Option Nat) : Nat → List CItem → List Cell → Option (List Cell)
  | _, [], A => some A
  | 0, _ :: _, _ => none
  | fuel + 1, (v, j) :: st, A =>
    match v with
    | .node _ ty c m args =>
      let cp : Val → Option Val := fun t =>
        if t.isNode then
          (copyLoopWith att hashOf fuel [(t, 0)] [t.toCell]).bind fun B => reify B t.size 0
        else some t
      match copyTyWith cp ty, copyMetaWith cp m with
      | some ty', some m' =>
        match fillCell A j c ty' m' (hashOf v) with
        | none => none
        | some A1 =>
          match copyArgs att j args A1 [] with
          | none => none
          | some (A2, pushed) => copyLoopWith att hashOf fuel (pushed.reverse ++ st) A2
      | _, _ => none
    | _ => none

/-- the real loop: `set` / `append` are `attach` (with the hash invalidation walk) -/
def copyLoop := copyLoopWith attach

/-- `root = self.__class__(); stack = [(self, root)]; …; return root` -/
def copyArena (hashOf : Val → Option Nat) (t : Val) : Option (List Cell) :=
  copyLoop hashOf t.size [(t, 0)] [t.toCell]

def copy (hashOf : Val → Option Nat) (t : Val) : Option Val :=
  (copyArena hashOf t).bind fun B => reify B t.size 0

/-! ## which mutable containers a loaded tree shares with the payload list it came from

  `load` stores some payload values into node fields *as they are* (`expression.comments = payload.get(COMMENTS)`,
  `node = payload[VALUE]`, the `else v` of the meta comprehension) and builds others anew (the meta dict comprehension,
  `list(payload[COMMENTS])` once `_load` copies).  Containers (lists / dicts) are identified by where they were created;
  scalars are immutable and not tracked.  A path is the position of a payload dict: `[i]` for the i-th payload of the
  list, `p ++ [0, j]` for the j-th payload of the TYPE list of the payload at `p`, `p ++ [e + 1, j]` for the j-th payload
  of the `__expr__` list of its e-th meta entry.  Which of the two ways `_load` takes is read off the source on every run
  (`SharePolicy`, Generated/C12.lean). -/

inductive Field where
  | comments
  | mta
  | value
  | metaValue (k : String)
deriving DecidableEq, Repr

inductive Obj where
  | pay (path : List Nat) (f : Field)     -- a container that belongs to the payload list
  | made (path : List Nat) (f : Field)    -- a container `_load` created for the node built from the payload at `path`
deriving DecidableEq, Repr

def Obj.isPay : Obj → Bool
  | .pay .. => true
  | .made .. => false

structure SharePolicy where
  /-- `expression.comments = list(payload[COMMENTS]) …` (true) or `= payload.get(COMMENTS)` (false) -/
  loadCopiesComments : Bool
  /-- `_load` always builds the node's `_meta` dict with the comprehension (true), or may hand over the payload's own -/
  loadBuildsMetaDict : Bool

def Raw.isArr : Raw → Bool
  | .arr _ => true
  | _ => false

def valueObj (p : List Nat) : Option Raw → List Obj
  | some (.arr _) => [.pay p .value]
  | _ => []

/- the containers of the payload list (the payload dicts themselves are never stored by `load`) -/
mutual
def payObjs : Payload → List Nat → List Obj
  | .mk _ _ _ _ ty c m v, p =>
    (if c.isSome then [Obj.pay p .comments] else []) ++ (if m.isSome then [Obj.pay p .mta] else []) ++
      valueObj p v ++ payObjsTy ty p ++ payObjsMeta m p
def payObjsList : List Payload → List Nat → Nat → List Obj
  | [], _, _ => []
  | q :: qs, p, i => payObjs q (p ++ [i]) ++ payObjsList qs p (i + 1)
def payObjsTy : Option (List Payload) → List Nat → List Obj
  | none, _ => []
  | some ps, p => payObjsList ps (p ++ [0]) 0
def payObjsMeta : Option (List PMeta) → List Nat → List Obj
  | none, _ => []
  | some l, p => payObjsMetaL l p 1
def payObjsMetaL : List PMeta → List Nat → Nat → List Obj
  | [], _, _ => []
  | .raw k r :: es, p, e => (if r.isArr then [Obj.pay p (.metaValue k)] else []) ++ payObjsMetaL es p (e + 1)
  | .expr _ ps :: es, p, e => payObjsList ps (p ++ [e]) 0 ++ payObjsMetaL es p (e + 1)
end

/- the containers the fields of the loaded nodes point at -/
mutual
def loadRefs (pol : SharePolicy) : Payload → List Nat → List Obj
  | .mk _ _ _ _ ty c m v, p =>
    (if c.isSome then [if pol.loadCopiesComments then Obj.made p .comments else Obj.pay p .comments] else []) ++
      (if m.isSome then [if pol.loadBuildsMetaDict then Obj.made p .mta else Obj.pay p .mta] else []) ++
      valueObj p v ++                                  -- `node = payload[VALUE]`
      loadRefsTy pol ty p ++ loadRefsMeta pol m p
def loadRefsList (pol : SharePolicy) : List Payload → List Nat → Nat → List Obj
  | [], _, _ => []
  | q :: qs, p, i => loadRefs pol q (p ++ [i]) ++ loadRefsList pol qs p (i + 1)
def loadRefsTy (pol : SharePolicy) : Option (List Payload) → List Nat → List Obj
  | none, _ => []
  | some ps, p => loadRefsList pol ps (p ++ [0]) 0
def loadRefsMeta (pol : SharePolicy) : Option (List PMeta) → List Nat → List Obj
  | none, _ => []
  | some l, p => loadRefsMetaL pol l p 1
def loadRefsMetaL (pol : SharePolicy) : List PMeta → List Nat → Nat → List Obj
  | [], _, _ => []
  | .raw k r :: es, p, e =>                             -- `… else v`: the value itself
    (if r.isArr then [Obj.pay p (.metaValue k)] else []) ++ loadRefsMetaL pol es p (e + 1)
  | .expr _ ps :: es, p, e => loadRefsList pol ps (p ++ [e]) 0 ++ loadRefsMetaL pol es p (e + 1)
end

/- no list-valued raw VALUE / meta value anywhere (no parser stores one) -/
mutual
def noArr : Payload → Bool
  | .mk _ _ _ _ ty _ m v => (match v with | some (.arr _) => false | _ => true) && noArrTy ty && noArrMeta m
def noArrList : List Payload → Bool
  | [] => true
  | q :: qs => noArr q && noArrList qs
def noArrTy : Option (List Payload) → Bool
  | none => true
  | some ps => noArrList ps
def noArrMeta : Option (List PMeta) → Bool
  | none => true
  | some l => noArrMetaL l
def noArrMetaL : List PMeta → Bool
  | [] => true
  | .raw _ r :: es => !r.isArr && noArrMetaL es
  | .expr _ ps :: es => noArrList ps && noArrMetaL es
end

/-! ## the `type` property (Expression.type getter, sqlglot/expressions/core.py) -/

/-- which classes take the special branches of `Expression.type`: `is_data_type` (the type IS the node) and `is_cast`
    (`self._type or self.to`); read off the live classes on every run -/
structure TypeRules where
  isDataType : String → Bool
  isCast : String → Bool

/-- `self.args[k]` for a single-valued arg (a list-valued or missing arg is not a cast target any parser builds: `none`) -/
def argOne (k : String) : List Arg → Option Val
  | [] => none
  | .one k' v :: rest => if k' = k then some v else argOne k rest
  | .many _ _ :: rest => argOne k rest

def notNull : Option Val → Option Val
  | some v => if v.isNull then none else some v
  | none => none

/-- what `dump` reads as `node.type` and keeps (`if node.type and node.type is not node`), given the node's `_type`
    and args -/
def typeProp (R : TypeRules) (cls : String) (ty : Option Val) (args : List Arg) : Option Val :=
  if R.isDataType cls then none
  else if R.isCast cls then
    match ty with
    | some t => some t
    | none => notNull (argOne "to" args)
  else ty

/- the tree as `dump` sees it: every node's `ty` (read as `_type`) replaced by what its `type` property yields -/
mutual
def Val.view (R : TypeRules) : Val → Val
  | .node cls ty c m args =>
    .node cls (typeProp R cls (viewOpt R ty) (viewArgs R args)) c (viewMeta R m) (viewArgs R args)
  | .dtype s => .dtype s
  | .raw r => .raw r
def viewOpt (R : TypeRules) : Option Val → Option Val
  | none => none
  | some v => some (v.view R)
def viewMeta (R : TypeRules) : Option (List MetaE) → Option (List MetaE)
  | none => none
  | some l => some (viewMetaL R l)
def viewMetaL (R : TypeRules) : List MetaE → List MetaE
  | [] => []
  | e :: es => e.view R :: viewMetaL R es
def MetaE.view (R : TypeRules) : MetaE → MetaE
  | .raw k r => .raw k r
  | .expr k v => .expr k (v.view R)
def viewArgs (R : TypeRules) : List Arg → List Arg
  | [] => []
  | a :: as => a.view R :: viewArgs R as
def Arg.view (R : TypeRules) : Arg → Arg
  | .one k v => .one k (v.view R)
  | .many k vs => .many k (viewVals R vs)
def viewVals (R : TypeRules) : List Val → List Val
  | [] => []
  | v :: vs => v.view R :: viewVals R vs
end

/-- `serde.dump` on a tree with raw `_type` fields -/
def realDump (R : TypeRules) (t : Val) : List Payload := dump (t.view R)


/-! ## pickling: `Expression.__reduce__` -/

/-- what `__reduce__` hands to pickle: the callable is `serde.load`, its single argument is `dump(self)`; `state` is
    the optional third component (slot state `{"_hash": h}`), which pickle would `setattr` on the rebuilt root.
    The source returns a 2-tuple, i.e. `withState = false` (re-checked by the translator on every run). -/
structure Reduced where
  payload : List Payload
  state : Option (Option Nat)

def reduce (withState : Bool) (t : Val) (cachedHash : Option Nat) : Reduced :=
  ⟨dump t, if withState then some cachedHash else none⟩

def Cell.setHash : Cell → Option Nat → Cell
  | .node cls ty c m args l _, h => .node cls ty c m args l h
  | c, _ => c

/-- `pickle.loads`: call `load(payload)`, then apply the state to the returned object (cell 0) -/
def unpickleArena (r : Reduced) : Option (List Cell) :=
  match loadArena r.payload, r.state with
  | none, _ => none
  | some A, none => some A
  | some [], some _ => some []
  | some (root :: rest), some h => some (root.setHash h :: rest)

def unpickle (r : Reduced) : Option (Option Val) := load r.payload     -- (state never changes what is read back)

/-! ## JSON-serialisability of the dump -/

/-- Python values as `json.dumps` sees them; `opaque` stands for anything it refuses (an Expression, a tuple key, a
    set, an enum member …) -/
inductive Py where
  | none
  | bool (b : Bool)
  | int (i : Int)
  | str (s : String)
  | list (l : List Py)
  | dict (l : List (Py × Py))
  | opaque (what : String)

/-- the values `json.dumps` accepts and `json.loads` gives back unchanged: scalars, lists of such, dicts with `str`
    keys and such values -/
inductive JsonValue : Py → Prop where
  | none : JsonValue .none
  | bool (b : Bool) : JsonValue (.bool b)
  | int (i : Int) : JsonValue (.int i)
  | str (s : String) : JsonValue (.str s)
  | list (l : List Py) : (∀ x ∈ l, JsonValue x) → JsonValue (.list l)
  | dict (l : List (Py × Py)) : (∀ kv ∈ l, ∃ s, kv.1 = .str s) → (∀ kv ∈ l, JsonValue kv.2) → JsonValue (.dict l)

/-- the key constants of serde.py (instantiated from Generated/C12.lean) -/
structure Keys where
  index : String
  key : String
  isArr : String
  cls : String
  ty : String
  comments : String
  mta : String
  value : String
  metaExpr : String

mutual
def Raw.toPy : Raw → Py
  | .null => .none
  | .bool b => .bool b
  | .int i => .int i
  | .str s => .str s
  | .arr l => .list (rawsToPy l)
def rawsToPy : List Raw → List Py
  | [] => []
  | r :: rs => r.toPy :: rawsToPy rs
end

def optField (k : String) : Option Py → List (Py × Py)
  | none => []
  | some v => [(.str k, v)]

/- the Python object `dump` returns for one payload: a dict holding exactly the present fields -/
mutual
def Payload.toPy (K : Keys) : Payload → Py
  | .mk i k a cls ty c m v => .dict (
      optField K.index (i.map fun n => Py.int n) ++
      optField K.key (k.map Py.str) ++
      (if a then [(Py.str K.isArr, Py.bool true)] else []) ++
      optField K.cls (cls.map Py.str) ++
      optTy K ty ++
      optField K.comments (c.map fun l => Py.list (l.map Py.str)) ++
      optMeta K m ++
      optField K.value (v.map Raw.toPy))
def optTy (K : Keys) : Option (List Payload) → List (Py × Py)
  | none => []
  | some ps => [(.str K.ty, .list (payloadsToPy K ps))]
def payloadsToPy (K : Keys) : List Payload → List Py
  | [] => []
  | p :: ps => p.toPy K :: payloadsToPy K ps
def optMeta (K : Keys) : Option (List PMeta) → List (Py × Py)
  | none => []
  | some l => [(.str K.mta, .dict (pmetasToPy K l))]
def pmetasToPy (K : Keys) : List PMeta → List (Py × Py)
  | [] => []
  | e :: es => e.toPy K :: pmetasToPy K es
def PMeta.toPy (K : Keys) : PMeta → Py × Py
  | .raw k r => (.str k, r.toPy)
  | .expr k ps => (.str k, .dict [(.str K.metaExpr, .list (payloadsToPy K ps))])
end

/-! ## JSON text, at token level (`json.dumps` / `json.loads` on the values `dump` produces)

  Strings and integers are atomic tokens: their lexical form (escapes, `ensure_ascii`, digits) is CPython's and is not
  modelled; the grammar — brackets, braces, commas, colons, nesting — is. -/

inductive Tok where
  | lbrace | rbrace | lbrack | rbrack | comma | colon
  | null | tt | ff
  | num (i : Int)
  | str (s : String)
deriving DecidableEq, Repr

/- `json.dumps`: a dict key must be a str; anything that is not a JsonValue has no text (`opaque` → TypeError) -/
mutual
def render : Py → List Tok
  | .none => [.null]
  | .bool b => [if b then .tt else .ff]
  | .int i => [.num i]
  | .str s => [.str s]
  | .list l => .lbrack :: renderElems l
  | .dict l => .lbrace :: renderMembers l
  | .opaque _ => []
def renderElems : List Py → List Tok
  | [] => [.rbrack]
  | x :: xs => render x ++ renderElemsTail xs
def renderElemsTail : List Py → List Tok
  | [] => [.rbrack]
  | x :: xs => .comma :: (render x ++ renderElemsTail xs)
def renderMembers : List (Py × Py) → List Tok
  | [] => [.rbrace]
  | kv :: kvs => renderMember kv ++ renderMembersTail kvs
def renderMembersTail : List (Py × Py) → List Tok
  | [] => [.rbrace]
  | kv :: kvs => .comma :: (renderMember kv ++ renderMembersTail kvs)
def renderMember : Py × Py → List Tok
  | (k, v) => render k ++ .colon :: render v
end

def startsWith (t : Tok) : List Tok → Bool
  | t' :: _ => t' == t
  | [] => false

/- `json.loads`: recursive descent with fuel -/
mutual
def parse : Nat → List Tok → Option (Py × List Tok)
  | 0, _ => none
  | _ + 1, [] => none
  | f + 1, t :: r =>
    match t with
    | .null => some (.none, r)
    | .tt => some (.bool true, r)
    | .ff => some (.bool false, r)
    | .num i => some (.int i, r)
    | .str s => some (.str s, r)
    | .lbrack =>
      if startsWith .rbrack r then some (.list [], r.tail)
      else (parse f r).bind fun x => (parseElemsTail f x.2).bind fun xs => some (.list (x.1 :: xs.1), xs.2)
    | .lbrace =>
      if startsWith .rbrace r then some (.dict [], r.tail)
      else (parseMember f r).bind fun kv => (parseMembersTail f kv.2).bind fun kvs => some (.dict (kv.1 :: kvs.1), kvs.2)
    | _ => none
def parseElemsTail : Nat → List Tok → Option (List Py × List Tok)
  | 0, _ => none
  | f + 1, toks =>
    match toks with
    | .rbrack :: r => some ([], r)
    | .comma :: r => (parse f r).bind fun x => (parseElemsTail f x.2).bind fun xs => some (x.1 :: xs.1, xs.2)
    | _ => none
def parseMember : Nat → List Tok → Option ((Py × Py) × List Tok)
  | 0, _ => none
  | f + 1, toks =>
    match toks with
    | .str s :: .colon :: r => (parse f r).bind fun v => some ((.str s, v.1), v.2)
    | _ => none
def parseMembersTail : Nat → List Tok → Option (List (Py × Py) × List Tok)
  | 0, _ => none
  | f + 1, toks =>
    match toks with
    | .rbrace :: r => some ([], r)
    | .comma :: r => (parseMember f r).bind fun kv => (parseMembersTail f kv.2).bind fun kvs => some (kv.1 :: kvs.1, kvs.2)
    | _ => none
end

mutual
def Py.size : Py → Nat
  | .list l => 1 + sizePys l
  | .dict l => 1 + sizeKvs l
  | _ => 1
def sizePys : List Py → Nat
  | [] => 0
  | x :: xs => x.size + 1 + sizePys xs
def sizeKvs : List (Py × Py) → Nat
  | [] => 0
  | kv :: kvs => sizeKv kv + 1 + sizeKvs kvs
def sizeKv : Py × Py → Nat
  | (k, v) => k.size + v.size + 1
end


/-! ## enum leaves: which face of a member (`.value` or `.name`) travels in the payload -/

/-- how one side of the codec identifies a member: `node.value` / `DType(x)` (by value), `node.name` / `DType[x]` or a
    name-keyed table (by name), or something the translator does not recognise -/
inductive EnumBy where
  | value | name | other
deriving DecidableEq, Repr

def EnumBy.ofString : String → EnumBy
  | "value" => .value
  | "name" => .name
  | _ => .other

/-- a member is a (name, value) pair of the regenerated table -/
def enumFace : EnumBy → String × String → Option String
  | .value, e => some e.2
  | .name, e => some e.1
  | .other, _ => none

def encodeEnum (b : EnumBy) (e : String × String) : Option String := enumFace b e

def decodeEnum (T : List (String × String)) (b : EnumBy) (s : String) : Option (String × String) :=
  T.find? fun e => enumFace b e == some s

/-! ## the equality users observe: `Expression.__eq__` is `type(a) is type(b) and hash(a) == hash(b)`

  `__hash__` folds, per node, `hash(node.key)` and — for `k in sorted(node.args)` — the contributions of each arg:
  nothing for `None` / `False`, `(k, value)` otherwise with strings lower-cased, `(k, x)` or a bare `(k)` per list element;
  classes with `_hash_raw_args` (Literal, Identifier) fold `(k, v)` for every truthy `v` without lower-casing.  `_type`,
  comments and meta are not folded.  `EqK` is that fold as a value (the hash function itself is taken to be injective on
  it — assumption A-hash); `True` folds as `1` (`hash(True) == hash(1)` and `True == 1`). -/

inductive EqK where
  | node (key : String) (items : List (String × Option EqK))
  | str (s : String)
  | int (i : Int)
  | dtype (s : String)
  | unhashable

structure HashRules where
  rawArgs : String → Bool          -- `_hash_raw_args`
  keyOf : String → String          -- `cls.key`
  lower : String → String          -- `str.lower`

/-- a raw value inside a class without `_hash_raw_args`: `None` / `False` contribute nothing -/
def nfRaw (R : HashRules) : Raw → Option EqK
  | .null => none
  | .bool false => none
  | .bool true => some (.int 1)
  | .int i => some (.int i)
  | .str s => some (.str (R.lower s))
  | .arr _ => some .unhashable

/-- … and inside a `_hash_raw_args` class: every falsy value contributes nothing, nothing is lower-cased -/
def nfRawTruthy : Raw → Option EqK
  | .null => none
  | .bool b => if b then some (.int 1) else none
  | .int i => if i = 0 then none else some (.int i)
  | .str s => if s = "" then none else some (.str s)
  | .arr l => if l.isEmpty then none else some .unhashable

def insertItem (x : String × Option EqK) : List (String × Option EqK) → List (String × Option EqK)
  | [] => [x]
  | y :: ys => if x.1 < y.1 then x :: y :: ys else y :: insertItem x ys

/-- `for k in sorted(node.args)`: stable by key -/
def sortItems : List (String × Option EqK) → List (String × Option EqK)
  | [] => []
  | x :: xs => insertItem x (sortItems xs)

/-- the contribution of a single-valued arg, given the fold of its value -/
def itemOne (R : HashRules) (raw : Bool) (k : String) (v : Val) (n : EqK) : List (String × Option EqK) :=
  match v with
  | .raw r => match (if raw then nfRawTruthy r else nfRaw R r) with
    | some x => [(k, some x)]
    | none => []
  | _ => [(k, some n)]

/-- the contribution of one list element: `(k, x)` or a bare `(k)` for `None` / `False` -/
def itemElem (R : HashRules) (k : String) (v : Val) (n : EqK) : String × Option EqK :=
  match v with
  | .raw r => (k, nfRaw R r)
  | _ => (k, some n)

mutual
def Val.nf (R : HashRules) : Val → EqK
  | .node cls _ _ _ args => .node (R.keyOf cls) (sortItems (nfArgs R (R.rawArgs cls) args))
  | .dtype s => .dtype s
  | .raw r => match nfRaw R r with
    | some k => k
    | none => .unhashable
def nfArgs (R : HashRules) (raw : Bool) : List Arg → List (String × Option EqK)
  | [] => []
  | a :: as => a.nfItems R raw ++ nfArgs R raw as
def Arg.nfItems (R : HashRules) (raw : Bool) : Arg → List (String × Option EqK)
  | .one k v => itemOne R raw k v (v.nf R)
  | .many k vs => if raw then (if vs.isEmpty then [] else [(k, some .unhashable)]) else nfVals R k vs
def nfVals (R : HashRules) (k : String) : List Val → List (String × Option EqK)
  | [] => []
  | v :: vs => itemElem R k v (v.nf R) :: nfVals R k vs
end

end SqlglotModel.Serde
