/-
  C18 — the three memo tables of `MappingSchema` that sit in front of pure computations:

    `_normalized_name_cache`   key (name_str, quoted, dialect, is_table, normalize)   -> normalised name
    `_normalized_table_cache`  looked up at (table, dialect, normalize), STORED at (normalized_table, dialect, normalize)
    `_type_mapping_cache`      key schema_type                                         -> DataType

  A memo table is an insertion-ordered association list.  The KEY LAYOUT (which inputs are part of the key) is
  data: it is re-extracted from the source on every run (Generated/C18.lean) and the model is parametric in it, so
  that a key that forgets an input is representable (and gives the stale answers the real code would give).

  Modelling assumptions (stated, not proved): a name given as a `str` is parsed by `exp.parse_identifier`; the
  model's `parseIdent` recognises only the canonical `"…"` quoting (the harness renders names that way for the
  model and with the dialect's own quotes for the real code); `Identifier` objects never carry quote characters
  inside their name.  `DataType.from_str` is an uninterpreted function `tyParse dialectName typeText`.
-/
import SqlglotModel.Model.Schema

namespace SqlglotModel.Schema
open SqlglotModel.Ident

/-! ### generic memo table -/

/-- `if consult(x) and (cached := cache.get(key x)): return cached; r = g x; cache[storeKey x r] = r; return r` -/
def memoCall {ι κ β} [DecidableEq κ] (key : ι → κ) (storeKey : ι → β → κ) (consult : ι → Bool) (g : ι → β)
    (truthy : β → Bool) (m : List (κ × β)) (x : ι) : List (κ × β) × β :=
  match (if consult x then lookup m (key x) else none) with
  | some v => if truthy v then (m, v) else (dictSet m (storeKey x (g x)) (g x), g x)
  | none => (dictSet m (storeKey x (g x)) (g x), g x)

def memoRun {ι κ β} [DecidableEq κ] (key : ι → κ) (storeKey : ι → β → κ) (consult : ι → Bool) (g : ι → β)
    (truthy : β → Bool) (m : List (κ × β)) (xs : List ι) : List (κ × β) :=
  xs.foldl (fun m x => (memoCall key storeKey consult g truthy m x).1) m

/-- does the key layout contain every input the computation reads? -/
def covers {α} [DecidableEq α] (layout reads : List α) : Bool := reads.all (fun r => layout.contains r)

/-- one component of a cache key -/
inductive FVal where
  | s (x : String) | b (x : Bool) | d (x : DialectRef) | t (x : List Ident)
deriving DecidableEq, Repr

/-! ### `_normalize_name` -/

inductive NField where
  | name | quoted | dialect | isTable | normalize
deriving DecidableEq, Repr

/-- the inputs of `_normalize_name` after `dialect or self.dialect` / `self.normalize if normalize is None` -/
structure NameIn where
  name : String        -- `name if isinstance(name, str) else name.name`
  quoted : Bool        -- `isinstance(name, Identifier) and bool(name.quoted)`
  dialect : DialectRef
  isTable : Bool
  normalize : Bool
deriving DecidableEq, Repr

def NameIn.proj : NField → NameIn → FVal
  | .name, x => .s x.name
  | .quoted, x => .b x.quoted
  | .dialect, x => .d x.dialect
  | .isTable, x => .b x.isTable
  | .normalize, x => .b x.normalize

/-- canonical model of `exp.parse_identifier` on the names of the universe: `"x"` is the quoted identifier x -/
def parseIdent (s : String) : Ident :=
  match s.toList with
  | '"' :: rest => if rest.getLast? = some '"' then ⟨String.ofList rest.dropLast, true⟩ else ⟨s, false⟩
  | _ => ⟨s, false⟩

/-- what a name argument denotes: `str` -> parse, `Identifier` -> itself (an unquoted Identifier and the `str`
    with the same spelling share a cache key; they denote the same identifier when the name has no quote chars) -/
def NameIn.ident (x : NameIn) : Ident := if x.quoted then ⟨x.name, true⟩ else parseIdent x.name

/-- the memoised computation: `normalize_name(name, dialect, is_table, normalize).name` -/
def nameCompute (f : CaseFns) (x : NameIn) : String :=
  if x.normalize then (normIdent f x.dialect.dia x.isTable x.ident).name else x.ident.name

def nameKey (layout : List NField) (x : NameIn) : List FVal := layout.map (fun fld => NameIn.proj fld x)

abbrev NameCache := List (List FVal × String)

/-- `MappingSchema._normalize_name` with the given key layout (`if cached := …` : an empty string is a miss) -/
def nameCall (f : CaseFns) (layout : List NField) (m : NameCache) (x : NameIn) : NameCache × String :=
  memoCall (nameKey layout) (fun x _ => nameKey layout x) (fun _ => true) (nameCompute f) (fun r => r != "") m x

/-! ### `_normalize_table` -/

inductive TField where
  | table | dialect | normalize
deriving DecidableEq, Repr

structure TableIn where
  table : List Ident      -- the parts (outermost first) of the `exp.Table`, or of the parsed string
  isStr : Bool            -- a `str` argument never consults the cache (but its result is stored)
  dialect : DialectRef
  normalize : Bool
deriving DecidableEq, Repr

def TableIn.proj : TField → TableIn → FVal
  | .table, x => .t x.table
  | .dialect, x => .d x.dialect
  | .normalize, x => .b x.normalize

def tableCompute (f : CaseFns) (x : TableIn) : List Ident := normTable f x.dialect.dia x.normalize x.table

def tableKey (layout : List TField) (x : TableIn) : List FVal := layout.map (fun fld => TableIn.proj fld x)

abbrev TableCache := List (List FVal × List Ident)

/-- the entry is stored under the NORMALISED table: `cache[(normalized_table, dialect, normalize)] = normalized_table` -/
def tableCall (f : CaseFns) (layout : List TField) (m : TableCache) (x : TableIn) : TableCache × List Ident :=
  memoCall (tableKey layout) (fun x r => tableKey layout { x with table := r }) (fun x => !x.isStr)
    (tableCompute f) (fun _ => true) m x

/-! ### `_to_data_type` -/

inductive YField where
  | tyStr | dialect
deriving DecidableEq, Repr

structure TypeIn where
  tyStr : String
  dialect : DialectRef     -- `Dialect.get_or_raise(dialect) if dialect else self.dialect`
deriving DecidableEq, Repr

def TypeIn.proj : YField → TypeIn → FVal
  | .tyStr, x => .s x.tyStr
  | .dialect, x => .d x.dialect

/-- graph of the uninterpreted `DataType.from_str(text, dialect)` on the universe (shipped by the harness) -/
abbrev TyTable := List ((String × String) × String)

def tyOfTable (tbl : TyTable) (dialectName text : String) : String :=
  match lookup tbl (dialectName, text) with
  | some v => v
  | none => "?" ++ text

/-- the memoised computation: `DataType.from_str(schema_type, dialect)` (uninterpreted `ty`) -/
def tyParse (ty : String → String → String) (x : TypeIn) : String := ty x.dialect.name x.tyStr

def typeKey (layout : List YField) (x : TypeIn) : List FVal := layout.map (fun fld => TypeIn.proj fld x)

abbrev TypeCache := List (List FVal × String)

/-- `if schema_type not in cache: cache[schema_type] = parse(...)`; `return cache[schema_type]` -/
def typeCall (ty : String → String → String) (layout : List YField) (m : TypeCache) (x : TypeIn) :
    TypeCache × String :=
  memoCall (typeKey layout) (fun x _ => typeKey layout x) (fun _ => true) (tyParse ty) (fun _ => true) m x

end SqlglotModel.Schema

namespace SqlglotModel.Schema
open SqlglotModel.Ident

/-! ### `_find_cache` and the per-call option overrides -/

/-- the inputs of `MappingSchema.find` -/
inductive FField where
  | table | raise | ensure
deriving DecidableEq, Repr

inductive CacheId where
  | names | tables | types | finds
deriving DecidableEq, Repr

/-- the per-call overrides every public method accepts (`dialect=`, `normalize=`) -/
inductive CallOpt where
  | dialect | normalize
deriving DecidableEq, Repr

/-- the members of the `Schema` API that other modules touch; `modelled` = an operation (or a configuration /
    state read) of the C18 model.  `get_udf_type` reads only `udf_mapping`, which is not modelled. -/
inductive SchemaMethod where
  | columnNames | getColumnType | hasColumn | find | addTable | empty | dialect | supportedTableArgs
  | copy | getUdfType | other (name : String)
deriving DecidableEq, Repr

def SchemaMethod.modelled : SchemaMethod → Bool
  | .getUdfType => false
  | .other _ => false
  | _ => true

/-- every input the identifier normalisation (`normalize_name` -> `Dialect.normalize_identifier`) can depend on:
    the spelling, the quoting, the dialect, the `normalize` switch and the identifier's ROLE (`meta["is_table"]`,
    which role-sensitive dialects such as BigQuery read) -/
inductive NormInput where
  | name | quoted | dialect | normalize | role
deriving DecidableEq, Repr

def nameHasInput (l : List NField) : NormInput → Bool
  | .name => l.contains .name
  | .quoted => l.contains .quoted
  | .dialect => l.contains .dialect
  | .normalize => l.contains .normalize
  | .role => l.contains .isTable

/-- `_normalize_table` hands every part over with the constant role `is_table=True`; spelling and quoting are the
    table expression itself -/
def tableHasInput (l : List TField) : NormInput → Bool
  | .name => l.contains .table
  | .quoted => l.contains .table
  | .dialect => l.contains .dialect
  | .normalize => l.contains .normalize
  | .role => false

def nameHas (l : List NField) : CallOpt → Bool
  | .dialect => l.contains .dialect
  | .normalize => l.contains .normalize

def tableHas (l : List TField) : CallOpt → Bool
  | .dialect => l.contains .dialect
  | .normalize => l.contains .normalize

def typeHas (l : List YField) : CallOpt → Bool
  | .dialect => l.contains .dialect
  | .normalize => false

def nameRun (f : CaseFns) (layout : List NField) (m : NameCache) (xs : List NameIn) : NameCache :=
  xs.foldl (fun m x => (nameCall f layout m x).1) m

def tableRun (f : CaseFns) (layout : List TField) (m : TableCache) (xs : List TableIn) : TableCache :=
  xs.foldl (fun m x => (tableCall f layout m x).1) m

def typeRun (ty : String → String → String) (layout : List YField) (m : TypeCache) (xs : List TypeIn) : TypeCache :=
  xs.foldl (fun m x => (typeCall ty layout m x).1) m

end SqlglotModel.Schema
