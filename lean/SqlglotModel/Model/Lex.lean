/-
  Model of sqlglot's tokenizer (sqlglot/tokenizer_core.py: TokenizerCore) WITH its position fields, and of
  sqlglot/errors.py: highlight_sql.  Executable, Mathlib-free, no proofs (they live in Proofs/Lex.lean).

  What is modelled (faithfully, statement by statement):
    _scan (incl. the blank-skipping pre-loop), _advance (line/col/current; CRLF and lone CR; the alnum batch), _add,
    _scan_keywords (trie walk with whitespace folding), _scan_number (digit batches, decimals, exponents, underscores,
    identifier tails with the rewind), _scan_var, _scan_identifier, _scan_string (quotes and format strings),
    _scan_comment (line, block, nested, hints), _extract_string (str.find fast path and the escape-processing slow path), _chars.
  What is NOT modelled — the model answers `unsupported`, and correspondence generators count those inputs:
    heredoc strings, 0x../0b.. literals in dialects that have them, numeric-literal suffixes (1L), command tokens
    (SHOW/... re-scanning the statement), hex/bit format strings whose body is not plain digits.
  Token.comments / _prev_token_line (comment attachment) carry no positions and are not modelled; instead every region
  consumed by _scan_comment is recorded in the ghost field `spans`.
  Ghost field `skew`: set when one of the code's multi-character jumps passes over a CR/LF it does not account for
  (the sites are listed at `advance`, `retreat` and `fastString`).  Python-only derived fields (_char, _peek, _end) are
  functions of `current`.
  Characters arrive with the CPython class bits the tokenizer consults (isspace / isalnum / isidentifier) and their
  str.upper(), because Lean has no CPython Unicode tables.
-/
namespace SqlglotModel.Lex

structure Ch where
  c : Char
  space : Bool
  alnum : Bool
  ident : Bool
  up : List Char
deriving Repr, DecidableEq

structure Tok where
  ty : String
  text : List Char
  line : Nat
  col : Nat
  start : Nat
  stop : Nat
deriving Repr, DecidableEq

structure Cfg where
  single : List (String × String)           -- SINGLE_TOKENS  (char, type)
  keywords : List (String × String)         -- KEYWORDS       (text, type)
  trie : List String                        -- keys of _KEYWORD_TRIE
  quotes : List (String × String)
  formats : List (String × String × String) -- start, end, type
  identifiers : List (String × String)
  comments : List (String × String)         -- block comments: start, end
  lineComments : List String                -- comments with end = None
  stringEscapes : List String
  byteEscapes : List String
  identEscapes : List String
  followChars : List String
  unescaped : List (String × String)
  commands : List String
  commandPrefix : List String
  nested : Bool
  hintStart : String
  precedingHint : List String
  hasBit : Bool
  hasHex : Bool
  numericLiterals : List (String × String)
  varSingle : List String
  rawEsc : Bool
  underscore : Bool
  decimals : Bool
  identDigit : Bool
  fixLoneCR : Bool     -- the fast path leaves literals containing CR to the slow path (pending_fixes/C13-lone-cr.diff)
  fixKwJump : Bool     -- the keyword jump over a line break is taken one character at a time (C13-keyword-linebreak.diff)
  fixEscJump : Bool    -- `_advance(2)` over escape + following character is two single steps (C13-escape-linebreak.diff)
deriving Repr

structure St where
  start : Nat := 0
  current : Nat := 0
  line : Nat := 1
  col : Nat := 0
  toks : List Tok := []
  spans : List (Nat × Nat) := []   -- ghost: regions consumed as comments (inclusive)
  skew : Bool := false             -- ghost
deriving Repr

inductive Res (α : Type) where
  | ok (a : α)
  | error (current : Nat)          -- any exception inside _scan (re-raised as TokenError with a window around _current)
  | unsupported (why : String)
  | fuel
deriving Repr

@[inline] def Res.bind {α β} (r : Res α) (f : α → Res β) : Res β :=
  match r with
  | .ok a => f a
  | .error c => .error c
  | .unsupported w => .unsupported w
  | .fuel => .fuel

instance : Monad Res where
  pure := .ok
  bind := Res.bind

abbrev Sql := Array Ch

/-! ### reference positions (the specification side) -/

def isLF (sql : Sql) (j : Nat) : Bool :=
  match sql[j]? with
  | some ch => ch.c == '\n'
  | none => false

def isCR (sql : Sql) (j : Nat) : Bool :=
  match sql[j]? with
  | some ch => ch.c == '\r'
  | none => false

def isNL (sql : Sql) (j : Nat) : Bool := isLF sql j || isCR sql j

/-- a line break sits at offset j: LF, or CR not followed by LF -/
def isBreak (sql : Sql) (j : Nat) : Bool := isLF sql j || (isCR sql j && !isLF sql (j+1))

/-- 1 + number of line breaks strictly before offset p -/
def lineOf (sql : Sql) : Nat → Nat
  | 0 => 1
  | p+1 => lineOf sql p + (if isBreak sql p then 1 else 0)

/-- offset of the first character of the line containing offset p -/
def lineStart (sql : Sql) : Nat → Nat
  | 0 => 0
  | p+1 => if isBreak sql p then p+1 else lineStart sql p

/-- 1-based column of offset p -/
def colOf (sql : Sql) (p : Nat) : Nat := p + 1 - lineStart sql p

/-- the LF of a CRLF pair: `_advance` gives it the column of the CR -/
def crlfAdj (sql : Sql) (p : Nat) : Nat :=
  if p ≥ 1 && isLF sql p && isCR sql (p-1) then 1 else 0

/-- does [a, b) contain a CR or LF -/
def hasNL (sql : Sql) (a : Nat) : Nat → Bool
  | 0 => false
  | n+1 => isNL sql a || hasNL sql (a+1) n

/-! ### derived Python fields -/

def peek (sql : Sql) (st : St) : Option Ch := sql[st.current]?
def char (sql : Sql) (st : St) : Option Ch := if st.current = 0 then none else sql[st.current - 1]?
def atEnd (sql : Sql) (st : St) : Bool := st.current ≥ sql.size

def strOf (l : List Ch) : List Char := l.map (·.c)
def slice (sql : Sql) (a b : Nat) : List Char := strOf ((sql.toList.drop a).take (b - a))
def sliceCh (sql : Sql) (a b : Nat) : List Ch := (sql.toList.drop a).take (b - a)

def memS (s : List Char) (l : List String) : Bool := l.any (fun k => k.toList == s)
def lookupS (s : List Char) (l : List (String × String)) : Option String :=
  match l.find? (fun kv => kv.1.toList == s) with
  | some kv => some kv.2
  | none => none

def asciiUpper (c : Char) : Char := if 'a' ≤ c && c ≤ 'z' then Char.ofNat (c.toNat - 32) else c
def isDigit (c : Char) : Bool := '0' ≤ c && c ≤ '9'
def upperOf (l : List Ch) : List Char := l.flatMap (·.up)

/-! ### _advance -/

/-- `_advance(i)` for i ≥ 1 without the alnum batch.  Jumps (i > 1) look only at the current character, so a CR/LF among
    the skipped characters sql[current .. current+i-2] is not accounted for: `skew` records that. -/
def advance (sql : Sql) (st : St) (i : Nat) : Res St :=
  let brk := st.current ≥ 1 && isBreak sql (st.current - 1)
  let crlf := st.current ≥ 1 && isNL sql (st.current - 1) && !brk   -- CR directly before LF: neither line nor col move
  let cur := st.current + i
  if cur > sql.size then .error cur
  else .ok { st with
    current := cur
    line := if brk then st.line + 1 else st.line
    col := if brk then i else if crlf then st.col else st.col + i
    skew := st.skew || hasNL sql st.current (i - 1) }

/-- the batch loop of `_advance(alnum=True)`: while peek.isalnum(): col += 1; current += 1 -/
def alnumRun (sql : Sql) : Nat → Nat → Nat
  | 0, cur => cur
  | f+1, cur =>
    match sql[cur]? with
    | some ch => if ch.alnum then alnumRun sql f (cur+1) else cur
    | none => cur

def advanceAlnum (sql : Sql) (st : St) : Res St :=
  match advance sql st 1 with
  | .ok st1 =>
    match char sql st1 with
    | some ch =>
      if ch.alnum then
        let e := alnumRun sql (sql.size - st1.current) st1.current
        .ok { st1 with current := e, col := st1.col + (e - st1.current) }
      else .ok st1
    | none => .ok st1
  | r => r

/-- `_advance(-n)` (n ≥ 1): current -= n; the col arithmetic depends on the current character only -/
def retreat (sql : Sql) (st : St) (n : Nat) : Res St :=
  if n ≥ st.current then .unsupported "rewind to the beginning (sql[-1])"
  else
    let brk := isBreak sql (st.current - 1)
    let crlf := isNL sql (st.current - 1) && !brk
    if brk || crlf || st.col < n then .unsupported "rewind from a line break / negative column"
    else .ok { st with
      current := st.current - n
      col := st.col - n
      skew := st.skew || hasNL sql (st.current - 1 - n) n }

/-! ### _add -/

def lastTy (st : St) : Option String := st.toks.getLast?.map (·.ty)

def peekIsSemi (sql : Sql) (st : St) : Bool :=
  match peek sql st with | some ch => ch.c == ';' | none => false

/-- the command branch of `_add`: the token is a command keyword at statement start, not directly followed by `;` -/
def isCommandAdd (cfg : Cfg) (sql : Sql) (st : St) (ty : String) : Bool :=
  cfg.commands.contains ty && !peekIsSemi sql st
    && (st.toks.isEmpty || (match lastTy st with | some p => cfg.commandPrefix.contains p | none => false))

def tokText (sql : Sql) (st : St) (text : Option (List Char)) : List Char :=
  match text with | some t => t | none => slice sql st.start st.current

def add (cfg : Cfg) (sql : Sql) (st : St) (ty : String) (text : Option (List Char)) : Res St :=
  if isCommandAdd cfg sql st ty then .unsupported "command"
  else .ok { st with toks := st.toks ++ [⟨ty, tokText sql st text, st.line, st.col, st.start, st.current - 1⟩] }

/-! ### _chars, _extract_string -/

def chars (sql : Sql) (st : St) (n : Nat) : List Char :=
  if n = 1 then (match char sql st with | some ch => [ch.c] | none => [])
  else if st.current - 1 + n ≤ sql.size then slice sql (st.current - 1) (st.current - 1 + n) else []

/-- sql.find(delim, pos) for a one-character delimiter -/
def findCh (sql : Sql) (d : Char) : Nat → Nat → Option Nat
  | 0, _ => none
  | f+1, p =>
    match sql[p]? with
    | some ch => if ch.c == d then some p else findCh sql d f (p+1)
    | none => none

def countLF (sql : Sql) (a : Nat) : Nat → Nat
  | 0 => 0
  | n+1 => (match sql[a]? with | some ch => if ch.c == '\n' then 1 else 0 | none => 0) + countLF sql (a+1) n

/-- sql.rfind("\n", a, a+n) -/
def rfindLF (sql : Sql) (a : Nat) : Nat → Option Nat
  | 0 => none
  | n+1 => match sql[a+n]? with
    | some ch => if ch.c == '\n' then some (a+n) else rfindLF sql a n
    | none => rfindLF sql a n

def hasCh (sql : Sql) (c : Char) (a : Nat) : Nat → Bool
  | 0 => false
  | n+1 => (match sql[a]? with | some ch => ch.c == c | none => false) || hasCh sql c (a+1) n

def hasLoneCR (sql : Sql) (a : Nat) : Nat → Bool
  | 0 => false
  | n+1 => (isBreak sql a && isCR sql a) || hasLoneCR sql (a+1) n

structure XCfg where    -- the per-call arguments of _extract_string
  delim : List Char
  escapes : List String
  raw : Bool

/-- the str.find fast path of `_extract_string` (delimiter of one character).  `none` = the guard failed. -/
def fastString (cfg : Cfg) (sql : Sql) (st : St) (x : XCfg) : Option (St × List Char) :=
  match x.delim with
  | [d] =>
    let pos := st.current - 1
    match findCh sql d (sql.size - pos) pos with
    | none => none
    | some e =>
      let dbl := (match sql[e+1]? with | some n => n.c == d | none => false) && memS [d] x.escapes
      let bs := (!cfg.unescaped.isEmpty || memS ['\\'] x.escapes) && hasCh sql '\\' pos (e - pos)
      let cr := cfg.fixLoneCR && hasCh sql '\r' pos (e - pos)
      if dbl || bs || cr || st.current = 0 then none
      else
        let nl := countLF sql pos (e - pos)
        let (line, col) :=
          if nl > 0 then
            (st.line + nl, match rfindLF sql pos (e - pos) with | some r => e - r | none => e + 1)
          else (st.line, st.col + (e - pos))
        some ({ st with current := e + 1, line := line, col := col,
                        skew := st.skew || hasLoneCR sql pos (e - pos) }, slice sql pos e)
  | _ => none

def followOk (cfg : Cfg) (c : Option Ch) : Bool :=   -- `self._peek not in escape_follow_chars`
  match c with | some ch => !memS [ch.c] cfg.followChars | none => !memS [] cfg.followChars

/-- one `_advance(2)` of the slow path; with the repaired jump (`fixEscJump`) it is two single steps -/
def advance2 (cfg : Cfg) (sql : Sql) (st : St) : Res St :=
  if cfg.fixEscJump then (advance sql st 1).bind (fun s => advance sql s 1) else advance sql st 2

def slowString (cfg : Cfg) (sql : Sql) (x : XCfg) : Nat → St → List Char → Res (St × List Char)
  | 0, _, _ => .fuel
  | f+1, st, text =>
    let ch := char sql st
    let pk := peek sql st
    let chS : List Char := match ch with | some c => [c.c] | none => []
    let pkS : List Char := match pk with | some c => [c.c] | none => []
    let inEsc := ch.isSome && memS chS x.escapes
    let unesc : Option String :=
      if !x.raw && !cfg.unescaped.isEmpty && pk.isSome && inEsc then
        (match lookupS (chS ++ pkS) cfg.unescaped with | some u => if u.isEmpty then none else some u | none => none)
      else none
    match unesc with
    | some u => (advance2 cfg sql st).bind fun s => slowString cfg sql x f s (text ++ u.toList)
    | none =>
      let custom := !cfg.followChars.isEmpty && chS == ['\\'] && followOk cfg pk
      let dsz := x.delim.length
      let escDelim := (pk.isSome && pkS == x.delim) ||
        (dsz > 1 && pk.isSome && pkS == x.delim.take 1 && (lookupS pkS cfg.quotes).isSome)
      let peekInEsc := memS pkS x.escapes && pk.isSome
      if (cfg.rawEsc || !x.raw) && inEsc && (escDelim || peekInEsc || custom)
          && ((lookupS chS cfg.quotes).isNone || chS == pkS) then
        let add' : List Char :=
          if escDelim then (if !x.raw then pkS else chS ++ pkS)
          else if custom && chS != pkS then pkS
          else chS ++ pkS
        if st.current + 1 < sql.size then
          (advance2 cfg sql st).bind fun s => slowString cfg sql x f s (text ++ add')
        else .error st.current
      else
        if chars sql st dsz == x.delim then
          if dsz > 1 then (advance sql st (dsz - 1)).bind fun s => .ok (s, text) else .ok (st, text)
        else if atEnd sql st then .error st.current
        else
          let c0 := st.current - 1
          (advanceAlnum sql st).bind fun s => slowString cfg sql x f s (text ++ slice sql c0 (s.current - 1))

def extractString (cfg : Cfg) (sql : Sql) (st : St) (x : XCfg) : Res (St × List Char) :=
  match fastString cfg sql st x with
  | some r => .ok r
  | none => slowString cfg sql x (sql.size + 2) st []

/-! ### scanners -/

def digitsEnd (sql : Sql) : Nat → Nat → Nat
  | 0, e => e
  | f+1, e => match sql[e]? with
    | some ch => if isDigit ch.c then digitsEnd sql f (e+1) else e
    | none => e

def isSingle (cfg : Cfg) (c : Char) : Bool := (lookupS [c] cfg.single).isSome

/-- the identifier tail after a number: `while peek and not peek.isspace() and peek not in single_tokens` -/
def litLoop (cfg : Cfg) (sql : Sql) : Nat → St → List Ch → Res (St × List Ch)
  | 0, _, _ => .fuel
  | f+1, st, acc =>
    match peek sql st with
    | some p =>
      if !p.space && !isSingle cfg p.c then (advance sql st 1).bind fun s => litLoop cfg sql f s (acc ++ [p])
      else .ok (st, acc)
    | none => .ok (st, acc)

def finishNumber (cfg : Cfg) (sql : Sql) (st : St) (us : Bool) : Res St :=
  let t := slice sql st.start st.current
  add cfg sql st "NUMBER" (some (if us then t.filter (· != '_') else t))

def numLoop (cfg : Cfg) (sql : Sql) : Nat → St → Bool → Nat → Bool → Res St
  | 0, _, _, _, _ => .fuel
  | f+1, st, dec, sci, us =>
    match peek sql st with
    | none => finishNumber cfg sql st us
    | some p =>
      if isDigit p.c then
        let e := digitsEnd sql (sql.size - st.current) (st.current + 1)
        (advance sql st (e - st.current)).bind fun s => numLoop cfg sql f s dec sci us
      else if p.c == '.' && !dec then
        if lastTy st == some "PARAMETER" || !cfg.decimals then finishNumber cfg sql st us
        else (advance sql st 1).bind fun s => numLoop cfg sql f s true sci us
      else if (p.c == '-' || p.c == '+') && sci == 1 then
        if (match sql[st.current + 1]? with | some n => isDigit n.c | none => false) then
          (advance sql st 1).bind fun s => numLoop cfg sql f s dec 2 us
        else finishNumber cfg sql st us
      else if asciiUpper p.c == 'E' && sci == 0 then
        (advance sql st 1).bind fun s => numLoop cfg sql f s dec 1 us
      else if p.c == '_' && cfg.underscore then
        (advance sql st 1).bind fun s => numLoop cfg sql f s dec sci true
      else if p.ident then
        (litLoop cfg sql (sql.size + 1) st []).bind fun (s, lit) =>
          let key := upperOf lit
          if (match lookupS key cfg.numericLiterals with
              | some ty => (lookupS ty.toList cfg.keywords).isSome | none => false) then .unsupported "numeric literal suffix"
          else if cfg.identDigit then add cfg sql s "VAR" none
          else (retreat sql s lit.length).bind fun s2 => finishNumber cfg sql s2 us
      else finishNumber cfg sql st us

def scanNumber (cfg : Cfg) (sql : Sql) (st : St) : Res St :=
  let c := match char sql st with | some ch => ch.c | none => ' '
  let pk := match peek sql st with | some ch => asciiUpper ch.c | none => ' '
  if c == '0' && pk == 'B' then (if cfg.hasBit then .unsupported "0b literal" else add cfg sql st "NUMBER" none)
  else if c == '0' && pk == 'X' then (if cfg.hasHex then .unsupported "0x literal" else add cfg sql st "NUMBER" none)
  else numLoop cfg sql (sql.size + 2) st false 0 false

def varLoop (cfg : Cfg) (sql : Sql) : Nat → St → Res St
  | 0, _ => .fuel
  | f+1, st =>
    match peek sql st with
    | none => .ok st
    | some p =>
      if p.space then .ok st
      else if !memS [p.c] cfg.varSingle && isSingle cfg p.c then .ok st
      else (advanceAlnum sql st).bind fun s => varLoop cfg sql f s

def scanVar (cfg : Cfg) (sql : Sql) (st : St) : Res St :=
  (varLoop cfg sql (sql.size + 1) st).bind fun s =>
    let ty :=
      if lastTy s == some "PARAMETER" then "VAR"
      else match lookupS (upperOf (sliceCh sql s.start s.current)) cfg.keywords with
        | some t => t | none => "VAR"
    add cfg sql s ty none

def scanIdentifier (cfg : Cfg) (sql : Sql) (st : St) (endD : String) : Res St :=
  (advance sql st 1).bind fun s =>
    (extractString cfg sql s ⟨endD.toList, endD :: cfg.identEscapes, false⟩).bind fun (s2, text) =>
      add cfg sql s2 "IDENTIFIER" (some text)

def allDigitsBase (base : Nat) (t : List Char) : Bool :=
  t.all fun c => if base == 2 then c == '0' || c == '1' else isDigit c || ('a' ≤ c && c ≤ 'f') || ('A' ≤ c && c ≤ 'F')

/-- `_scan_string(word)`: `none` = not a string start -/
def scanString (cfg : Cfg) (sql : Sql) (st : St) (word : List Char) : Option (Res St) :=
  let go (endD : String) (ty : String) : Res St :=
    if ty == "HEREDOC_STRING" then .unsupported "heredoc"
    else
      let base : Nat := if ty == "HEX_STRING" then 16 else if ty == "BIT_STRING" then 2 else 0
      (advance sql st word.length).bind fun s =>
        (extractString cfg sql s ⟨endD.toList, if ty == "BYTE_STRING" then cfg.byteEscapes else cfg.stringEscapes,
                                  ty == "RAW_STRING"⟩).bind fun (s2, text) =>
          if base != 0 && !text.isEmpty && !allDigitsBase base text then .unsupported "int(text, base) on a non-digit body"
          else add cfg sql s2 ty (some text)
  match lookupS word cfg.quotes with
  | some e => some (go e "STRING")
  | none =>
    match cfg.formats.find? (fun f => f.1.toList == word) with
    | some (_, e, ty) => some (go e ty)
    | none => none

def commentLoop (cfg : Cfg) (sql : Sql) (cstart cend : List Char) : Nat → St → Nat → Res St
  | 0, _, _ => .fuel
  | f+1, st, count =>
    if atEnd sql st then .ok st
    else
      let hit := chars sql st cend.length == cend
      if hit && count == 1 then .ok st
      else
        let count := if hit then count - 1 else count
        (advanceAlnum sql st).bind fun s =>
          if cfg.nested && !atEnd sql s && chars sql s cend.length == cstart then
            (advance sql s cstart.length).bind fun s2 => commentLoop cfg sql cstart cend f s2 (count + 1)
          else commentLoop cfg sql cstart cend f s count

def lineCommentLoop (sql : Sql) : Nat → St → Res St
  | 0, _ => .fuel
  | f+1, st =>
    match peek sql st with
    | none => .ok st
    | some p => if p.c == '\n' || p.c == '\r' then .ok st else (advanceAlnum sql st).bind fun s => lineCommentLoop sql f s

def finishComment (cfg : Cfg) (sql : Sql) (st : St) (word : List Char) : Res St :=
  let st := { st with spans := st.spans ++ [(st.start, st.current - 1)] }
  if word == cfg.hintStart.toList && (match lastTy st with | some p => cfg.precedingHint.contains p | none => false) then
    add cfg sql st "HINT" none
  else .ok st

/-- `_scan_comment(word)`: `none` = not a comment start -/
def scanComment (cfg : Cfg) (sql : Sql) (st : St) (word : List Char) : Option (Res St) :=
  if memS word cfg.lineComments then
    some ((lineCommentLoop sql (sql.size + 1) st).bind fun s => finishComment cfg sql s word)
  else match lookupS word cfg.comments with
    | some e =>
      some ((advance sql st word.length).bind fun s =>
        (commentLoop cfg sql word e.toList (sql.size + 2) s 1).bind fun s2 =>
          (if e.length > 1 then advance sql s2 (e.length - 1) else .ok s2).bind fun s3 => finishComment cfg sql s3 word)
    | none => none

def trieHasPrefix (cfg : Cfg) (p : List Char) : Bool := cfg.trie.any fun k => p.isPrefixOf k.toList
def trieHas (cfg : Cfg) (p : List Char) : Bool := memS p cfg.trie

structure KwR where
  word : Option (List Char)
  size : Nat
  prevSpace : Bool
  single : Bool
  charEmpty : Bool     -- `not char` at loop exit

/-- the trie walk of `_scan_keywords`.  `pfx` = path walked in the trie (upper-cased), `chars` = folded text so far. -/
def kwLoop (cfg : Cfg) (sql : Sql) (cur : Nat) : Nat → (chars pfx : List Char) → (char : Char) → (skip prevSpace single : Bool) →
    (size : Nat) → (word : Option (List Char)) → KwR
  | 0, _, _, _, _, ps, sg, size, word => ⟨word, size, ps, sg, false⟩
  | f+1, chars, pfx, char, skip, ps, sg, size, word =>
    let step : Option (List Char × Option (List Char)) :=
      if skip then some (pfx, word)
      else
        let p := pfx ++ [asciiUpper char]
        if trieHasPrefix cfg p then some (p, if trieHas cfg p then some chars else word) else none
    match step with
    | none => ⟨word, size, ps, sg, false⟩
    | some (pfx, word) =>
      let e := cur + size
      let size := size + 1
      match sql[e]? with
      | none => ⟨word, size, ps, sg, true⟩
      | some ch =>
        let sg := sg || isSingle cfg ch.c
        if !ch.space || !ps then
          let c := if ch.space then ' ' else ch.c
          kwLoop cfg sql cur f (chars ++ [c]) pfx c false ch.space sg size word
        else kwLoop cfg sql cur f chars pfx ch.c true ps sg size word

/-- the keyword jump `_advance(size - 1)`; repaired: one character at a time -/
def stepN (sql : Sql) : Nat → St → Res St
  | 0, st => .ok st
  | n+1, st => (advance sql st 1).bind fun s => stepN sql n s

def advanceKw (cfg : Cfg) (sql : Sql) (st : St) (n : Nat) : Res St :=
  if n = 0 then .unsupported "_advance(0)"
  else if cfg.fixKwJump && hasNL sql st.current (n - 1) then stepN sql n st else advance sql st n

def scanKeywords (cfg : Cfg) (sql : Sql) (st : St) : Res St :=
  match char sql st with
  | none => .unsupported "no current character"
  | some c0 =>
    let r := kwLoop cfg sql st.current (sql.size + 2) [c0.c] [] c0.c false false (isSingle cfg c0.c) 0 none
    let fallback : Res St :=
      match lookupS [c0.c] cfg.single with
      | some ty => add cfg sql st ty (some [c0.c])
      | none => scanVar cfg sql st
    match r.word with
    | some w =>
      match scanString cfg sql st w with
      | some res => res
      | none =>
        match scanComment cfg sql st w with
        | some res => res
        | none =>
          if r.prevSpace || r.single || r.charEmpty then
            if r.size = 1 then
              (match lookupS (w.map asciiUpper) cfg.keywords with
               | some ty => add cfg sql st ty (some (w.map asciiUpper))
               | none => .error st.current)
            else
              (advanceKw cfg sql st (r.size - 1)).bind fun s =>
                match lookupS (w.map asciiUpper) cfg.keywords with
                | some ty => add cfg sql s ty (some (w.map asciiUpper))
                | none => .error s.current
          else fallback
    | none => fallback

def skipBlanks (sql : Sql) : Nat → Nat → Nat
  | 0, cur => cur
  | f+1, cur => match sql[cur]? with
    | some ch => if ch.c == ' ' || ch.c == '\t' then skipBlanks sql f (cur+1) else cur
    | none => cur

/-- one iteration of the `_scan` loop -/
def scanStep (cfg : Cfg) (sql : Sql) (st : St) : Res St :=
  let cur := skipBlanks sql (sql.size - st.current) st.current
  let off := if cur > st.current then cur - st.current else 1
  (advance sql { st with start := cur } off).bind fun s =>
    match char sql s with
    | none => .unsupported "no current character"
    | some ch =>
      if ch.space then .ok s
      else if isDigit ch.c then scanNumber cfg sql s
      else match lookupS [ch.c] cfg.identifiers with
        | some e => scanIdentifier cfg sql s e
        | none => scanKeywords cfg sql s

def scanLoop (cfg : Cfg) (sql : Sql) : Nat → St → Res St
  | 0, _ => .fuel
  | f+1, st =>
    if sql.size = 0 || st.current ≥ sql.size then .ok st
    else (scanStep cfg sql st).bind fun s => scanLoop cfg sql f s

def lex (cfg : Cfg) (sql : Sql) : Res St := scanLoop cfg sql (sql.size + 1) {}

/-- the window `tokenize` puts on a TokenError -/
def errorWindow (size cur : Nat) : Nat × Nat := (cur - 50, min (cur + 50) (size - 1))

/-! ### ASCII inputs (for examples and witnesses; the driver receives the class bits from CPython instead) -/

def asciiCh (c : Char) : Ch :=
  let alpha := ('a' ≤ c && c ≤ 'z') || ('A' ≤ c && c ≤ 'Z')
  ⟨c, c == ' ' || c == '\t' || c == '\n' || c == '\r', alpha || isDigit c, alpha || c == '_', [asciiUpper c]⟩

def asciiSql (s : String) : Sql := (s.toList.map asciiCh).toArray

/-- (type, line, col, start, stop) of every token, and the reference line/col of its end offset -/
def summary (sql : Sql) (st : St) : List (String × Nat × Nat × Nat × Nat × Nat × Nat) :=
  st.toks.map fun t => (t.ty, t.line, t.col, t.start, t.stop, lineOf sql t.stop, colOf sql t.stop)

/-- run the model on an ASCII string: (skew flag, summary) or none if the run did not return tokens -/
def runSummary (cfg : Cfg) (s : String) : Option (Bool × List (String × Nat × Nat × Nat × Nat × Nat × Nat)) :=
  match lex cfg (asciiSql s) with
  | .ok st => some (st.skew, summary (asciiSql s) st)
  | _ => none

/-! ### errors.highlight_sql -/

def pySlice (s : List Char) (a b : Nat) : List Char := (s.drop a).take (b - a)

def insertPos (p : Nat × Nat) : List (Nat × Nat) → List (Nat × Nat)
  | [] => [p]
  | q :: qs => if p.1 < q.1 then p :: q :: qs else q :: insertPos p qs

/-- `sorted(positions, key=lambda pos: pos[0])` (stable) -/
def sortPos (l : List (Nat × Nat)) : List (Nat × Nat) := l.foldl (fun acc p => insertPos p acc) []

def ansiUL : List Char := "\x1b[4m".toList
def ansiReset : List Char := "\x1b[0m".toList

def hlLoop (s : List Char) : List (Nat × Nat) → Nat → List Char → (List Char × Nat)
  | [], prev, acc => (acc, prev)
  | (a, b) :: rest, prev, acc =>
    let hs := max a prev
    let he := b + 1
    if hs ≥ he then hlLoop s rest prev acc
    else
      let acc := if hs > prev then acc ++ pySlice s prev hs else acc
      hlLoop s rest he (acc ++ ansiUL ++ pySlice s hs he ++ ansiReset)

structure Highlight where
  formatted : List Char
  startCtx : List Char
  highlight : List Char
  endCtx : List Char
deriving Repr, DecidableEq

/-- `highlight_sql(sql, positions, context_length)` for a non-empty position list -/
def highlightSql (s : List Char) (positions : List (Nat × Nat)) (ctx : Nat) : Highlight :=
  let sorted := sortPos positions
  let first := match sorted with | p :: _ => p.1 | [] => 0
  let startCtx := if first > 0 then pySlice s (first - ctx) first else []
  let (parts, prevEnd) := hlLoop s sorted first startCtx
  let endCtx := if prevEnd < s.length then pySlice s prevEnd (prevEnd + ctx) else []
  ⟨parts ++ endCtx, startCtx, pySlice s first prevEnd, endCtx⟩

end SqlglotModel.Lex
