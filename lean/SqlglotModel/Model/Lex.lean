/-
  Model of sqlglot's tokenizer (sqlglot/tokenizer_core.py: TokenizerCore) WITH its position fields, and of
  sqlglot/errors.py: highlight_sql.  Executable, Mathlib-free, no proofs (they live in Proofs/Lex.lean).

  What is modelled (faithfully, statement by statement):
    _scan (incl. the blank-skipping pre-loop), _advance (line/col/current; CRLF and lone CR; the alnum batch), _add,
    _scan_keywords (trie walk with whitespace folding), _scan_number (digit batches, decimals, exponents, underscores,
    identifier tails with the rewind), _scan_var, _scan_identifier, _scan_string (quotes and format strings),
    _scan_comment (line, block, nested, hints), _extract_string (str.find fast path and the escape-processing slow path), _chars.
  What is NOT modelled — the model answers `unsupported`, and correspondence generators count those inputs:
    heredoc strings, 0x../0b.. literals in dialects that have them, numeric-literal suffixes (1L), command tokens
    (SHOW/... re-scanning the statement), hex/bit format strings whose body is not plain digits.
  Token.comments / _prev_token_line (comment attachment) carry no positions and are not modelled; instead every region
  consumed by _scan_comment is recorded in the ghost field `spans`.
  Ghost field `skew`: set when one of the code's multi-character jumps passes over a CR/LF it does not account for
  (the sites are listed at `advance`, `retreat` and `fastString`).  Python-only derived fields (_char, _peek, _end) are
  functions of `current`.
  Characters arrive with the CPython class bits the tokenizer consults (isspace / isalnum / isidentifier) and their
  str.upper(), because Lean has no CPython Unicode tables.
-/
namespace SqlglotModel.Lex

structure Ch where
  c : Char
  space : Bool
  alnum : Bool
  ident : Bool
  up : List Char
deriving Repr, DecidableEq

structure Tok where
  ty : String
  text : List Char
  line : Nat
  col : Nat
  start : Nat
  stop : Nat
deriving Repr, DecidableEq

structure Cfg where
  single : List (String × String)           -- SINGLE_TOKENS  (char, type)
  keywords : List (String × String)         -- KEYWORDS       (text, type)
  trie : List String                        -- keys of _KEYWORD_TRIE
  quotes : List (String × String)
  formats : List (String × String × String) -- start, end, type
  identifiers : List (String × String)
  comments : List (String × String)         -- block comments: start, end
  lineComments : List String                -- comments with end = None
  stringEscapes : List String
  byteEscapes : List String
  identEscapes : List String
  followChars : List String
  unescaped : List (String × String)
  commands : List String
  commandPrefix : List String
  nested : Bool
  hintStart : String
  precedingHint : List String
  hasBit : Bool
  hasHex : Bool
  numericLiterals : List (String × String)
  varSingle : List String
  rawEsc : Bool
  underscore : Bool
  decimals : Bool
  identDigit : Bool
  fixLoneCR : Bool     -- the fast path leaves literals containing CR to the slow path (pending_fixes/C13-lone-cr.diff)
  fixKwJump : Bool     -- the keyword jump over a line break is taken one character at a time (C13-keyword-linebreak.diff)
  fixEscJump : Bool    -- `_advance(2)` over escape + following character is two single steps (C13-escape-linebreak.diff)
deriving Repr

structure St where
  start : Nat := 0
  current : Nat := 0
  line : Nat := 1
  col : Nat := 0
  toks : List Tok := []
  spans : List (Nat × Nat) := []   -- ghost: regions consumed as comments (inclusive)
  skew : Bool := false             -- ghost
deriving Repr

inductive Res (α : Type) where
  | ok (a : α)
  | error (current : Nat)          -- any exception inside _scan (re-raised as TokenError with a window around _current)
  | unsupported (why : String)
  | fuel
deriving Repr

@[inline] def Res.bind {α β} (r : Res α) (f : α → Res β) : Res β :=
  match r with
  | .ok a => f a
  | .error c => .error c
  | .unsupported w => .unsupported w
  | .fuel => .fuel

instance : Monad Res where
  pure := .ok
  bind := Res.bind

abbrev Sql := Array Ch

/-! ### reference positions (the specification side) -/

def isLF (sql : Sql) (j : Nat) : Bool :=
  match sql[j]? with
  | some ch => ch.c == '\n'
  | none => false

def isCR (sql : Sql) (j : Nat) : Bool :=
  match sql[j]? with
  | some ch => ch.c == '\r'
  | none => false

def isNL (sql : Sql) (j : Nat) : Bool := isLF sql j || isCR sql j

/-- a line break sits at offset j: LF, or CR not followed by LF -/
def isBreak (sql : Sql) (j : Nat) : Bool := isLF sql j || (isCR sql j && !isLF sql (j+1))

/-- 1 + number of line breaks strictly before offset p -/
def lineOf (sql : Sql) : Nat → Nat
  | 0 => 1
  | p+1 => lineOf sql p + (if isBreak sql p then 1 else 0)

/-- offset of the first character of the line containing offset p -/
def lineStart (sql : Sql) : Nat → Nat
  | 0 => 0
  | p+1 => if isBreak sql p then p+1 else lineStart sql p

/-- 1-based column of offset p -/
def colOf (sql : Sql) (p : Nat) : Nat := p + 1 - lineStart sql p

/-- the LF of a CRLF pair: `_advance` gives it the column of the CR -/
def crlfAdj (sql : Sql) (p : Nat) : Nat :=
  if p ≥ 1 && isLF sql p && isCR sql (p-1) then 1 else 0

/-- does [a, b) contain a CR or LF -/
def hasNL (sql : Sql) (a : Nat) : Nat → Bool
  | 0 => false
  | n+1 => isNL sql a || hasNL sql (a+1) n

/-! ### derived Python fields -/

def peek (sql : Sql) (st : St) : Option Ch := sql[st.current]?
def char (sql : Sql) (st : St) : Option Ch := if st.current = 0 then none else sql[st.current - 1]?
def atEnd (sql : Sql) (st : St) : Bool := st.current ≥ sql.size

def strOf (l : List Ch) : List Char := l.map (·.c)
def slice (sql : Sql) (a b : Nat) : List Char := strOf ((sql.toList.drop a).take (b - a))
def sliceCh (sql : Sql) (a b : Nat) : List Ch := (sql.toList.drop a).take (b - a)

def memS (s : List Char) (l : List String) : Bool := l.any (fun k => k.toList == s)
def lookupS (s : List Char) (l : List (String × String)) : Option String :=
  match l.find? (fun kv => kv.1.toList == s) with
  | some kv => some kv.2
  | none => none

def asciiUpper (c : Char) : Char := if 'a' ≤ c && c ≤ 'z' then Char.ofNat (c.toNat - 32) else c
def isDigit (c : Char) : Bool := '0' ≤ c && c ≤ '9'
def upperOf (l : List Ch) : List Char := l.flatMap (·.up)

/-! ### _advance -/

/-- `_advance(i)` for i ≥ 1 without the alnum batch.  Jumps (i > 1) look only at the current character, so a CR/LF among
    the skipped characters sql[current .. current+i-2] is not accounted for: `skew` records that. -/
def advance (sql : Sql) (st : St) (i : Nat) : Res St :=
  let brk := st.current ≥ 1 && isBreak sql (st.current - 1)
  let crlf := st.current ≥ 1 && isNL sql (st.current - 1) && !brk   -- CR directly before LF: neither line nor col move
  let cur := st.current + i
  if i = 0 then .unsupported "_advance(0)"
  else if cur > sql.size then .error cur
  else .ok { st with
    current := cur
    line := if brk then st.line + 1 else st.line
    col := if brk then i else if crlf then st.col else st.col + i
    skew := st.skew || hasNL sql st.current (i - 1) }

/-- the batch loop of `_advance(alnum=True)`: while peek.isalnum(): col += 1; current += 1 -/
def alnumRun (sql : Sql) : Nat → Nat → Nat
  | 0, cur => cur
  | f+1, cur =>
    match sql[cur]? with
    | some ch => if ch.alnum then alnumRun sql f (cur+1) else cur
    | none => cur

def advanceAlnum (sql : Sql) (st : St) : Res St :=
  match advance sql st 1 with
  | .ok st1 =>
    match char sql st1 with
    | some ch =>
      if ch.alnum then
        let e := alnumRun sql (sql.size - st1.current) st1.current
        .ok { st1 with current := e, col := st1.col + (e - st1.current) }
      else .ok st1
    | none => .ok st1
  | r => r

/-- `_advance(-n)` (n ≥ 1): current -= n; the col arithmetic depends on the current character only -/
def retreat (sql : Sql) (st : St) (n : Nat) : Res St :=
  if n ≥ st.current then .unsupported "rewind to the beginning (sql[-1])"
  else
    let brk := isBreak sql (st.current - 1)
    let crlf := isNL sql (st.current - 1) && !brk
    if brk || crlf || st.col < n then .unsupported "rewind from a line break / negative column"
    else .ok { st with
      current := st.current - n
      col := st.col - n
      skew := st.skew || hasNL sql (st.current - 1 - n) n }

/-! ### _add -/

def lastTy (st : St) : Option String := st.toks.getLast?.map (·.ty)

def peekIsSemi (sql : Sql) (st : St) : Bool :=
  match peek sql st with | some ch => ch.c == ';' | none => false

/-- the command branch of `_add`: the token is a command keyword at statement start, not directly followed by `;` -/
def isCommandAdd (cfg : Cfg) (sql : Sql) (st : St) (ty : String) : Bool :=
  cfg.commands.contains ty && !peekIsSemi sql st
    && (st.toks.isEmpty || (match lastTy st with | some p => cfg.commandPrefix.contains p | none => false))

def tokText (sql : Sql) (st : St) (text : Option (List Char)) : List Char :=
  match text with | some t => t | none => slice sql st.start st.current

def add (cfg : Cfg) (sql : Sql) (st : St) (ty : String) (text : Option (List Char)) : Res St :=
  if isCommandAdd cfg sql st ty then .unsupported "command"
  else .ok { st with toks := st.toks ++ [⟨ty, tokText sql st text, st.line, st.col, st.start, st.current - 1⟩] }

/-! ### _chars, _extract_string -/

def chars (sql : Sql) (st : St) (n : Nat) : List Char :=
  if n = 1 then (match char sql st with | some ch => [ch.c] | none => [])
  else if st.current - 1 + n ≤ sql.size then slice sql (st.current - 1) (st.current - 1 + n) else []

/-- sql.find(delim, pos) for a one-character delimiter -/
def findCh (sql : Sql) (d : Char) : Nat → Nat → Option Nat
  | 0, _ => none
  | f+1, p =>
    match sql[p]? with
    | some ch => if ch.c == d then some p else findCh sql d f (p+1)
    | none => none

def countLF (sql : Sql) (a : Nat) : Nat → Nat
  | 0 => 0
  | n+1 => (if isLF sql a then 1 else 0) + countLF sql (a+1) n

/-- sql.rfind("\n", a, a+n) -/
def rfindLF (sql : Sql) (a : Nat) : Nat → Option Nat
  | 0 => none
  | n+1 => if isLF sql (a+n) then some (a+n) else rfindLF sql a n

def hasCh (sql : Sql) (c : Char) (a : Nat) : Nat → Bool
  | 0 => false
  | n+1 => (match sql[a]? with | some ch => ch.c == c | none => false) || hasCh sql c (a+1) n

def hasLoneCR (sql : Sql) (a : Nat) : Nat → Bool
  | 0 => false
  | n+1 => (isBreak sql a && isCR sql a) || hasLoneCR sql (a+1) n

/-- the position bookkeeping of the str.find fast path: the cursor stands on offset pos with (line, col) and is moved to
    offset e:  newlines = sql.count("\n", pos, e); if newlines: line += newlines; col = e - sql.rfind("\n", pos, e)
    else: col += e - pos -/
def fastPos (sql : Sql) (line col pos e : Nat) : Nat × Nat :=
  if countLF sql pos (e - pos) > 0 then
    (line + countLF sql pos (e - pos), match rfindLF sql pos (e - pos) with | some r => e - r | none => e + 1)
  else (line, col + (e - pos))

structure XCfg where    -- the per-call arguments of _extract_string
  delim : List Char
  escapes : List String
  raw : Bool

/-- the guard of the fast path fails: doubled delimiter that is an escape, a backslash that needs escape processing, or
    (repaired code) a CR inside the literal -/
def fastBlocked (cfg : Cfg) (sql : Sql) (x : XCfg) (d : Char) (pos e : Nat) : Bool :=
  ((match sql[e+1]? with | some n => n.c == d | none => false) && memS [d] x.escapes)
  || ((!cfg.unescaped.isEmpty || memS ['\\'] x.escapes) && hasCh sql '\\' pos (e - pos))
  || (cfg.fixLoneCR && hasCh sql '\r' pos (e - pos))

/-- the str.find fast path of `_extract_string` (delimiter of one character).  `none` = the guard failed. -/
def fastString (cfg : Cfg) (sql : Sql) (st : St) (x : XCfg) : Option (St × List Char) :=
  match x.delim with
  | [d] =>
    match findCh sql d (sql.size - (st.current - 1)) (st.current - 1) with
    | none => none
    | some e =>
      if fastBlocked cfg sql x d (st.current - 1) e || st.current = 0 then none
      else
        some ({ st with current := e + 1,
                        line := (fastPos sql st.line st.col (st.current - 1) e).1,
                        col := (fastPos sql st.line st.col (st.current - 1) e).2,
                        skew := st.skew || hasLoneCR sql (st.current - 1) (e - (st.current - 1)) || d == '\n' },
              slice sql (st.current - 1) e)
  | _ => none

def followOk (cfg : Cfg) (c : Option Ch) : Bool :=   -- `self._peek not in escape_follow_chars`
  match c with | some ch => !memS [ch.c] cfg.followChars | none => !memS [] cfg.followChars

/-- one `_advance(2)` of the slow path; with the repaired jump (`fixEscJump`) it is two single steps -/
def advance2 (cfg : Cfg) (sql : Sql) (st : St) : Res St :=
  if cfg.fixEscJump then (advance sql st 1).bind (fun s => advance sql s 1) else advance sql st 2

/-! the decisions of one iteration of the slow path, as functions of the cursor -/
def chStr (c : Option Ch) : List Char := match c with | some ch => [ch.c] | none => []

def inEsc (sql : Sql) (x : XCfg) (st : St) : Bool :=
  (char sql st).isSome && memS (chStr (char sql st)) x.escapes

/-- `unescaped_sequences.get(char + peek)` when it applies and is non-empty -/
def unescOf (cfg : Cfg) (sql : Sql) (x : XCfg) (st : St) : Option String :=
  if !x.raw && !cfg.unescaped.isEmpty && (peek sql st).isSome && inEsc sql x st then
    (match lookupS (chStr (char sql st) ++ chStr (peek sql st)) cfg.unescaped with
     | some u => if u.isEmpty then none else some u
     | none => none)
  else none

def customEsc (cfg : Cfg) (sql : Sql) (st : St) : Bool :=
  !cfg.followChars.isEmpty && chStr (char sql st) == ['\\'] && followOk cfg (peek sql st)

def escDelim (cfg : Cfg) (sql : Sql) (x : XCfg) (st : St) : Bool :=
  ((peek sql st).isSome && chStr (peek sql st) == x.delim) ||
  (decide (x.delim.length > 1) && (peek sql st).isSome && chStr (peek sql st) == x.delim.take 1
    && (lookupS (chStr (peek sql st)) cfg.quotes).isSome)

/-- the big `if` of the slow path: the current character escapes the next one -/
def escCond (cfg : Cfg) (sql : Sql) (x : XCfg) (st : St) : Bool :=
  (cfg.rawEsc || !x.raw) && inEsc sql x st
    && (escDelim cfg sql x st || (memS (chStr (peek sql st)) x.escapes && (peek sql st).isSome) || customEsc cfg sql st)
    && ((lookupS (chStr (char sql st)) cfg.quotes).isNone || chStr (char sql st) == chStr (peek sql st))

def escText (cfg : Cfg) (sql : Sql) (x : XCfg) (st : St) : List Char :=
  if escDelim cfg sql x st then (if !x.raw then chStr (peek sql st) else chStr (char sql st) ++ chStr (peek sql st))
  else if customEsc cfg sql st && chStr (char sql st) != chStr (peek sql st) then chStr (peek sql st)
  else chStr (char sql st) ++ chStr (peek sql st)

def slowString (cfg : Cfg) (sql : Sql) (x : XCfg) : Nat → St → List Char → Res (St × List Char)
  | 0, _, _ => .fuel
  | f+1, st, text =>
    match unescOf cfg sql x st with
    | some u => (advance2 cfg sql st).bind fun s => slowString cfg sql x f s (text ++ u.toList)
    | none =>
      if escCond cfg sql x st then
        if st.current + 1 < sql.size then
          (advance2 cfg sql st).bind fun s => slowString cfg sql x f s (text ++ escText cfg sql x st)
        else .error st.current
      else if chars sql st x.delim.length == x.delim then
        if x.delim.length > 1 then (advance sql st (x.delim.length - 1)).bind fun s => .ok (s, text) else .ok (st, text)
      else if atEnd sql st then .error st.current
      else
        (advanceAlnum sql st).bind fun s => slowString cfg sql x f s (text ++ slice sql (st.current - 1) (s.current - 1))

def extractString (cfg : Cfg) (sql : Sql) (st : St) (x : XCfg) : Res (St × List Char) :=
  match fastString cfg sql st x with
  | some r => .ok r
  | none => slowString cfg sql x (sql.size + 2) st []

/-! ### scanners -/

def digitsEnd (sql : Sql) : Nat → Nat → Nat
  | 0, e => e
  | f+1, e => match sql[e]? with
    | some ch => if isDigit ch.c then digitsEnd sql f (e+1) else e
    | none => e

def isSingle (cfg : Cfg) (c : Char) : Bool := (lookupS [c] cfg.single).isSome

/-- the identifier tail after a number: `while peek and not peek.isspace() and peek not in single_tokens` -/
def litLoop (cfg : Cfg) (sql : Sql) : Nat → St → List Ch → Res (St × List Ch)
  | 0, _, _ => .fuel
  | f+1, st, acc =>
    match peek sql st with
    | some p =>
      if !p.space && !isSingle cfg p.c then (advance sql st 1).bind fun s => litLoop cfg sql f s (acc ++ [p])
      else .ok (st, acc)
    | none => .ok (st, acc)

def finishNumber (cfg : Cfg) (sql : Sql) (st : St) (us : Bool) : Res St :=
  let t := slice sql st.start st.current
  add cfg sql st "NUMBER" (some (if us then t.filter (· != '_') else t))

def nextIsDigit (sql : Sql) (st : St) : Bool :=
  match sql[st.current + 1]? with | some n => isDigit n.c | none => false

/-- `keywords.get(numeric_literals.get(literal.upper(), ""))` is a token type -/
def isNumericSuffix (cfg : Cfg) (lit : List Ch) : Bool :=
  match lookupS (upperOf lit) cfg.numericLiterals with
  | some ty => (lookupS ty.toList cfg.keywords).isSome
  | none => false

/-- the `elif self._peek.isidentifier()` branch of `_scan_number` -/
def numIdentTail (cfg : Cfg) (sql : Sql) (st : St) (us : Bool) : Res St :=
  (litLoop cfg sql (sql.size + 1) st []).bind fun r =>
    if isNumericSuffix cfg r.2 then .unsupported "numeric literal suffix"
    else if cfg.identDigit then add cfg sql r.1 "VAR" none
    else (retreat sql r.1 r.2.length).bind fun s2 => finishNumber cfg sql s2 us

def numLoop (cfg : Cfg) (sql : Sql) : Nat → St → Bool → Nat → Bool → Res St
  | 0, _, _, _, _ => .fuel
  | f+1, st, dec, sci, us =>
    match peek sql st with
    | none => finishNumber cfg sql st us
    | some p =>
      if isDigit p.c then
        (advance sql st (digitsEnd sql (sql.size - st.current) (st.current + 1) - st.current)).bind fun s =>
          numLoop cfg sql f s dec sci us
      else if p.c == '.' && !dec then
        if lastTy st == some "PARAMETER" || !cfg.decimals then finishNumber cfg sql st us
        else (advance sql st 1).bind fun s => numLoop cfg sql f s true sci us
      else if (p.c == '-' || p.c == '+') && sci == 1 then
        if nextIsDigit sql st then (advance sql st 1).bind fun s => numLoop cfg sql f s dec 2 us
        else finishNumber cfg sql st us
      else if asciiUpper p.c == 'E' && sci == 0 then
        (advance sql st 1).bind fun s => numLoop cfg sql f s dec 1 us
      else if p.c == '_' && cfg.underscore then
        (advance sql st 1).bind fun s => numLoop cfg sql f s dec sci true
      else if p.ident then numIdentTail cfg sql st us
      else finishNumber cfg sql st us

/-! ### `int(text, base)` for base 2 / 16 on ASCII text (decides HEX/BIT literals; non-ASCII text = `none`) -/

def isAsciiSpace (c : Char) : Bool :=
  c.toNat == 32 || (9 ≤ c.toNat && c.toNat ≤ 13) || (28 ≤ c.toNat && c.toNat ≤ 31)

def isBaseDigit (base : Nat) (c : Char) : Bool :=
  if base == 2 then c == '0' || c == '1' else isDigit c || ('a' ≤ c && c ≤ 'f') || ('A' ≤ c && c ≤ 'F')

/-- digits with single underscores between them (prevUnderscore: the previous character was `_`) -/
def digitRun (base : Nat) : List Char → Bool → Bool
  | [], prevU => !prevU
  | c :: r, prevU =>
    if c == '_' then (if prevU then false else digitRun base r true)
    else if isBaseDigit base c then digitRun base r false else false

def stripSign (t : List Char) : List Char :=
  match t with | '+' :: r => r | '-' :: r => r | _ => t

def stripPrefix (base : Nat) (t : List Char) : List Char :=
  match t with
  | '0' :: p :: r =>
    if (base == 16 && (p == 'x' || p == 'X')) || (base == 2 && (p == 'b' || p == 'B')) then
      (match r with | '_' :: r' => r' | _ => r)
    else t
  | _ => t

def pyIntBody (base : Nat) (t : List Char) : Bool :=
  match stripPrefix base (stripSign t) with
  | [] => false
  | c :: r => isBaseDigit base c && digitRun base r false

/-- does `int(s, base)` succeed?  (CPython: strip whitespace, optional sign, optional 0x/0b prefix, digits with single
    underscores).  `none` for non-ASCII text (Unicode digits / spaces are not modelled). -/
def pyIntOk (base : Nat) (s : List Char) : Option Bool :=
  if s.any (fun c => c.toNat ≥ 128) then none
  else some (pyIntBody base (((s.dropWhile isAsciiSpace).reverse.dropWhile isAsciiSpace).reverse))

/-- `_extract_value`: while peek.strip() and peek not in single_tokens: _advance(alnum=True) -/
def valueLoop (cfg : Cfg) (sql : Sql) : Nat → St → Res St
  | 0, _ => .fuel
  | f+1, st =>
    match peek sql st with
    | none => .ok st
    | some p =>
      if !p.space && !isSingle cfg p.c then (advanceAlnum sql st).bind fun s => valueLoop cfg sql f s
      else .ok st

/-- the token `_scan_bits` / `_scan_hex` add once the value is extracted -/
def radixAdd (cfg : Cfg) (sql : Sql) (s : St) (base : Nat) (ty : String) : Res St :=
  match pyIntOk base (slice sql s.start s.current) with
  | none => .unsupported "int(value, base) on non-ASCII text"
  | some true => add cfg sql s ty (some ((slice sql s.start s.current).drop 2))
  | some false => add cfg sql s "IDENTIFIER" none

/-- `_scan_bits` / `_scan_hex` -/
def scanRadix (cfg : Cfg) (sql : Sql) (st : St) (base : Nat) (ty : String) : Res St :=
  (advance sql st 1).bind fun s => (valueLoop cfg sql (sql.size + 1) s).bind fun s2 => radixAdd cfg sql s2 base ty

def charIs (sql : Sql) (st : St) (c : Char) : Bool :=
  match char sql st with | some ch => ch.c == c | none => false

def peekUpperIs (sql : Sql) (st : St) (c : Char) : Bool :=
  match peek sql st with | some ch => asciiUpper ch.c == c | none => false

def scanNumber (cfg : Cfg) (sql : Sql) (st : St) : Res St :=
  if charIs sql st '0' && peekUpperIs sql st 'B' then
    (if cfg.hasBit then scanRadix cfg sql st 2 "BIT_STRING" else add cfg sql st "NUMBER" none)
  else if charIs sql st '0' && peekUpperIs sql st 'X' then
    (if cfg.hasHex then scanRadix cfg sql st 16 "HEX_STRING" else add cfg sql st "NUMBER" none)
  else numLoop cfg sql (sql.size + 2) st false 0 false

def varLoop (cfg : Cfg) (sql : Sql) : Nat → St → Res St
  | 0, _ => .fuel
  | f+1, st =>
    match peek sql st with
    | none => .ok st
    | some p =>
      if p.space then .ok st
      else if !memS [p.c] cfg.varSingle && isSingle cfg p.c then .ok st
      else (advanceAlnum sql st).bind fun s => varLoop cfg sql f s

def varType (cfg : Cfg) (sql : Sql) (s : St) : String :=
  if lastTy s == some "PARAMETER" then "VAR"
  else match lookupS (upperOf (sliceCh sql s.start s.current)) cfg.keywords with
    | some t => t | none => "VAR"

def scanVar (cfg : Cfg) (sql : Sql) (st : St) : Res St :=
  (varLoop cfg sql (sql.size + 1) st).bind fun s => add cfg sql s (varType cfg sql s) none

def scanIdentifier (cfg : Cfg) (sql : Sql) (st : St) (endD : String) : Res St :=
  (advance sql st 1).bind fun s =>
    (extractString cfg sql s ⟨endD.toList, endD :: cfg.identEscapes, false⟩).bind fun r =>
      add cfg sql r.1 "IDENTIFIER" (some r.2)

def allDigitsBase (base : Nat) (t : List Char) : Bool :=
  t.all fun c => if base == 2 then c == '0' || c == '1' else isDigit c || ('a' ≤ c && c ≤ 'f') || ('A' ≤ c && c ≤ 'F')

def baseOf (ty : String) : Nat := if ty == "HEX_STRING" then 16 else if ty == "BIT_STRING" then 2 else 0

/-- `if base and text: int(text, base)` (failure = TokenError), then `_add(token_type, text)` -/
def stringAdd (cfg : Cfg) (sql : Sql) (s : St) (ty : String) (text : List Char) : Res St :=
  if baseOf ty != 0 && !text.isEmpty then
    match pyIntOk (baseOf ty) text with
    | none => .unsupported "int(text, base) on non-ASCII text"
    | some true => add cfg sql s ty (some text)
    | some false => .error s.current
  else add cfg sql s ty (some text)

/-- the body of `_scan_string` once the start delimiter `word` (closing delimiter endD, token type ty) is known -/
def stringBody (cfg : Cfg) (sql : Sql) (st : St) (word : List Char) (endD : String) (ty : String) : Res St :=
  if ty == "HEREDOC_STRING" then .unsupported "heredoc"
  else
    (advance sql st word.length).bind fun s =>
      (extractString cfg sql s ⟨endD.toList, if ty == "BYTE_STRING" then cfg.byteEscapes else cfg.stringEscapes,
                                ty == "RAW_STRING"⟩).bind fun r => stringAdd cfg sql r.1 ty r.2

/-- `_scan_string(word)`: `none` = not a string start -/
def scanString (cfg : Cfg) (sql : Sql) (st : St) (word : List Char) : Option (Res St) :=
  match lookupS word cfg.quotes with
  | some e => some (stringBody cfg sql st word e "STRING")
  | none =>
    match cfg.formats.find? (fun f => f.1.toList == word) with
    | some f => some (stringBody cfg sql st word f.2.1 f.2.2)
    | none => none

def commentLoop (cfg : Cfg) (sql : Sql) (cstart cend : List Char) : Nat → St → Nat → Res St
  | 0, _, _ => .fuel
  | f+1, st, count =>
    if atEnd sql st then .ok st
    else if chars sql st cend.length == cend && count == 1 then .ok st
    else
      (advanceAlnum sql st).bind fun s =>
        if cfg.nested && !atEnd sql s && chars sql s cend.length == cstart then
          (advance sql s cstart.length).bind fun s2 =>
            commentLoop cfg sql cstart cend f s2 ((if chars sql st cend.length == cend then count - 1 else count) + 1)
        else commentLoop cfg sql cstart cend f s (if chars sql st cend.length == cend then count - 1 else count)

def lineCommentLoop (sql : Sql) : Nat → St → Res St
  | 0, _ => .fuel
  | f+1, st =>
    match peek sql st with
    | none => .ok st
    | some p => if p.c == '\n' || p.c == '\r' then .ok st else (advanceAlnum sql st).bind fun s => lineCommentLoop sql f s

def hintApplies (cfg : Cfg) (st : St) (word : List Char) : Bool :=
  word == cfg.hintStart.toList && (match lastTy st with | some p => cfg.precedingHint.contains p | none => false)

def pushSpan (st : St) : St := { st with spans := st.spans ++ [(st.start, st.current - 1)] }

def finishComment (cfg : Cfg) (sql : Sql) (st : St) (word : List Char) : Res St :=
  if hintApplies cfg (pushSpan st) word then add cfg sql (pushSpan st) "HINT" none else .ok (pushSpan st)

/-- `_scan_comment(word)`: `none` = not a comment start -/
def scanComment (cfg : Cfg) (sql : Sql) (st : St) (word : List Char) : Option (Res St) :=
  if memS word cfg.lineComments then
    some ((lineCommentLoop sql (sql.size + 1) st).bind fun s => finishComment cfg sql s word)
  else match lookupS word cfg.comments with
    | some e =>
      some ((advance sql st word.length).bind fun s =>
        (commentLoop cfg sql word e.toList (sql.size + 2) s 1).bind fun s2 =>
          (if e.toList.length > 1 then advance sql s2 (e.toList.length - 1) else .ok s2).bind fun s3 => finishComment cfg sql s3 word)
    | none => none

def trieHasPrefix (cfg : Cfg) (p : List Char) : Bool := cfg.trie.any fun k => p.isPrefixOf k.toList
def trieHas (cfg : Cfg) (p : List Char) : Bool := memS p cfg.trie

structure KwR where
  word : Option (List Char)
  size : Nat
  prevSpace : Bool
  single : Bool
  charEmpty : Bool     -- `not char` at loop exit

/-- one trie step of `_scan_keywords`: `none` = `trie.get(upper(char))` is None (break); otherwise the new trie path and the
    longest keyword seen so far (`if 0 in trie: word = chars`) -/
def kwStep (cfg : Cfg) (pfx chars : List Char) (char : Char) (skip : Bool) (word : Option (List Char)) :
    Option (List Char × Option (List Char)) :=
  if skip then some (pfx, word)
  else if trieHasPrefix cfg (pfx ++ [asciiUpper char]) then
    some (pfx ++ [asciiUpper char], if trieHas cfg (pfx ++ [asciiUpper char]) then some chars else word)
  else none

/-- the trie walk of `_scan_keywords`.  `pfx` = path walked in the trie (upper-cased), `chars` = folded text so far. -/
def kwLoop (cfg : Cfg) (sql : Sql) (cur : Nat) : Nat → (chars pfx : List Char) → (char : Char) → (skip prevSpace single : Bool) →
    (size : Nat) → (word : Option (List Char)) → KwR
  | 0, _, _, _, _, ps, sg, size, word => ⟨word, size, ps, sg, false⟩
  | f+1, chars, pfx, char, skip, ps, sg, size, word =>
    match kwStep cfg pfx chars char skip word with
    | none => ⟨word, size, ps, sg, false⟩
    | some r =>
      match sql[cur + size]? with
      | none => ⟨r.2, size + 1, ps, sg, true⟩
      | some ch =>
        if !ch.space || !ps then
          kwLoop cfg sql cur f (chars ++ [if ch.space then ' ' else ch.c]) r.1 (if ch.space then ' ' else ch.c) false ch.space
            (sg || isSingle cfg ch.c) (size + 1) r.2
        else kwLoop cfg sql cur f chars r.1 ch.c true ps (sg || isSingle cfg ch.c) (size + 1) r.2

/-- the keyword jump `_advance(size - 1)`; repaired: one character at a time -/
def stepN (sql : Sql) : Nat → St → Res St
  | 0, st => .ok st
  | n+1, st => (advance sql st 1).bind fun s => stepN sql n s

def advanceKw (cfg : Cfg) (sql : Sql) (st : St) (n : Nat) : Res St :=
  if n = 0 then .unsupported "_advance(0)"
  else if cfg.fixKwJump && hasNL sql st.current (n - 1) then stepN sql n st else advance sql st n

/-- `self._add(self.keywords[word.upper()], text=word.upper())` (KeyError = exception) -/
def kwAdd (cfg : Cfg) (sql : Sql) (st : St) (w : List Char) : Res St :=
  match lookupS (w.map asciiUpper) cfg.keywords with
  | some ty => add cfg sql st ty (some (w.map asciiUpper))
  | none => .error st.current

/-- the tail of `_scan_keywords`: single-character token or `_scan_var` -/
def kwFallback (cfg : Cfg) (sql : Sql) (st : St) (c0 : Char) : Res St :=
  match lookupS [c0] cfg.single with
  | some ty => add cfg sql st ty (some [c0])
  | none => scanVar cfg sql st

def kwResult (cfg : Cfg) (sql : Sql) (st : St) (c0 : Char) : KwR :=
  kwLoop cfg sql st.current (sql.size + 2) [c0] [] c0 false false (isSingle cfg c0) 0 none

def scanWord (cfg : Cfg) (sql : Sql) (st : St) (c0 : Char) (r : KwR) (w : List Char) : Res St :=
  match scanString cfg sql st w with
  | some res => res
  | none =>
    match scanComment cfg sql st w with
    | some res => res
    | none =>
      if r.prevSpace || r.single || r.charEmpty then
        if r.size = 1 then kwAdd cfg sql st w
        else (advanceKw cfg sql st (r.size - 1)).bind fun s => kwAdd cfg sql s w
      else kwFallback cfg sql st c0

def scanKeywords (cfg : Cfg) (sql : Sql) (st : St) : Res St :=
  match char sql st with
  | none => .unsupported "no current character"
  | some c0 =>
    match (kwResult cfg sql st c0.c).word with
    | some w => scanWord cfg sql st c0.c (kwResult cfg sql st c0.c) w
    | none => kwFallback cfg sql st c0.c

def skipBlanks (sql : Sql) : Nat → Nat → Nat
  | 0, cur => cur
  | f+1, cur => match sql[cur]? with
    | some ch => if ch.c == ' ' || ch.c == '\t' then skipBlanks sql f (cur+1) else cur
    | none => cur

def blankEnd (sql : Sql) (st : St) : Nat := skipBlanks sql (sql.size - st.current) st.current

/-- `offset = current - self._current if current > self._current else 1` -/
def stepOff (sql : Sql) (st : St) : Nat :=
  if blankEnd sql st > st.current then blankEnd sql st - st.current else 1

def dispatch (cfg : Cfg) (sql : Sql) (s : St) (ch : Ch) : Res St :=
  if ch.space then .ok s
  else if isDigit ch.c then scanNumber cfg sql s
  else match lookupS [ch.c] cfg.identifiers with
    | some e => scanIdentifier cfg sql s e
    | none => scanKeywords cfg sql s

/-- one iteration of the `_scan` loop -/
def scanStep (cfg : Cfg) (sql : Sql) (st : St) : Res St :=
  (advance sql { st with start := blankEnd sql st } (stepOff sql st)).bind fun s =>
    match char sql s with
    | none => .unsupported "no current character"
    | some ch => dispatch cfg sql s ch

def scanLoop (cfg : Cfg) (sql : Sql) : Nat → St → Res St
  | 0, _ => .fuel
  | f+1, st =>
    if sql.size = 0 || st.current ≥ sql.size then .ok st
    else (scanStep cfg sql st).bind fun s => scanLoop cfg sql f s

def lex (cfg : Cfg) (sql : Sql) : Res St := scanLoop cfg sql (sql.size + 1) {}

/-- the window `tokenize` puts on a TokenError -/
def errorWindow (size cur : Nat) : Nat × Nat := (cur - 50, min (cur + 50) (size - 1))

/-! ### decidable hygiene of a configuration (what the no-skew theorem needs from the tables) -/

def noNLs (l : List Char) : Bool := l.all (fun c => c != '\n' && c != '\r')
def noSp (l : List Char) : Bool := l.all (fun c => c != ' ')

/-- all three position repairs are in the code; no string / identifier / comment delimiter contains CR or LF; no start
    delimiter (a keyword-trie key) contains a blank -/
def cleanCfg (cfg : Cfg) : Bool :=
  cfg.fixLoneCR && cfg.fixKwJump && cfg.fixEscJump
  && cfg.quotes.all (fun kv => noSp kv.1.toList && noNLs kv.2.toList)
  && cfg.formats.all (fun f => noSp f.1.toList && noNLs f.2.1.toList)
  && cfg.identifiers.all (fun kv => noNLs kv.2.toList)
  && cfg.comments.all (fun kv => noSp kv.1.toList && noNLs kv.1.toList && noNLs kv.2.toList)

/-! ### ASCII inputs (for examples and witnesses; the driver receives the class bits from CPython instead) -/

def asciiCh (c : Char) : Ch :=
  let alpha := ('a' ≤ c && c ≤ 'z') || ('A' ≤ c && c ≤ 'Z')
  ⟨c, c == ' ' || c == '\t' || c == '\n' || c == '\r', alpha || isDigit c, alpha || c == '_', [asciiUpper c]⟩

def asciiSql (s : String) : Sql := (s.toList.map asciiCh).toArray

/-- (type, line, col, start, stop) of every token, and the reference line/col of its end offset -/
def summary (sql : Sql) (st : St) : List (String × Nat × Nat × Nat × Nat × Nat × Nat) :=
  st.toks.map fun t => (t.ty, t.line, t.col, t.start, t.stop, lineOf sql t.stop, colOf sql t.stop)

/-- run the model on an ASCII string: (skew flag, summary) or none if the run did not return tokens -/
def runSummary (cfg : Cfg) (s : String) : Option (Bool × List (String × Nat × Nat × Nat × Nat × Nat × Nat)) :=
  match lex cfg (asciiSql s) with
  | .ok st => some (st.skew, summary (asciiSql s) st)
  | _ => none

/-! ### errors.highlight_sql -/

def pySlice (s : List Char) (a b : Nat) : List Char := (s.drop a).take (b - a)

def insertPos (p : Nat × Nat) : List (Nat × Nat) → List (Nat × Nat)
  | [] => [p]
  | q :: qs => if p.1 < q.1 then p :: q :: qs else q :: insertPos p qs

/-- `sorted(positions, key=lambda pos: pos[0])` (stable) -/
def sortPos (l : List (Nat × Nat)) : List (Nat × Nat) := l.foldl (fun acc p => insertPos p acc) []

def ansiUL : List Char := "\x1b[4m".toList
def ansiReset : List Char := "\x1b[0m".toList

def hlLoop (s : List Char) : List (Nat × Nat) → Nat → List Char → (List Char × Nat)
  | [], prev, acc => (acc, prev)
  | (a, b) :: rest, prev, acc =>
    let hs := max a prev
    let he := b + 1
    if hs ≥ he then hlLoop s rest prev acc
    else
      let acc := if hs > prev then acc ++ pySlice s prev hs else acc
      hlLoop s rest he (acc ++ ansiUL ++ pySlice s hs he ++ ansiReset)

structure Highlight where
  formatted : List Char
  startCtx : List Char
  highlight : List Char
  endCtx : List Char
deriving Repr, DecidableEq

/-- `highlight_sql(sql, positions, context_length)` for a non-empty position list -/
def highlightSql (s : List Char) (positions : List (Nat × Nat)) (ctx : Nat) : Highlight :=
  let sorted := sortPos positions
  let first := match sorted with | p :: _ => p.1 | [] => 0
  let startCtx := if first > 0 then pySlice s (first - ctx) first else []
  let (parts, prevEnd) := hlLoop s sorted first startCtx
  let endCtx := if prevEnd < s.length then pySlice s prevEnd (prevEnd + ctx) else []
  ⟨parts ++ endCtx, startCtx, pySlice s first prevEnd, endCtx⟩


/-! ### Parser.raise_error and Expression.update_positions -/

/-- the statement text the parser holds (`self.sql`) for a tokenizer input -/
def sqlText (sql : Sql) : List Char := strOf sql.toList


/-- `token or self._curr or self._prev or Token.string("")` — a token is falsy iff it is the SENTINEL (`none` here) -/
def chooseTok (token curr prev : Option Tok) : Tok :=
  match token with
  | some t => t
  | none => match curr with
    | some t => t
    | none => match prev with
      | some t => t
      | none => ⟨"STRING", [], 1, 1, 0, 0⟩

structure ErrInfo where
  line : Nat
  col : Nat
  startCtx : List Char
  highlight : List Char
  endCtx : List Char
  formatted : List Char
deriving Repr, DecidableEq

/-- what `Parser.raise_error(message, token)` records in `ParseError.errors[0]` (plus the formatted SQL of the message) -/
def raiseError (sql : List Char) (token curr prev : Option Tok) (ctx : Nat) : ErrInfo :=
  let t := chooseTok token curr prev
  let h := highlightSql sql [(t.start, t.stop)] ctx
  ⟨t.line, t.col, h.startCtx, h.highlight, h.endCtx, h.formatted⟩

/-- the four POSITION_META_KEYS of `Expression.meta`: outer `none` = key absent, `some none` = key present with value None -/
structure Meta where
  line : Option (Option Nat) := none
  col : Option (Option Nat) := none
  start : Option (Option Nat) := none
  stop : Option (Option Nat) := none
deriving Repr, DecidableEq

inductive PosSrc where
  | token (t : Tok)                              -- update_positions(token)
  | expr (other : Option Meta)                   -- update_positions(other_expr); none = other._meta is empty
  | explicit (line col start stop : Option Nat)  -- update_positions(line=.., col=.., start=.., end=..)

/-- `if k in other_meta: meta[k] = other_meta[k]` -/
def copyKey (o m : Option (Option Nat)) : Option (Option Nat) := match o with | some v => some v | none => m

/-- `Expression.update_positions` on the position keys -/
def updatePositions (m : Meta) : PosSrc → Meta
  | .token t => ⟨some (some t.line), some (some t.col), some (some t.start), some (some t.stop)⟩
  | .expr none => m
  | .expr (some o) => ⟨copyKey o.line m.line, copyKey o.col m.col, copyKey o.start m.start, copyKey o.stop m.stop⟩
  | .explicit l c s e => ⟨some l, some c, some s, some e⟩

/-- `meta.get(k)` / `meta_get(k)` -/
def getKey (k : Option (Option Nat)) : Option Nat := match k with | some v => v | none => none

/-- the parser-side position merge of two adjacent parts into one identifier (BigQuery `INFORMATION_SCHEMA.VIEW`):
    `update_positions(line=.., col=last.col, start=first.start, end=last.end)`.  `lineOfLast` = the line is taken from the
    last part (repaired code); the code at the pinned commit takes it from the first part. -/
def mergeSpan (m first last : Meta) (lineOfLast : Bool) : Meta :=
  updatePositions m (.explicit (getKey (if lineOfLast then last.line else first.line)) (getKey last.col)
    (getKey first.start) (getKey last.stop))

/-- `Parser.expression(instance, token)`: `if token: instance.update_positions(token)` -/
def expressionMeta (m : Meta) (token : Option Tok) : Meta :=
  match token with | some t => updatePositions m (.token t) | none => m

end SqlglotModel.Lex
