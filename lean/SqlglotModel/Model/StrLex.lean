/-
  C04, token level: a minimal model of how `TokenizerCore._scan` decides where a string literal, a quoted identifier and
  a comment start and end, and what it does with the character after the closing delimiter.  Executable, no proofs.
  (Independent of Model/Lex.lean, which belongs to another property.)

  Mirrored (sqlglot/tokenizer_core.py):
  * `_scan`           — the loop head: bulk skip of blanks and tabs, one other whitespace character per iteration, then
                        digits → `_scan_number`, `self._char in identifiers` → `_scan_identifier`, else `_scan_keywords`.
  * `_scan_keywords`  — ONLY the decision "is the longest keyword-trie match a string start / a comment start": the trie walk
                        is modelled as the longest key (upper-cased input, ASCII a–z only as `_CHAR_UPPER` does) among the keys
                        that are quote / format-string / comment starts or extend one (`LexCfg.keys`).  This is exact because
                        a longer match of any other key would have to extend one of those and hence be listed (the
                        translator extracts that list from the live trie and checks that no listed key contains whitespace).
                        Everything else (`_scan_number`, keywords, single tokens, `_scan_var`) is the PARAMETER `other`.
  * `_scan_string`    — quote lookup in `_QUOTES` / `_FORMAT_STRINGS` (prefixes such as N' b' r' e' x', multi-character
                        delimiters such as ''' and $$), `_advance(len(start))`, `_extract_string` with the byte / string escapes
                        and the raw flag; hex / bit / heredoc strings are outside the model (`Step.unsupported`).
  * `_extract_string` — for a one-character delimiter and non-raw: `Str.extract` (Model/Str.lean); otherwise `extractG`:
                        the same loop with a multi-character delimiter, `raw_string` and STRING_ESCAPES_ALLOWED_IN_RAW_STRINGS.
  * `_scan_identifier`, `_scan_comment` (block `/*` via `Str.scanCL`; line comments; `{#` and the hint `/*+` are outside).
  Comments produce no token (their attachment to neighbouring tokens is not modelled): `lexLoop` is "tokenize, then forget
  `Token.comments`".  Also not modelled: the COMMAND re-scan of `_add`, positions.
-/
import SqlglotModel.Model.Str

namespace SqlglotModel.Str

inductive TokKind where
  | str | national | byte | raw | unicode | hex | bit | heredoc | ident | other
deriving DecidableEq, Repr

structure Tok where
  kind : TokKind
  text : List Char
deriving DecidableEq, Repr

/-- what the tokenizer knows about one key of `_QUOTES` / `_FORMAT_STRINGS` -/
structure StrInfo where
  kind       : TokKind
  delim      : List Char     -- closing delimiter
  raw        : Bool          -- token_type == RAW_STRING
  cfg        : Cfg           -- tokenizer tables for `_extract_string` (`q` = delimiter when it is one character; escapes = byte
                             -- or string escapes); generator fields as in the dialect's string pairing
deriving Repr, DecidableEq

structure LexCfg where
  identifiers : List (Char × Cfg)            -- `_IDENTIFIERS` start ↦ pairing whose `q` is the end, escapes = IDENTIFIER_ESCAPES ∪ {end}
  keys        : List (List Char)             -- upper-cased trie keys that are or extend a quote / format-string / comment start
  strStarts   : List (List Char × StrInfo)   -- `_QUOTES` ∪ `_FORMAT_STRINGS`, keys as written (case-sensitive lookup)
  comments    : List (List Char × List Char) -- `_COMMENTS` start ↦ end ([] for line comments)
  nested      : Bool                         -- NESTED_COMMENTS
  rawEsc      : Bool                         -- STRING_ESCAPES_ALLOWED_IN_RAW_STRINGS
  singles     : List Char                    -- keys of SINGLE_TOKENS (used by `otherSimple` only)
  varSingles  : List Char                    -- VAR_SINGLE_TOKENS (used by `otherSimple` only)
deriving Repr, DecidableEq

inductive Step where
  | done
  | err
  | unsupported
  | skip (rest : List Char)
  | tok (t : Tok) (rest : List Char)
deriving DecidableEq, Repr

/-- `_CHAR_UPPER = {chr(i): chr(i).upper() for i in range(97, 123)}` -/
def upperTable : List (Char × Char) :=
  [('a', 'A'), ('b', 'B'), ('c', 'C'), ('d', 'D'), ('e', 'E'), ('f', 'F'), ('g', 'G'), ('h', 'H'), ('i', 'I'), ('j', 'J'),
   ('k', 'K'), ('l', 'L'), ('m', 'M'), ('n', 'N'), ('o', 'O'), ('p', 'P'), ('q', 'Q'), ('r', 'R'), ('s', 'S'), ('t', 'T'),
   ('u', 'U'), ('v', 'V'), ('w', 'W'), ('x', 'X'), ('y', 'Y'), ('z', 'Z')]

def upperVals : List Char := upperTable.map (·.2)

/-- `_CHAR_UPPER.get(char, char)`: ASCII a–z only -/
def upperAscii (c : Char) : Char := (lookup upperTable c).getD c

def isDigitChar (c : Char) : Bool := '0' ≤ c && c ≤ '9'

def isBlank (c : Char) : Bool := c == ' ' || c == '\t'

def dropBlanks : List Char → List Char
  | [] => []
  | c :: r => if isBlank c then dropBlanks r else c :: r

/-- length of the longest listed key that is a prefix of the (upper-cased) input; 0 = none -/
def matchLen (keys : List (List Char)) (inp : List Char) : Nat :=
  match keys with
  | [] => 0
  | k :: ks => if k.isPrefixOf inp then max k.length (matchLen ks inp) else matchLen ks inp

/-! ### `_extract_string` in general: multi-character delimiter, raw strings -/

/-- `escaped_delimiter` -/
def escapedDelimG (c : Cfg) (delim : List Char) (p : Char) : Bool :=
  [p] == delim || (delim.length > 1 && delim.head? == some p && c.isQuote p)

/-- the condition of the escape branch, any delimiter, raw or not -/
def escCondG (c : Cfg) (delim : List Char) (raw rawEsc : Bool) (cur p : Char) : Bool :=
  (rawEsc || !raw) && c.isEsc cur && (escapedDelimG c delim p || c.isEsc p || validCustom c cur p)
    && (!c.isQuote cur || cur == p)

/-- what the escape branch appends -/
def escOutG (c : Cfg) (delim : List Char) (raw : Bool) (cur p : Char) : List Char :=
  if escapedDelimG c delim p then (if raw then [cur, p] else [p])
  else if validCustom c cur p && cur != p then [p] else [cur, p]

/-- `scanG c delim raw rawEsc cur rest acc` — the `while True:` loop; `delim` has at least one character -/
def scanG (c : Cfg) (delim : List Char) (raw rawEsc : Bool) : Char → List Char → List Char → R
  | cur, [], acc =>
    if (rawEsc || !raw) && escCondEnd c cur then .err
    else if [cur] = delim then .ok acc [] else .err
  | cur, p :: rest, acc =>
    match (if raw then none else unescLookup c cur p) with
    | some u =>
      match rest with
      | [] => .err
      | n :: rest' => scanG c delim raw rawEsc n rest' (acc ++ [u])
    | none =>
      if escCondG c delim raw rawEsc cur p then
        match rest with
        | [] => .err
        | n :: rest' => scanG c delim raw rawEsc n rest' (acc ++ escOutG c delim raw cur p)
      else if delim.isPrefixOf (cur :: p :: rest) then .ok acc ((p :: rest).drop (delim.length - 1))
      else scanG c delim raw rawEsc p rest (acc ++ [cur])

def extractG (c : Cfg) (delim : List Char) (raw rawEsc : Bool) (s : List Char) : R :=
  match (if delim.length = 1 then fastPath c s else none) with
  | some (t, r) => .ok t r
  | none =>
    match s with
    | [] => .err
    | x :: xs => scanG c delim raw rawEsc x xs []

/-- line comment: `_advance` until the next character is a line break or the input ends -/
def lineComment : List Char → List Char
  | [] => []
  | x :: r => if x = '\n' ∨ x = '\r' then x :: r else lineComment r

/-! ### one iteration of the `_scan` loop -/

def isUnsupportedKind : TokKind → Bool
  | .hex | .bit | .heredoc => true
  | _ => false

/-- `_scan_string(start)` on what follows the start key -/
def scanString (L : LexCfg) (info : StrInfo) (r : List Char) : Step :=
  if isUnsupportedKind info.kind then .unsupported
  else
    match r with
    | [] => .err                             -- `_advance(len(start))` past the end
    | _ :: _ =>
      match (if info.delim.length = 1 ∧ info.raw = false then extract info.cfg r
             else extractG info.cfg info.delim info.raw L.rawEsc r) with
      | .ok t rest => .tok ⟨info.kind, t⟩ rest
      | .err => .err

/-- `_scan_comment(start)` on what follows the start key -/
def scanComment (L : LexCfg) (start ce r : List Char) : Step :=
  if ce = [] then .skip (lineComment r)
  else if start = ['/', '*'] ∧ ce = ['*', '/'] then
    match scanCL L.nested r with
    | some rest => .skip rest
    | none => .err
  else .unsupported                          -- `{# … #}`, the hint start `/*+`

/-- the body of the `_scan` loop at a position whose first character is not a blank;
    `isSpace` stands for `str.isspace`, `other` for `_scan_number` / keywords / single tokens / `_scan_var` -/
def stepAt (L : LexCfg) (isSpace : Char → Bool) (other : List Char → Step) (s1 : List Char) : Step :=
  match s1 with
  | [] => .done
  | c :: r =>
    if isSpace c then .skip r
    else if isDigitChar c then other s1
    else
      match lookup L.identifiers c with
      | some ic =>
        match r with
        | [] => .err                         -- `_advance()` past the end
        | _ :: _ =>
          match extract ic r with
          | .ok t rest => .tok ⟨.ident, t⟩ rest
          | .err => .err
      | none =>
        let n := matchLen L.keys (s1.map upperAscii)
        if n = 0 then other s1
        else
          let w := s1.take n
          match lookup L.strStarts w with
          | some info => scanString L info (s1.drop n)
          | none =>
            match lookup L.comments w with
            | some ce => scanComment L w ce (s1.drop n)
            | none => other s1

/-- `TokenizerCore.tokenize` with comments forgotten; `none` = TokenError.  Every iteration of the real loop consumes at
    least one character; the model checks that (`rest.length < s1.length`) instead of proving it for `other`. -/
def lexLoop (L : LexCfg) (isSpace : Char → Bool) (other : List Char → Step) (s : List Char) : Option (Option (List Tok)) :=
  match stepAt L isSpace other (dropBlanks s) with
  | .done => some (some [])
  | .err => some none
  | .unsupported => none
  | .skip rest =>
    if rest.length < (dropBlanks s).length then lexLoop L isSpace other rest else some none
  | .tok t rest =>
    if rest.length < (dropBlanks s).length then (lexLoop L isSpace other rest).map (·.map (t :: ·)) else some none
termination_by s.length
decreasing_by
  all_goals
    have h : ∀ l : List Char, (dropBlanks l).length ≤ l.length := by
      intro l
      induction l with
      | nil => simp [dropBlanks]
      | cons c r ih => simp only [dropBlanks]; split <;> simp <;> omega
    have := h s
    omega

/-! ### decidable conditions on the dispatch tables (decided per dialect on the generated tables) -/

def startsQQ (q : Char) : List Char → Bool
  | x :: y :: _ => x == q && y == q
  | _ => false

/-- `_scan` sends an input that begins with `start` to `_scan_string(start)`, which reads it with the pairing `c` and emits
    a token of kind `kind` — provided that, when some longer trie key extends `start` (bigquery's `'''`), the text after
    `start` does not begin with the delimiter twice. -/
def strDispatchOk (L : LexCfg) (start : List Char) (c : Cfg) (kind : TokKind) : Bool :=
  match start with
  | [] => false
  | c0 :: _ =>
    !isBlank c0 && !isDigitChar c0 && (lookup L.identifiers c0).isNone
    && L.keys.contains (start.map upperAscii)
    && lookup L.strStarts start == some { kind := kind, delim := [c.q], raw := false, cfg := c }
    && !isUnsupportedKind kind
    && L.keys.all (fun k => !(start.length < k.length && (start.map upperAscii).isPrefixOf k)
                            || ((k.drop start.length).take 2 == [c.q, c.q] && c.esc0 != c.q))
    && !upperVals.contains c.q && c.q != ' '

/-- `_scan` sends an input that begins with `i0` to `_scan_identifier`, which reads it with the pairing `c` -/
def idDispatchOk (L : LexCfg) (i0 : Char) (c : Cfg) : Bool :=
  !isBlank i0 && !isDigitChar i0 && lookup L.identifiers i0 == some c && c.q != ' '

/-- third characters of the trie keys that extend `/*` (the hint start `/*+`) -/
def commentExts (L : LexCfg) : List Char :=
  L.keys.filterMap fun k => if 2 < k.length && ['/', '*'].isPrefixOf k then k[2]? else none

/-- `_scan` sends `/*` followed by a blank to `_scan_comment("/*")` with end `*/` -/
def comDispatchOk (L : LexCfg) : Bool :=
  (lookup L.identifiers '/').isNone && L.keys.contains ['/', '*']
  && (lookup L.strStarts ['/', '*']).isNone && lookup L.comments ['/', '*'] == some ['*', '/']

/-- what reading a raw string with a one-character delimiter needs of the tables -/
def rawReadOk (c : Cfg) (rawEsc : Bool) : Bool :=
  c.q != '\\' && (!rawEsc || c.isQuote c.q || !c.isEsc c.q)

/-- every raw-string start with a one-character delimiter of these dispatch tables satisfies `rawReadOk` -/
def lexRawOk (L : LexCfg) : Bool :=
  L.strStarts.all fun (_, info) => !(info.raw && info.delim.length == 1) || (info.delim == [info.cfg.q] && rawReadOk info.cfg L.rawEsc)

/-- `Generator.maybe_comment`, the plain (not separated, `pretty=False`) form `f"{sql} {' '.join(comments_list)}"` with
    `comments_list = [f"/*{sanitize_comment(c)}*/" for c in comments if c]` -/
def maybeComment (isSpace : Char → Bool) (sql : List Char) (comments : List (List Char)) : List Char :=
  sql ++ (comments.filter (· ≠ [])).flatMap (fun c => ' ' :: '/' :: '*' :: sanitizeComment isSpace c ++ ['*', '/'])

/-- What the translator extracts per dialect: one entry per tokenizer core that runs (Athena runs two), each paired with
    the generator object that renders.  Bool = "the generator's opening delimiter is a one-character-terminated
    quote / identifier / byte-string start of that tokenizer".  `comments`: (`_COMMENTS["/*"] == "*/"`, NESTED_COMMENTS). -/
structure DialectEntry where
  name      : String
  strCfgs   : List (Bool × Cfg)
  idCfgs    : List (Bool × Cfg)
  byteCfgs  : List (Bool × Cfg)          -- empty when the generator's dialect has no BYTE_START
  comments  : List (Bool × Bool)
  lex       : List LexCfg                -- dispatch tables, one per tokenizer core
  strStart  : List Char                  -- generator: QUOTE_START
  idStart   : List Char                  -- generator: `_identifier_start`
  natStart  : List Char                  -- what `National(v).sql()` puts in front of the escaped value (e.g. N')
  byteStart : List Char                  -- generator: BYTE_START ([] when absent)
deriving Repr, DecidableEq

/-- `a` is a complete piece of SQL text: followed by a blank, it lexes to the tokens `ts` and the scanner is back at the
    loop head in front of that blank (whatever comes after). -/
def Boundary (L : LexCfg) (isSpace : Char → Bool) (other : List Char → Step) (a : List Char) (ts : List Tok) : Prop :=
  ∀ r, lexLoop L isSpace other (a ++ ' ' :: r) = (lexLoop L isSpace other (' ' :: r)).map (·.map (ts ++ ·))

/-- an opaque token of the `other` part of the scanner (keyword, number, operator, variable …): written `w`, read back as `t` -/
def Opaque (L : LexCfg) (isSpace : Char → Bool) (other : List Char → Step) (w : List Char) (t : Tok) : Prop :=
  (∀ c0, w.head? = some c0 → isBlank c0 = false) ∧ w ≠ [] ∧
    ∀ r, stepAt L isSpace other (w ++ ' ' :: r) = .tok t (' ' :: r)

/-- all dispatch conditions of one dialect entry: for every tokenizer core `k`, the generator's string start, national
    prefix (when `National` is written as prefix + quoted value), byte-string start (when the dialect has one), identifier
    start and `/*` reach the intended scanner with the pairing the round-trip theorems are about -/
def dialectDispatchOk (d : DialectEntry) : Bool :=
  !d.lex.isEmpty && d.lex.length == d.strCfgs.length && d.lex.length == d.idCfgs.length
  && (d.byteStart.isEmpty || d.lex.length == d.byteCfgs.length)
  && (d.lex.zip d.strCfgs).all (fun (L, (_, c)) =>
        strDispatchOk L d.strStart c .str && (d.natStart.isEmpty || d.natStart == d.strStart || strDispatchOk L d.natStart c .national)
        && comDispatchOk L)
  && (d.lex.zip d.idCfgs).all (fun (L, (_, c)) =>
        match d.idStart with
        | [i0] => idDispatchOk L i0 c
        | _ => false)
  && (d.lex.zip d.byteCfgs).all (fun (L, (_, c)) => strDispatchOk L d.byteStart c .byte)

/-- snapshot of the base dialect's dispatch tables (for non-vacuity examples; NOT the generated tables) -/
def exIdent : Cfg :=
  { q := '"', escapes := ['"'], quotes := ['\''], follow := [], unesc := [], gq := '"', esc0 := '"', esc1 := '"',
    escSeq := [], supports := false }
def exLexBase : LexCfg :=
  { identifiers := [('"', exIdent)],
    keys := ["'".toList, "--".toList, "/*".toList, "/*+".toList, "N'".toList, "{#".toList],
    strStarts := [("'".toList, { kind := .str, delim := ['\''], raw := false, cfg := exBase }),
                  ("N'".toList, { kind := .national, delim := ['\''], raw := false, cfg := exBase }),
                  ("n'".toList, { kind := .national, delim := ['\''], raw := false, cfg := exBase })],
    comments := [("--".toList, []), ("/*".toList, "*/".toList), ("/*+".toList, "*/".toList), ("{#".toList, "#}".toList)],
    nested := true, rawEsc := true,
    singles := "!\"#%&'()*+,-./:;<=>?@[\\]^`{|}~".toList, varSingles := [] }

/-! ### a concrete `other` for the correspondence fragment: digit runs, plain words, four punctuation characters -/

def safePunct : List Char := [',', '(', ')', '=']

def isWordChar (c : Char) : Bool :=
  ('a' ≤ c && c ≤ 'z') || ('A' ≤ c && c ≤ 'Z') || isDigitChar c || c == '_'

def takeWhileC (p : Char → Bool) : List Char → List Char × List Char
  | [] => ([], [])
  | c :: r => if p c then let (a, b) := takeWhileC p r; (c :: a, b) else ([], c :: r)

/-- may follow an opaque token in the fragment: end, whitespace, safe punctuation, a single-token character that is a
    quote / identifier start -/
def okAfter (L : LexCfg) (isSpace : Char → Bool) (r : List Char) : Bool :=
  match r with
  | [] => true
  | c :: _ => isSpace c || isBlank c || safePunct.contains c
              || (L.singles.contains c && !L.varSingles.contains c && (c == '\'' || c == '"' || c == '`' || c == '['))

def otherSimple (L : LexCfg) (isSpace : Char → Bool) (s : List Char) : Step :=
  match s with
  | [] => .done
  | c :: r =>
    if isDigitChar c then
      let (d, rest) := takeWhileC isDigitChar s
      if okAfter L isSpace rest then .tok ⟨.other, d⟩ rest else .unsupported
    else if safePunct.contains c then
      match r with
      | [] => .tok ⟨.other, [c]⟩ r
      | n :: _ => if isSpace n || isBlank n || isWordChar n || n == '\'' || n == '"' || n == '`'
                  then .tok ⟨.other, [c]⟩ r else .unsupported
    else if isWordChar c then
      let (w, rest) := takeWhileC isWordChar s
      if okAfter L isSpace rest then .tok ⟨.other, w⟩ rest else .unsupported
    else .unsupported

end SqlglotModel.Str
