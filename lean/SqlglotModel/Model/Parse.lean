/-
  C01 — precedence-climbing parser over token lists, mirroring sqlglot/parser.py level by level:

    parseF n |>.1   _parse_disjunction  (outer = DISJUNCTION, CONJUNCTION loops)
    parseF n |>.2   _parse_equality     (mid   = EQUALITY, COMPARISON loops)       ← re-entry point of unary NOT
    rangeP          _parse_range        (NOT-retreat, IN / BETWEEN / LIKE / IS, `_negate_range`, the Paren it adds)
    parseLv … lower _parse_bitwise … _parse_exponent  (BITWISE, TERM, FACTOR, EXPONENT loops)
    unaryP          _parse_unary        (UNARY_PARSERS: + is a no-op, - ~ recurse into unary, NOT parses at *equality*)
    atomP           _parse_type/_parse_atom/_parse_primary/_parse_paren/_parse_column/_parse_function (fragment)

  Every `while self._match_set(LEVEL)` loop is `loopLv`; the level tables come from Generated/C01.lean.
  Re-entry (parenthesis, function argument, IN item, NOT operand) consumes one unit of fuel; `parse` starts with
  fuel = number of tokens, which is enough (theorem `parse_gen_partial` is stated for `parse`, not for a fuel).
  Inputs that leave the fragment give `.unsupported` (never a made-up tree).
-/
import SqlglotModel.Model.Expr

namespace SqlglotModel.Parse
open SqlglotModel.Expr

abbrev Res := Except Err (Expr × Toks)
abbrev ResL := Except Err (List Expr × Toks)

/-- `while self._match_set(self.LEVEL): this = LEVEL[tok](this=this, expression=sub())` -/
def loopLv (sub : Toks → Res) (lv : Level) : Nat → Expr → Toks → Res
  | _, l, [] => .ok (l, [])
  | k, l, t :: ts =>
    match lookup lv t.ty with
    | none => .ok (l, t :: ts)
    | some cls =>
      match k with
      | 0 => .error .fuel
      | k + 1 =>
        match sub ts with
        | .ok (r, ts') => loopLv sub lv k (.bin cls l r) ts'
        | .error e => .error e

/-- the ladder over a list of levels, loosest first; `sub` parses the operands of the tightest one -/
def parseLv (sub : Toks → Res) : List Level → Toks → Res
  | [], ts => sub ts
  | lv :: post, ts =>
    match parseLv sub post ts with
    | .ok (l, ts') => loopLv (parseLv sub post) lv ts'.length l ts'
    | .error e => .error e

def isIdentTok (t : Tok) : Bool := t.ty = "VAR" || t.ty = "IDENTIFIER"

def identOf (t : Tok) : String × Bool := (t.text, t.ty = "IDENTIFIER")

/-- `. ident` continuation of a column reference -/
def colRest : Toks → Except Err (List (String × Bool) × Toks)
  | d :: t :: ts =>
    if d.ty = "DOT" then
      if isIdentTok t then
        match colRest ts with
        | .ok (ps, r) => .ok (identOf t :: ps, r)
        | .error e => .error e
      else .error .unsupported
    else .ok ([], d :: t :: ts)
  | [d] => if d.ty = "DOT" then .error .unsupported else .ok ([], [d])
  | [] => .ok ([], [])

/-- `_parse_csv(parse_item)` followed by `)`; at least one item -/
def itemsP (top : Toks → Res) : Nat → Toks → ResL
  | 0, _ => .error .fuel
  | k + 1, ts =>
    match top ts with
    | .error e => .error e
    | .ok (_, []) => .error .syntax
    | .ok (e, t :: rest) =>
      if t.ty = "COMMA" then
        match itemsP top k rest with
        | .ok (es, r) => .ok (e :: es, r)
        | .error e => .error e
      else if t.ty = "R_PAREN" then .ok ([e], rest)
      else .error .unsupported

def headIs (ts : Toks) (ty : String) : Bool :=
  match ts with
  | t :: _ => t.ty = ty
  | [] => false

def closeParen (e : Expr) : Toks → Res
  | [] => .error .syntax
  | t :: rest =>
    if t.ty = "R_PAREN" then .ok (.paren e, rest)
    else if t.ty = "COMMA" then .error .unsupported      -- Tuple
    else .error .unsupported                             -- alias / anything else: outside the fragment

def mkCol (t : Tok) (ts : Toks) : Res :=
  match colRest ts with
  | .error e => .error e
  | .ok (ps, r) =>
    if ps.length > 3 then .error .unsupported                      -- exp.Dot chains
    else if headIs r "L_PAREN" then .error .unsupported            -- a.f(x)
    else .ok (.col (identOf t :: ps), r)

/-- literals, parenthesis, anonymous function call, dotted column -/
def atomP (top : Toks → Res) : Toks → Res
  | [] => .error .syntax
  | t :: ts =>
    if t.ty = "NUMBER" then .ok (.num t.text, ts)
    else if t.ty = "STRING" then
      if headIs ts "STRING" then .error .unsupported else .ok (.str t.text, ts)   -- adjacent strings: Concat
    else if t.ty = "NULL" then .ok (.null, ts)
    else if t.ty = "TRUE" then .ok (.bool true, ts)
    else if t.ty = "FALSE" then .ok (.bool false, ts)
    else if t.ty = "L_PAREN" then
      match top ts with
      | .ok (e, r) => closeParen e r
      | .error e => .error e
    else if t.ty = "VAR" then
      match ts with
      | p :: r =>
        if p.ty = "L_PAREN" then
          if headIs r "R_PAREN" then .ok (.func t.text [], r.drop 1)
          else
            match itemsP top r.length r with
            | .ok (es, r') => .ok (.func t.text es, r')
            | .error e => .error e
        else mkCol t ts
      | [] => mkCol t ts
    else if t.ty = "IDENTIFIER" then mkCol t ts
    else if t.ty = "R_PAREN" || t.ty = "COMMA" then .error .syntax
    else .error .unsupported

def mapRes (f : Expr → Expr) : Res → Res
  | .ok (e, r) => .ok (f e, r)
  | .error e => .error e

/-- `_parse_unary` with the four modelled `UNARY_PARSERS` entries -/
def unaryP (atom eq : Toks → Res) : Toks → Res
  | [] => atom []
  | t :: ts =>
    if t.ty = "DASH" then mapRes .neg (unaryP atom eq ts)
    else if t.ty = "PLUS" then unaryP atom eq ts
    else if t.ty = "TILDE" then mapRes .bnot (unaryP atom eq ts)
    else if t.ty = "NOT" then mapRes .not (eq ts)
    else atom (t :: ts)

/-- `_negate_range` -/
def negateRange : Expr → Expr
  | .like _ e p => .like true e p
  | e => .not e

/-- after a negated predicate: `if self._curr and (curr is NOT or curr in RANGE_PARSERS): Paren` -/
def wrapIfRangeFollows (rangeToks : List String) (e : Expr) (rest : Toks) : Expr :=
  match rest with
  | t :: _ => if t.ty = "NOT" || rangeToks.contains t.ty then .paren e else e
  | [] => e

def finishNeg (rangeToks : List String) (negate : Bool) (e : Expr) (rest : Toks) : Expr × Toks :=
  if negate then (wrapIfRangeFollows rangeToks (negateRange e) rest, rest) else (e, rest)

inductive Step where
  | done                            -- no range predicate here: leave the loop (retreating over a consumed NOT)
  | next (e : Expr) (rest : Toks)   -- one predicate parsed
  | fail (e : Err)

def textUpperIs (ts : Toks) (names : List String) : Bool :=
  match ts with
  | t :: _ => names.contains t.text.toUpper
  | [] => false

/-- `_parse_is` restricted to `IS [NOT] NULL` -/
def isP (normalizeNotNull : Bool) (this : Expr) (r : Toks) : Step :=
  match r with
  | a :: r1 =>
    if a.ty = "NULL" then .next (.isNull false this) r1
    else if a.ty = "NOT" then
      match r1 with
      | b :: r2 =>
        if b.ty = "NULL" then
          (if normalizeNotNull then .next (.not (.isNull false this)) r2 else .next (.isNull true this) r2)
        else .fail .unsupported
      | [] => .fail .unsupported
    else .fail .unsupported
  | [] => .fail .unsupported

def inP (top : Toks → Res) (this : Expr) (r : Toks) : Step :=
  match r with
  | p :: r1 =>
    if p.ty = "L_PAREN" then
      match itemsP top r1.length r1 with
      | .ok (es, r2) => .next (.inList this es) r2
      | .error e => .fail e
    else .fail .unsupported
  | [] => .fail .unsupported

def betweenP (bit : Toks → Res) (this : Expr) (r : Toks) : Step :=
  if textUpperIs r ["SYMMETRIC", "ASYMMETRIC"] then .fail .unsupported else
  match bit r with
  | .error e => .fail e
  | .ok (lo, r1) =>
    match bit (if headIs r1 "AND" then r1.drop 1 else r1) with
    | .error e => .fail e
    | .ok (hi, r2) => .next (.between this lo hi) r2

def likeP (bit : Toks → Res) (this : Expr) (r : Toks) : Step :=
  match bit r with
  | .error e => .fail e
  | .ok (p, r1) => if headIs r1 "ESCAPE" then .fail .unsupported else .next (.like false this p) r1

/-- one iteration of the `while True` of `_parse_range`, after `negate = self._match(NOT)` -/
def rangeStep (tbl : Tables) (top bit : Toks → Res) (negate : Bool) (this : Expr) : Toks → Step
  | [] => .done
  | t :: r =>
    if t.ty = "IN" then inP top this r
    else if t.ty = "BETWEEN" then betweenP bit this r
    else if t.ty = "LIKE" then likeP bit this r
    else if t.ty = "IS" then isP tbl.normalizeNotNull this r
    else if tbl.rangeToks.contains t.ty then .fail .unsupported
    else if t.ty = "ISNULL" || t.ty = "NOTNULL" then .fail .unsupported
    else if negate && t.ty = "NULL" then .next (.isNull false this) r
    else .done

def rangeLoop (tbl : Tables) (top bit : Toks → Res) : Nat → Expr → Toks → Res
  | 0, _, _ => .error .fuel
  | k + 1, this, ts =>
    match rangeStep tbl top bit (headIs ts "NOT") this (if headIs ts "NOT" then ts.drop 1 else ts) with
    | .done => .ok (this, ts)
    | .fail e => .error e
    | .next e rest =>
      rangeLoop tbl top bit k (finishNeg tbl.rangeToks (headIs ts "NOT") e rest).1 rest

/-- `_parse_range` -/
def rangeP (tbl : Tables) (top bit : Toks → Res) (ts : Toks) : Res :=
  match bit ts with
  | .error e => .error e
  | .ok (this, r) => rangeLoop tbl top bit (r.length + 1) this r

/-- the parsers below the re-entry points, given the re-entry parsers -/
def bitP (tbl : Tables) (top eq : Toks → Res) : Toks → Res :=
  parseLv (unaryP (atomP top) eq) tbl.lower

def eqP (tbl : Tables) (top eq : Toks → Res) : Toks → Res :=
  parseLv (rangeP tbl top (bitP tbl top eq)) tbl.mid

def topP (tbl : Tables) (top eq : Toks → Res) : Toks → Res :=
  parseLv (eqP tbl top eq) tbl.outer

/-- (`_parse_disjunction`, `_parse_equality`) with `n` levels of re-entry available -/
def parseF (tbl : Tables) : Nat → (Toks → Res) × (Toks → Res)
  | 0 => (fun _ => .error .fuel, fun _ => .error .fuel)
  | n + 1 =>
    (topP tbl (parseF tbl n).1 (parseF tbl n).2,
     eqP tbl (parseF tbl n).1 (parseF tbl n).2)

/-- parse one expression from the front of `ts` -/
def parse (tbl : Tables) (ts : Toks) : Res :=
  (parseF tbl (ts.length + 1)).1 ts

end SqlglotModel.Parse
