/-
  C01 — `sqlglot.time.format_time(string, mapping, trie)`: the longest-match loop over a trie, statement by statement.
  The trie is viewed as its key list; a trie node is identified with the character string walked from the root
  (`in_trie(current, ch)` = `trieStep keys cur ch`).  The window `string[start:end]` is kept as
  (`rest` = string[start:], `len` = end - start).  Quirks of the loop are kept (after a backtrack the window may be
  longer than one character while the trie walk restarts from the root with only its last character).
-/
namespace SqlglotModel.TimeFmt

inductive TrieResult where
  | failed | pfx | found
deriving DecidableEq, Repr

def isPrefixOf (p k : List Char) : Bool := k.take p.length == p

/-- `in_trie(node_reached_by cur, ch)` -/
def trieStep (keys : List (List Char)) (cur : List Char) (ch : Char) : TrieResult :=
  if keys.contains (cur ++ [ch]) then .found
  else if keys.any (fun k => isPrefixOf (cur ++ [ch]) k) then .pfx
  else .failed

/-- the `while end <= size` loop; `none` = internal error (fuel exhausted or `chars[-1]` on an empty window) -/
def ftLoop (keys : List (List Char)) : Nat → List Char → Nat → List Char → Option (List Char) → List (List Char)
    → Option (List (List Char))
  | 0, _, _, _, _, _ => none
  | f + 1, rest, len, cur, sym, chunks =>
    if len > rest.length then some chunks
    else
      match (rest.take len).getLast? with
      | none => none
      | some ch =>
        match trieStep keys cur ch with
        | .failed =>
          match sym with
          | some sy => ftLoop keys f (rest.drop sy.length) (len - sy.length) [] none (chunks ++ [sy])
          | none => ftLoop keys f (rest.drop 1) 1 [] none (chunks ++ [rest.take 1])
        | .found =>
          if len + 1 > rest.length then some (chunks ++ [rest.take len])
          else ftLoop keys f rest (len + 1) (cur ++ [ch]) (some (rest.take len)) chunks
        | .pfx =>
          if len + 1 > rest.length then some (chunks ++ [rest.take len])
          else ftLoop keys f rest (len + 1) (cur ++ [ch]) sym chunks

def lookupC (m : List (List Char × List Char)) (k : List Char) : Option (List Char) :=
  match m with
  | [] => none
  | (a, b) :: r => if a = k then some b else lookupC r k

def mapChunks (m : List (List Char × List Char)) : List (List Char) → List Char
  | [] => []
  | c :: cs => (lookupC m c).getD c ++ mapChunks m cs

/-- `format_time(string, mapping)` on character lists; outer `none` = Python `None` (empty input),
    `some none` = internal error -/
def formatTimeL (s : List Char) (m : List (List Char × List Char)) : Option (Option (List Char)) :=
  if s.isEmpty then none
  else some ((ftLoop (m.map (·.1)) (3 * s.length + 3) s 1 [] none []).map (mapChunks m))

def formatTime (s : String) (m : List (String × String)) : Option (Option String) :=
  (formatTimeL s.toList (m.map fun p => (p.1.toList, p.2.toList))).map (·.map String.ofList)

end SqlglotModel.TimeFmt
