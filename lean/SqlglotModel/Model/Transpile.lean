/-
  C02 — the *decision logic* of SQLite <-> DuckDB transpilation (executable model, no proofs).

  Modelled (mirrors of the Python, tied by exhaustive correspondence against `sqlglot.transpile`):
    * `parseOrdered`  = Parser._parse_ordered      (how `nulls_first` is derived from NULL_ORDERING / desc / explicit NULLS)
    * `genOrdered`    = Generator.ordered_sql      (NULLS FIRST|LAST insertion, CASE-WHEN-IS-NULL simulation when
                                                     NULL_ORDERING_SUPPORTED is None; top-level ORDER BY context only:
                                                     no window / aggregate ancestor, key is not an integer literal / RAND)
    * `parseDiv`      = Parser (parser.py: `this.set("typed", TYPED_DIVISION)`, `this.set("safe", SAFE_DIVISION)`)
    * `genDiv`        = Generator.div_sql          (incl. the fact that the BIGINT-cast branch rebuilds `l / r` from the
                                                     *unreplaced* right operand, so the NULLIF wrapper is lost there)
    * `parseLimit/genLimit` = LIMIT n [OFFSET o] / LIMIT o, n  -> LIMIT n OFFSET o
  Engine behaviour (ASSUMPTION tables, validated against sqlite3 3.40 / duckdb 1.5 by the harness, not proved):
    * `defaultNullsFirst` : where an engine whose dialect says small/large/last puts NULLs without a NULLS clause
    * `evalDiv`           : `/`, CAST AS DOUBLE/REAL, CAST AS BIGINT, NULLIF(x, 0) over Int ∪ {NULL} on both engines
  Not modelled: function renames, strftime letters, `||` precedence (both dialects keep `||`), everything else in
  generators/{sqlite,duckdb}.py — covered by the search oracle only.
-/
import SqlglotModel.Sem.Bag

namespace SqlglotModel.Transpile
open SqlglotModel.Bag

-- ------------------------------------------------------------------------------------------ ORDER BY
inductive NullOrdering where
  | small | large | last
  deriving DecidableEq, Repr, Inhabited

def NullOrdering.ofString? : String → Option NullOrdering
  | "nulls_are_small" => some .small
  | "nulls_are_large" => some .large
  | "nulls_are_last" => some .last
  | _ => none

/-- what the source text says: `x [ASC|DESC] [NULLS FIRST|LAST]` -/
structure OrdSpec where
  desc : Option Bool    -- none: no keyword, some false: ASC, some true: DESC
  nulls : Option Bool   -- none: no clause, some true: NULLS FIRST, some false: NULLS LAST
  deriving DecidableEq, Repr

/-- the args of `exp.Ordered` -/
structure Ordered where
  desc : Option Bool
  nullsFirst : Bool
  deriving DecidableEq, Repr

/-- Python truthiness of `desc` (None and False are falsy) -/
def isDesc (d : Option Bool) : Bool := d == some true

def parseOrdered (no : NullOrdering) (s : OrdSpec) : Ordered :=
  let desc := isDesc s.desc
  let isNullsFirst := s.nulls == some true
  let explicit := s.nulls.isSome
  let implied :=
    !explicit && ((!desc && no == .small) || (desc && no != .small)) && no != .last
  ⟨s.desc, if implied then true else isNullsFirst⟩

inductive NullsChange where
  | none | first | last
  deriving DecidableEq, Repr

/-- `nulls_sort_change` of ordered_sql before the "unsupported" handling -/
def nullsSortChange (no : NullOrdering) (o : Ordered) : NullsChange :=
  let desc := isDesc o.desc
  let asc := !desc
  let nullsFirst := o.nullsFirst
  let nullsLast := !nullsFirst
  if nullsFirst && ((asc && no == .large) || (desc && no == .small) || no == .last) then .first
  else if nullsLast && ((asc && no == .small) || (desc && no == .large)) && no != .last then .last
  else .none

/-- an emitted ORDER BY item is either the key expression or `CASE WHEN key IS NULL THEN 1 ELSE 0 END` -/
inductive Target where
  | expr | isNullFlag
  deriving DecidableEq, Repr

structure OutKey where
  target : Target
  desc : Option Bool
  nulls : Option Bool
  deriving DecidableEq, Repr

def changeToNulls : NullsChange → Option Bool
  | .none => none
  | .first => some true
  | .last => some false

/-- `sup` is Generator.NULL_ORDERING_SUPPORTED (True / False / None).  Top-level ORDER BY of a SELECT:
    * True  -> the clause is printed
    * False -> the clause is printed as well (the `unsupported` warning concerns aggregate/window ancestors only)
    * None  -> simulation with a second sort key -/
def genOrdered (no : NullOrdering) (sup : Option Bool) (o : Ordered) : List OutKey :=
  let ch := nullsSortChange no o
  if ch != .none && sup == none then
    [⟨.isNullFlag, if ch == .first then some true else none, none⟩, ⟨.expr, o.desc, none⟩]
  else
    [⟨.expr, o.desc, changeToNulls ch⟩]

/-- what kind of expression the sort key is.  `Generator.ordered_sql` must NOT consult it (outside the simulation
    branch's integer-literal / RAND() special cases, which are not in the fragment): a comparison, LIKE, IN, BETWEEN,
    arithmetic or CASE key over nullable operands can be NULL exactly like a column -/
inductive KeyKind where
  | column | comparison | like | inList | between | arithmetic | caseExpr | function | isNullTest | notPred
  deriving DecidableEq, Repr

def allKeyKinds : List KeyKind :=
  [.column, .comparison, .like, .inList, .between, .arithmetic, .caseExpr, .function, .isNullTest, .notPred]

/-- the generator's decision with the key kind as an explicit (ignored) argument — the correspondence harness
    enumerates this argument against the real generator -/
def genOrderedFor (_kind : KeyKind) (no : NullOrdering) (sup : Option Bool) (o : Ordered) : List OutKey :=
  genOrdered no sup o

/-- a 3-valued predicate used as a sort key -/
def b3Val : B3 → Val
  | none => .null
  | some b => .bool b

/-- ASSUMPTION A-engine (validated): NULL placement without a NULLS clause for an engine of the given class -/
def defaultNullsFirst (no : NullOrdering) (desc : Bool) : Bool :=
  match no with
  | .small => !desc
  | .large => desc
  | .last => false

def nullFlag (v : Val) : Val := if v.isNull then .int 1 else .int 0

/-- meaning of one emitted item on an engine of class `no`, for key expression `f` -/
def keySem (no : NullOrdering) (f : Row → Val) (k : OutKey) : SortKey :=
  let d := isDesc k.desc
  { f := match k.target with
         | .expr => f
         | .isNullFlag => fun r => nullFlag (f r)
    desc := d
    nullsFirst := k.nulls.getD (defaultNullsFirst no d) }

/-- meaning of the source text on an engine of class `no` -/
def specSem (no : NullOrdering) (f : Row → Val) (s : OrdSpec) : SortKey :=
  let d := isDesc s.desc
  { f := f, desc := d, nullsFirst := s.nulls.getD (defaultNullsFirst no d) }

/-- the *finite decision core*: the effective (desc, nullsFirst) of an emitted item list -/
def effective (no : NullOrdering) : List OutKey → Option (Bool × Bool)
  | [⟨.expr, d, n⟩] => some (isDesc d, n.getD (defaultNullsFirst no (isDesc d)))
  | [⟨.isNullFlag, fd, _⟩, ⟨.expr, d, _⟩] => some (isDesc d, isDesc fd)
  | _ => none

def specEffective (no : NullOrdering) (s : OrdSpec) : Bool × Bool :=
  (isDesc s.desc, s.nulls.getD (defaultNullsFirst no (isDesc s.desc)))

/-- all nine source spellings -/
def allSpecs : List OrdSpec :=
  [none, some false, some true].flatMap fun d => [none, some true, some false].map fun n => ⟨d, n⟩

def allNullOrderings : List NullOrdering := [.small, .large, .last]
def allSup : List (Option Bool) := [some true, some false, none]

/-- ORDER BY list of the source query: (spec, key expression) -/
abbrev OrderBy := List (OrdSpec × (Row → Val))

def srcKeys (src : NullOrdering) (ob : OrderBy) : List SortKey :=
  ob.map fun sf => specSem src sf.2 sf.1

def dstKeys (src dst : NullOrdering) (sup : Option Bool) (ob : OrderBy) : List SortKey :=
  ob.flatMap fun sf => (genOrdered dst sup (parseOrdered src sf.1)).map (keySem dst sf.2)

-- ------------------------------------------------------------------------------------------ division
inductive Engine where
  | sqlite | duckdb
  deriving DecidableEq, Repr, Inhabited

/-- what `Expression.is_type` can see on an operand inside `transpile()` (no annotate_types run): a CAST in the text -/
inductive Ann where
  | none | int | real
  deriving DecidableEq, Repr, Inhabited

/-- the args the parser stores on `exp.Div` -/
structure DivNode where
  typed : Bool
  safe : Bool
  deriving DecidableEq, Repr

def parseDiv (typedDivision safeDivision : Bool) : DivNode := ⟨typedDivision, safeDivision⟩

/-- shape of the generated division -/
inductive DEx where
  | l | r
  | castDouble (e : DEx)
  | castBigint (e : DEx)
  | nullif0 (e : DEx)
  | div (a b : DEx)
  deriving DecidableEq, Repr, Inhabited

def genDiv (dstTyped dstSafe : Bool) (n : DivNode) (la ra : Ann) : DEx :=
  let r' := if !dstSafe && n.safe then DEx.nullif0 .r else .r
  if dstTyped && !n.typed then
    if la != .real && ra != .real then .div (.castDouble .l) r' else .div .l r'
  else if !dstTyped && n.typed then
    -- `exp.cast(l / r, BIGINT)` is built from the Python variable `r`, which still points at the operand
    -- that `r.replace(NULLIF(...))` has just detached: the NULLIF is not part of the result
    if la == .int && ra == .int then .castBigint (.div .l .r) else .div .l r'
  else .div .l r'

/-- division results: exact rationals stand in for IEEE doubles (no rounding in the fragment: operands are
    small integers, results compared by cross-multiplication) -/
inductive DV where
  | null
  | int (i : Int)
  | real (n d : Int)       -- n / d with d ≠ 0
  | inf (neg : Bool)
  | nan
  | err
  deriving DecidableEq, Repr, Inhabited

def operandVal (a : Ann) : Option Int → DV
  | none => .null
  | some i => if a == .real then .real i 1 else .int i

/-- numerator / denominator view of a finite number -/
def DV.num? : DV → Option (Int × Int)
  | .int i => some (i, 1)
  | .real n d => some (n, d)
  | _ => none

def DV.isZero (v : DV) : Bool :=
  match v.num? with
  | some (n, _) => n == 0
  | none => false

/-- round half to even (DuckDB's DOUBLE -> BIGINT cast uses rint: 0.5 -> 0, 1.5 -> 2, 2.5 -> 2, 3.5 -> 4) -/
def roundHalfEven (n d : Int) : Int :=
  let q := n.natAbs / d.natAbs
  let r2 := 2 * (n.natAbs % d.natAbs)
  let q' := if r2 < d.natAbs then q else if r2 > d.natAbs then q + 1 else if q % 2 == 0 then q else q + 1
  if (n < 0) != (d < 0) then -(q' : Int) else (q' : Int)

def castBigintNum (e : Engine) (n d : Int) : DV :=
  if n % d == 0 then .int (n.tdiv d)
  else match e with
    | .sqlite => .int (n.tdiv d)          -- SQLite truncates
    | .duckdb => .int (roundHalfEven n d) -- DuckDB rounds

def castDoubleV : DV → DV
  | .int i => .real i 1
  | v => v

def castBigintV (e : Engine) : DV → DV
  | .null => .null
  | .int i => .int i
  | .real n d => castBigintNum e n d
  | .inf _ => .err      -- DuckDB: Conversion Error (SQLite has no inf in the fragment)
  | .nan => .err
  | .err => .err

def nullif0V (v : DV) : DV := if v.isZero then .null else v

/-- ASSUMPTION A-engine (validated on every run): `/` per engine.
    SQLite: integer operands -> truncating integer division, otherwise real division; zero divisor -> NULL.
    DuckDB 1.5: `/` is always float division; zero divisor -> ±inf / nan (IEEE mode). -/
def divV (e : Engine) (a b : DV) : DV :=
  match a, b with
  | .err, _ => .err
  | _, .err => .err
  | .null, _ => .null
  | _, .null => .null
  | .int x, .int y =>
    match e with
    | .sqlite => if y == 0 then .null else .int (x.tdiv y)
    | .duckdb => if y == 0 then (if x == 0 then .nan else .inf (x < 0)) else .real x y
  | .inf s, b =>
    -- arises only inside chains (an inner zero divisor on DuckDB): inf / finite keeps being infinite
    match b.num? with
    | some (bn, bd) => if bn == 0 then .inf s else .inf (s != ((bn < 0) != (bd < 0)))
    | none => .err
  | a, b =>
    match a.num?, b.num? with
    | some (an, ad), some (bn, bd) =>
      if bn == 0 then
        match e with
        | .sqlite => .null
        | .duckdb => if an == 0 then .nan else .inf ((an < 0) != (ad < 0))
      else .real (an * bd) (ad * bn)
    | _, _ =>
      -- inf / nan operands never arise from the shapes `genDiv` produces over integer columns
      .err

def evalDiv (e : Engine) (x : DEx) (lv rv : DV) : DV :=
  match x with
  | .l => lv
  | .r => rv
  | .castDouble a => castDoubleV (evalDiv e a lv rv)
  | .castBigint a => castBigintV e (evalDiv e a lv rv)
  | .nullif0 a => nullif0V (evalDiv e a lv rv)
  | .div a b => divV e (evalDiv e a lv rv) (evalDiv e b lv rv)

/-- "the two engines returned the same value" (an INTEGER 2 and a DOUBLE 2.0 compare equal, as in the oracle) -/
def DV.same (a b : DV) : Bool :=
  match a.num?, b.num? with
  | some (an, ad), some (bn, bd) => an * bd == bn * ad
  | none, none => a == b
  | _, _ => false

/-- the operand classes on which today's `div_sql` preserves the value (everything else has a witness in
    Properties/C02.lean and a known-finding entry) -/
def DivOK (src dst : Engine) (la ra : Ann) (l r : Option Int) : Bool :=
  src == dst || l.isNone || r.isNone ||
  match src, l, r with
  | .duckdb, _, some rv => rv != 0
  | .sqlite, some lv, some rv =>
    la == .real || ra == .real ||
    (rv != 0 && lv % rv == 0) ||
    (rv == 0 && !(la == .int && ra == .int))
  | _, _, _ => true

-- ------------------------------------------------------------------------------------------ LIMIT / OFFSET
/-- the spellings both parsers accept -/
inductive LimitForm where
  | none
  | limit (n : Nat)
  | limitOffset (n o : Nat)
  | comma (o n : Nat)          -- `LIMIT o, n`
  | offsetOnly (o : Nat)
  deriving DecidableEq, Repr

/-- exp.Select args `limit`, `offset` -/
structure LimitArgs where
  limit : Option Nat
  offset : Option Nat
  deriving DecidableEq, Repr

def parseLimit : LimitForm → LimitArgs
  | .none => ⟨none, none⟩
  | .limit n => ⟨some n, none⟩
  | .limitOffset n o => ⟨some n, some o⟩
  | .comma o n => ⟨some n, some o⟩
  | .offsetOnly o => ⟨none, some o⟩

/-- the generator prints `LIMIT n` then `OFFSET o` -/
def genLimit (a : LimitArgs) : LimitForm :=
  match a.limit, a.offset with
  | none, none => .none
  | some n, none => .limit n
  | some n, some o => .limitOffset n o
  | none, some o => .offsetOnly o

def limitSem : LimitForm → Table → Table
  | .none => id
  | .limit n => limitOffset (some n) 0
  | .limitOffset n o => limitOffset (some n) o
  | .comma o n => limitOffset (some n) o
  | .offsetOnly o => limitOffset none o

-- ------------------------------------------------------------------------------------------ `||` tier glue
/-- SQLiteParser._parse_factor_operand: SQLite's `||` tier binds tighter than every arithmetic / bitwise operator,
    elsewhere it binds looser, so a `||` chain that is an operand of such an operator (token before it or after it
    in ARITHMETIC_TOKENS) is captured as an explicit Paren.  `arith` = SQLiteParser.ARITHMETIC_TOKENS (token names). -/
def dpipeNeedsParen (arith : List String) (prevTok nextTok : Option String) (parsedOp : Bool) : Bool :=
  parsedOp && ((match prevTok with | some t => arith.contains t | none => false) ||
               (match nextTok with | some t => arith.contains t | none => false))

/-- shape of `a OP b || c` (dpipeRight = true) or `a || b OP c` (false) as the SQLite parser builds it -/
def dpipeGlueShape (arith : List String) (tok : String) (dpipeRight : Bool) : String :=
  if dpipeRight then
    (if dpipeNeedsParen arith (some tok) none true then "op(a,paren(dpipe(b,c)))" else "op(a,dpipe(b,c))")
  else
    (if dpipeNeedsParen arith none (some tok) true then "op(paren(dpipe(a,b)),c)" else "op(dpipe(a,b),c)")

-- ------------------------------------------------------------------------------------------ rewrites (transforms.py)
/-- `eliminate_semi_and_anti_joins`: `l SEMI JOIN r ON c`  ->  `l WHERE EXISTS (SELECT 1 FROM r WHERE c)` -/
def semiAsExists (on : Row → Row → B3) (l r : Table) : Table :=
  select (fun a => exists3 (select (fun b => on a b) r)) l

/-- `l ANTI JOIN r ON c`  ->  `l WHERE NOT EXISTS (SELECT 1 FROM r WHERE c)` -/
def antiAsNotExists (on : Row → Row → B3) (l r : Table) : Table :=
  select (fun a => not3 (exists3 (select (fun b => on a b) r))) l

/-- QUALIFY: keep the rows whose condition over (row ++ [window value]) is TRUE, then project.
    The window function is abstract: any function of the whole input and the row. -/
def qualifySem (w : Table → Row → Val) (cond : Row → B3) (proj : Row → Row) (t : Table) : Table :=
  project proj (t.filter fun r => isTrue (cond (r ++ [w t r])))

/-- `eliminate_qualify`: inner SELECT adds the window column, outer WHERE filters on it, outer SELECT projects
    the original columns (`proj` sees only the first `width` columns) -/
def qualifyRewritten (w : Table → Row → Val) (cond : Row → B3) (proj : Row → Row) (width : Nat) (t : Table) : Table :=
  project (fun r => proj (r.take width)) (select cond (project (fun r => r ++ [w t r]) t))

-- ------------------------------------------------------------------------------------------ division inside flattened chains
/-- an arithmetic tree of divisions as the parser builds it: operands (numbered), explicit Paren nodes, Div nodes.
    `a / b / c` is `div (div a b) c`; `(a / b) / c` is `div (paren (div a b)) c` -/
inductive DT where
  | opnd (i : Nat)
  | paren (t : DT)
  | div (l r : DT)
  deriving DecidableEq, Repr, Inhabited

/-- generated text, abstracted -/
inductive CEx where
  | opnd (i : Nat)
  | paren (e : CEx)
  | castDouble (e : CEx)
  | castBigint (e : CEx)
  | nullif0 (e : CEx)
  | div (a b : CEx)
  deriving DecidableEq, Repr, Inhabited

/-- what `is_type` sees: only an operand (a CAST in the text) carries a type; Div and Paren nodes are untyped -/
def DT.ann (anns : Nat → Ann) : DT → Ann
  | .opnd i => anns i
  | _ => .none

def DT.isDiv : DT → Bool
  | .div _ _ => true
  | _ => false

mutual
  /-- `Generator.sql(node)`: every Div reached THROUGH `sql()` runs `div_sql` (cast / NULLIF decisions), then
      `Generator.binary` -/
  def genT (dstTyped dstSafe : Bool) (n : DivNode) (anns : Nat → Ann) : DT → CEx
    | .opnd i => .opnd i
    | .paren t => .paren (genT dstTyped dstSafe n anns t)
    | .div l r =>
      -- `r.replace(NULLIF(r.copy(), 0))`: the new node is not a Div, its content goes back through sql()
      let rOut : CEx :=
        if !dstSafe && n.safe then .nullif0 (genT dstTyped dstSafe n anns r) else flat dstTyped dstSafe n anns r
      if dstTyped && !n.typed then
        if l.ann anns != .real && r.ann anns != .real then
          -- `l.replace(cast(l.copy(), DOUBLE))`: likewise, the wrapped operand goes through sql() (and div_sql)
          .div (.castDouble (genT dstTyped dstSafe n anns l)) rOut
        else .div (flat dstTyped dstSafe n anns l) rOut
      else if !dstTyped && n.typed then
        if l.ann anns == .int && r.ann anns == .int then
          .castBigint (.div (genT dstTyped dstSafe n anns l) (genT dstTyped dstSafe n anns r))
        else .div (flat dstTyped dstSafe n anns l) rOut
      else .div (flat dstTyped dstSafe n anns l) rOut
  /-- a child inside `Generator.binary`'s loop: a node of the SAME type is flattened — printed operand by operand
      WITHOUT going back through `div_sql` — anything else is generated normally -/
  def flat (dstTyped dstSafe : Bool) (n : DivNode) (anns : Nat → Ann) : DT → CEx
    | .div l r => .div (flat dstTyped dstSafe n anns l) (flat dstTyped dstSafe n anns r)
    | .opnd i => .opnd i
    | .paren t => .paren (genT dstTyped dstSafe n anns t)
end

/-- the source text itself (every Div is a plain `/`) -/
def plainT : DT → CEx
  | .opnd i => .opnd i
  | .paren t => .paren (plainT t)
  | .div l r => .div (plainT l) (plainT r)

/-- the left spine `o₀ / o₁ / … / o_k` without parentheses -/
def chainT : Nat → DT
  | 0 => .opnd 0
  | k + 1 => .div (chainT k) (.opnd (k + 1))

def evalC (e : Engine) (vals : Nat → DV) : CEx → DV
  | .opnd i => vals i
  | .paren a => evalC e vals a
  | .castDouble a => castDoubleV (evalC e vals a)
  | .castBigint a => castBigintV e (evalC e vals a)
  | .nullif0 a => nullif0V (evalC e vals a)
  | .div a b => divV e (evalC e vals a) (evalC e vals b)

def showCEx : CEx → String
  | .opnd i => "o" ++ toString i
  | .paren e => "(paren " ++ showCEx e ++ ")"
  | .castDouble e => "(double " ++ showCEx e ++ ")"
  | .castBigint e => "(bigint " ++ showCEx e ++ ")"
  | .nullif0 e => "(nullif0 " ++ showCEx e ++ ")"
  | .div a b => "(div " ++ showCEx a ++ " " ++ showCEx b ++ ")"

-- ------------------------------------------------------------------------------------------ transforms.preprocess
/-- the features of one SELECT that the SQLite generator's preprocess chain must remove -/
structure PFlags where
  distinctOn : Bool
  qualify : Bool
  semiAnti : Bool
  deriving DecidableEq, Repr, Inhabited

def PFlags.clean (f : PFlags) : Bool := !f.distinctOn && !f.qualify && !f.semiAnti

/-- one run of the chain [eliminate_distinct_on, eliminate_qualify, eliminate_semi_and_anti_joins] over the node being
    generated: the two wrapping transforms return a NEW outer SELECT and leave the (modified) input as its subquery,
    the third rewrites in place.  Result: the node to print now, and the inner SELECT still to be generated. -/
def runChain (f : PFlags) : PFlags × Option PFlags :=
  let (c1, p1) : PFlags × Option PFlags :=
    if f.distinctOn then (⟨false, false, false⟩, some { f with distinctOn := false }) else (f, none)
  let (c2, p2) : PFlags × Option PFlags :=
    if c1.qualify then (⟨false, false, false⟩, some { c1 with qualify := false }) else (c1, p1)
  ({ c2 with semiAnti := false }, p2)

/-- `preprocess._to_sql` as on HEAD: the chain runs on EVERY SELECT that reaches generation, the wrapped inner ones
    included (they are dispatched again when the wrapper's subquery is printed).  Output: the SELECTs as printed,
    outermost first. -/
def genSelects : Nat → PFlags → List PFlags
  | 0, f => [f]
  | fuel + 1, f =>
    match runChain f with
    | (cur, none) => [cur]
    | (cur, some inner) => cur :: genSelects fuel inner

/-- UNREPAIRED VARIANT (seeded regression C02-8): a "preprocessed" flag is put on the chain's INPUT node; that very
    node becomes the inner subquery of a wrapping transform, so when it is dispatched again the chain is skipped -/
def genSelectsFlagged (f : PFlags) : List PFlags :=
  match runChain f with
  | (cur, none) => [cur]
  | (cur, some inner) => [cur, inner]

-- ------------------------------------------------------------------------------------------ set-operation chains
inductive SetKind where
  | union | except | intersect
  deriving DecidableEq, Repr, Inhabited

/-- a tree of set operations as the parser builds it; a parenthesised operand is a Subquery, i.e. a leaf here -/
inductive SetTree where
  | leaf (i : Nat)
  | op (k : SetKind) (distinct : Bool) (l r : SetTree)
  deriving DecidableEq, Repr, Inhabited

inductive SetTok where
  | branch (i : Nat)
  | kw (k : SetKind) (distinct : Bool)
  deriving DecidableEq, Repr, Inhabited

inductive SetItem where
  | tree (t : SetTree)
  | kw (k : SetKind) (distinct : Bool)
  deriving Repr, Inhabited

/-- what the text must be: operands and operators in order -/
def SetTree.inorder : SetTree → List SetTok
  | .leaf i => [.branch i]
  | .op k d l r => l.inorder ++ [.kw k d] ++ r.inorder

/-- `Generator.set_operations`: the explicit-stack loop that flattens a chain; the keyword is computed PER NODE
    (`self.set_operation(node)`) when the node is popped -/
def setOpsLoop : Nat → List SetItem → List SetTok → List SetTok
  | 0, _, out => out
  | _ + 1, [], out => out
  | f + 1, .kw k d :: st, out => setOpsLoop f st (out ++ [.kw k d])
  | f + 1, .tree (.leaf i) :: st, out => setOpsLoop f st (out ++ [.branch i])
  | f + 1, .tree (.op k d l r) :: st, out => setOpsLoop f (.tree l :: .kw k d :: .tree r :: st) out

def SetTree.weight : SetTree → Nat
  | .leaf _ => 1
  | .op _ _ l r => l.weight + r.weight + 2

def SetItem.weight : SetItem → Nat
  | .tree t => t.weight
  | .kw _ _ => 1

def SetItem.flat : SetItem → List SetTok
  | .tree t => t.inorder
  | .kw k d => [.kw k d]

def printSetOps (t : SetTree) : List SetTok := setOpsLoop t.weight [.tree t] []

/-- UNREPAIRED VARIANT (seeded regression C02-6): the keyword is cached per operation CLASS — the first node of a
    class that is popped (the LAST operator of the text) decides the keyword of all of them -/
def lookupKind (cache : List (SetKind × Bool)) (k : SetKind) : Option Bool :=
  (cache.find? (fun p => p.1 == k)).map (·.2)

def setOpsLoopCached : Nat → List (SetKind × Bool) → List SetItem → List SetTok → List SetTok
  | 0, _, _, out => out
  | _ + 1, _, [], out => out
  | f + 1, c, .kw k d :: st, out => setOpsLoopCached f c st (out ++ [.kw k d])
  | f + 1, c, .tree (.leaf i) :: st, out => setOpsLoopCached f c st (out ++ [.branch i])
  | f + 1, c, .tree (.op k d l r) :: st, out =>
    match lookupKind c k with
    | some d' => setOpsLoopCached f c (.tree l :: .kw k d' :: .tree r :: st) out
    | none => setOpsLoopCached f ((k, d) :: c) (.tree l :: .kw k d :: .tree r :: st) out

-- ------------------------------------------------------------------------------------------ alias generation
/-- `f"{base}_{i}"` -/
def candidateName (base : String) (i : Nat) : String := base ++ "_" ++ toString i

/-- the `while new in taken` loop of helper.find_new_name, with fuel (the Python loop is unbounded; `taken.length + 1`
    candidates always contain a free one — pigeonhole, not proved here: exhaustion is an explicit `none`) -/
def findNewNameFrom (taken : List String) (base : String) : Nat → Nat → Option String
  | 0, _ => none
  | fuel + 1, i =>
    if taken.contains (candidateName base i) then findNewNameFrom taken base fuel (i + 1)
    else some (candidateName base i)

/-- helper.find_new_name(taken, base) -/
def findNewName (taken : List String) (base : String) : Option String :=
  if taken.contains base then findNewNameFrom taken base (taken.length + 1) 2 else some base

/-- the hoisting loop of transforms.eliminate_qualify: every window of the QUALIFY condition becomes a projection
    `alias = find_new_name(expression.named_selects, "_w")`; `named_selects` is re-read after each append, i.e. the
    alias just generated is taken for the next window -/
def hoistAliases (base : String) : List String → Nat → Option (List String)
  | _, 0 => some []
  | taken, k + 1 =>
    match findNewName taken base with
    | none => none
    | some a => (hoistAliases base (taken ++ [a]) k).map (fun rest => a :: rest)

-- ------------------------------------------------------------------------------------------ DISTINCT ON / QUALIFY with ORDER BY and LIMIT
/-- DISTINCT ON (key): the first row of every key in the order given -/
def firstPerKeyAux (key : Row → Val) (seen : List Val) : Table → Table
  | [] => []
  | r :: rs => if seen.contains (key r) then firstPerKeyAux key seen rs
               else r :: firstPerKeyAux key (key r :: seen) rs

def firstPerKey (key : Row → Val) (t : Table) : Table := firstPerKeyAux key [] t

/-- ROW_NUMBER() OVER (PARTITION BY key ORDER BY <the order of the list>) = 1 -/
def rowNumberOneAux (key : Row → Val) (pre : Table) : Table → Table
  | [] => []
  | r :: rs => if (pre.filter (fun p => key p == key r)).length + 1 == 1 then r :: rowNumberOneAux key (r :: pre) rs
               else rowNumberOneAux key (r :: pre) rs

def rowNumberOne (key : Row → Val) (t : Table) : Table := rowNumberOneAux key [] t

/-- SELECT DISTINCT over a one-column projection: first occurrences of the values -/
def dedupValsAux (seen : List Val) : List Val → List Val
  | [] => []
  | v :: vs => if seen.contains v then dedupValsAux seen vs else v :: dedupValsAux (v :: seen) vs

def dedupVals (vs : List Val) : List Val := dedupValsAux [] vs

/-- SELECT DISTINCT ON (key) … ORDER BY ord LIMIT lim — `ord` is the ORDER BY as a function on tables -/
def distinctOnOriginal (key : Row → Val) (ord : Table → Table) (lim : Option Nat) (t : Table) : Table :=
  limitOffset lim 0 (firstPerKey key (ord t))

/-- `eliminate_distinct_on`: the ORDER BY moves into the window, the LIMIT stays in the (now unordered) subquery,
    the outer query filters `_row_number = 1` and has no ORDER BY (its result is defined as a bag only) -/
def distinctOnEliminated (key : Row → Val) (ord : Table → Table) (lim : Option Nat) (t : Table) : Table :=
  rowNumberOne key (ord (limitOffset lim 0 t))

/-- SELECT proj … QUALIFY cond(window) ORDER BY ord LIMIT lim, on rows extended by the window column -/
def qualifyOriginal (w : Table → Row → Val) (cond : Row → B3) (proj : Row → Row) (width : Nat)
    (ord : Table → Table) (lim : Option Nat) (t : Table) : Table :=
  project (fun r => proj (r.take width))
    (limitOffset lim 0 (ord (select cond (project (fun r => r ++ [w t r]) t))))

/-- `eliminate_qualify`: ORDER BY and LIMIT stay INSIDE the subquery, the filter on the window column runs outside -/
def qualifyEliminated (w : Table → Row → Val) (cond : Row → B3) (proj : Row → Row) (width : Nat)
    (ord : Table → Table) (lim : Option Nat) (t : Table) : Table :=
  project (fun r => proj (r.take width))
    (select cond (limitOffset lim 0 (ord (project (fun r => r ++ [w t r]) t))))

end SqlglotModel.Transpile
