/-
  C18 — model of `MappingSchema` (sqlglot/schema.py) with its caches, and of the trie lookup
  (sqlglot/trie.py `in_trie`, schema.py `_find_in_trie`, `flatten_schema`, `nested_get`, `nested_set`).

  Flat view of the nested mapping: a list of (path, columns), path outermost-first (catalog, db, table).
  The trie is viewed as the list of its keys (reversed paths: table first).  Only the *set* of keys and the
  mapping's content are observable through the public API (the order of `possibilities` only shows in the
  text of the "Ambiguous mapping" message, which the harness canonicalises to an error kind).
-/
import SqlglotModel.Model.Ident

namespace SqlglotModel.Schema
open SqlglotModel.Ident

abbrev Name := String
abbrev Cols := List (Name × String)       -- column name ↦ type text, insertion ordered (a Python dict)
abbrev Path := List Name

/-- which `_find_cache` entries `add_table` evicts: the two keys of the added table (the code as it was
    before the repair) or every entry (`self._find_cache.clear()`). Extracted from the source. -/
inductive Evict where
  | exactKeys | all
deriving DecidableEq, Repr

abbrev CKey := List Ident × Bool         -- (normalized table parts outermost first, ensure_data_types)

structure St where
  mapping : List (Path × Cols)
  trie    : List (List Name)
  cache   : List (CKey × Cols)
deriving Repr, DecidableEq

inductive Err where
  | ambiguous        -- SchemaError "Ambiguous mapping"
  | depthMismatch    -- SchemaError "must match the schema's nesting level"
  | internal         -- anything else (ValueError from nested_get …): must never be produced
deriving DecidableEq, Repr

inductive FindR where
  | found (c : Cols)
  | notFound
  | err (e : Err)
deriving DecidableEq, Repr

def lookup {α β} [DecidableEq α] (l : List (α × β)) (a : α) : Option β :=
  match l with
  | [] => none
  | (k, v) :: rest => if k = a then some v else lookup rest a

/-- `dict[k] = v` on an insertion-ordered dict -/
def dictSet {α β} [DecidableEq α] (l : List (α × β)) (a : α) (b : β) : List (α × β) :=
  match l with
  | [] => [(a, b)]
  | (k, v) :: rest => if k = a then (k, b) :: rest else (k, v) :: dictSet rest a b

def ofPairs {α β} [DecidableEq α] (l : List (α × β)) : List (α × β) :=
  l.foldl (fun acc kv => dictSet acc kv.1 kv.2) []

/-- `MappingSchema.depth()` : length of the first path; 0 when empty -/
def depth (S : St) : Nat :=
  match S.mapping with
  | [] => 0
  | (p, _) :: _ => p.length

inductive TrieR where
  | failed
  | exists_
  | prefix_ (possibilities : List (List Name))
deriving DecidableEq, Repr

/-- `in_trie` followed by `flatten_schema(subtrie)` -/
def inTrie (trie : List (List Name)) (key : List Name) : TrieR :=
  if key = [] then .failed else
  let ms := trie.filter (fun k => key.isPrefixOf k)
  if ms = [] then .failed
  else if trie.contains key then .exists_
  else .prefix_ ((ms.map (fun k => k.drop key.length)).eraseDups)

inductive Resolved where
  | none
  | parts (p : List Name)
  | ambiguous
deriving DecidableEq, Repr

/-- `_find_in_trie` -/
def findInTrie (trie : List (List Name)) (parts : List Name) (raise : Bool) : Resolved :=
  match inTrie trie parts with
  | .failed => .none
  | .exists_ => .parts parts
  | .prefix_ ps =>
    match ps with
    | [p] => .parts (parts ++ p)
    | _ => if raise then .ambiguous else .none

/-- `AbstractMappingSchema.find` (no cache): truncate the reversed table parts to the schema depth,
    resolve in the trie, then `nested_get` -/
def findU (mapping : List (Path × Cols)) (trie : List (List Name)) (table : List Ident) (raise : Bool) : FindR :=
  let d := match mapping with
    | [] => 0
    | (p, _) :: _ => p.length
  let parts := ((table.map (·.name)).reverse).take d
  match findInTrie trie parts raise with
  | .none => .notFound
  | .ambiguous => .err .ambiguous
  | .parts ps =>
    match lookup mapping ps.reverse with
    | some cols => .found cols
    | none => if raise then .err .internal else .notFound

def findUncached (S : St) (table : List Ident) (raise : Bool) : FindR :=
  findU S.mapping S.trie table raise

/-- `MappingSchema.find`: consult `_find_cache` (a cached `None` counts as a miss) -/
def find (S : St) (table : List Ident) (raise ensure : Bool) : St × FindR :=
  match lookup S.cache (table, ensure) with
  | some cols => (S, .found cols)
  | none =>
    match findUncached S table raise with
    | .found cols => ({ S with cache := ((table, ensure), cols) :: S.cache }, .found cols)
    | r => (S, r)

def normTable (st : Strategy) (norm : Bool) (t : List Ident) : List Ident :=
  if norm then t.map (normalize asciiFns st) else t

def normCol (st : Strategy) (norm : Bool) (c : Ident) : Name :=
  if norm then (normalize asciiFns st c).name else c.name

def evict (ev : Evict) (cache : List (CKey × Cols)) (t : List Ident) : List (CKey × Cols) :=
  match ev with
  | .all => []
  | .exactKeys => cache.filter (fun kv => kv.1 ≠ (t, true) ∧ kv.1 ≠ (t, false))

inductive Out where
  | unit
  | names (l : List Name)
  | ty (t : String)
  | bool (b : Bool)
  | findR (r : FindR)
  | err (e : Err)
deriving DecidableEq, Repr

inductive Op where
  | addTable (st : Strategy) (norm : Bool) (table : List Ident) (cols : List (Ident × String))
  | columnNames (st : Strategy) (norm : Bool) (table : List Ident)
  | columnType (st : Strategy) (norm : Bool) (table : List Ident) (col : Ident)
  | hasColumn (st : Strategy) (norm : Bool) (table : List Ident) (col : Ident)
  | find (table : List Ident) (raise ensure : Bool)
deriving Repr

def Op.isAdd : Op → Bool
  | .addTable .. => true
  | _ => false

/-- `column_names` on an already normalized table -/
def columnNames (S : St) (nt : List Ident) : St × Out :=
  match find S nt true false with
  | (S', .found cols) => (S', .names (cols.map (·.1)))
  | (S', .notFound) => (S', .names [])
  | (S', .err e) => (S', .err e)

/-- `if schema and not normalized_column_mapping: return` -/
def earlyReturn (r : FindR) (ncols : Cols) : Bool :=
  match r with
  | .found c => !c.isEmpty && ncols.isEmpty
  | _ => false

def step (ev : Evict) (S : St) : Op → St × Out
  | .addTable st norm table cols =>
    let nt := normTable st norm table
    if S.mapping ≠ [] ∧ nt.length ≠ depth S then (S, .err .depthMismatch) else
    let ncols : Cols := ofPairs (cols.map (fun c => (normCol st norm c.1, c.2)))
    let (S1, r) := find S nt false false
    if earlyReturn r ncols then (S1, .unit) else
    let path := nt.map (·.name)
    let key := path.reverse
    ({ mapping := dictSet S1.mapping path ncols,
       trie := if S1.trie.contains key then S1.trie else S1.trie ++ [key],
       cache := evict ev S1.cache nt }, .unit)
  | .columnNames st norm table => columnNames S (normTable st norm table)
  | .columnType st norm table col =>
    let nt := normTable st norm table
    let nc := normCol st norm col
    match find S nt false false with
    | (S', .found cols) =>
      (S', .ty (match lookup cols nc with
                | some ty => ty
                | none => "UNKNOWN"))
    | (S', .notFound) => (S', .ty "UNKNOWN")
    | (S', .err e) => (S', .err e)
  | .hasColumn st norm table col =>
    -- MappingSchema.has_column: normalizes the column, `find(raise_on_missing=False)`, membership
    let nc := normCol st norm col
    match find S (normTable st norm table) false false with
    | (S', .found cols) => (S', .bool ((cols.map (·.1)).contains nc))
    | (S', .notFound) => (S', .bool false)
    | (S', .err e) => (S', .err e)
  | .find table raise ensure =>
    let (S', r) := find S table raise ensure
    (S', .findR r)

def run (ev : Evict) (S : St) (ops : List Op) : St :=
  ops.foldl (fun s op => (step ev s op).1) S

/-- the schema `MappingSchema(final_mapping)` builds: same mapping, trie rebuilt from it, caches empty -/
def fresh (S : St) : St :=
  { mapping := S.mapping, trie := S.mapping.map (fun p => p.1.reverse), cache := [] }

def empty : St := { mapping := [], trie := [], cache := [] }

end SqlglotModel.Schema
