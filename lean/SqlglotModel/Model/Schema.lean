/-
  C18 — the FLAT SPECIFICATION of `MappingSchema` (sqlglot/schema.py): what `add_table`, `find`, `column_names`
  (incl. `only_visible`), `get_column_type`, `has_column` answer, with the `_find_cache` in front of `find`.

  Flat view of the nested mapping: a list of (path, columns), path outermost-first (catalog, db, table).
  The trie is viewed as the list of its keys (reversed paths: table first).  Only the *set* of keys and the
  mapping's content as a finite map are observable through the public API (the order of `possibilities` only shows
  in the text of the "Ambiguous mapping" message, which the harness canonicalises to an error kind) —
  `Proofs/SchemaFull.lean: stepN_congr` proves exactly that.

  Normalisation is a function of ALL its real inputs (strategy, quoted, is_table, BigQuery's table-sensitivity),
  the case maps and `DataType.from_str` are parameters (`Env`).  The nested dict, the nested trie and the other
  four caches live in Model/SchemaTree.lean, Model/SchemaMemo.lean, Model/SchemaFull.lean; the full model is proved
  to refine this specification (Properties/C18.lean: `full_schema_refines_fresh`).
-/
import SqlglotModel.Model.Ident

namespace SqlglotModel.Schema
open SqlglotModel.Ident

abbrev Name := String
abbrev Cols := List (Name × String)       -- column name ↦ type text, insertion ordered (a Python dict)
abbrev Path := List Name

/-- which `_find_cache` entries `add_table` evicts: the two keys of the added table (the code as it was
    before the repair) or every entry (`self._find_cache.clear()`). Extracted from the source. -/
inductive Evict where
  | exactKeys | all
deriving DecidableEq, Repr

abbrev CKey := List Ident × Bool         -- (normalized table parts outermost first, ensure_data_types)

structure St where
  mapping : List (Path × Cols)
  trie    : List (List Name)
  cache   : List (CKey × Cols)
deriving Repr, DecidableEq

inductive Err where
  | ambiguous        -- SchemaError "Ambiguous mapping"
  | depthMismatch    -- SchemaError "must match the schema's nesting level"
  | internal         -- anything else (ValueError from nested_get inside find …): must never be produced
  | unknownTable     -- ValueError "Unknown table/db/catalog" from `nested_get(parts, self.visible)`
  | noColumns        -- SchemaError "must have at least one column" (constructor)
deriving DecidableEq, Repr

inductive FindR where
  | found (c : Cols)
  | notFound
  | err (e : Err)
deriving DecidableEq, Repr

def lookup {α β} [DecidableEq α] (l : List (α × β)) (a : α) : Option β :=
  match l with
  | [] => none
  | (k, v) :: rest => if k = a then some v else lookup rest a

/-- `dict[k] = v` on an insertion-ordered dict -/
def dictSet {α β} [DecidableEq α] (l : List (α × β)) (a : α) (b : β) : List (α × β) :=
  match l with
  | [] => [(a, b)]
  | (k, v) :: rest => if k = a then (k, b) :: rest else (k, v) :: dictSet rest a b

def ofPairs {α β} [DecidableEq α] (l : List (α × β)) : List (α × β) :=
  l.foldl (fun acc kv => dictSet acc kv.1 kv.2) []

/-- `MappingSchema.depth()` : length of the first path; 0 when empty -/
def depth (S : St) : Nat :=
  match S.mapping with
  | [] => 0
  | (p, _) :: _ => p.length

inductive TrieR where
  | failed
  | exists_
  | prefix_ (possibilities : List (List Name))
deriving DecidableEq, Repr

/-- `in_trie` followed by `flatten_schema(subtrie)` -/
def inTrie (trie : List (List Name)) (key : List Name) : TrieR :=
  if key = [] then .failed else
  let ms := trie.filter (fun k => key.isPrefixOf k)
  if ms = [] then .failed
  else if trie.contains key then .exists_
  else .prefix_ ((ms.map (fun k => k.drop key.length)).eraseDups)

inductive Resolved where
  | none
  | parts (p : List Name)
  | ambiguous
deriving DecidableEq, Repr

/-- `_find_in_trie` -/
def findInTrie (trie : List (List Name)) (parts : List Name) (raise : Bool) : Resolved :=
  match inTrie trie parts with
  | .failed => .none
  | .exists_ => .parts parts
  | .prefix_ ps =>
    match ps with
    | [p] => .parts (parts ++ p)
    | _ => if raise then .ambiguous else .none

/-- `AbstractMappingSchema.find` (no cache): truncate the reversed table parts to the schema depth,
    resolve in the trie, then `nested_get` -/
def findU (mapping : List (Path × Cols)) (trie : List (List Name)) (table : List Ident) (raise : Bool) : FindR :=
  let d := match mapping with
    | [] => 0
    | (p, _) :: _ => p.length
  let parts := ((table.map (·.name)).reverse).take d
  match findInTrie trie parts raise with
  | .none => .notFound
  | .ambiguous => .err .ambiguous
  | .parts ps =>
    match lookup mapping ps.reverse with
    | some cols => .found cols
    | none => if raise then .err .internal else .notFound

def findUncached (S : St) (table : List Ident) (raise : Bool) : FindR :=
  findU S.mapping S.trie table raise

/-- what of a dialect the schema code can observe when it normalises a name: the strategy, and whether the
    dialect overrides `normalize_identifier` so that table parts (`meta["is_table"]`) stay case-sensitive
    under CASE_INSENSITIVE (BigQuery; that override ignores `quoted` and lower-cases every other name). -/
structure Dia where
  st : Strategy
  tableSensitive : Bool
deriving DecidableEq, Repr, Inhabited

/-- a dialect as the schema sees it: an identity (the `dialect` string / object; it goes into cache keys and
    selects the type parser) plus what normalisation can observe of it -/
structure DialectRef where
  name : String
  dia : Dia
deriving DecidableEq, Repr, Inhabited

/-- what the schema code is parametric in: the case maps, the (uninterpreted) `DataType.from_str(text, dialect)`
    as `ty dialectName text`, and the schema's own dialect (`MappingSchema(dialect=…)`) -/
structure Env where
  f : CaseFns
  ty : String → String → String
  self : DialectRef
  /-- `not self.visible` -/
  visEmpty : Bool
  /-- `nested_get(path, self.visible)`: `some cols` (the visible column names, or the keys of the sub-dict a
      too-short path ends in), `none` = a key is missing (ValueError).  `visible` is never updated by `add_table`. -/
  vis : List Name → Option (List Name)

/-- `{col: self._to_data_type(dtype) …}` (uncached): used by `find(ensure_data_types=True)` -/
def convCols (E : Env) (ensure : Bool) (cols : Cols) : Cols :=
  if ensure then cols.map (fun c => (c.1, E.ty E.self.name c.2)) else cols

/-- `normalize_name(identifier, dialect, is_table, normalize=True)` as a function of ALL its inputs -/
def normIdent (f : CaseFns) (d : Dia) (isTable : Bool) (i : Ident) : Ident :=
  if d.tableSensitive && d.st == .caseInsensitive then
    (if isTable then i else { i with name := f.lower i.name })
  else normalize f d.st i

/-- `_normalize_table`: every part with `is_table=True` -/
def normTable (f : CaseFns) (d : Dia) (norm : Bool) (t : List Ident) : List Ident :=
  if norm then t.map (normIdent f d true) else t

/-- `_normalize_name(col)` (`is_table=False`) -/
def normCol (f : CaseFns) (d : Dia) (norm : Bool) (c : Ident) : Name :=
  if norm then (normIdent f d false c).name else c.name

/-- `MappingSchema.find`: consult `_find_cache` (a cached `None` counts as a miss) -/
def find (E : Env) (S : St) (table : List Ident) (raise ensure : Bool) : St × FindR :=
  match lookup S.cache (table, ensure) with
  | some cols => (S, .found cols)
  | none =>
    match findUncached S table raise with
    | .found cols =>
      ({ S with cache := ((table, ensure), convCols E ensure cols) :: S.cache }, .found (convCols E ensure cols))
    | r => (S, r)

/-- the OTHER cache policy ("store misses"): a computed `None` is remembered and served to later calls whatever
    their `raise_on_missing` (the source stores `None` too, but `if schema is None:` treats it as a miss) -/
def findStoreMisses (E : Env) (S : St) (misses : List CKey) (table : List Ident) (raise ensure : Bool) :
    (St × List CKey) × FindR :=
  if misses.contains (table, ensure) then ((S, misses), .notFound) else
  match find E S table raise ensure with
  | (S', .notFound) => ((S', (table, ensure) :: misses), .notFound)
  | (S', r) => ((S', misses), r)

def evict (ev : Evict) (cache : List (CKey × Cols)) (t : List Ident) : List (CKey × Cols) :=
  match ev with
  | .all => []
  | .exactKeys => cache.filter (fun kv => kv.1 ≠ (t, true) ∧ kv.1 ≠ (t, false))

inductive Out where
  | unit
  | names (l : List Name)
  | ty (t : String)
  | bool (b : Bool)
  | findR (r : FindR)
  | err (e : Err)
deriving DecidableEq, Repr

inductive Op where
  | addTable (st : DialectRef) (norm : Bool) (table : List Ident) (cols : List (Ident × String))
  | columnNames (st : DialectRef) (norm : Bool) (table : List Ident) (onlyVisible : Bool)
  | columnType (st : DialectRef) (norm : Bool) (table : List Ident) (col : Ident)
  | hasColumn (st : DialectRef) (norm : Bool) (table : List Ident) (col : Ident)
  | find (table : List Ident) (raise ensure : Bool)
deriving Repr

def Op.isAdd : Op → Bool
  | .addTable .. => true
  | _ => false

/-- an API call after the normalisation of its arguments (`_normalize_table`, `_normalize_name`) -/
inductive NOp where
  | addTable (nt : List Ident) (ncols : Cols)
  | columnNames (nt : List Ident) (onlyVisible : Bool)
  | columnType (nt : List Ident) (nc : Name) (d : DialectRef)
  | hasColumn (nt : List Ident) (nc : Name)
  | find (table : List Ident) (raise ensure : Bool)
deriving Repr

/-- the normalisation phase of every public method (no caches: this is the specification) -/
def normOp (E : Env) : Op → NOp
  | .addTable st norm table cols =>
    .addTable (normTable E.f st.dia norm table) (ofPairs (cols.map (fun c => (normCol E.f st.dia norm c.1, c.2))))
  | .columnNames st norm table ov => .columnNames (normTable E.f st.dia norm table) ov
  | .columnType st norm table col => .columnType (normTable E.f st.dia norm table) (normCol E.f st.dia norm col) st
  | .hasColumn st norm table col => .hasColumn (normTable E.f st.dia norm table) (normCol E.f st.dia norm col)
  | .find table raise ensure => .find table raise ensure

/-- the tail of `column_names`: all columns, or those listed in `visible` for the table path AS GIVEN
    (outermost part first, truncated to the schema depth `d` by the `zip` with `supported_table_args`) -/
def namesOut (E : Env) (d : Nat) (nt : List Ident) (onlyVisible : Bool) (r : FindR) : Out :=
  match r with
  | .found cols =>
    if !onlyVisible || E.visEmpty then .names (cols.map (·.1)) else
    match E.vis ((nt.map (·.name)).take d) with
    | some vs => .names ((cols.map (·.1)).filter (fun c => vs.contains c))
    | none => .err .unknownTable
  | .notFound => .names []
  | .err e => .err e

/-- `column_names` on an already normalized table -/
def columnNames (E : Env) (S : St) (nt : List Ident) (onlyVisible : Bool) : St × Out :=
  let (S', r) := find E S nt true false
  (S', namesOut E (depth S) nt onlyVisible r)

/-- `if schema and not normalized_column_mapping: return` -/
def earlyReturn (r : FindR) (ncols : Cols) : Bool :=
  match r with
  | .found c => !c.isEmpty && ncols.isEmpty
  | _ => false

/-- `get_column_type` after `find`: the column's type text goes through `_to_data_type(text, dialect)` -/
def typeOut (E : Env) (d : DialectRef) (nc : Name) (r : FindR) : Out :=
  match r with
  | .found cols =>
    .ty (match lookup cols nc with
         | some ty => E.ty d.name ty
         | none => "UNKNOWN")
  | .notFound => .ty "UNKNOWN"
  | .err e => .err e

def hasOut (nc : Name) (r : FindR) : Out :=
  match r with
  | .found cols => .bool ((cols.map (·.1)).contains nc)
  | .notFound => .bool false
  | .err e => .err e

/-- the body of the public methods on normalised arguments -/
def stepN (E : Env) (ev : Evict) (S : St) : NOp → St × Out
  | .addTable nt ncols =>
    if S.mapping ≠ [] ∧ nt.length ≠ depth S then (S, .err .depthMismatch) else
    let (S1, r) := find E S nt false false
    if earlyReturn r ncols then (S1, .unit) else
    let path := nt.map (·.name)
    let key := path.reverse
    ({ mapping := dictSet S1.mapping path ncols,
       trie := if S1.trie.contains key then S1.trie else S1.trie ++ [key],
       cache := evict ev S1.cache nt }, .unit)
  | .columnNames nt ov => columnNames E S nt ov
  | .columnType nt nc d =>
    let (S', r) := find E S nt false false
    (S', typeOut E d nc r)
  | .hasColumn nt nc =>
    -- MappingSchema.has_column: normalizes the column, `find(raise_on_missing=False)`, membership
    let (S', r) := find E S nt false false
    (S', hasOut nc r)
  | .find table raise ensure =>
    let (S', r) := find E S table raise ensure
    (S', .findR r)

def step (E : Env) (ev : Evict) (S : St) (op : Op) : St × Out := stepN E ev S (normOp E op)

def run (E : Env) (ev : Evict) (S : St) (ops : List Op) : St :=
  ops.foldl (fun s op => (step E ev s op).1) S

/-- the schema `MappingSchema(final_mapping)` builds: same mapping, trie rebuilt from it, caches empty -/
def fresh (S : St) : St :=
  { mapping := S.mapping, trie := S.mapping.map (fun p => p.1.reverse), cache := [] }

def empty : St := { mapping := [], trie := [], cache := [] }

end SqlglotModel.Schema
