/-
  C05 — position arithmetic of `TokenizerCore._scan` (sqlglot/tokenizer_core.py:679-712) and of the sub-scanners
  that move `_current` backwards (`_scan_number`: `_advance(-len(numeric_literal))`; `_scan_string`, heredoc tag
  fallback: `_advance(-1)`, `_advance(-len(tag))`).

  Modelled: only `_current`.  One iteration of the `while self.size and not self._end` loop skips blanks inline,
  calls `_advance(offset)` with `offset = blanks if blanks > 0 else 1`, then dispatches to a sub-scanner, which is
  seen as the list of moves it makes (`_advance(k)`, forward assignments to `_current`, `_advance(-k)`).
  NOT modelled: what the characters are, tokens, line/column bookkeeping (C13 owns those).
  A rewind below the position reached by the iteration's own `_advance(offset)` is `none` (it would re-scan text
  the loop already left behind — the way a tokenizer stops making progress).
  No proofs in this file.
-/
namespace SqlglotModel.ScanProgress

inductive Move where
  | fwd (k : Nat)    -- self._advance(k) with k ≥ 0, the alnum fast loop, or `_extract_string`'s `self._current = end + 1`
  | back (k : Nat)   -- self._advance(-k)
  deriving DecidableEq, Repr

/-- offset from the position reached after the iteration's `_advance(offset)`; `none` = rewound past it -/
def rel : List Move → Nat → Option Nat
  | [], a => some a
  | .fwd k :: ms, a => rel ms (a + k)
  | .back k :: ms, a => if k ≤ a then rel ms (a - k) else none

structure Iter where
  blanks : Nat
  moves : List Move
  deriving Repr

def Iter.offset (it : Iter) : Nat := if it.blanks > 0 then it.blanks else 1

/-- `_current` after one iteration -/
def stepIter (current : Nat) (it : Iter) : Option Nat :=
  match rel it.moves 0 with
  | some a => some (current + it.offset + a)
  | none => none

/-- the loop: iterations run while `_current < size`; result = (`_current` at exit, iterations executed) -/
def scanLoop (size : Nat) : List Iter → Nat → Nat → Option (Nat × Nat)
  | [], c, n => some (c, n)
  | it :: its, c, n =>
    if c < size then
      match stepIter c it with
      | some c' => scanLoop size its c' (n + 1)
      | none => none
    else some (c, n)

/-- `_scan_number`, identifier-like suffix: the run of digits, then one `_advance()` per suffix character appended to
    `numeric_literal`, then either keep (numeric type suffix / identifiers may start with a digit) or
    `_advance(-len(numeric_literal))` -/
def suffixMoves (digits j : Nat) (keep : Bool) : List Move :=
  .fwd digits :: (List.replicate j (.fwd 1) ++ (if keep then [] else [.back j]))

/-- `_scan_string`, heredoc whose tag is not an identifier: `_advance()`, `_extract_string` moves `e` forward and
    returns a tag of length `t`, `if not self._end: _advance(-1)`, `_advance(-len(tag))` -/
def heredocMoves (e t : Nat) (atEnd : Bool) : List Move :=
  .fwd 1 :: .fwd e :: ((if atEnd then [] else [.back 1]) ++ [.back t])

def Move.isFwd : Move → Bool
  | .fwd _ => true
  | .back _ => false

inductive ScanOut where
  | done (current iterations : Nat)   -- the loop test failed: `_end`
  | undisciplined                      -- an iteration rewound past its own `_advance(offset)`
  | outOfFuel                          -- still iterating when the fuel ran out
  deriving DecidableEq, Repr

/-- the `while self.size and not self._end` loop with the iteration given as a function of `_current` (whatever the
    characters make the sub-scanners do) -/
def scanRun (size : Nat) (step : Nat → Option Nat) : Nat → Nat → Nat → ScanOut
  | 0, c, n => if c < size then .outOfFuel else .done c n
  | fuel + 1, c, n =>
    if c < size then
      match step c with
      | some c' => scanRun size step fuel c' (n + 1)
      | none => .undisciplined
    else .done c n

/-- what can fly out of `_scan`: subclasses of `Exception` (KeyError from a dict lookup behind the case-insensitive
    trie, IndexError from `sql[...]`, RecursionError from nested command scanning, ValueError, TokenError itself, …) -/
inductive Exc where
  | tokenError | indexError | keyError | recursionError | valueError | typeError | otherException
  deriving DecidableEq, Repr

def Exc.name : Exc → String
  | .tokenError => "TokenError" | .indexError => "IndexError" | .keyError => "KeyError"
  | .recursionError => "RecursionError" | .valueError => "ValueError" | .typeError => "TypeError"
  | .otherException => "Exception"

/-- does `except (h1, h2, …)` catch `e`?  Every `Exc` is a subclass of `Exception` -/
def catches (handlers : List String) (e : Exc) : Bool :=
  handlers.contains "Exception" || handlers.contains "BaseException" || handlers.contains e.name

inductive TokOut where
  | ok                 -- `tokenize` returned the tokens
  | tokenError         -- raised TokenError
  | leaked (e : Exc)   -- something else flew out of `tokenize`
  | running            -- the scan loop was still iterating when the fuel ran out
  deriving DecidableEq, Repr

/-- the handler of `TokenizerCore.tokenize`: `except <handlers> as e: raise <raises>(…) from e` -/
def funnel (handlers raises : List String) (e : Exc) : TokOut :=
  if catches handlers e then (if raises = ["TokenError"] then .tokenError else .leaked .otherException)
  else if e = .tokenError then .tokenError else .leaked e

/-- `TokenizerCore.tokenize`: the scan loop with iterations that may raise, inside the funnel -/
def tokenizeModel (handlers raises : List String) (size : Nat) (step : Nat → Except Exc Nat) : Nat → Nat → TokOut
  | 0, c => if c < size then .running else .ok
  | fuel + 1, c =>
    if c < size then
      match step c with
      | .ok c' => tokenizeModel handlers raises size step fuel c'
      | .error e => funnel handlers raises e
    else .ok

end SqlglotModel.ScanProgress
