/-
  C04: the derivation of a dialect's escape tables by the `_Dialect` metaclass (sqlglot/dialects/dialect.py, `__new__`):

      STRINGS_SUPPORT_ESCAPED_SEQUENCES      = "\\" in tokenizer_class.STRING_ESCAPES
      BYTE_STRINGS_SUPPORT_ESCAPED_SEQUENCES = "\\" in tokenizer_class.BYTE_STRING_ESCAPES
      if either: UNESCAPED_SEQUENCES = {**UNESCAPED_SEQUENCES(module default), **klass.UNESCAPED_SEQUENCES}
      ESCAPED_SEQUENCES = {v: k for k, v in klass.UNESCAPED_SEQUENCES.items() if not v.isprintable() or v == "\\"}

  as a function from the class-body inputs to the derived tables.  Python dicts are association lists in insertion order
  (`dictUpdate` = `d[k] = v`: replace in place or append), so the derived tables can be compared EXACTLY (order included)
  with what the live classes hold.  `printable` stands for `str.isprintable`.  Executable, no proofs.
-/
import SqlglotModel.Model.Str

namespace SqlglotModel.Str

abbrev Seq2 := Char × Char

/-- `d[k] = v` on an insertion-ordered dict -/
def dictUpdate {κ ν} [BEq κ] (d : List (κ × ν)) (k : κ) (v : ν) : List (κ × ν) :=
  if (lookup d k).isSome then d.map (fun p => if p.1 == k then (p.1, v) else p) else d ++ [(k, v)]

/-- `{**a, **b}` -/
def dictMerge {κ ν} [BEq κ] (a b : List (κ × ν)) : List (κ × ν) :=
  b.foldl (fun d p => dictUpdate d p.1 p.2) a

/-- `{v: k for k, v in u.items() if keep v}` continued from `acc` -/
def dictInvertFrom (keep : Char → Bool) (acc : List (Char × Seq2)) (u : List (Seq2 × Char)) : List (Char × Seq2) :=
  u.foldl (fun d p => if keep p.2 then dictUpdate d p.2 p.1 else d) acc

def keepEscaped (printable : Char → Bool) (v : Char) : Bool := !printable v || v == '\\'

/-- the class-body inputs of one dialect class -/
structure EscBody where
  strEsc    : List Char              -- tokenizer_class.STRING_ESCAPES
  byteEsc   : List Char              -- tokenizer_class.BYTE_STRING_ESCAPES
  unescBody : List (Seq2 × Char)     -- klass.UNESCAPED_SEQUENCES as the metaclass finds it (class body, or inherited)
deriving Repr, DecidableEq

structure EscDerived where
  supports     : Bool
  byteSupports : Bool
  unesc        : List (Seq2 × Char)
  escaped      : List (Char × Seq2)
deriving Repr, DecidableEq

def deriveEsc (dflt : List (Seq2 × Char)) (printable : Char → Bool) (b : EscBody) : EscDerived :=
  let s := b.strEsc.contains '\\'
  let bs := b.byteEsc.contains '\\'
  let u := if s || bs then dictMerge dflt b.unescBody else b.unescBody
  { supports := s, byteSupports := bs, unesc := u, escaped := dictInvertFrom (keepEscaped printable) [] u }

/-- no key twice (what a Python dict guarantees) -/
def keysNodup {κ ν} [BEq κ] : List (κ × ν) → Bool
  | [] => true
  | (k, _) :: r => !(lookup r k).isSome && keysNodup r

/-- one regenerated record per dialect class: inputs, the `isprintable` facts used, and what the live class holds -/
structure EscRecord where
  name      : String
  body      : EscBody
  printable : List Char              -- the table values v with v.isprintable() (CPython, regenerated)
  observed  : EscDerived
deriving Repr, DecidableEq

/-- two association lists answer every `dict.get` alike -/
def lookupEquiv {κ ν} [BEq κ] [BEq ν] (a b : List (κ × ν)) : Bool :=
  a.all (fun p => lookup a p.1 == lookup b p.1) && b.all (fun p => lookup a p.1 == lookup b p.1)

/-- the live class holds exactly what the model derives from its class-body inputs (order included) -/
def recordOk (dflt : List (Seq2 × Char)) (r : EscRecord) : Bool :=
  deriveEsc dflt (fun c => r.printable.contains c) r.body == r.observed && keysNodup r.body.unescBody

/-- a string pairing's generator tables are the derived tables of the generator's dialect class, its tokenizer table
    the derived UNESCAPED_SEQUENCES of the tokenizer's dialect class -/
def tieOk (recs : List EscRecord) (t : Cfg × String × String) : Bool :=
  ((recs.find? (·.name == t.2.1)).any fun r => lookupEquiv t.1.escSeq r.observed.escaped && t.1.supports == r.observed.supports)
  && ((recs.find? (·.name == t.2.2)).any fun r => lookupEquiv t.1.unesc r.observed.unesc)

end SqlglotModel.Str
