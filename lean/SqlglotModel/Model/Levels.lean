/-
  C14 — error levels.  Executable model (no proofs here, no Mathlib).

  What is mirrored line by line (sqlglot/parser.py, errors.py, generator.py):
    * `Parser.raise_error`            → `raiseError`       (IMMEDIATE raises at once, otherwise appends to `errors`)
    * `Parser.validate_expression`    → `validateExpr`     (node counter / max_nodes first, then skipped under IGNORE)
    * `Parser.check_errors`           → `checkErrors`      (WARN logs every collected error, RAISE raises all of them)
    * `Parser._try_parse`             → `Comb.tryParse`    (save level, force IMMEDIATE, catch ParseError, retreat, restore)
    * `errors.concat_messages`        → `concatMessages`   (first `max` rendered + "... and k more")
    * `Generator.unsupported`, `unsupported_args`, `Generator.generate`'s level switch → `GComb`, `generate`

  What is abstracted: the recursive-descent parser itself is an ARBITRARY program of the combinator language
  `Comb` over an arbitrary rule table (`Cfg.rules`, recursion through `call`), an arbitrary token list per chunk
  and arbitrary fuel.  Its control flow may depend on tokens, on sub-results and on the position, but NOT on
  `error_level` / `errors` — except through the five mirrored functions.  That this is true of the source is what
  the translator checks on every run (Generated/C14.lean: every read/write site of `error_level`, `errors`,
  `unsupported_level`, `unsupported_messages`, every `except ParseError`, every caller of `check_errors`).
  Messages are interned as numbers (the harness maps message texts to ids); `highlight_sql` is not modelled.
-/
namespace SqlglotModel.Levels

inductive Level where
  | ignore | warn | raise | immediate
  deriving DecidableEq, Repr, Inhabited

abbrev Msg := Nat

/-- what a parse method returns: `None`, a token, or a built expression with two argument slots
    (lists are right-nested `node`s) -/
inductive Tree where
  | none
  | leaf (t : Nat)
  | node (tag : Nat) (a b : Tree)
  deriving DecidableEq, Repr, Inhabited

def Tree.truthy : Tree → Bool
  | .none => false
  | _ => true

def Tree.kid : Tree → Nat → Tree
  | .node _ a _, 0 => a
  | .node _ _ b, 1 => b
  | _, _ => .none

/-- a `ParseError`: `.errors` (merge_errors) and the message as produced by `concat_messages`
    (`rendered` = the error texts that appear, `more` = k of "... and k more", 0 = no such line) -/
structure Exn where
  errors : List Msg
  rendered : List Msg
  more : Nat
  deriving DecidableEq, Repr, Inhabited

/-- errors.concat_messages(errors, maximum) for maximum ≥ 0 -/
def concatMessages (errs : List Msg) (max : Nat) : List Msg × Nat :=
  (errs.take max, errs.length - max)

def Exn.single (m : Msg) : Exn := ⟨[m], [m], 0⟩
def Exn.collected (errs : List Msg) (max : Nat) : Exn :=
  ⟨errs, (concatMessages errs max).1, (concatMessages errs max).2⟩

/-- the combinator language: every parser sub-routine is some `Comb` -/
inductive Comb where
  | eps                                            -- returns None, consumes nothing
  | tok (t : Nat)                                  -- `self._match(t)` : the token or None
  | node (tag : Nat) (a b : Comb)                  -- `Tag(this=a(), expression=b())` without validation
  | validate (req : List (Nat × Msg)) (c : Comb)   -- `self.validate_expression(c())`; message m for every (i, m) whose slot i is None
  | orElse (a b : Comb)                            -- `a() or b()`
  | andThen (a b : Comb)                           -- `a() and b()` (guards, `while cond:` loops)
  | raiseError (m : Msg)                           -- `self.raise_error(m)`; returns None
  | tryParse (c : Comb) (retreat : Bool)           -- `self._try_parse(c, retreat)`
  | many (c : Comb)                                -- `while (x := c()): acc.append(x)`
  | call (i : Nat)                                 -- a (mutually) recursive parse method
  | checkErrors                                    -- `self.check_errors()` (called per statement, also inside nested blocks)
  | advanceChunk                                   -- `_advance_chunk()` guarded by `_chunk_index < len(_chunks)`
  | atEnd                                          -- `self._index >= self._tokens_size` as a truthy/None result
  | subConfined (l : Level) (toks : List Nat) (body : Comb)
      -- a sub-parser: a FRESH parser run at the fixed level `l` over its own tokens, whose ParseError (if any) is
      -- caught by the caller (`to_json_path`'s `except ParseError`) or cannot arise (DataType.build at IGNORE)
  deriving Repr, Inhabited

structure Cfg where
  rules : List Comb
  chunks : List (List Nat)
  maxErrors : Nat
  maxNodes : Option Nat           -- `max_nodes > -1`
  maxNodesMsg : Msg := 0
  deriving Inhabited

structure St where
  toks : List Nat := []
  pos : Nat := 0
  chunk : Nat := 0
  nodes : Nat := 0                -- `_node_count`
  level : Level
  errors : List Msg := []
  log : List (List Msg) := []     -- one batch of ERROR records per `check_errors` call under WARN
  deriving Repr, Inhabited

/-- the part of the state that the parser's control flow may look at -/
def St.ctl (s : St) : List Nat × Nat × Nat × Nat := (s.toks, s.pos, s.chunk, s.nodes)

inductive Res where
  | ok (t : Tree) (s : St)
  | exc (e : Exn) (s : St)        -- a ParseError propagates
  | diverge                       -- fuel exhausted (the real parser would not terminate / recursion limit)
  deriving Repr, Inhabited

def Res.bind (r : Res) (f : Tree → St → Res) : Res :=
  match r with
  | .ok t s => f t s
  | .exc e s => .exc e s
  | .diverge => .diverge

/-- Parser.raise_error -/
def raiseError (m : Msg) (s : St) : Res :=
  if s.level = .immediate then .exc (Exn.single m) s
  else .ok .none { s with errors := s.errors ++ [m] }

/-- `for error_message in ...: self.raise_error(error_message)` -/
def raiseAll : List Msg → St → Res
  | [], s => .ok .none s
  | m :: ms, s => (raiseError m s).bind fun _ s1 => raiseAll ms s1

def missing (req : List (Nat × Msg)) (t : Tree) : List Msg :=
  (req.filter fun p => !(t.kid p.1).truthy).map (·.2)

/-- the max_nodes half of validate_expression -/
def countNode (cfg : Cfg) (s : St) : Res :=
  match cfg.maxNodes with
  | none => .ok .none s
  | some mx =>
    let s1 := { s with nodes := s.nodes + 1 }
    if s1.nodes > mx then raiseError cfg.maxNodesMsg s1 else .ok .none s1

/-- Parser.validate_expression -/
def validateExpr (cfg : Cfg) (req : List (Nat × Msg)) (t : Tree) (s : St) : Res :=
  (countNode cfg s).bind fun _ s1 =>
    if s1.level ≠ .ignore then (raiseAll (missing req t) s1).bind fun _ s2 => .ok t s2
    else .ok t s1

/-- Parser.check_errors -/
def checkErrors (cfg : Cfg) (s : St) : Res :=
  if s.level = .warn then .ok .none { s with log := s.log ++ [s.errors] }
  else if s.level = .raise ∧ s.errors ≠ [] then .exc (Exn.collected s.errors cfg.maxErrors) s
  else .ok .none s

def matchTok (t : Nat) (s : St) : Res :=
  if s.toks[s.pos]? = some t then .ok (.leaf t) { s with pos := s.pos + 1 } else .ok .none s

def advanceChunk (cfg : Cfg) (s : St) : Res :=
  match cfg.chunks[s.chunk]? with
  | some ts => .ok (.leaf 0) { s with toks := ts, pos := 0, chunk := s.chunk + 1 }
  | none => .ok .none s

def atEnd (s : St) : Res :=
  if s.pos ≥ s.toks.length then .ok (.leaf 1) s else .ok .none s

/-- the `finally:` block of `_try_parse` followed by `return this` -/
def tryFinish (idx : Nat) (saved : Level) (retreat : Bool) (this : Tree) (s : St) : Res :=
  let s1 := if !this.truthy || retreat then { s with pos := idx } else s
  .ok this { s1 with level := saved }

/-- `_try_parse`'s handling of the body's outcome: `except ParseError: this = None`, then `finally` -/
def tryCatch (idx : Nat) (saved : Level) (retreat : Bool) : Res → Res
  | .ok t s => tryFinish idx saved retreat t s
  | .exc _ s => tryFinish idx saved retreat .none s
  | .diverge => .diverge

/-- what the outer parser sees of a confined sub-parser run: its tree (None if it failed); the outer state is untouched -/
def subFinish (s : St) : Res → Res
  | .ok t _ => .ok t s
  | .exc _ _ => .ok .none s
  | .diverge => .diverge

/-- the interpreter; every recursive call spends one unit of fuel -/
def exec (cfg : Cfg) : Nat → Comb → St → Res
  | 0, _, _ => .diverge
  | _ + 1, .eps, s => .ok .none s
  | _ + 1, .tok t, s => matchTok t s
  | n + 1, .node tag a b, s =>
    (exec cfg n a s).bind fun ra s1 => (exec cfg n b s1).bind fun rb s2 => .ok (.node tag ra rb) s2
  | n + 1, .validate req c, s => (exec cfg n c s).bind fun r s1 => validateExpr cfg req r s1
  | n + 1, .orElse a b, s => (exec cfg n a s).bind fun ra s1 => if ra.truthy then .ok ra s1 else exec cfg n b s1
  | n + 1, .andThen a b, s => (exec cfg n a s).bind fun ra s1 => if ra.truthy then exec cfg n b s1 else .ok ra s1
  | _ + 1, .raiseError m, s => raiseError m s
  | n + 1, .tryParse c retreat, s =>
    tryCatch s.pos s.level retreat (exec cfg n c { s with level := .immediate })
  | n + 1, .many c, s =>
    (exec cfg n c s).bind fun r s1 =>
      if r.truthy then (exec cfg n (.many c) s1).bind fun rest s2 => .ok (.node 0 r rest) s2 else .ok .none s1
  | n + 1, .call i, s =>
    match cfg.rules[i]? with
    | some c => exec cfg n c s
    | none => .ok .none s
  | _ + 1, .checkErrors, s => checkErrors cfg s
  | _ + 1, .advanceChunk, s => advanceChunk cfg s
  | _ + 1, .atEnd, s => atEnd s
  | n + 1, .subConfined l toks body, s => subFinish s (exec cfg n body { level := l, toks := toks })

/-- `Parser.reset()` followed by the constructor's level -/
def init (l : Level) : St := { level := l }

/-- `Parser._parse` / `_parse_batch_statements(sep_first_statement=False)` as a program:
    per chunk: statement; `if index < size: raise_error(unexpected)`; `check_errors()` -/
def batch (stmt : Comb) (unexpected : Msg) : Comb :=
  .many (.andThen .advanceChunk (.node 2 stmt (.node 3 (.orElse .atEnd (.raiseError unexpected)) .checkErrors)))

def run (cfg : Cfg) (fuel : Nat) (p : Comb) (l : Level) : Res := exec cfg fuel p (init l)

/-- what a caller can observe of a run (driver output, examples) -/
inductive Obs where
  | returned (errors : List Msg) (log : List (List Msg)) (level : Level)
  | raised (e : Exn) (level : Level)
  | diverged
  deriving DecidableEq, Repr, Inhabited

def Res.obs : Res → Obs
  | .ok _ s => .returned s.errors s.log s.level
  | .exc e s => .raised e s.level
  | .diverge => .diverged

def Res.tree? : Res → Option Tree
  | .ok t _ => some t
  | _ => none

/-! ### sub-parsers whose errors propagate, and builders that raise ParseError directly

  `XComb` adds the two things the source also does and that the level contract does NOT survive:
    * `subParse l toks body` — `exp.maybe_parse(comment, into=exp.Hint)` in `_parse_hint`: a fresh parser at its own level
      (IMMEDIATE by default); a ParseError it raises travels through the outer parser whatever that one's level is;
    * `hardRaise m` — `raise ParseError(...)` that does not go through `raise_error`
      (`build_date_delta_with_interval`, `alias_(None)` → `maybe_parse(None)`).
  `confined` programs use neither and are exactly the `Comb` programs (`toComb`). -/
inductive XComb where
  | core (c : Comb)
  | seq (tag : Nat) (a b : XComb)
  | orElse (a b : XComb)
  | tryParse (c : XComb) (retreat : Bool)
  | subParse (l : Level) (toks : List Nat) (body : XComb)
  | hardRaise (m : Msg)
  deriving Repr, Inhabited

def XComb.confined : XComb → Bool
  | .core _ => true
  | .seq _ a b => a.confined && b.confined
  | .orElse a b => a.confined && b.confined
  | .tryParse c _ => c.confined
  | .subParse _ _ _ => false
  | .hardRaise _ => false

def XComb.toComb : XComb → Comb
  | .core c => c
  | .seq tag a b => .node tag a.toComb b.toComb
  | .orElse a b => .orElse a.toComb b.toComb
  | .tryParse c r => .tryParse c.toComb r
  | .subParse l toks body => .subConfined l toks body.toComb
  | .hardRaise _ => .eps

/-- a propagating sub-parser run as the outer parser sees it: its tree, or its ParseError — re-raised as is -/
def subPropagate (s : St) : Res → Res
  | .ok t _ => .ok t s
  | .exc e _ => .exc e s
  | .diverge => .diverge

def xexec (cfg : Cfg) : Nat → XComb → St → Res
  | 0, _, _ => .diverge
  | n + 1, .core c, s => exec cfg (n + 1) c s
  | n + 1, .seq tag a b, s =>
    (xexec cfg n a s).bind fun ra s1 => (xexec cfg n b s1).bind fun rb s2 => .ok (.node tag ra rb) s2
  | n + 1, .orElse a b, s => (xexec cfg n a s).bind fun ra s1 => if ra.truthy then .ok ra s1 else xexec cfg n b s1
  | n + 1, .tryParse c retreat, s =>
    tryCatch s.pos s.level retreat (xexec cfg n c { s with level := .immediate })
  | n + 1, .subParse l toks body, s => subPropagate s (xexec cfg n body { level := l, toks := toks })
  | _ + 1, .hardRaise m, s => .exc (Exn.single m) s

def xrun (cfg : Cfg) (fuel : Nat) (p : XComb) (l : Level) : Res := xexec cfg fuel p (init l)

/-- errors.merge_errors: the `.errors` lists of the collected ParseErrors, concatenated in order -/
def mergeErrors (es : List (List Msg)) : List Msg := es.flatten

def firstNonempty : List (List Msg) → Option (List Msg)
  | [] => none
  | [] :: bs => firstNonempty bs
  | (m :: ms) :: _ => some (m :: ms)

/-! ### generator side -/

/-- what a generator method does with respect to unsupported_level: emit text, call `self.unsupported(msg)`,
    or run a body wrapped by `@unsupported_args(...)` (one diagnostic per flagged argument that is set) -/
inductive GComb where
  | text (s : String)
  | unsupported (m : Msg)
  | seq (a b : GComb)
  | unsupportedArgs (diags : List (Bool × Msg)) (body : GComb)
  | hard (m : Msg)     -- `raise UnsupportedError(...)` that does not go through `self.unsupported` (exasol GROUP BY ALL, unnest_to_explode)
  deriving Repr, Inhabited

structure GSt where
  level : Level
  messages : List Msg := []
  deriving Repr, Inhabited

inductive GRes where
  | ok (sql : String) (s : GSt)
  | exc (rendered : List Msg) (more : Nat) (s : GSt)      -- UnsupportedError(message)
  deriving Repr, Inhabited

def GRes.bind (r : GRes) (f : String → GSt → GRes) : GRes :=
  match r with
  | .ok t s => f t s
  | .exc a b s => .exc a b s

/-- Generator.unsupported -/
def unsupported (m : Msg) (s : GSt) : GRes :=
  if s.level = .immediate then .exc [m] 0 s else .ok "" { s with messages := s.messages ++ [m] }

def unsupportedAll : List (Bool × Msg) → GSt → GRes
  | [], s => .ok "" s
  | (set, m) :: ds, s =>
    if set then (unsupported m s).bind fun _ s1 => unsupportedAll ds s1 else unsupportedAll ds s

def gexec : GComb → GSt → GRes
  | .text t, s => .ok t s
  | .unsupported m, s => unsupported m s
  | .seq a b, s => (gexec a s).bind fun ta s1 => (gexec b s1).bind fun tb s2 => .ok (ta ++ tb) s2
  | .unsupportedArgs ds body, s => (unsupportedAll ds s).bind fun _ s1 => gexec body s1
  | .hard m, s => .exc [m] 0 s

/-- outcome of `Generator.generate`: text, the WARNING records emitted, or an UnsupportedError -/
inductive GOut where
  | returned (sql : String) (logged : List Msg)
  | raised (rendered : List Msg) (more : Nat)
  deriving DecidableEq, Repr, Inhabited

/-- Generator.generate: `self.unsupported_messages = []`, generate, then the level switch.
    `stale` = whatever an earlier call left in `unsupported_messages` (it is overwritten). -/
def generate (l : Level) (maxUnsupported : Nat) (p : GComb) (stale : List Msg := []) : GOut :=
  let s0 : GSt := { ({ level := l, messages := stale } : GSt) with messages := [] }
  match gexec p s0 with
  | .exc r k _ => .raised r k
  | .ok sql s =>
    if l = .ignore then .returned sql []
    else if l = .warn then .returned sql s.messages
    else if l = .raise ∧ s.messages ≠ [] then
      .raised (concatMessages s.messages maxUnsupported).1 (concatMessages s.messages maxUnsupported).2
    else .returned sql []

/-- specification functions: the text a generator program emits and the messages it reports, in order -/
def gtext : GComb → String
  | .text t => t
  | .unsupported _ => ""
  | .seq a b => gtext a ++ gtext b
  | .unsupportedArgs _ body => gtext body
  | .hard _ => ""

def diagMsgs (ds : List (Bool × Msg)) : List Msg := (ds.filter (·.1)).map (·.2)

def gmsgs : GComb → List Msg
  | .text _ => []
  | .unsupported m => [m]
  | .seq a b => gmsgs a ++ gmsgs b
  | .unsupportedArgs ds body => diagMsgs ds ++ gmsgs body
  | .hard _ => []

/-- no direct `raise UnsupportedError` is reached -/
def gNoHard : GComb → Bool
  | .text _ => true
  | .unsupported _ => true
  | .seq a b => gNoHard a && gNoHard b
  | .unsupportedArgs _ body => gNoHard body
  | .hard _ => false

/-! ### the source facts the lemmas were proved for (compared with Generated/C14.lean by `decide`) -/

/-- every place where the parser / generator source reads or writes the level or the collected errors, every
    handler that could swallow a ParseError / UnsupportedError, every caller of check_errors.  The model has exactly
    these level-dependent branches: raise_error (== IMMEDIATE), validate_expression (!= IGNORE), check_errors (== WARN,
    == RAISE and errors), _try_parse (save / force IMMEDIATE / except ParseError / restore in finally);
    generator: unsupported (== IMMEDIATE), generate (reset, == IGNORE, == WARN, == RAISE and messages). -/
def expectedSites : List (String × String × String × String) := [
  ("sqlglot/parser.py", "Parser.__init__", "error_level", "self:write:Or(error_level,ErrorLevel.IMMEDIATE)"),
  ("sqlglot/parser.py", "Parser.__init__", "errors", "self:write:[]"),
  ("sqlglot/parser.py", "Parser.reset", "errors", "self:write:[]"),
  ("sqlglot/parser.py", "Parser.raise_error", "error_level", "self:compare:Eq:ErrorLevel.IMMEDIATE"),
  ("sqlglot/parser.py", "Parser.raise_error", "errors", "self:call:append"),
  ("sqlglot/parser.py", "Parser.validate_expression", "error_level", "self:compare:NotEq:ErrorLevel.IGNORE"),
  ("sqlglot/parser.py", "Parser._try_parse", "error_level", "self:read-into:error_level"),
  ("sqlglot/parser.py", "Parser._try_parse", "error_level", "self:write:ErrorLevel.IMMEDIATE"),
  ("sqlglot/parser.py", "Parser._try_parse", "ParseError", "except"),
  ("sqlglot/parser.py", "Parser._try_parse", "error_level", "self:write:error_level"),
  ("sqlglot/parser.py", "Parser.parse_into", "ParseError", "except"),
  ("sqlglot/parser.py", "Parser.parse_into", "errors", "e:subscript"),
  ("sqlglot/parser.py", "Parser.check_errors", "error_level", "self:compare:Eq:ErrorLevel.WARN"),
  ("sqlglot/parser.py", "Parser.check_errors", "errors", "self:iterate"),
  ("sqlglot/parser.py", "Parser.check_errors", "error_level", "self:compare:Eq:ErrorLevel.RAISE"),
  ("sqlglot/parser.py", "Parser.check_errors", "errors", "self:truth:And"),
  ("sqlglot/parser.py", "Parser.check_errors", "errors", "self:arg-of:concat_messages"),
  ("sqlglot/parser.py", "Parser.check_errors", "errors", "self:arg-of:merge_errors"),
  ("sqlglot/parser.py", "Parser._parse_batch_statements", "check_errors", "call"),
  ("sqlglot/parser.py", "Parser._parse_hint_body", "ParseError", "except"),
  ("sqlglot/generator.py", "Generator.__init__", "unsupported_level", "self:write:unsupported_level"),
  ("sqlglot/generator.py", "Generator.__init__", "unsupported_messages", "self:write:[]"),
  ("sqlglot/generator.py", "Generator.generate", "unsupported_messages", "self:write:[]"),
  ("sqlglot/generator.py", "Generator.generate", "unsupported_level", "self:compare:Eq:ErrorLevel.IGNORE"),
  ("sqlglot/generator.py", "Generator.generate", "unsupported_level", "self:compare:Eq:ErrorLevel.WARN"),
  ("sqlglot/generator.py", "Generator.generate", "unsupported_messages", "self:iterate"),
  ("sqlglot/generator.py", "Generator.generate", "unsupported_level", "self:compare:Eq:ErrorLevel.RAISE"),
  ("sqlglot/generator.py", "Generator.generate", "unsupported_messages", "self:truth:And"),
  ("sqlglot/generator.py", "Generator.generate", "unsupported_messages", "self:arg-of:concat_messages"),
  ("sqlglot/generator.py", "Generator.unsupported", "unsupported_level", "self:compare:Eq:ErrorLevel.IMMEDIATE"),
  ("sqlglot/generator.py", "Generator.unsupported", "unsupported_messages", "self:call:append"),
  ("sqlglot/errors.py", "ParseError.__init__", "errors", "self:write:Or(errors,[])"),
  ("sqlglot/errors.py", "merge_errors", "errors", "error:read:comprehension"),
  ("sqlglot/transforms.py", "preprocess._to_sql", "UnsupportedError", "except"),
  ("sqlglot/parsers/athena.py", "AthenaParser.__init__", "error_level", "kwarg"),
  ("sqlglot/parsers/athena.py", "AthenaParser.__init__", "error_level", "kwarg"),
  ("sqlglot/parsers/athena.py", "AthenaParser.__init__", "error_level", "kwarg"),
  ("sqlglot/generators/duckdb.py", "_regr_val_sql", "Exception", "except"),
  ("sqlglot/generators/python.py", "_rename", "Exception", "except"),
  ("sqlglot/dialects/dialect.py", "Dialect.to_json_path", "ParseError", "except")
]

/-- level-relevant statement skeletons of the mirrored functions -/
def expectedSkeletons : List (String × List String) := [
  ("Parser.raise_error", ["0:if:Cmp(self.error_level,Eq,ErrorLevel.IMMEDIATE)", "1:raise:error", "0:call:<expr>.append(error)"]),
  ("Parser.validate_expression", ["0:if:Cmp(self.max_nodes,Gt,USub(1))", "1:aug:self._node_count=1", "1:if:Cmp(self._node_count,Gt,self.max_nodes)", "2:call:self.raise_error(JoinedStr)", "0:if:Cmp(self.error_level,NotEq,ErrorLevel.IGNORE)", "1:for:Call(expression.error_messages)(args)", "2:call:self.raise_error(error_message)", "0:return:expression"]),
  ("Parser._try_parse", ["0:set:error_level=self.error_level", "0:set:this=None", "0:set:self.error_level=ErrorLevel.IMMEDIATE", "0:try", "1:set:this=Call(parse_method)", "0:except:ParseError", "1:set:this=None", "0:finally", "1:if:Or(Not(this),retreat)", "2:call:self._retreat(index)", "1:set:self.error_level=error_level", "0:return:this"]),
  ("Parser.check_errors", ["0:if:Cmp(self.error_level,Eq,ErrorLevel.WARN)", "1:for:self.errors", "2:call:logger.error(Call(str)(error))", "0:else", "1:if:And(Cmp(self.error_level,Eq,ErrorLevel.RAISE),self.errors)", "2:raise:Call(ParseError)(Call(concat_messages)(self.errors,self.max_errors),errors=Call(merge_errors)(self.errors))"]),
  ("concat_messages", ["0:set:msg=ListComp(Call(str)(e) for Sub(errors,Slice(?:maximum)))", "0:set:remaining=Sub(Call(len)(errors),maximum)", "0:if:Cmp(remaining,Gt,0)", "1:call:msg.append(JoinedStr)", "0:return:Call(<expr>.join)(msg)"]),
  ("Generator.unsupported", ["0:if:Cmp(self.unsupported_level,Eq,ErrorLevel.IMMEDIATE)", "1:raise:Call(UnsupportedError)(message)", "0:call:<expr>.append(message)"]),
  ("Generator.generate", ["0:if", "0:set:self.unsupported_messages=[]", "0:if", "0:if:Cmp(self.unsupported_level,Eq,ErrorLevel.IGNORE)", "1:return:sql", "0:if:Cmp(self.unsupported_level,Eq,ErrorLevel.WARN)", "1:for:self.unsupported_messages", "2:call:logger.warning(msg)", "0:else", "1:if:And(Cmp(self.unsupported_level,Eq,ErrorLevel.RAISE),self.unsupported_messages)", "2:raise:Call(UnsupportedError)(Call(concat_messages)(self.unsupported_messages,self.max_unsupported))", "0:return:sql"])
]

/-- constructs that could make an error disappear between its raise site and the caller (audited):
    no `return` / `break` / `continue` sits inside a `finally:` block anywhere in parser / generator / transforms / dialect code;
    the handlers are `_try_parse` (modelled), `parse_into` (entry point), `_parse_hint_body` (sub-parser only),
    `transforms.preprocess._to_sql` (`except UnsupportedError: self.unsupported(str(e))` — routes a transform's direct raise
    through the level switch: `preprocessStep`), `to_json_path` (confined sub-parser), duckdb `_regr_val_sql` (around a type
    annotation attempt only) and the executor's `_rename` (re-raises). -/
def expectedExceptionFlowSites : List (String × String × String × String) := [
  ("sqlglot/parser.py", "Parser._try_parse", "handler:ParseError", "swallows:"),
  ("sqlglot/parser.py", "Parser.parse_into", "handler:ParseError", "swallows:append"),
  ("sqlglot/parser.py", "Parser._parse_hint_body", "handler:ParseError", "swallows:"),
  ("sqlglot/transforms.py", "preprocess._to_sql", "handler:UnsupportedError", "swallows:str,unsupported"),
  ("sqlglot/generators/duckdb.py", "_regr_val_sql", "handler:Exception", "swallows:"),
  ("sqlglot/generators/python.py", "_rename", "handler:Exception", "re-raises:Exception,repr"),
  ("sqlglot/dialects/dialect.py", "Dialect.to_json_path", "handler:ParseError", "swallows:lstrip,startswith,str,warning")
]

/-- `transforms.preprocess`: the transform chain runs inside `try: … except UnsupportedError as e: self.unsupported(str(e))`
    [`finally: return expression`], then generation continues with `rest`.  `raised` = the message of the transform that gave
    up (none = the chain completed); `finallyReturn` = whether a `return` sits in a `finally:` block (Python then DISCARDS an
    exception that is in flight — here the UnsupportedError `self.unsupported` raises under IMMEDIATE). -/
def preprocessStep (finallyReturn : Bool) (raised : Option Msg) (rest : GComb) (s : GSt) : GRes :=
  match raised with
  | none => gexec rest s
  | some m =>
    match unsupported m s with
    | .ok _ s1 => gexec rest s1
    | .exc r k s1 => if finallyReturn then gexec rest s1 else .exc r k s1

/-- Generator.generate around a statement whose SELECT goes through `preprocess` -/
def generatePre (l : Level) (maxUnsupported : Nat) (finallyReturn : Bool) (raised : Option Msg) (rest : GComb) : GOut :=
  match preprocessStep finallyReturn raised rest { level := l } with
  | .exc r k _ => .raised r k
  | .ok sql s =>
    if l = .ignore then .returned sql []
    else if l = .warn then .returned sql s.messages
    else if l = .raise ∧ s.messages ≠ [] then
      .raised (concatMessages s.messages maxUnsupported).1 (concatMessages s.messages maxUnsupported).2
    else .returned sql []

/-! ### direct raises and nested parsers (audited allow-lists, compared with Generated/C14.lean by `decide`) -/

/-- every `raise ParseError(…)` on the parsing side.  Audit: `Parser.check_errors` is THE raise of level RAISE (modelled);
    `Parser.parse_into` wraps the failures of a top-level entry point (outside a running parse, except through
    `maybe_parse(into=…)` sub-parsers); `jsonpath.parse*` raise inside `Dialect.to_json_path`, which catches ParseError
    (confined: `Comb.subConfined`); `maybe_parse` raises "SQL cannot be None" for a None argument (`XComb.hardRaise`; reached
    through `alias_(None)` before the T-SQL repair); `build_date_delta_with_interval._builder` raises "INTERVAL expression
    expected" directly (`XComb.hardRaise`, known finding C14-builder-raises-parseerror). -/
def expectedParseErrorRaiseSites : List (String × String × String) := [
  ("sqlglot/parser.py", "Parser.parse_into", "ParseError"),
  ("sqlglot/parser.py", "Parser.check_errors", "ParseError"),
  ("sqlglot/jsonpath.py", "parse._match", "ParseError"),
  ("sqlglot/jsonpath.py", "parse._parse_bracket", "ParseError"),
  ("sqlglot/jsonpath.py", "parse", "ParseError"),
  ("sqlglot/jsonpath.py", "parse", "ParseError"),
  ("sqlglot/expressions/core.py", "maybe_parse", "ParseError"),
  ("sqlglot/dialects/dialect.py", "build_date_delta_with_interval._builder", "ParseError")
]

/-- every `raise UnsupportedError(…)` on the generating side.  Audit: `Generator.unsupported` (IMMEDIATE) and
    `Generator.generate` (RAISE) are the modelled ones; the three in `transforms.unnest_to_explode` and the one in
    `generators/exasol._group_by_all` ignore `unsupported_level` (`GComb.hard`, known findings C14-hard-unsupported-1..3). -/
def expectedUnsupportedRaiseSites : List (String × String × String) := [
  ("sqlglot/generator.py", "Generator.generate", "UnsupportedError"),
  ("sqlglot/generator.py", "Generator.unsupported", "UnsupportedError"),
  ("sqlglot/transforms.py", "unnest_to_explode._unnest_zip_exprs", "UnsupportedError"),
  ("sqlglot/transforms.py", "unnest_to_explode", "UnsupportedError"),
  ("sqlglot/transforms.py", "unnest_to_explode", "UnsupportedError"),
  ("sqlglot/generators/exasol.py", "_group_by_all", "UnsupportedError")
]

/-- nested parser / tokenizer constructions reachable from parsing, with the `error_level` argument they pass.  Audit:
    `Parser._parse_hint → maybe_parse` runs at the default IMMEDIATE and its error propagates (`XComb.subParse`, known finding
    C14-hint-subparser-raises); `DataType.from_str → parse_one(error_level=IGNORE)` and every `to_json_path` are confined
    (`Comb.subConfined`); `AthenaParser` passes its own level to its two delegates; `Dialect.parse / parse_into / tokenize`
    are the entry points; `Parser._parse_types → self.dialect.tokenize` re-tokenizes one identifier (no parser); `alias_` re-parses only
    strings (its Expr arguments pass through `maybe_parse` untouched, None raises — see above). -/
def expectedNestedParserSites : List (String × String × String × String × String) := [
  ("sqlglot/dialects/athena.py", "Athena.Tokenizer.tokenize", "tokenize", "-", "3"),
  ("sqlglot/dialects/dialect.py", "Dialect.parse", "parser", "-", "1"),
  ("sqlglot/dialects/dialect.py", "Dialect.parse", "tokenize", "-", "1"),
  ("sqlglot/dialects/dialect.py", "Dialect.parse_into", "parse_into", "-", "1"),
  ("sqlglot/dialects/dialect.py", "Dialect.parse_into", "parser", "-", "1"),
  ("sqlglot/dialects/dialect.py", "Dialect.parse_into", "tokenize", "-", "1"),
  ("sqlglot/dialects/dialect.py", "Dialect.to_json_path", "parse_json_path", "-", "1"),
  ("sqlglot/dialects/dialect.py", "Dialect.tokenize", "tokenize", "-", "1"),
  ("sqlglot/dialects/dialect.py", "explode_to_unnest_sql", "alias_", "-", "1"),
  ("sqlglot/dialects/dialect.py", "filter_array_using_unnest", "alias_", "-", "1"),
  ("sqlglot/dialects/dialect.py", "timestrtotime_sql", "build", "-", "1"),
  ("sqlglot/dialects/duckdb.py", "DuckDB.to_json_path", "to_json_path", "-", "1"),
  ("sqlglot/expressions/core.py", "Expression.as_", "alias_", "-", "1"),
  ("sqlglot/expressions/core.py", "Expression.isin", "maybe_parse", "-", "2"),
  ("sqlglot/expressions/core.py", "Expression.type", "build", "-", "1"),
  ("sqlglot/expressions/core.py", "_apply_builder", "maybe_parse", "-", "1"),
  ("sqlglot/expressions/core.py", "_apply_child_list_builder", "maybe_parse", "-", "1"),
  ("sqlglot/expressions/core.py", "_apply_list_builder", "maybe_parse", "-", "1"),
  ("sqlglot/expressions/core.py", "_apply_set_operation", "maybe_parse", "-", "1"),
  ("sqlglot/expressions/core.py", "alias_", "maybe_parse", "-", "1"),
  ("sqlglot/expressions/core.py", "condition", "maybe_parse", "-", "1"),
  ("sqlglot/expressions/core.py", "maybe_parse", "parse_one", "-", "1"),
  ("sqlglot/expressions/core.py", "paren", "maybe_parse", "-", "1"),
  ("sqlglot/expressions/datatypes.py", "DataType.from_str", "parse_one", "ErrorLevel.IGNORE", "1"),
  ("sqlglot/expressions/datatypes.py", "DataType.is_type", "build", "-", "1"),
  ("sqlglot/jsonpath.py", "parse", "tokenize", "-", "1"),
  ("sqlglot/parser.py", "Parser", "to_json_path", "-", "3"),
  ("sqlglot/parser.py", "Parser._implicit_unnests_to_explicit", "alias_", "-", "1"),
  ("sqlglot/parser.py", "Parser._parse_hint", "maybe_parse", "-", "1"),
  ("sqlglot/parser.py", "Parser._parse_json_value", "to_json_path", "-", "1"),
  ("sqlglot/parser.py", "Parser._parse_types", "tokenize", "-", "1"),
  ("sqlglot/parser.py", "Parser._values_to_select", "alias_", "-", "1"),
  ("sqlglot/parser.py", "build_extract_json_with_path._builder", "to_json_path", "-", "1"),
  ("sqlglot/parser.py", "build_json_extract", "to_json_path", "-", "1"),
  ("sqlglot/parser.py", "build_json_extract_scalar", "to_json_path", "-", "1"),
  ("sqlglot/parsers/athena.py", "AthenaParser.__init__", "AthenaTrinoParser", "error_level", "1"),
  ("sqlglot/parsers/athena.py", "AthenaParser.__init__", "parser", "error_level", "1"),
  ("sqlglot/parsers/athena.py", "AthenaParser.parse_into", "parse_into", "-", "2"),
  ("sqlglot/parsers/bigquery.py", "BigQueryParser._parse_table_parts", "alias_", "-", "1"),
  ("sqlglot/parsers/hive.py", "HiveParser", "to_json_path", "-", "1"),
  ("sqlglot/parsers/oracle.py", "OracleParser._parse_json_exists", "to_json_path", "-", "1"),
  ("sqlglot/parsers/postgres.py", "PostgresParser._parse_jsonb_exists", "to_json_path", "-", "1"),
  ("sqlglot/parsers/postgres.py", "PostgresParser._parse_user_defined_type", "build", "-", "1"),
  ("sqlglot/parsers/singlestore.py", "SingleStoreParser._parse_vector_expressions", "build", "-", "1"),
  ("sqlglot/parsers/snowflake.py", "SnowflakeParser", "to_json_path", "-", "1"),
  ("sqlglot/parsers/snowflake.py", "SnowflakeParser._parse_lateral", "alias_", "-", "1"),
  ("sqlglot/parsers/tsql.py", "TSQLParser._parse_projections", "alias_", "-", "1")
]

end SqlglotModel.Levels
