/-
  C05 — scanners over format-string literals inside function builders (sqlglot/parsers/mysql.py `_has_time_specifier`,
  the STR_TO_DATE builder): walk a string looking at the character after each `%`.

  `walkGuarded` mirrors the source statement by statement:
      i = 0; length = len(s)
      while i < length:
          if s[i] == "%":
              i += 1
              if i < length and s[i] in TIME_SPECIFIERS: return True
          i += 1
      return False
  `walkFind` is the find-based variant without the bounds test on the character after `%`
      i = s.find("%");  while i != -1:  if s[i + 1] in T: return True;  i = s.find("%", i + 2)
  Python's `s[j]` is modelled as `s[j]?` with `none` = IndexError.  No proofs in this file.
-/
namespace SqlglotModel.FormatScan

inductive R where
  | found | notFound | indexError | running
  deriving DecidableEq, Repr

def specAt (spec : Char → Bool) (s : List Char) (j : Nat) (k : Unit → R) : R :=
  match s[j]? with
  | none => .indexError
  | some d => if spec d then .found else k ()

def walkGuarded (spec : Char → Bool) (s : List Char) : Nat → Nat → R
  | 0, _ => .running
  | fuel + 1, i =>
    if i < s.length then
      match s[i]? with
      | none => .indexError
      | some c =>
        if c = '%' then
          (if i + 1 < s.length then specAt spec s (i + 1) (fun _ => walkGuarded spec s fuel (i + 2))
           else walkGuarded spec s fuel (i + 2))
        else walkGuarded spec s fuel (i + 1)
    else .notFound

/-- `s.find(c, from)` -/
def findFrom (c : Char) (s : List Char) (from' : Nat) : Option Nat :=
  match (s.drop from').findIdx? (· = c) with
  | some k => some (from' + k)
  | none => none

def walkFind (spec : Char → Bool) (s : List Char) : Nat → Option Nat → R
  | 0, _ => .running
  | _ + 1, none => .notFound
  | fuel + 1, some i => specAt spec s (i + 1) (fun _ => walkFind spec s fuel (findFrom '%' s (i + 2)))

def hasTimeSpecifier (spec : Char → Bool) (s : List Char) : R := walkGuarded spec s (s.length + 1) 0

def hasTimeSpecifierFind (spec : Char → Bool) (s : List Char) : R := walkFind spec s (s.length + 1) (findFrom '%' s 0)

/-- the guard in front of a constant index into a local list that may be None, empty or non-empty
    (`tokens = self.dialect.tokenize(text)` / `except TokenError: tokens = None`) -/
inductive ListGuard where
  | truthy    -- `if tokens and tokens[0] …`
  | notNone   -- `if tokens is not None and tokens[0] …`
  | unguarded
  deriving DecidableEq, Repr

inductive IdxOut (α : Type) where
  | value (a : α)   -- the guard passed and the index was in range
  | skipped         -- the guard failed: the index is not evaluated
  | indexError      -- IndexError: list index out of range
  | typeError       -- 'NoneType' object is not subscriptable
  deriving DecidableEq, Repr

/-- `guard and xs[0]` -/
def indexFirst {α : Type} (g : ListGuard) (xs : Option (List α)) : IdxOut α :=
  match g, xs with
  | .truthy, none => .skipped
  | .truthy, some [] => .skipped
  | .truthy, some (a :: _) => .value a
  | .notNone, none => .skipped
  | .notNone, some [] => .indexError
  | .notNone, some (a :: _) => .value a
  | .unguarded, none => .typeError
  | .unguarded, some [] => .indexError
  | .unguarded, some (a :: _) => .value a

end SqlglotModel.FormatScan
