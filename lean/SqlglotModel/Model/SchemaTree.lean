/-
  C18 — the REAL data structures behind `MappingSchema`: the nested dict (`mapping`), the nested-dict trie
  (`mapping_trie`, sqlglot/trie.py `new_trie` / `in_trie`) and the helpers that walk them
  (`dict_depth`, `flatten_schema`, `nested_get`, `nested_set`).  `Proofs/SchemaTree.lean` proves that on
  uniform-depth structures they refine the flat view used by `Model/Schema.lean`.

  `Tree`: a Python dict value.  `leaf cols` is the column dict of one table (column types are strings or
  DataTypes, never dicts: `_normalize` rejects that shape); `node kids` is a namespace level.  The empty
  mapping `{}` is `node []`.
  `Trie`: `{part: {part: {0: True}}}`; `term` is the `0: True` marker.  Modelling assumption for
  `dict_depth` / `flatten_schema` on a sub-trie: the marker is not the first key of a node that also has children
  (true for the uniform-depth tries every admissible history produces).
-/
import SqlglotModel.Model.Schema

namespace SqlglotModel.Schema

inductive Tree where
  | leaf (cols : Cols)
  | node (kids : List (Name × Tree))
deriving Repr, Inhabited

/-- `helper.dict_depth`: follows the FIRST value at every level -/
def dictDepth : Tree → Nat
  | .leaf _ => 1
  | .node [] => 1
  | .node ((_, t) :: _) => 1 + dictDepth t

/-- `flatten_schema(schema, depth, keys)` -/
def flatten : Nat → List Name → Tree → List (List Name)
  | _, keys, .leaf cols => cols.map (fun kv => keys ++ [kv.1])
  | 0, _, .node _ => []
  | 1, keys, .node kids => kids.map (fun kv => keys ++ [kv.1])
  | d + 2, keys, .node kids => kids.flatMap (fun kv => flatten (d + 1) (keys ++ [kv.1]) kv.2)

inductive GetR where
  | found (t : Tree)
  | missing            -- `result is None`
  | value              -- the path ends on a column's type (a non-dict value)
  | internal           -- `.get` on something that is not a dict
deriving Repr, Inhabited

/-- `nested_get(d, *path)` (the caller decides what a miss means) -/
def nestedGet : Tree → List Name → GetR
  | t, [] => .found t
  | .node kids, k :: rest =>
    match lookup kids k with
    | some sub => nestedGet sub rest
    | none => .missing
  | .leaf cols, k :: rest =>
    match lookup cols k with
    | some _ => if rest = [] then .value else .internal
    | none => .missing

/-- `nested_set(d, keys, value)` -/
def nestedSet : Tree → List Name → Tree → Tree
  | t, [], _ => t
  | .leaf cols, _ :: _, _ => .leaf cols        -- walking into a column dict: outside the model (never admissible)
  | .node kids, k :: rest, v =>
    match rest with
    | [] => .node (dictSet kids k v)
    | _ :: _ =>
      match lookup kids k with
      | some sub => .node (dictSet kids k (nestedSet sub rest v))
      | none => .node (dictSet kids k (nestedSet (.node []) rest v))

/-- flat view of a mapping whose tables all sit `d` levels deep -/
def flatView : Nat → Tree → List (Path × Cols)
  | 0, .leaf cols => [([], cols)]
  | 0, .node _ => []
  | _ + 1, .leaf _ => []
  | d + 1, .node kids => kids.flatMap (fun kv => (flatView d kv.2).map (fun pc => (kv.1 :: pc.1, pc.2)))

/-! ### the trie -/

inductive Trie where
  | node (term : Bool) (kids : List (Name × Trie))
deriving Repr, Inhabited

def Trie.empty : Trie := .node false []

/-- `new_trie([key], trie)` -/
def trieInsert : Trie → List Name → Trie
  | .node _ kids, [] => .node true kids
  | .node t kids, k :: rest =>
    match lookup kids k with
    | some sub => .node t (dictSet kids k (trieInsert sub rest))
    | none => .node t (dictSet kids k (trieInsert Trie.empty rest))

/-- the walk of `in_trie` -/
def trieWalk : Trie → List Name → Option Trie
  | t, [] => some t
  | .node _ kids, k :: rest =>
    match lookup kids k with
    | some sub => trieWalk sub rest
    | none => none

/-- `dict_depth(subtrie)` -/
def trieDepth : Trie → Nat
  | .node _ [] => 1
  | .node _ ((_, t) :: _) => 1 + trieDepth t

/-- `flatten_schema(subtrie, depth, keys)` -/
def flattenTrie : Nat → List Name → Trie → List (List Name)
  | 0, _, _ => []
  | 1, keys, .node _ kids => kids.map (fun kv => keys ++ [kv.1])
  | d + 2, keys, .node _ kids => kids.flatMap (fun kv => flattenTrie (d + 1) (keys ++ [kv.1]) kv.2)

def Trie.term : Trie → Bool
  | .node t _ => t

/-- `in_trie(trie, key)` followed by `flatten_schema(subtrie)` for a PREFIX result -/
def inTrieT (t : Trie) (key : List Name) : TrieR :=
  if key = [] then .failed else
  match trieWalk t key with
  | none => .failed
  | some sub => if sub.term then .exists_ else .prefix_ (flattenTrie (trieDepth sub - 1) [] sub)

/-- the part of `_find_in_trie` after `in_trie` -/
def resolveR (r : TrieR) (parts : List Name) (raise : Bool) : Resolved :=
  match r with
  | .failed => .none
  | .exists_ => .parts parts
  | .prefix_ ps =>
    match ps with
    | [p] => .parts (parts ++ p)
    | _ => if raise then .ambiguous else .none

def findInTrieT (t : Trie) (parts : List Name) (raise : Bool) : Resolved :=
  resolveR (inTrieT t parts) parts raise

/-- the keys of a trie whose keys all have length `d`, in dict (depth-first) order -/
def keysAt : Nat → Trie → List (List Name)
  | 0, .node term _ => if term then [[]] else []
  | d + 1, .node _ kids => kids.flatMap (fun kv => (keysAt d kv.2).map (fun q => kv.1 :: q))

/-- `new_trie(tuple(reversed(t)) for t in flatten_schema(mapping, depth))` -/
def trieOfPaths (paths : List (List Name)) : Trie :=
  paths.foldl (fun t p => trieInsert t p.reverse) Trie.empty

end SqlglotModel.Schema
