/-
  Executable mirrors of the algorithmic core of sqlglot's Python executor (sqlglot/executor/env.py, python.py,
  context.py).  Each definition names the Python it mirrors.  No proofs here (Proofs/Exec.lean, Properties/C11.lean).

  What is data (ENV wrapper kinds, the FIRST/LAST/NULL_PLACEHOLDER constants, the start/end index constants of
  aggregate()'s loop, the side sets of _append_unmatched_join_rows) is a parameter (`Cfg`), re-extracted from the
  source into Generated/C11.lean on every run.

  Modelled: sql_and / sql_or / sql_not / sql_in, null_if_any (all-arguments form) over comparison and arithmetic
  lambdas, filter_nulls + SUM/COUNT/MIN/MAX, ordered / reverse_key and tuple comparison, Context.sort's key,
  _join_matches, nested_loop_join, hash_join (ordered dict of buckets), _append_unmatched_join_rows,
  aggregate()'s run loop with its index arithmetic and its limit break, set_operation's Counter logic, the
  limit/offset slices.  Python values are None / bool / int / str in type-homogeneous columns; `==` is structural
  (Python's True == 1 coincidence is outside the fragment).  Thunks of sql_and/sql_or are pure here, so their
  laziness is unobservable.  NOT modelled: planner.Step.from_expression, PythonGenerator, Context readers,
  optimize() -- covered end-to-end by the search oracle only.
-/
import SqlglotModel.Sem.Rel

namespace SqlglotModel.Exec
open SqlglotModel.Sem

/-! ## env.py -/

inductive ArithOp where
  | add | sub | mul
deriving DecidableEq, Repr

structure Cfg where
  /-- env.FIRST, env.LAST, env.NULL_PLACEHOLDER -/
  first : Nat
  last : Nat
  placeholder : Nat
  /-- aggregate(): `start = 0`, `end = 1`, `set_range(start, end - 2)`, `start = end - 2`, `set_range(start, end - 1)` -/
  aggStart : Nat
  aggEnd : Nat
  aggEmitOff : Nat
  aggStartOff : Nat
  aggLastOff : Nat
  /-- _append_unmatched_join_rows: `side in (…)` tuples -/
  leftSides : List String
  rightSides : List String
  /-- ENV aggregates: filter_nulls(func, empty_null) -/
  countEmptyNull : Bool
  sumEmptyNull : Bool
  minEmptyNull : Bool
  maxEmptyNull : Bool
  /-- ENV binary entries of the form null_if_any(lambda x, y: x OP y) (all arguments required) -/
  cmpOps : List (String × CmpOp)
  arithOps : List (String × ArithOp)
deriving Repr, DecidableEq

/-- the configuration the unchanged source has; Properties/C11.lean checks `Generated.C11.cfg = stdCfg` by `decide` -/
def stdCfg : Cfg where
  first := 0
  last := 1
  placeholder := 0
  aggStart := 0
  aggEnd := 1
  aggEmitOff := 2
  aggStartOff := 2
  aggLastOff := 1
  leftSides := ["LEFT", "FULL"]
  rightSides := ["RIGHT", "FULL"]
  countEmptyNull := false
  sumEmptyNull := true
  minEmptyNull := true
  maxEmptyNull := true
  cmpOps := [("EQ", .eq), ("GT", .gt), ("GTE", .ge), ("LT", .lt), ("LTE", .le), ("NEQ", .ne)]
  arithOps := [("ADD", .add), ("MUL", .mul), ("SUB", .sub)]

-- Python `bool(v)` is `Sem.truthy`.

/-- `None if v is None else bool(v)` -/
def norm : Val → Val
  | .null => .null
  | v => .bool (truthy v)

/-- env.sql_not -/
def sqlNot : Val → Val
  | .null => .null
  | v => .bool (!truthy v)

/-- env.sql_and (left(), right() already evaluated: pure) -/
def sqlAnd (l r : Val) : Val :=
  if norm l = .bool false then .bool false
  else if norm r = .bool false then .bool false
  else if norm l = .null ∨ norm r = .null then .null
  else .bool true

/-- env.sql_or -/
def sqlOr (l r : Val) : Val :=
  if norm l = .bool true then .bool true
  else if norm r = .bool true then .bool true
  else if norm l = .null ∨ norm r = .null then .null
  else .bool false

/-- the candidate loop of env.sql_in -/
def sqlInLoop (v : Val) : List Val → Bool → Val
  | [], hasNull => if hasNull then .null else .bool false
  | c :: cs, hasNull =>
    if c = .null then sqlInLoop v cs true
    else if v = c then .bool true
    else sqlInLoop v cs hasNull

/-- env.sql_in -/
def sqlIn (v : Val) (cs : List Val) : Val :=
  if v = .null then .null else sqlInLoop v cs false

/-- env.null_if_any (no `required` names: every argument), binary -/
def nullIfAny2 (f : Val → Val → Val) (a b : Val) : Val :=
  if a = .null ∨ b = .null then .null else f a b

/-- Python comparison operators on values of one type -/
def pyCmp (op : CmpOp) (a b : Val) : Val := .bool (op.test (Val.cmp a b))

def pyArith (op : ArithOp) (a b : Val) : Val :=
  match op with
  | .add => .int (a.toInt + b.toInt)
  | .sub => .int (a.toInt - b.toInt)
  | .mul => .int (a.toInt * b.toInt)

def lookup {β} (k : String) : List (String × β) → Option β
  | [] => none
  | (k', v) :: rest => if k' = k then some v else lookup k rest

/-- ENV[name](a, b) for the binary entries the model knows; `none` = KeyError / not modelled -/
def envBin (c : Cfg) (name : String) (a b : Val) : Option Val :=
  match lookup name c.cmpOps with
  | some op => some (nullIfAny2 (pyCmp op) a b)
  | none =>
    match lookup name c.arithOps with
    | some op => some (nullIfAny2 (pyArith op) a b)
    | none => none

/-- `exp.<Class>.key.upper()`, the name PythonGenerator's `_rename` emits -/
def cmpName : CmpOp → String
  | .eq => "EQ" | .ne => "NEQ" | .lt => "LT" | .le => "LTE" | .gt => "GT" | .ge => "GTE"

/-- value of the Python source PythonGenerator emits for an expression, on a row (`none` = ENV lookup fails).
    `x IS [NOT] NULL` is `x is [not] None`; AND / OR get thunks (pure here). -/
def eval (c : Cfg) (row : Row) : Expr → Option Val
  | .col i => some (Sem.getCol row i)
  | .lit v => some v
  | .cmp op a b =>
    match eval c row a, eval c row b with
    | some x, some y => envBin c (cmpName op) x y
    | _, _ => none
  | .and a b =>
    match eval c row a, eval c row b with
    | some x, some y => some (sqlAnd x y)
    | _, _ => none
  | .or a b =>
    match eval c row a, eval c row b with
    | some x, some y => some (sqlOr x y)
    | _, _ => none
  | .not a => (eval c row a).map sqlNot
  | .isNull a negate => (eval c row a).map fun x => .bool (x.isNull != negate)
  | .inList a vs => (eval c row a).map fun x => sqlIn x vs

/-- the row loop of PythonExecutor._subquery_comparison over the subquery's first column:
    `result = compare(value, row[0])`; None sets saw_null; `bool(result) is is_any` returns early -/
def subqLoop (compare : Val → Val → Val) (isAny : Bool) (v : Val) : List Val → Bool → Val
  | [], sawNull => if sawNull then .null else .bool (!isAny)
  | x :: xs, sawNull =>
    if compare v x = .null then subqLoop compare isAny v xs true
    else if truthy (compare v x) = isAny then .bool isAny
    else subqLoop compare isAny v xs sawNull

/-- PythonExecutor._subquery_comparison(value, …, op, quantifier): `compare = self.env[op]`, `is_any = quantifier == "ANY"` -/
def subqueryComparison (c : Cfg) (op quantifier : String) (v : Val) (xs : List Val) : Option Val :=
  match lookup op c.cmpOps with
  | some o => some (subqLoop (nullIfAny2 (pyCmp o)) (quantifier == "ANY") v xs false)
  | none => none

/-- the ENV entry SUBQUERY_COMPARISON as PythonExecutor.__init__ registers it: the bound method itself, or (`wrapped`)
    `null_if_any("value")(self._subquery_comparison)`, which answers None for a None probe without looking at the rows -/
def subqueryComparisonEnv (wrapped : Bool) (c : Cfg) (op quantifier : String) (v : Val) (xs : List Val) : Option Val :=
  if wrapped && v.isNull then some .null else subqueryComparison c op quantifier v xs

/-- `x NOT IN (subquery)`: PythonGenerator's `NOT(SUBQUERY_COMPARISON(x, …, 'EQ', 'ANY'))` -/
def notInSubquery (wrapped : Bool) (c : Cfg) (v : Val) (xs : List Val) : Option Val :=
  (subqueryComparisonEnv wrapped c "EQ" "ANY" v xs).map sqlNot

/-! ### _subquery_table: the per-subquery memo keyed by the outer-column values -/

def assocGet {κ β} [DecidableEq κ] (k : κ) : List (κ × β) → Option β
  | [] => none
  | (k', b) :: rest => if k' = k then some b else assocGet k rest

/-- `try: return cache[args]  except KeyError: table = self.execute(plan, scope); cache[args] = table` -/
def memoStep {α κ β} [DecidableEq κ] (key : α → κ) (f : α → β) (cache : List (κ × β)) (a : α) : List (κ × β) × β :=
  match assocGet (key a) cache with
  | some b => (cache, b)
  | none => ((key a, f a) :: cache, f a)

/-- a correlated subquery evaluated once per outer row through the memo -/
def memoRun {α κ β} [DecidableEq κ] (key : α → κ) (f : α → β) : List α → List (κ × β) → List β
  | [], _ => []
  | a :: as, cache => (memoStep key f cache a).2 :: memoRun key f as (memoStep key f cache a).1

/-- how _compile_subquery turns `scope.external_columns` into the SUBQUERY_* argument list = the memo key
    (pinned from the source by the translator) -/
inductive SubqueryArgs where
  /-- `list(scope.external_columns)`: every outer column the subquery reads, table-qualified -/
  | allExternal
  /-- anything else (e.g. de-duplicated by bare column name) -/
  | other
deriving DecidableEq, Repr

/-- env.filter_nulls(func, empty_null) -/
def filterNulls (f : List Val → Val) (emptyNull : Bool) (vs : List Val) : Val :=
  let filtered := vs.filter (!·.isNull)
  if filtered = [] ∧ emptyNull then .null else f filtered

/-- Python `sum` of ints (start 0) -/
def pySum (vs : List Val) : Val := .int (vs.foldl (fun acc v => acc + v.toInt) 0)
/-- `lambda acc: sum(1 for _ in acc)` -/
def pyCount (vs : List Val) : Val := .int (vs.foldl (fun acc _ => acc + 1) 0)
/-- Python `min` / `max` on a non-empty sequence: the first extremal element (`dir` = .lt for min, .gt for max);
    on the empty sequence Python raises ValueError: `.null` stands for it and is unreachable behind filter_nulls(…, True) -/
def pyExtremum (dir : Ordering) : List Val → Val
  | [] => .null
  | v :: vs => vs.foldl (fun m x => if Val.cmp x m = dir then x else m) v

def envCount (c : Cfg) : List Val → Val := filterNulls pyCount c.countEmptyNull
def envSum (c : Cfg) : List Val → Val := filterNulls pySum c.sumEmptyNull
def envMin (c : Cfg) : List Val → Val := filterNulls (pyExtremum .lt) c.minEmptyNull
def envMax (c : Cfg) : List Val → Val := filterNulls (pyExtremum .gt) c.maxEmptyNull

/-! ### ordered() and the sort key -/
/-- second component of the tuple returned by env.ordered -/
inductive OVal where
  | plain (v : Val)
  | rev (v : Val)      -- reverse_key(v)
  | ph (n : Nat)       -- NULL_PLACEHOLDER
deriving DecidableEq, Repr

/-- env.ordered -/
def ordered (c : Cfg) (v : Val) (desc nullsFirst : Bool) : Nat × OVal :=
  if v = .null then (if nullsFirst then c.first else c.last, .ph c.placeholder)
  else (if nullsFirst then c.last else c.first, if desc then .rev v else .plain v)

/-- `a == b` on second components (reverse_key.__eq__: other.obj == self.obj); `none` = Python raises -/
def OVal.eq? : OVal → OVal → Option Bool
  | .plain a, .plain b => some (a = b)
  | .rev a, .rev b => some (b = a)
  | .ph a, .ph b => some (a = b)
  | _, _ => none

/-- `a < b` (reverse_key.__lt__: other.obj < self.obj) -/
def OVal.lt? : OVal → OVal → Option Bool
  | .plain a, .plain b => some (Val.cmp a b = .lt)
  | .rev a, .rev b => some (Val.cmp b a = .lt)
  | .ph a, .ph b => some (a < b)
  | _, _ => none

/-- Python comparison of two 2-tuples, as a three-way result: first differing position decides -/
def tupleCmp (a b : Nat × OVal) : Option Ordering :=
  if a.1 ≠ b.1 then some (if a.1 < b.1 then .lt else .gt)
  else match OVal.eq? a.2 b.2 with
    | none => none
    | some true => some .eq
    | some false =>
      match OVal.lt? a.2 b.2 with
      | none => none
      | some true => some .lt
      | some false => some .gt

/-- one ORDER BY item as the Sort step sees it -/
structure OrdItem where
  col : Nat
  desc : Bool
  nullsFirst : Bool
deriving Repr, DecidableEq

/-- Context.sort's key for a row under Sort.key: `tuple((t is None, t) for t in (ORDERED(col, desc, nf), …))`;
    `t` is a tuple, never None, so only the ordered tuples matter.  Lexicographic; errors (`none`) compare as equal
    (unreachable, see `ordered_key_spec`). -/
def sortKeyCmp (c : Cfg) : List OrdItem → Row → Row → Ordering
  | [], _, _ => .eq
  | it :: its, a, b =>
    match tupleCmp (ordered c (getCol a it.col) it.desc it.nullsFirst) (ordered c (getCol b it.col) it.desc it.nullsFirst) with
    | some .eq | none => sortKeyCmp c its a b
    | some o => o

/-- list.sort(key=…): a stable sort (`Sem.stableSort`) -/
def sortRows (c : Cfg) (items : List OrdItem) (rows : List Row) : List Row :=
  stableSort (fun a b => sortKeyCmp c items a b != .gt) rows

/-- PythonExecutor.sort's slice `rows[0 : offset + limit]` followed by _execute's `rows[offset:]` -/
def sliceLimitOffset (limit : Option Nat) (offset : Nat) (rows : List Row) : List Row :=
  match limit with
  | none => rows.drop offset
  | some n => (rows.take (offset + n)).drop offset

def sortStep (c : Cfg) (items : List OrdItem) (limit : Option Nat) (offset : Nat) (rows : List Row) : List Row :=
  sliceLimitOffset limit offset (sortRows c items rows)

/-- aggregate()'s `context.sort(group_by)`: key `tuple((t is None, t) for t in group key)`: NULLs last, ascending -/
def groupKeyCmp : Key → Key → Ordering
  | [], [] => .eq
  | [], _ :: _ => .lt
  | _ :: _, [] => .gt
  | a :: as, b :: bs =>
    match compare a.isNull b.isNull with
    | .eq => (match Val.cmp a b with
      | .eq => groupKeyCmp as bs
      | o => o)
    | o => o

def sortByGroupKey (keyOf : Row → Key) (rows : List Row) : List Row :=
  stableSort (fun a b => groupKeyCmp (keyOf a) (keyOf b) != .gt) rows

/-! ## python.py: joins -/

/-- enumerate(rows, start=n) -/
def enumFrom {α} (n : Nat) : List α → List (Nat × α)
  | [] => []
  | a :: as => (n, a) :: enumFrom (n + 1) as

/-- PythonExecutor._join_matches: no condition, or `condition(row) is True` -/
def joinMatches (cond : Option (Row → Val)) (row : Row) : Bool :=
  match cond with
  | none => true
  | some f => f row = .bool true

/-- _append_unmatched_join_rows.  `width` = len(table.columns); matched index sets as lists (`index not in set`). -/
def appendUnmatched (c : Cfg) (side : String) (width : Nat) (srcRows jnRows : List Row)
    (matchedSrc matchedJn : List Nat) : List Row :=
  (if c.leftSides.contains side then
    let joinNulls := nulls (match srcRows with | [] => 0 | r :: _ => width - r.length)
    ((enumFrom 0 srcRows).filter fun e => !matchedSrc.contains e.1).map fun e => e.2 ++ joinNulls
   else [])
  ++
  (if c.rightSides.contains side then
    let sourceNulls := nulls (width - (match jnRows with | [] => 0 | r :: _ => r.length))
    ((enumFrom 0 jnRows).filter fun e => !matchedJn.contains e.1).map fun e => sourceNulls ++ e.2
   else [])

/-- `join["side"]` as the planner stores it (`exp.Join.side`: upper-cased text, "" for an inner join) -/
def sideStr : Side → String
  | .inner => ""
  | .left => "LEFT"
  | .right => "RIGHT"
  | .full => "FULL"

abbrev Hit := (Nat × Row) × (Nat × Row)

/-- the double loop of nested_loop_join: all (source, join) pairs in loop order that satisfy `m` -/
def nestedHits (m : Row → Row → Bool) (srcRows jnRows : List Row) : List Hit :=
  (enumFrom 0 srcRows).flatMap fun s => ((enumFrom 0 jnRows).filter fun j => m s.2 j.2).map fun j => (s, j)

def finishJoin (c : Cfg) (side : String) (width : Nat) (srcRows jnRows : List Row) (hits : List Hit) : List Row :=
  hits.map (fun h => h.1.2 ++ h.2.2)
    ++ appendUnmatched c side width srcRows jnRows (hits.map (·.1.1)) (hits.map (·.2.1))

/-- PythonExecutor.nested_loop_join with the pair test `m s j` (= _join_matches(s + j, condition, …)) -/
def nestedLoopJoin (c : Cfg) (side : String) (width : Nat) (m : Row → Row → Bool) (srcRows jnRows : List Row) : List Row :=
  finishJoin c side width srcRows jnRows (nestedHits m srcRows jnRows)

/-- `results = defaultdict(lambda: ([], []))`: insertion-ordered keys + total lookup -/
structure Buckets where
  keys : List Key
  get : Key → List (Nat × Row) × List (Nat × Row)

def Buckets.empty : Buckets := ⟨[], fun _ => ([], [])⟩

def keyOk (k : Key) : Bool := k.all (!·.isNull)

def Buckets.touch (d : Buckets) (k : Key) : List Key := if d.keys.contains k then d.keys else d.keys ++ [k]

/-- `results[key][0].append(entry)` -/
def Buckets.addSrc (d : Buckets) (k : Key) (e : Nat × Row) : Buckets :=
  ⟨d.touch k, fun k' => if k' = k then ((d.get k).1 ++ [e], (d.get k).2) else d.get k'⟩

/-- `results[key][1].append(entry)` -/
def Buckets.addJn (d : Buckets) (k : Key) (e : Nat × Row) : Buckets :=
  ⟨d.touch k, fun k' => if k' = k then ((d.get k).1, (d.get k).2 ++ [e]) else d.get k'⟩

def buildSrc (ks : Row → Key) : List (Nat × Row) → Buckets → Buckets
  | [], d => d
  | e :: es, d => buildSrc ks es (if keyOk (ks e.2) then d.addSrc (ks e.2) e else d)

def buildJn (kj : Row → Key) : List (Nat × Row) → Buckets → Buckets
  | [], d => d
  | e :: es, d => buildJn kj es (if keyOk (kj e.2) then d.addJn (kj e.2) e else d)

/-- itertools.product(a, b) -/
def product {α β} (a : List α) (b : List β) : List (α × β) := a.flatMap fun x => b.map fun y => (x, y)

def hashPairs (ks kj : Row → Key) (srcRows jnRows : List Row) : List Hit :=
  let d := buildJn kj (enumFrom 0 jnRows) (buildSrc ks (enumFrom 0 srcRows) Buckets.empty)
  d.keys.flatMap fun k => product (d.get k).1 (d.get k).2

/-- PythonExecutor.hash_join: key functions `ks` (source_key on a source row), `kj` (join_key on a join row),
    residual condition on the concatenated row -/
def hashJoin (c : Cfg) (side : String) (width : Nat) (ks kj : Row → Key) (cond : Option (Row → Val))
    (srcRows jnRows : List Row) : List Row :=
  finishJoin c side width srcRows jnRows
    ((hashPairs ks kj srcRows jnRows).filter fun h => joinMatches cond (h.1.2 ++ h.2.2))

/-- what ON k₁ = k₁' AND … AND residual decides for a pair: every key component non-NULL and equal, residual is True -/
def keyMatch (ks kj : Row → Key) (l r : Row) : Bool := keyOk (ks l) && keyOk (kj r) && (ks l == kj r)

/-! ## python.py: aggregate() -/

/-- rows[i] for i in range(a, b) (RangeReader); truncating like a slice -/
def slice (rows : List Row) (a b : Nat) : List Row := (rows.drop a).take (b - a)

structure AggSt where
  group : Option Key
  start : Nat
  end_ : Nat
  out : List Row

def capReached (cap : Option Nat) (out : List Row) : Bool :=
  match cap with
  | none => false
  | some n => decide (out.length ≥ n)

/-- the `for i in range(length)` loop of aggregate(); `todo` = rows[i:].
    `cap` = `offset + limit` when the break test applies (`not step.condition` and limit finite), else none. -/
def aggLoop (c : Cfg) (keyOf : Row → Key) (agg : List Row → Row) (rows : List Row) (cap : Option Nat) :
    Nat → List Row → AggSt → List Row
  | _, [], st => st.out
  | i, r :: rest, st =>
    let key := keyOf r
    let group := st.group.getD key
    let end_ := st.end_ + 1
    let changed := key ≠ group
    let out1 := if changed then st.out ++ [group ++ agg (slice rows st.start (end_ - c.aggEmitOff))] else st.out
    let group1 := if changed then key else group
    let start1 := if changed then end_ - c.aggStartOff else st.start
    if capReached cap out1 then out1
    else
      let out2 := if i = rows.length - 1 then out1 ++ [group1 ++ agg (slice rows start1 (end_ - c.aggLastOff))] else out1
      aggLoop c keyOf agg rows cap (i + 1) rest ⟨some group1, start1, end_, out2⟩

/-- aggregate() after `context.sort(group_by)`: `rows` is the sorted table.
    `hasGroupBy` = bool(group_by); `limit` = step.limit (none = inf). -/
def aggregateSorted (c : Cfg) (keyOf : Row → Key) (agg : List Row → Row) (hasGroupBy : Bool)
    (cap : Option Nat) (limit : Option Nat) (rows : List Row) : List Row :=
  if rows.length ≠ 0 then
    aggLoop c keyOf agg rows cap 0 rows ⟨none, c.aggStart, c.aggEnd, []⟩
  else if (match limit with | none => true | some n => decide (n > 0)) && !hasGroupBy then
    [agg []]
  else []

def aggregate (c : Cfg) (keyOf : Row → Key) (agg : List Row → Row) (hasGroupBy : Bool)
    (cap : Option Nat) (limit : Option Nat) (rows : List Row) : List Row :=
  aggregateSorted c keyOf agg hasGroupBy cap limit (sortByGroupKey keyOf rows)

/-! ## python.py: join()'s shared rows list and aggregate()'s operand widening (aliasing) -/

/-- join() returns one Table object per joined table, all built over ONE rows list
    (`Table(table.columns, table.rows, column_range)`).  A small heap: list objects by address, and for each table of
    the context the address its `rows` attribute holds; `views[0]` is `context.table` (the first table). -/
structure Heap where
  cells : List (List Row)
  views : List Nat
deriving Repr, DecidableEq

def Heap.addr (h : Heap) (v : Nat) : Nat := h.views.getD v 0

/-- the rows a table's readers see -/
def Heap.read (h : Heap) (v : Nat) : List Row := h.cells.getD (h.addr v) []

/-- the context join() hands on: `n` tables sharing the joined rows -/
def Heap.ofJoin (rows : List Row) (n : Nat) : Heap := ⟨[rows], List.replicate n 0⟩

def widened (rows ops : List Row) : List Row := List.zipWith (· ++ ·) rows ops

/-- how aggregate() attaches the operand columns to the rows (pinned from the source by the translator) -/
inductive WidenForm where
  /-- `for i, (a, b) in enumerate(zip(context.table.rows, operand_table.rows)): context.table.rows[i] = a + b`:
      subscript stores into the list object the first table holds -/
  | subscriptStore
  /-- `context.table.rows = [a + b for …]`: a NEW list object, bound to the first table's attribute only -/
  | attributeRebind
deriving DecidableEq, Repr

def Heap.widen (form : WidenForm) (h : Heap) (ops : List Row) : Heap :=
  match form with
  | .subscriptStore => ⟨h.cells.set (h.addr 0) (widened (h.read 0) ops), h.views⟩
  | .attributeRebind => ⟨h.cells ++ [widened (h.read 0) ops], h.views.set 0 h.cells.length⟩

/-- Context.sort: `self.table.rows.sort(key=…)`, in place on the list object the first table holds -/
def Heap.sortInPlace (h : Heap) (keyOf : Row → Key) : Heap :=
  ⟨h.cells.set (h.addr 0) (sortByGroupKey keyOf (h.read 0)), h.views⟩

/-! ## python.py: scan / static / _project_and_filter -/

/-- PythonExecutor._project_and_filter.  `for reader in table_iter:` with
    `if len(sink) >= step.offset + step.limit: break` (cap = offset + limit, none = inf),
    `if condition and not context.eval(condition): continue` (Python truthiness),
    `sink.append(context.eval_tuple(projections))` or `sink.append(reader.row)` without projections. -/
def projectFilterLoop (cond : Option (Row → Val)) (projs : Option (Row → Row)) (cap : Option Nat) :
    List Row → List Row → List Row
  | [], sink => sink
  | row :: rest, sink =>
    if capReached cap sink then sink
    else if !keeps cond row then projectFilterLoop cond projs cap rest sink
    else projectFilterLoop cond projs cap rest (sink ++ [projRow projs row])

def projectFilter (cond : Option (Row → Val)) (projs : Option (Row → Row)) (cap : Option Nat) (rows : List Row) : List Row :=
  projectFilterLoop cond projs cap rows []

/-- where a Scan step reads from: `static()` yields one empty row (SELECT without FROM), `scan_table` the table's rows -/
inductive ScanSource where
  | static
  | table (rows : List Row)

/-- PythonExecutor.scan for a leaf Scan step (source not in the context: a base table or nothing) -/
def scan (src : ScanSource) (cond : Option (Row → Val)) (projs : Option (Row → Row)) (cap : Option Nat) : List Row :=
  projectFilter cond projs cap (match src with | .static => [[]] | .table rows => rows)

/-- `_execute`: `if node.offset: table.rows = table.rows[node.offset:]` -/
def applyOffset (offset : Nat) (rows : List Row) : List Row := rows.drop offset

def capOf (limit : Option Nat) (offset : Nat) : Option Nat := limit.map (offset + ·)

/-! ## python.py: set_operation() -/

/-- collections.Counter as a total map (missing = 0) -/
abbrev Counter := Row → Nat
def Counter.ofRows (rows : List Row) : Counter := fun r => rows.count r
def Counter.dec (c : Counter) (r : Row) : Counter := fun r' => if r' = r then c r - 1 else c r'

def intersectLoop (distinct : Bool) : List Row → Counter → List Row → List Row
  | [], _, _ => []
  | row :: rest, rc, seen =>
    if rc row ≠ 0 ∧ (!distinct ∨ ¬ row ∈ seen) then
      row :: intersectLoop distinct rest (if !distinct then rc.dec row else rc) (row :: seen)
    else intersectLoop distinct rest rc seen

def exceptLoop (distinct : Bool) : List Row → Counter → List Row → List Row
  | [], _, _ => []
  | row :: rest, rc, seen =>
    if rc row ≠ 0 ∧ !distinct then exceptLoop distinct rest (rc.dec row) seen
    else if rc row = 0 ∧ (!distinct ∨ ¬ row ∈ seen) then row :: exceptLoop distinct rest rc (row :: seen)
    else exceptLoop distinct rest rc seen

inductive SetOp where
  | union | intersect | except
deriving DecidableEq, Repr

/-- set_operation() before its limit slice.  UNION DISTINCT is `list(set(l) | set(r))`: some enumeration without
    repetition (Python's order is hash order; compared as a multiset) -/
def setOperation (op : SetOp) (distinct : Bool) (l r : List Row) : List Row :=
  match op with
  | .intersect => intersectLoop distinct l (Counter.ofRows r) []
  | .except => exceptLoop distinct l (Counter.ofRows r) []
  | .union => if distinct then dedup (l ++ r) else l ++ r

end SqlglotModel.Exec
