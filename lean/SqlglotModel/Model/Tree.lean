/-
  Model/Tree.lean — pointer heap model of `sqlglot.expressions.core.Expression` (C08, C09).

  A heap maps node ids to records `{cls, raw, args, parent, argKey, index, hash}`:
    * `args`   : the `args` dict as an association list in insertion order (values: one child id, a scalar,
                 or a python list whose items are child ids / scalars),
    * `parent`, `argKey`, `index` : the back pointers `Expression.parent / arg_key / index`,
    * `hash`   : the memo `Expression._hash` (`none` = `None`).

  Mirrored exactly (sqlglot/expressions/core.py): `_set_parent`, `set` (no index; index + None / list / overwrite /
  insert, including the two early returns that happen *after* the invalidation loop), `append`, `replace`
  (except the "replace a scalar arg by a list => replace the parent" recursion: `none`), `pop`, the invalidation
  loop with its early exit, `__hash__` (bottom-up fill, `_hash_raw_args`, the list branch with None/False, `lower()`),
  `__eq__`.  `__deepcopy__` is mirrored by its *result* (fresh ids in pre-order, parent links as `set`/`append`
  leave them, `_hash` kept exactly on the nodes on which the copy performs no `set`/`append`), not by its stack loop.

  Python's `hash` is abstracted by the uninterpreted functions of `HashFns` (any type `H` of hash values).
  A result `none` stands for "no heap returned": fuel exhausted (a non-terminating loop in Python), an internal
  Python exception (e.g. `str.index`), or a path that is deliberately not modelled.

  No proofs here (see Proofs/Tree.lean); no Mathlib.
-/
namespace SqlglotModel.Tree

abbrev Id := Nat

inductive Scalar where
  | none
  | bool (b : Bool)
  | int (i : Int)
  | str (s : String)
  deriving DecidableEq, Repr, Inhabited

inductive Item where
  | node (id : Id)
  | leaf (s : Scalar)
  deriving DecidableEq, Repr, Inhabited

inductive Arg where
  | one (id : Id)
  | leaf (s : Scalar)
  | many (items : List Item)
  deriving DecidableEq, Repr, Inhabited

/-- what can be passed as `value` to `set` / `replace` -/
inductive Value where
  | none
  | leaf (s : Scalar)
  | node (id : Id)
  | list (items : List Item)
  deriving DecidableEq, Repr, Inhabited

structure Node (H : Type) where
  cls : String
  raw : Bool
  args : List (String × Arg)
  parent : Option Id
  argKey : Option String
  index : Option Nat
  hash : Option H

def blank {H : Type} : Node H :=
  { cls := "", raw := false, args := [], parent := none, argKey := none, index := none, hash := none }

abbrev Heap (H : Type) := Id → Node H

def empty {H : Type} : Heap H := fun _ => blank

section
variable {H : Type}

def upd (h : Heap H) (i : Id) (f : Node H → Node H) : Heap H :=
  fun j => if j = i then f (h j) else h j

def setPtr (h : Heap H) (c : Id) (p : Option Id) (k : Option String) (i : Option Nat) : Heap H :=
  upd h c (fun nd => { nd with parent := p, argKey := k, index := i })

def setIndex (h : Heap H) (c : Id) (i : Option Nat) : Heap H :=
  upd h c (fun nd => { nd with index := i })

def setHash (h : Heap H) (n : Id) (x : Option H) : Heap H :=
  upd h n (fun nd => { nd with hash := x })

def setArgs (h : Heap H) (n : Id) (args : List (String × Arg)) : Heap H :=
  upd h n (fun nd => { nd with args := args })

/-! ### the `args` dict -/

def getKey (k : String) : List (String × Arg) → Option Arg
  | [] => none
  | (k', a) :: r => if k' = k then some a else getKey k r

def hasKey (k : String) (args : List (String × Arg)) : Bool := args.any (fun e => e.1 == k)

/-- `d[k] = a` : in place when the key exists, appended otherwise -/
def setKey (k : String) (a : Arg) (args : List (String × Arg)) : List (String × Arg) :=
  if hasKey k args then args.map (fun e => if e.1 = k then (k, a) else e) else args ++ [(k, a)]

/-- `d.pop(k, None)` -/
def delKey (k : String) (args : List (String × Arg)) : List (String × Arg) :=
  args.filter (fun e => e.1 != k)

/-! ### where children are stored -/

/-- argument value `a` holds child `c` at list position `i` (`none` for a scalar argument) -/
def ArgHas (a : Arg) (i : Option Nat) (c : Id) : Prop :=
  match a, i with
  | .one c', none => c' = c
  | .many items, some j => items[j]? = some (.node c)
  | _, _ => False

/-- node `p` stores child `c` under argument `k` at position `i` -/
def Stored (h : Heap H) (p : Id) (k : String) (i : Option Nat) (c : Id) : Prop :=
  ∃ a, getKey k (h p).args = some a ∧ ArgHas a i c

def Unstored (h : Heap H) (c : Id) : Prop := ∀ p k i, ¬ Stored h p k i c

/-- the association list behaves like a dict: every entry is the one `d[k]` finds -/
def KeysUnique (args : List (String × Arg)) : Prop := ∀ k a, (k, a) ∈ args → getKey k args = some a

def ItemsDistinct (items : List Item) : Prop :=
  items.Pairwise (fun a b => ∀ c, a = .node c → b ≠ .node c)

def itemIds : List Item → List Id
  | [] => []
  | .node c :: r => c :: itemIds r
  | .leaf _ :: r => itemIds r

def argIds : Arg → List Id
  | .one c => [c]
  | .leaf _ => []
  | .many items => itemIds items

def childIds : List (String × Arg) → List Id
  | [] => []
  | (_, a) :: r => argIds a ++ childIds r

/-! ### `_set_parent` -/

def setParentItems (self : Id) (k : String) : Nat → List Item → Heap H → Heap H
  | _, [], h => h
  | i, .node c :: r, h => setParentItems self k (i + 1) r (setPtr h c (some self) (some k) (some i))
  | i, .leaf _ :: r, h => setParentItems self k (i + 1) r h

/-- `self._set_parent(arg_key, value, index)` -/
def setParent (self : Id) (k : String) (v : Value) (index : Option Nat) (h : Heap H) : Heap H :=
  match v with
  | .node c => setPtr h c (some self) (some k) index
  | .list items => setParentItems self k 0 items h
  | _ => h

/-! ### the invalidation loop  `while node and node._hash is not None: node._hash = None; node = node.parent` -/

def inval : Nat → Heap H → Option Id → Option (Heap H)
  | _, h, none => some h
  | 0, _, some _ => none
  | f + 1, h, some n =>
    match (h n).hash with
    | none => some h
    | some _ => inval f (setHash h n none) (h n).parent

/-! ### `set` -/

/-- Python truthiness of a scalar -/
def truthy : Scalar → Bool
  | .none => false
  | .bool b => b
  | .int i => i != 0
  | .str s => s != ""

/-- `for v in expressions[index:]: v.index = v.index - 1` (a scalar item has no `.index`: AttributeError) -/
def decrIdx : Heap H → List Item → Option (Heap H)
  | h, [] => some h
  | _, .leaf _ :: _ => none
  | h, .node c :: r =>
    match (h c).index with
    | some (j + 1) => decrIdx (setIndex h c (some j)) r
    | _ => none

def itemOfValue : Value → List Item
  | .node c => [.node c]
  | .leaf s => [.leaf s]
  | .list vs => vs
  | .none => []

/-- the list that `set(arg_key, value, index, overwrite)` leaves in `args[arg_key]` (value not None) -/
def spliced (items : List Item) (i : Nat) (v : Value) (overwrite : Bool) : List Item :=
  match v with
  | .list vs => items.take i ++ vs ++ items.drop (i + 1)
  | _ => if overwrite then items.take i ++ itemOfValue v ++ items.drop (i + 1)
         else items.take i ++ itemOfValue v ++ items.drop i

/-- `set(k, v, index)` when `args[k]` is a scalar: `args.get(k) or []` turns a falsy scalar into `[]` (early return);
    a non-empty `str` answers `seq_get` (early return when out of range, else the list surgery raises);
    any other truthy scalar is not subscriptable (TypeError) -/
def setOnScalar (h : Heap H) (s : Scalar) (i : Nat) : Option (Heap H) :=
  if truthy s then
    match s with
    | .str t => if i < t.length then none else some h
    | _ => none
  else some h

/-- the part of `set` after the invalidation loop -/
def setCore (h : Heap H) (self : Id) (k : String) (v : Value) (index : Option Nat) (overwrite : Bool) :
    Option (Heap H) :=
  match index with
  | some i =>
    match getKey k (h self).args with
    | none => some h
    | some (.many items) =>
      match items[i]? with
      | none => some h
      | some (.leaf .none) => some h
      | some _ =>
        match v with
        | .none =>
          match decrIdx h (items.drop (i + 1)) with
          | some h' => some (setArgs h' self (setKey k (.many (items.take i ++ items.drop (i + 1))) (h self).args))
          | none => none
        | _ =>
          let l := spliced items i v overwrite
          some (setParentItems self k 0 l (setArgs h self (setKey k (.many l) (h self).args)))
    | some (.leaf s) => setOnScalar h s i
    | some (.one _) => none
  | none =>
    match v with
    | .none => some (setArgs h self (delKey k (h self).args))
    | .leaf s => some (setArgs h self (setKey k (.leaf s) (h self).args))
    | .node c => some (setPtr (setArgs h self (setKey k (.one c) (h self).args)) c (some self) (some k) none)
    | .list items => some (setParentItems self k 0 items (setArgs h self (setKey k (.many items) (h self).args)))

def opSet (fuel : Nat) (h : Heap H) (self : Id) (k : String) (v : Value) (index : Option Nat) (overwrite : Bool) :
    Option (Heap H) :=
  match inval fuel h (some self) with
  | some h1 => setCore h1 self k v index overwrite
  | none => none

/-! ### `append` -/

def listOf (k : String) (args : List (String × Arg)) : List Item :=
  match getKey k args with
  | some (.many items) => items
  | _ => []

def appendCore (h : Heap H) (self : Id) (k : String) (it : Item) : Heap H :=
  let items := listOf k (h self).args
  let h1 := setArgs h self (setKey k (.many (items ++ [it])) (h self).args)
  match it with
  | .node c => setPtr h1 c (some self) (some k) (some items.length)
  | .leaf _ => h1

def opAppend (fuel : Nat) (h : Heap H) (self : Id) (k : String) (it : Item) : Option (Heap H) :=
  match inval fuel h (some self) with
  | some h1 => some (appendCore h1 self k it)
  | none => none

/-! ### `replace` / `pop` -/

def clearPtr (h : Heap H) (n : Id) : Heap H := setPtr h n none none none

def isListValue : Value → Bool
  | .list _ => true
  | _ => false

def isOne : Option Arg → Bool
  | some (.one _) => true
  | _ => false

def opReplace (fuel : Nat) (h : Heap H) (self : Id) (v : Value) : Option (Heap H) :=
  match (h self).parent with
  | none => some h
  | some p =>
    if v = .node p then some h
    else
      match (h self).argKey with
      | none => some (if v = .node self then h else clearPtr h self)
      | some k =>
        if isListValue v && isOne (getKey k (h p).args) then none
        else
          match opSet fuel h p k v (h self).index true with
          | some h' => some (if v = .node self then h' else clearPtr h' self)
          | none => none

def opPop (fuel : Nat) (h : Heap H) (self : Id) : Option (Heap H) := opReplace fuel h self .none

/-! ### construction: `cls()` — arguments are then given by `set` (what `__init__` does, minus the no-op invalidation) -/

def opNew (h : Heap H) (id : Id) (cls : String) (raw : Bool) : Heap H :=
  upd h id (fun _ => { blank with cls := cls, raw := raw })

/-! ### `__hash__` -/

structure HashFns (H : Type) where
  init : String → H
  mixS : H → String → Scalar → H
  mixH : H → String → H → H
  mixK : H → String → H
  lower : String → String

/-- `x is None or x is False` -/
def dropped : Scalar → Bool
  | .none => true
  | .bool false => true
  | _ => false

def normS (F : HashFns H) : Scalar → Scalar
  | .str s => .str (F.lower s)
  | x => x

def hashItems (F : HashFns H) (ch : Id → Option H) (k : String) : H → List Item → Option H
  | acc, [] => some acc
  | acc, .node c :: r =>
    match ch c with
    | some x => hashItems F ch k (F.mixH acc k x) r
    | none => none
  | acc, .leaf s :: r =>
    if dropped s then hashItems F ch k (F.mixK acc k) r
    else hashItems F ch k (F.mixS acc k (normS F s)) r

def hashArg (F : HashFns H) (ch : Id → Option H) (raw : Bool) (k : String) (acc : H) : Arg → Option H
  | .one c =>
    match ch c with
    | some x => some (F.mixH acc k x)
    | none => none
  | .leaf s =>
    if raw then (if truthy s then some (F.mixS acc k s) else some acc)
    else (if dropped s then some acc else some (F.mixS acc k (normS F s)))
  | .many items =>
    if raw then (if items.isEmpty then some acc else none)
    else hashItems F ch k acc items

def hashArgs (F : HashFns H) (ch : Id → Option H) (raw : Bool) : H → List (String × Arg) → Option H
  | acc, [] => some acc
  | acc, (k, a) :: r =>
    match hashArg F ch raw k acc a with
    | some acc' => hashArgs F ch raw acc' r
    | none => none

def insertArg (e : String × Arg) : List (String × Arg) → List (String × Arg)
  | [] => [e]
  | x :: r => if e.1 < x.1 then e :: x :: r else x :: insertArg e r

/-- `for k in sorted(node.args)` -/
def sortArgs : List (String × Arg) → List (String × Arg)
  | [] => []
  | e :: r => insertArg e (sortArgs r)

/-- the hash of one node from its own fields and the (cached) hashes of its children -/
def hashNode (F : HashFns H) (nd : Node H) (ch : Id → Option H) : Option H :=
  hashArgs F ch nd.raw (F.init nd.cls) (sortArgs nd.args)

def foldOpt (g : Heap H → Id → Option (Heap H)) : Heap H → List Id → Option (Heap H)
  | h, [] => some h
  | h, c :: r =>
    match g h c with
    | some h' => foldOpt g h' r
    | none => none

/-- `__hash__`: fill the caches of `n` and of every uncached descendant reachable through uncached nodes, bottom-up -/
def fill (F : HashFns H) : Nat → Heap H → Id → Option (Heap H)
  | 0, _, _ => none
  | f + 1, h, n =>
    match (h n).hash with
    | some _ => some h
    | none =>
      match foldOpt (fill F f) h (childIds (h n).args) with
      | none => none
      | some h1 =>
        match hashNode F (h1 n) (fun c => (h1 c).hash) with
        | some x => some (setHash h1 n (some x))
        | none => none

/-- from-scratch recomputation that ignores every cache -/
def recompute (F : HashFns H) : Nat → Heap H → Id → Option H
  | 0, _, _ => none
  | f + 1, h, n => hashNode F (h n) (fun c => recompute F f h c)

/-- `a == b` : `a is b or (type(a) is type(b) and hash(a) == hash(b))` -/
def opEq [DecidableEq H] (F : HashFns H) (fuel : Nat) (h : Heap H) (a b : Id) : Option (Heap H × Bool) :=
  if a = b then some (h, true)
  else if (h a).cls ≠ (h b).cls then some (h, false)
  else
    match fill F fuel h a with
    | none => none
    | some h1 =>
      match fill F fuel h1 b with
      | none => none
      | some h2 => some (h2, decide ((h2 a).hash = (h2 b).hash))

/-! ### `__deepcopy__` (by result) -/

/-- the copy performs no `set`/`append` on a node whose args hold no child and no non-empty list -/
def keepsHash : List (String × Arg) → Bool
  | [] => true
  | (_, .leaf _) :: r => keepsHash r
  | (_, .many []) :: r => keepsHash r
  | _ :: _ => false

def copyItems (cp : Heap H → Nat → Id → Option (Heap H × Nat × Id)) (me : Id) (k : String) :
    Nat → Heap H → Nat → List Item → Option (Heap H × Nat × List Item)
  | _, h, nx, [] => some (h, nx, [])
  | i, h, nx, .leaf s :: r =>
    match copyItems cp me k (i + 1) h nx r with
    | some (h', nx', r') => some (h', nx', .leaf s :: r')
    | none => none
  | i, h, nx, .node c :: r =>
    match cp h nx c with
    | none => none
    | some (h1, nx1, c') =>
      match copyItems cp me k (i + 1) (setPtr h1 c' (some me) (some k) (some i)) nx1 r with
      | some (h', nx', r') => some (h', nx', .node c' :: r')
      | none => none

def copyArgs (cp : Heap H → Nat → Id → Option (Heap H × Nat × Id)) (me : Id) :
    Heap H → Nat → List (String × Arg) → Option (Heap H × Nat × List (String × Arg))
  | h, nx, [] => some (h, nx, [])
  | h, nx, (k, .leaf s) :: r =>
    match copyArgs cp me h nx r with
    | some (h', nx', r') => some (h', nx', (k, .leaf s) :: r')
    | none => none
  | h, nx, (k, .one c) :: r =>
    match cp h nx c with
    | none => none
    | some (h1, nx1, c') =>
      match copyArgs cp me (setPtr h1 c' (some me) (some k) none) nx1 r with
      | some (h', nx', r') => some (h', nx', (k, .one c') :: r')
      | none => none
  | h, nx, (k, .many items) :: r =>
    match copyItems cp me k 0 h nx items with
    | none => none
    | some (h1, nx1, items') =>
      match copyArgs cp me h1 nx1 r with
      | some (h', nx', r') => some (h', nx', (k, .many items') :: r')
      | none => none

/-- copy the tree below `n` into the fresh ids `nx, nx+1, …` (pre-order); returns the new heap, the next free id
    and the id of the copy -/
def copyNode : Nat → Heap H → Nat → Id → Option (Heap H × Nat × Id)
  | 0, _, _, _ => none
  | f + 1, h, nx, n =>
    match copyArgs (copyNode f) nx h (nx + 1) (h n).args with
    | none => none
    | some (h1, nx1, args') =>
      let nd : Node H :=
        { cls := (h n).cls, raw := (h n).raw, args := args', parent := none, argKey := none, index := none,
          hash := if keepsHash (h n).args then (h n).hash else none }
      some (upd h1 nx (fun _ => nd), nx1, nx)

def opCopy (fuel : Nat) (h : Heap H) (n : Id) (base : Nat) : Option (Heap H × Nat × Id) :=
  copyNode fuel h base n

/-! ### histories -/

inductive Op where
  | new (id : Id) (cls : String) (raw : Bool)
  | set (self : Id) (k : String) (v : Value) (index : Option Nat) (overwrite : Bool)
  | append (self : Id) (k : String) (it : Item)
  | replace (self : Id) (v : Value)
  | pop (self : Id)
  | hash (n : Id)
  | eq (a b : Id)
  | copy (n : Id) (base : Nat)
  deriving Repr

def step [DecidableEq H] (F : HashFns H) (fuel : Nat) (h : Heap H) : Op → Option (Heap H)
  | .new id cls raw => some (opNew h id cls raw)
  | .set self k v index ow => opSet fuel h self k v index ow
  | .append self k it => opAppend fuel h self k it
  | .replace self v => opReplace fuel h self v
  | .pop self => opPop fuel h self
  | .hash n => fill F fuel h n
  | .eq a b => (opEq F fuel h a b).map (·.1)
  | .copy n base => (opCopy fuel h n base).map (·.1)

def run [DecidableEq H] (F : HashFns H) (fuel : Nat) : Heap H → List Op → Option (Heap H)
  | h, [] => some h
  | h, op :: ops =>
    match step F fuel h op with
    | some h' => run F fuel h' ops
    | none => none

/-! ### a concrete, collision-free hash: the free term algebra (used by the driver and for non-vacuity) -/

inductive HT where
  | init (cls : String)
  | mixS (h : HT) (k : String) (s : Scalar)
  | mixH (h : HT) (k : String) (x : HT)
  | mixK (h : HT) (k : String)
  deriving DecidableEq, Repr

def freeHash : HashFns HT :=
  { init := .init, mixS := .mixS, mixH := .mixH, mixK := .mixK, lower := String.toLower }

end

end SqlglotModel.Tree
