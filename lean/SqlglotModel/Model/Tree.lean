/-
  Model/Tree.lean — pointer heap model of `sqlglot.expressions.core.Expression` (C08, C09).

  A heap maps node ids to records `{cls, raw, args, parent, argKey, index, hash}`:
    * `args`   : the `args` dict as an association list in insertion order (values: one child id, a scalar,
                 or a python list whose items are child ids / scalars),
    * `parent`, `argKey`, `index` : the back pointers `Expression.parent / arg_key / index`,
    * `hash`   : the memo `Expression._hash` (`none` = `None`).

  Mirrored exactly (sqlglot/expressions/core.py): `_set_parent`, `set` (no index; index + None / list / overwrite /
  insert, including the two early returns that happen *after* the invalidation loop), `append`, `replace`
  (except the "replace a scalar arg by a list => replace the parent" recursion: `none`), `pop`, the invalidation
  loop with its early exit, `__hash__` (bottom-up fill, `_hash_raw_args`, the list branch with None/False, `lower()`),
  `__eq__`, the iterative `__deepcopy__` (its explicit stack, `copy._hash = node._hash`, `copy.set` / `copy.append` /
  `copy.args[k] = …`; the deep copies of `comments`, `_type`, `_meta` are not modelled), the walk of `transform` and the
  loops of `replace_children` (parametric in the user function), `set(k, None, index<0)` in both its variants.

  Python's `hash` is abstracted by the uninterpreted functions of `HashFns` (any type `H` of hash values).
  A result `none` stands for "no heap returned": fuel exhausted (a non-terminating loop in Python), an internal
  Python exception (e.g. `str.index`), or a path that is deliberately not modelled.

  No proofs here (see Proofs/Tree.lean); no Mathlib.
-/
namespace SqlglotModel.Tree

abbrev Id := Nat

inductive Scalar where
  | none
  | bool (b : Bool)
  | int (i : Int)
  | str (s : String)
  deriving DecidableEq, Repr, Inhabited

inductive Item where
  | node (id : Id)
  | leaf (s : Scalar)
  deriving DecidableEq, Repr, Inhabited

inductive Arg where
  | one (id : Id)
  | leaf (s : Scalar)
  | many (items : List Item)
  deriving DecidableEq, Repr, Inhabited

/-- what can be passed as `value` to `set` / `replace` -/
inductive Value where
  | none
  | leaf (s : Scalar)
  | node (id : Id)
  | list (items : List Item)
  deriving DecidableEq, Repr, Inhabited

structure Node (H : Type) where
  cls : String
  raw : Bool
  args : List (String × Arg)
  parent : Option Id
  argKey : Option String
  index : Option Nat
  hash : Option H

def blank {H : Type} : Node H :=
  { cls := "", raw := false, args := [], parent := none, argKey := none, index := none, hash := none }

abbrev Heap (H : Type) := Id → Node H

def empty {H : Type} : Heap H := fun _ => blank

section
variable {H : Type}

def upd (h : Heap H) (i : Id) (f : Node H → Node H) : Heap H :=
  fun j => if j = i then f (h j) else h j

def setPtr (h : Heap H) (c : Id) (p : Option Id) (k : Option String) (i : Option Nat) : Heap H :=
  upd h c (fun nd => { nd with parent := p, argKey := k, index := i })

def setIndex (h : Heap H) (c : Id) (i : Option Nat) : Heap H :=
  upd h c (fun nd => { nd with index := i })

def setHash (h : Heap H) (n : Id) (x : Option H) : Heap H :=
  upd h n (fun nd => { nd with hash := x })

def setArgs (h : Heap H) (n : Id) (args : List (String × Arg)) : Heap H :=
  upd h n (fun nd => { nd with args := args })

/-! ### the `args` dict -/

def getKey (k : String) : List (String × Arg) → Option Arg
  | [] => none
  | (k', a) :: r => if k' = k then some a else getKey k r

def hasKey (k : String) (args : List (String × Arg)) : Bool := args.any (fun e => e.1 == k)

/-- `d[k] = a` : in place when the key exists, appended otherwise -/
def setKey (k : String) (a : Arg) (args : List (String × Arg)) : List (String × Arg) :=
  if hasKey k args then args.map (fun e => if e.1 = k then (k, a) else e) else args ++ [(k, a)]

/-- `d.pop(k, None)` -/
def delKey (k : String) (args : List (String × Arg)) : List (String × Arg) :=
  args.filter (fun e => e.1 != k)

/-! ### where children are stored -/

/-- argument value `a` holds child `c` at list position `i` (`none` for a scalar argument) -/
def ArgHas (a : Arg) (i : Option Nat) (c : Id) : Prop :=
  match a, i with
  | .one c', none => c' = c
  | .many items, some j => items[j]? = some (.node c)
  | _, _ => False

/-- node `p` stores child `c` under argument `k` at position `i` -/
def Stored (h : Heap H) (p : Id) (k : String) (i : Option Nat) (c : Id) : Prop :=
  ∃ a, getKey k (h p).args = some a ∧ ArgHas a i c

def Unstored (h : Heap H) (c : Id) : Prop := ∀ p k i, ¬ Stored h p k i c

/-- the association list is a dict: no key occurs twice -/
def KeysUnique (args : List (String × Arg)) : Prop := (args.map Prod.fst).Nodup

def ItemsDistinct (items : List Item) : Prop :=
  items.Pairwise (fun a b => ∀ c, a = .node c → b ≠ .node c)

def itemIds : List Item → List Id
  | [] => []
  | .node c :: r => c :: itemIds r
  | .leaf _ :: r => itemIds r

def argIds : Arg → List Id
  | .one c => [c]
  | .leaf _ => []
  | .many items => itemIds items

def childIds : List (String × Arg) → List Id
  | [] => []
  | (_, a) :: r => argIds a ++ childIds r

/-! ### `_set_parent` -/

def setParentItems (self : Id) (k : String) : Nat → List Item → Heap H → Heap H
  | _, [], h => h
  | i, .node c :: r, h => setParentItems self k (i + 1) r (setPtr h c (some self) (some k) (some i))
  | i, .leaf _ :: r, h => setParentItems self k (i + 1) r h

/-- `self._set_parent(arg_key, value, index)` -/
def setParent (self : Id) (k : String) (v : Value) (index : Option Nat) (h : Heap H) : Heap H :=
  match v with
  | .node c => setPtr h c (some self) (some k) index
  | .list items => setParentItems self k 0 items h
  | _ => h

/-! ### the invalidation loop  `while node and node._hash is not None: node._hash = None; node = node.parent` -/

def inval : Nat → Heap H → Option Id → Option (Heap H)
  | _, h, none => some h
  | 0, _, some _ => none
  | f + 1, h, some n =>
    match (h n).hash with
    | none => some h
    | some _ => inval f (setHash h n none) (h n).parent

/-! ### `set` -/

/-- Python truthiness of a scalar -/
def truthy : Scalar → Bool
  | .none => false
  | .bool b => b
  | .int i => i != 0
  | .str s => s != ""

/-- `for v in expressions[index:]: v.index = v.index - 1` (a scalar item has no `.index`: AttributeError) -/
def decrIdx : Heap H → List Item → Option (Heap H)
  | h, [] => some h
  | _, .leaf _ :: _ => none
  | h, .node c :: r =>
    match (h c).index with
    | some (j + 1) => decrIdx (setIndex h c (some j)) r
    | _ => none

def itemOfValue : Value → List Item
  | .node c => [.node c]
  | .leaf s => [.leaf s]
  | .list vs => vs
  | .none => []

/-- the list that `set(arg_key, value, index, overwrite)` leaves in `args[arg_key]` (value not None) -/
def spliced (items : List Item) (i : Nat) (v : Value) (overwrite : Bool) : List Item :=
  match v with
  | .list vs => items.take i ++ vs ++ items.drop (i + 1)
  | _ => if overwrite then items.take i ++ itemOfValue v ++ items.drop (i + 1)
         else items.take i ++ itemOfValue v ++ items.drop i

/-- `set(k, v, index)` when `args[k]` is a scalar: `args.get(k) or []` turns a falsy scalar into `[]` (early return);
    a non-empty `str` answers `seq_get` (early return when out of range, else the list surgery raises);
    any other truthy scalar is not subscriptable (TypeError) -/
def setOnScalar (h : Heap H) (s : Scalar) (i : Nat) : Option (Heap H) :=
  if truthy s then
    match s with
    | .str t => if i < t.length then none else some h
    | _ => none
  else some h

/-- the part of `set` after the invalidation loop -/
def setCore (h : Heap H) (self : Id) (k : String) (v : Value) (index : Option Nat) (overwrite : Bool) :
    Option (Heap H) :=
  match index with
  | some i =>
    match getKey k (h self).args with
    | none => some h
    | some (.many items) =>
      match items[i]? with
      | none => some h
      | some (.leaf .none) => some h
      | some _ =>
        match v with
        | .none =>
          match decrIdx h (items.drop (i + 1)) with
          | some h' => some (setArgs h' self (setKey k (.many (items.take i ++ items.drop (i + 1))) (h self).args))
          | none => none
        | _ =>
          let l := spliced items i v overwrite
          some (setParentItems self k 0 l (setArgs h self (setKey k (.many l) (h self).args)))
    | some (.leaf s) => setOnScalar h s i
    | some (.one _) => none
  | none =>
    match v with
    | .none => some (setArgs h self (delKey k (h self).args))
    | .leaf s => some (setArgs h self (setKey k (.leaf s) (h self).args))
    | .node c => some (setPtr (setArgs h self (setKey k (.one c) (h self).args)) c (some self) (some k) none)
    | .list items => some (setParentItems self k 0 items (setArgs h self (setKey k (.many items) (h self).args)))

def opSet (fuel : Nat) (h : Heap H) (self : Id) (k : String) (v : Value) (index : Option Nat) (overwrite : Bool) :
    Option (Heap H) :=
  match inval fuel h (some self) with
  | some h1 => setCore h1 self k v index overwrite
  | none => none

/-! ### `set(k, None, index)` with a NEGATIVE index `-back` (accepted by `seq_get` / `list.pop`)

  As written in the source, the renumbering loop `for v in expressions[index:]` then runs over the LAST `back` elements of
  the shortened list instead of the elements after the removed one (`negative_index_breaks_links` in Properties/C08).
  `normalised = true` models the repaired code (`index += len(expressions)` first). -/

def setNoneNegCore (h : Heap H) (self : Id) (k : String) (back : Nat) (normalised : Bool) : Option (Heap H) :=
  match getKey k (h self).args with
  | some (.many items) =>
    if back = 0 ∨ items.length < back then some h
    else
      let pos := items.length - back
      if normalised then setCore h self k .none (some pos) true
      else
        match items[pos]? with
        | none => some h
        | some (.leaf .none) => some h
        | some _ =>
          let items' := items.take pos ++ items.drop (pos + 1)
          match decrIdx h (items'.drop (items'.length - back)) with
          | some h' => some (setArgs h' self (setKey k (.many items') (h self).args))
          | none => none
  | none => some h
  | some (.leaf s) => if truthy s then none else some h
  | some (.one _) => none

def opSetNoneNeg (fuel : Nat) (h : Heap H) (self : Id) (k : String) (back : Nat) (normalised : Bool) : Option (Heap H) :=
  match inval fuel h (some self) with
  | some h1 => setNoneNegCore h1 self k back normalised
  | none => none

/-! ### `append` -/

def listOf (k : String) (args : List (String × Arg)) : List Item :=
  match getKey k args with
  | some (.many items) => items
  | _ => []

/-- (written so that evaluating one cell of the result reads each cell of `h` at most once) -/
def appendCore (h : Heap H) (self : Id) (k : String) (it : Item) : Heap H :=
  let h1 := upd h self (fun nd => { nd with args := setKey k (.many (listOf k nd.args ++ [it])) nd.args })
  match it with
  | .node c =>
    upd h1 c (fun nd => { nd with parent := some self, argKey := some k,
                                  index := some (listOf k (h self).args).length })
  | .leaf _ => h1

def opAppend (fuel : Nat) (h : Heap H) (self : Id) (k : String) (it : Item) : Option (Heap H) :=
  match inval fuel h (some self) with
  | some h1 => some (appendCore h1 self k it)
  | none => none

/-! ### `replace` / `pop` -/

def clearPtr (h : Heap H) (n : Id) : Heap H := setPtr h n none none none

def isListValue : Value → Bool
  | .list _ => true
  | _ => false

def isOne : Option Arg → Bool
  | some (.one _) => true
  | _ => false

def opReplace (fuel : Nat) (h : Heap H) (self : Id) (v : Value) : Option (Heap H) :=
  match (h self).parent with
  | none => some h
  | some p =>
    if v = .node p then some h
    else
      match (h self).argKey with
      | none => some (if v = .node self then h else clearPtr h self)
      | some k =>
        if isListValue v && isOne (getKey k (h p).args) then none
        else
          match opSet fuel h p k v (h self).index true with
          | some h' => some (if v = .node self then h' else clearPtr h' self)
          | none => none

def opPop (fuel : Nat) (h : Heap H) (self : Id) : Option (Heap H) := opReplace fuel h self .none

/-- `replace` INCLUDING the branch `opReplace` leaves out: a list given for a node that sits in a scalar slot —
    "it's assumed that the intention was to really replace the parent": `value = parent.args.get(key)`;
    `if value.parent: value.parent.replace(expression)` (recursively), then `self`'s own pointers are cleared although
    `self` is still held by the replaced-out parent (see `replace_list_in_scalar_slot_leaves_husk` in Properties/C08). -/
def opReplaceRec : Nat → Heap H → Id → Value → Option (Heap H)
  | 0, _, _, _ => none
  | f + 1, h, self, v =>
    match (h self).parent with
    | none => some h
    | some p =>
      if v = .node p then some h
      else
        match (h self).argKey with
        | none => some (if v = .node self then h else clearPtr h self)
        | some k =>
          if isListValue v && isOne (getKey k (h p).args) then
            match getKey k (h p).args with
            | some (.one c') =>
              match (h c').parent with
              | some q =>
                match opReplaceRec f h q v with
                | some h' => some (clearPtr h' self)
                | none => none
              | none => some (clearPtr h self)
            | _ => none
          else
            match opSet (f + 1) h p k v (h self).index true with
            | some h' => some (if v = .node self then h' else clearPtr h' self)
            | none => none

/-! ### construction: `cls()` — arguments are then given by `set` (what `__init__` does, minus the no-op invalidation) -/

def opNew (h : Heap H) (id : Id) (cls : String) (raw : Bool) : Heap H :=
  upd h id (fun _ => { blank with cls := cls, raw := raw })

/-! ### `__hash__` -/

structure HashFns (H : Type) where
  init : String → H
  mixS : H → String → Scalar → H
  mixH : H → String → H → H
  mixK : H → String → H
  lower : String → String

/-- `x is None or x is False` -/
def dropped : Scalar → Bool
  | .none => true
  | .bool false => true
  | _ => false

def normS (F : HashFns H) : Scalar → Scalar
  | .str s => .str (F.lower s)
  | x => x

def hashItems (F : HashFns H) (ch : Id → Option H) (k : String) : H → List Item → Option H
  | acc, [] => some acc
  | acc, .node c :: r =>
    match ch c with
    | some x => hashItems F ch k (F.mixH acc k x) r
    | none => none
  | acc, .leaf s :: r =>
    if dropped s then hashItems F ch k (F.mixK acc k) r
    else hashItems F ch k (F.mixS acc k (normS F s)) r

def hashArg (F : HashFns H) (ch : Id → Option H) (raw : Bool) (k : String) (acc : H) : Arg → Option H
  | .one c =>
    match ch c with
    | some x => some (F.mixH acc k x)
    | none => none
  | .leaf s =>
    if raw then (if truthy s then some (F.mixS acc k s) else some acc)
    else (if dropped s then some acc else some (F.mixS acc k (normS F s)))
  | .many items =>
    if raw then (if items.isEmpty then some acc else none)
    else hashItems F ch k acc items

def hashArgs (F : HashFns H) (ch : Id → Option H) (raw : Bool) : H → List (String × Arg) → Option H
  | acc, [] => some acc
  | acc, (k, a) :: r =>
    match hashArg F ch raw k acc a with
    | some acc' => hashArgs F ch raw acc' r
    | none => none

def insertArg (e : String × Arg) : List (String × Arg) → List (String × Arg)
  | [] => [e]
  | x :: r => if e.1 < x.1 then e :: x :: r else x :: insertArg e r

/-- `for k in sorted(node.args)` -/
def sortArgs : List (String × Arg) → List (String × Arg)
  | [] => []
  | e :: r => insertArg e (sortArgs r)

/-- the hash of one node from its own fields and the (cached) hashes of its children -/
def hashNode (F : HashFns H) (nd : Node H) (ch : Id → Option H) : Option H :=
  hashArgs F ch nd.raw (F.init nd.cls) (sortArgs nd.args)

def foldOpt (g : Heap H → Id → Option (Heap H)) : Heap H → List Id → Option (Heap H)
  | h, [] => some h
  | h, c :: r =>
    match g h c with
    | some h' => foldOpt g h' r
    | none => none

/-- `__hash__`: fill the caches of `n` and of every uncached descendant reachable through uncached nodes, bottom-up -/
def fill (F : HashFns H) : Nat → Heap H → Id → Option (Heap H)
  | 0, _, _ => none
  | f + 1, h, n =>
    match (h n).hash with
    | some _ => some h
    | none =>
      match foldOpt (fill F f) h (childIds (h n).args) with
      | none => none
      | some h1 =>
        match hashNode F (h1 n) (fun c => (h1 c).hash) with
        | some x => some (setHash h1 n (some x))
        | none => none

/-- from-scratch recomputation that ignores every cache -/
def recompute (F : HashFns H) : Nat → Heap H → Id → Option H
  | 0, _, _ => none
  | f + 1, h, n => hashNode F (h n) (fun c => recompute F f h c)

/-- `a == b` : `a is b or (type(a) is type(b) and hash(a) == hash(b))` -/
def opEq [DecidableEq H] (F : HashFns H) (fuel : Nat) (h : Heap H) (a b : Id) : Option (Heap H × Bool) :=
  if a = b then some (h, true)
  else if (h a).cls ≠ (h b).cls then some (h, false)
  else
    match fill F fuel h a with
    | none => none
    | some h1 =>
      match fill F fuel h1 b with
      | none => none
      | some h2 => some (h2, decide ((h2 a).hash = (h2 b).hash))

/-! ### which nodes keep a carried `_hash` in a copy -/

/-- the copy performs no `set`/`append` on a node whose args hold no child and no non-empty list -/
def keepsHash : List (String × Arg) → Bool
  | [] => true
  | (_, .leaf _) :: r => keepsHash r
  | (_, .many []) :: r => keepsHash r
  | _ :: _ => false

/-! ### `transform(fun, copy=False)` and `replace_children(node, fun)` — parametric in the user function

  A user function may edit the heap, allocate fresh cells from the counter `nx`, and returns what Python's `fun(node)`
  returns (`None`, a node, a list, a scalar). -/

abbrev UserFun (H : Type) := Heap H → Nat → Id → Option (Heap H × Nat × Value)

/-- one iteration of the `for node in root.dfs(prune=…)` loop of `transform` for a non-first node: the back pointers are read
    BEFORE `fun` runs; a different result is installed with `parent.set(arg_key, new_node, index)` and prunes the walk -/
def transformStep (fuel : Nat) (fn : UserFun H) (h : Heap H) (nx : Nat) (node : Id) : Option (Heap H × Nat × Bool) :=
  let par := (h node).parent
  let key := (h node).argKey
  let idx := (h node).index
  match fn h nx node with
  | none => none
  | some (h1, nx1, v) =>
    if v = .node node then some (h1, nx1, true)
    else
      match par, key with
      | some p, some k =>
        match opSet fuel h1 p k v idx true with
        | some h2 => some (h2, nx1, false)
        | none => none
      | _, _ => some (h1, nx1, false)

/-- the explicit DFS stack of `dfs` (head = top); children are pushed in reverse, i.e. visited in arg order -/
def transformLoop (fuel : Nat) (fn : UserFun H) : Nat → Heap H → Nat → List Id → Option (Heap H × Nat)
  | 0, _, _, _ => none
  | _ + 1, h, nx, [] => some (h, nx)
  | f + 1, h, nx, node :: st =>
    match transformStep fuel fn h nx node with
    | none => none
    | some (h2, nx2, descend) =>
      transformLoop fuel fn f h2 nx2 (if descend then childIds (h2 node).args ++ st else st)

/-- `root.transform(fun, copy=False)`: the first node's result becomes the returned root and is never installed anywhere -/
def opTransform (fuel : Nat) (fn : UserFun H) (h : Heap H) (nx : Nat) (root : Id) : Option (Heap H × Nat × Value) :=
  match fn h nx root with
  | none => none
  | some (h1, nx1, v) =>
    if v = .node root then
      match transformLoop fuel fn fuel h1 nx1 (childIds (h1 root).args) with
      | some (h2, nx2) => some (h2, nx2, v)
      | none => none
    else
      -- the walk is pruned at once; `assert root` fails for a falsy result
      match v with
      | .none => none
      | .list [] => none
      | .leaf s => if truthy s then some (h1, nx1, v) else none
      | _ => some (h1, nx1, v)

/-- `ensure_collection(fun(cn))` as list items -/
def collect : Value → List Item
  | .none => []
  | .leaf s => [.leaf s]
  | .node c => [.node c]
  | .list vs => vs

/-- the inner loop of `replace_children` over the (snapshot of the) child nodes of one argument -/
def gatherItems (fn : UserFun H) : Heap H → Nat → List Item → Option (Heap H × Nat × List Item)
  | h, nx, [] => some (h, nx, [])
  | h, nx, .leaf s :: r =>
    match gatherItems fn h nx r with
    | some (h', nx', r') => some (h', nx', .leaf s :: r')
    | none => none
  | h, nx, .node c :: r =>
    match fn h nx c with
    | none => none
    | some (h1, nx1, v) =>
      match gatherItems fn h1 nx1 r with
      | some (h', nx', r') => some (h', nx', collect v ++ r')
      | none => none

/-- `seq_get(new_child_nodes, 0)` as a value for `set` -/
def firstValue : List Item → Value
  | [] => .none
  | .node c :: _ => .node c
  | .leaf .none :: _ => .none
  | .leaf s :: _ => .leaf s

/-- `child_nodes = v if is_list_arg else [v]` -/
def argItems : Arg → List Item
  | .many items => items
  | .one c => [.node c]
  | .leaf s => [.leaf s]

/-- what is written back: the new list for a list argument, `seq_get(new_child_nodes, 0)` otherwise -/
def argValue (a : Arg) (new : List Item) : Value :=
  match a with
  | .many _ => .list new
  | _ => firstValue new

def replaceChildrenLoop (fuel : Nat) (fn : UserFun H) (self : Id) :
    Heap H → Nat → List (String × Arg) → Option (Heap H × Nat)
  | h, nx, [] => some (h, nx)
  | h, nx, (k, a) :: r =>
    match gatherItems fn h nx (argItems a) with
    | none => none
    | some (h1, nx1, new) =>
      match opSet fuel h1 self k (argValue a new) none true with
      | some h2 => replaceChildrenLoop fuel fn self h2 nx1 r
      | none => none

/-- `replace_children(self, fun)` — iterates over `tuple(self.args.items())`, a snapshot -/
def opReplaceChildren (fuel : Nat) (fn : UserFun H) (h : Heap H) (nx : Nat) (self : Id) : Option (Heap H × Nat) :=
  replaceChildrenLoop fuel fn self h nx (h self).args

/-! ### a few concrete user functions (used by the driver and for non-vacuity) -/

/-- `Literal()` then `.set("this", txt)`, `.set("is_string", False)` on the fresh cell `nx` -/
def mkLit (fuel : Nat) (h : Heap H) (nx : Nat) (txt : String) : Option (Heap H × Nat × Id) :=
  match opSet fuel (opNew h nx "literal" true) nx "this" (.leaf (.str txt)) none true with
  | none => none
  | some h1 =>
    match opSet fuel h1 nx "is_string" (.leaf (.bool false)) none true with
    | none => none
    | some h2 => some (h2, nx + 1, nx)

def builtinFun (fuel : Nat) (name : String) : UserFun H := fun h nx n =>
  let inList := (h n).index.isSome
  match name with
  | "lit" =>
    if (h n).cls = "column" then (mkLit fuel h nx "0").map (fun (h1, nx1, l) => (h1, nx1, Value.node l))
    else some (h, nx, .node n)
  | "wrap" =>
    if (h n).cls = "literal" then
      match mkLit fuel h nx "7" with
      | none => none
      | some (h1, nx1, l) =>
        match opSet fuel (opNew h1 nx1 "paren" false) nx1 "this" (.node l) none true with
        | none => none
        | some h2 => some (h2, nx1 + 1, .node nx1)
    else some (h, nx, .node n)
  | "drop" => if (h n).cls = "literal" ∧ inList then some (h, nx, .none) else some (h, nx, .node n)
  | "dup" =>
    if (h n).cls = "literal" ∧ inList then
      match mkLit fuel h nx "8" with
      | none => none
      | some (h1, nx1, a) =>
        match mkLit fuel h1 nx1 "9" with
        | none => none
        | some (h2, nx2, b) => some (h2, nx2, .list [.node a, .node b])
    else some (h, nx, .node n)
  | "mut" =>
    if (h n).cls = "paren" then
      match mkLit fuel h nx "5" with
      | none => none
      | some (h1, nx1, l) =>
        match opSet fuel h1 n "this" (.node l) none true with
        | none => none
        | some h2 => some (h2, nx1, .node n)
    else some (h, nx, .node n)
  | _ => some (h, nx, .node n)

/-! ### `__deepcopy__` — the real iterative algorithm

  ```
  root = self.__class__();  stack = [(self, root)]
  while stack:
      node, copy = stack.pop()
      (comments / _type / _meta are deep-copied: not modelled)
      if node._hash is not None: copy._hash = node._hash
      for k, vs in node.args.items():
          if isinstance(vs, Expr):  stack.append((vs, vs.__class__()));  copy.set(k, stack[-1][-1])
          elif type(vs) is list:
              copy.args[k] = []
              for v in vs:
                  if isinstance(v, Expr):  stack.append((v, v.__class__()));  copy.append(k, stack[-1][-1])
                  else:                    copy.append(k, v)
          else: copy.args[k] = vs
  ```
  The stack is a list with its top at the head; fresh cells are taken from the counter `nx`. `copy.set` / `copy.append` are
  the real `opSet` / `opAppend` (with their invalidation loops); `copy.args[k] = …` is the plain dict assignment. -/

/-- `copy.args[k] = a` -/
def assignArg (h : Heap H) (c : Id) (k : String) (a : Arg) : Heap H :=
  upd h c (fun nd => { nd with args := setKey k a nd.args })

def dcItems (fuel : Nat) (c : Id) (k : String) :
    Heap H → Nat → List (Id × Id) → List Item → Option (Heap H × Nat × List (Id × Id))
  | h, nx, st, [] => some (h, nx, st)
  | h, nx, st, .leaf s :: r =>
    match opAppend fuel h c k (.leaf s) with
    | some h1 => dcItems fuel c k h1 nx st r
    | none => none
  | h, nx, st, .node v :: r =>
    match opAppend fuel (opNew h nx (h v).cls (h v).raw) c k (.node nx) with
    | some h1 => dcItems fuel c k h1 (nx + 1) ((v, nx) :: st) r
    | none => none

def dcArgs (fuel : Nat) (c : Id) :
    Heap H → Nat → List (Id × Id) → List (String × Arg) → Option (Heap H × Nat × List (Id × Id))
  | h, nx, st, [] => some (h, nx, st)
  | h, nx, st, (k, .leaf s) :: r => dcArgs fuel c (assignArg h c k (.leaf s)) nx st r
  | h, nx, st, (k, .one v) :: r =>
    match opSet fuel (opNew h nx (h v).cls (h v).raw) c k (.node nx) none true with
    | some h1 => dcArgs fuel c h1 (nx + 1) ((v, nx) :: st) r
    | none => none
  | h, nx, st, (k, .many items) :: r =>
    match dcItems fuel c k (assignArg h c k (.many [])) nx st items with
    | some (h1, nx1, st1) => dcArgs fuel c h1 nx1 st1 r
    | none => none

/-- one iteration of the `while stack` loop for the popped pair `(n, c)` -/
def dcVisit (fuel : Nat) (h : Heap H) (nx : Nat) (st : List (Id × Id)) (n c : Id) :
    Option (Heap H × Nat × List (Id × Id)) :=
  let h1 := match (h n).hash with
    | some x => setHash h c (some x)
    | none => h
  dcArgs fuel c h1 nx st (h n).args

def dcLoop (fuel : Nat) : Nat → Heap H → Nat → List (Id × Id) → Option (Heap H × Nat)
  | 0, _, _, _ => none
  | _ + 1, h, nx, [] => some (h, nx)
  | f + 1, h, nx, (n, c) :: st =>
    match dcVisit fuel h nx st n c with
    | some (h1, nx1, st1) => dcLoop fuel f h1 nx1 st1
    | none => none

/-- `n.copy()` into the fresh cells `base, base+1, …`; returns the heap, the next free id and the copy's root -/
def opDeepcopy (fuel : Nat) (h : Heap H) (n : Id) (base : Nat) : Option (Heap H × Nat × Id) :=
  match dcLoop fuel fuel (opNew h base (h n).cls (h n).raw) (base + 1) [(n, base)] with
  | some (h', nx) => some (h', nx, base)
  | none => none

/-- `root.transform(fun, copy=True)` (the default): the walk runs over `root.copy()` -/
def opTransformCopy (fuel : Nat) (fn : UserFun H) (h : Heap H) (nx : Nat) (root : Id) : Option (Heap H × Nat × Value) :=
  match opDeepcopy fuel h root nx with
  | some (h1, nx1, c) => opTransform fuel fn h1 nx1 c
  | none => none

/-! ### the simplifier's pointer repair loop (sqlglot/optimizer/simplify.py)

  ```
  for k, v in tuple(original.args.items()):
      if v is None: original.args.pop(k)
      else:         original._set_parent(k, v)
  ```
  No hash is invalidated: the values are unchanged, only the children's back pointers are rewritten. -/

def repairStep (self : Id) (h : Heap H) : String × Arg → Heap H
  | (k, .leaf .none) => setArgs h self (delKey k (h self).args)
  | (k, .one c) => setPtr h c (some self) (some k) none
  | (k, .many items) => setParentItems self k 0 items h
  | (_, .leaf _) => h

def repairLoop (self : Id) : Heap H → List (String × Arg) → Heap H
  | h, [] => h
  | h, e :: r => repairLoop self (repairStep self h e) r

def simplifyRepair (h : Heap H) (self : Id) : Heap H := repairLoop self h (h self).args

/-! ### the builder layer (`_apply_builder`, `_apply_list_builder`, `_apply_child_list_builder`,
      `_apply_conjunction_builder`, `_apply_cte_builder`, `_apply_set_operation`)

  Every builder is: `instance = maybe_copy(instance, copy)`; each Expr argument is either used as-is (`maybe_parse(e)`, the
  documented behaviour of `select` / `from_` / `group_by` …) or copied (`maybe_parse(e, copy=copy)`, `and_(…, copy=copy)`);
  fresh wrapper nodes (`Where`, `And`, `CTE`, `With`, a set operation …) are allocated; everything is linked with `set`.
  The model is parametric in that assembly: a list of allocations and `set`s over the fresh material. -/

inductive BOp where
  | new (id : Id) (cls : String) (raw : Bool)
  | set (self : Id) (k : String) (v : Value)

def runB (fuel : Nat) : Heap H → List BOp → Option (Heap H)
  | h, [] => some h
  | h, .new id cls raw :: r => runB fuel (opNew h id cls raw) r
  | h, .set self k v :: r =>
    match opSet fuel h self k v none true with
    | some h' => runB fuel h' r
    | none => none

/-- a builder that copies the receiver AND its Expr argument (copy=True threaded to both): the assembly gets the next free
    id, the receiver's copy and the argument's copy -/
def builderCopyBoth (fuel : Nat) (h : Heap H) (base : Nat) (inst arg : Id) (assemble : Nat → Id → Id → List BOp) :
    Option (Heap H × Nat × Id) :=
  match opDeepcopy fuel h inst base with
  | none => none
  | some (h1, nx1, c) =>
    match opDeepcopy fuel h1 arg nx1 with
    | none => none
    | some (h2, nx2, a) =>
      match runB fuel h2 (assemble nx2 c a) with
      | none => none
      | some h3 => some (h3, nx2, c)

/-- `_apply_conjunction_builder(cond, instance=q, arg="where", into=Where)` on a query without a WHERE:
    `Where(this=cond')` is allocated and installed in the copy -/
def whereAssembly (nx : Nat) (c a : Id) : List BOp :=
  [.new nx "where" false, .set nx "this" (.node a), .set c "where" (.node nx)]

/-- `_apply_cte_builder(q, alias, as_=arg)`: `CTE(this=arg')` inside a fresh `With(expressions=[cte])` -/
def cteAssembly (nx : Nat) (c a : Id) : List BOp :=
  [.new nx "cte" false, .set nx "this" (.node a), .new (nx + 1) "with" false,
   .set (nx + 1) "expressions" (.list [.node nx]), .set c "with_" (.node (nx + 1))]

/-! ### iterators and finders (`root`, `depth`, `find_ancestor`, `unnest`, `dfs` / `bfs` / `walk` with `prune`, `find_all`) -/

/-- `root()`: `while expression.parent: expression = expression.parent` -/
def rootOf : Nat → Heap H → Id → Option Id
  | 0, _, _ => none
  | f + 1, h, n =>
    match (h n).parent with
    | none => some n
    | some p => rootOf f h p

/-- the parent-pointer chain of `n`, nearest first -/
def ancestors : Nat → Heap H → Id → Option (List Id)
  | 0, _, _ => none
  | f + 1, h, n =>
    match (h n).parent with
    | none => some []
    | some p => (ancestors f h p).map (p :: ·)

/-- the `depth` property: `self.parent.depth + 1 if self.parent else 0` -/
def depthOf : Nat → Heap H → Id → Option Nat
  | 0, _, _ => none
  | f + 1, h, n =>
    match (h n).parent with
    | none => some 0
    | some p => (depthOf f h p).map (· + 1)

/-- `find_ancestor(*types)`: `ancestor = self.parent; while ancestor and not isinstance(ancestor, types): ancestor = ancestor.parent` -/
def findAncestorLoop (P : String → Bool) : Nat → Heap H → Option Id → Option (Option Id)
  | 0, _, _ => none
  | _ + 1, _, none => some none
  | f + 1, h, some a => if P (h a).cls then some (some a) else findAncestorLoop P f h (h a).parent

def opFindAncestor (P : String → Bool) (fuel : Nat) (h : Heap H) (n : Id) : Option (Option Id) :=
  findAncestorLoop P fuel h (h n).parent

/-- `unnest()`: `while type(expression) is Paren: expression = expression.this` (`this` may be missing: `None`) -/
def unnestOf : Nat → Heap H → Id → Option (Option Id)
  | 0, _, _ => none
  | f + 1, h, n =>
    if (h n).cls = "paren" then
      match getKey "this" (h n).args with
      | some (.one c) => unnestOf f h c
      | _ => some none
    else some (some n)

/-- `dfs(prune)` (explicit stack, children pushed in reverse = visited in arg order) and `bfs(prune)` (queue): the node is
    yielded first; a pruned node's children are not scheduled -/
def walkLoop (bfs : Bool) (prune : Id → Bool) : Nat → Heap H → List Id → List Id → Option (List Id)
  | _, _, [], acc => some acc.reverse
  | 0, _, _ :: _, _ => none
  | f + 1, h, n :: st, acc =>
    let kids := if prune n then [] else childIds (h n).args
    walkLoop bfs prune f h (if bfs then st ++ kids else kids ++ st) (n :: acc)

def opWalk (bfs : Bool) (prune : Id → Bool) (fuel : Nat) (h : Heap H) (root : Id) : Option (List Id) :=
  walkLoop bfs prune fuel h [root] []

/-- `find_all(*types, bfs)` -/
def opFindAll (bfs : Bool) (P : String → Bool) (fuel : Nat) (h : Heap H) (root : Id) : Option (List Id) :=
  (opWalk bfs (fun _ => false) fuel h root).map (·.filter (fun n => P (h n).cls))

/-! ### histories -/

inductive Op where
  | new (id : Id) (cls : String) (raw : Bool)
  | set (self : Id) (k : String) (v : Value) (index : Option Nat) (overwrite : Bool)
  | append (self : Id) (k : String) (it : Item)
  | replace (self : Id) (v : Value)
  | pop (self : Id)
  | hash (n : Id)
  | eq (a b : Id)
  | copy (n : Id) (base : Nat)
  deriving Repr

def step [DecidableEq H] (F : HashFns H) (fuel : Nat) (h : Heap H) : Op → Option (Heap H)
  | .new id cls raw => some (opNew h id cls raw)
  | .set self k v index ow => opSet fuel h self k v index ow
  | .append self k it => opAppend fuel h self k it
  | .replace self v => opReplace fuel h self v
  | .pop self => opPop fuel h self
  | .hash n => fill F fuel h n
  | .eq a b => (opEq F fuel h a b).map (·.1)
  | .copy n base => (opDeepcopy fuel h n base).map (·.1)

def run [DecidableEq H] (F : HashFns H) (fuel : Nat) : Heap H → List Op → Option (Heap H)
  | h, [] => some h
  | h, op :: ops =>
    match step F fuel h op with
    | some h' => run F fuel h' ops
    | none => none

/-! ### a concrete, collision-free hash: the free term algebra (used by the driver and for non-vacuity) -/

inductive HT where
  | init (cls : String)
  | mixS (h : HT) (k : String) (s : Scalar)
  | mixH (h : HT) (k : String) (x : HT)
  | mixK (h : HT) (k : String)
  deriving DecidableEq, Repr

def freeHash : HashFns HT :=
  { init := .init, mixS := .mixS, mixH := .mixH, mixK := .mixK, lower := String.toLower }

/-! ### the explicit normal form compared by `==`

  `absNorm lower fuel h n` is the NORMALISED structure of the tree below `n`, as a term:
  `init cls` followed, for the arg keys in sorted order, by one item per retained value —
    * non-raw classes: `None`/`False` args are dropped, strings are lower-cased (`mixS k (lower s)`), a child contributes
      its own normal form (`mixH k child`), a list contributes one item per element in order, a `None`/`False` element
      keeps its position as `mixK k`;
    * raw-arg classes (`Literal`, `Identifier`): falsy args are dropped, other values are kept verbatim.
  It ignores ids, back pointers and every `_hash` cache. -/
abbrev Norm := HT

def normFns (lower : String → String) : HashFns Norm :=
  { init := .init, mixS := .mixS, mixH := .mixH, mixK := .mixK, lower := lower }

def absNorm (lower : String → String) (fuel : Nat) (h : Heap H) (n : Id) : Option Norm :=
  recompute (normFns lower) fuel (fun i => { (h i) with hash := none }) n

/-- interpretation of a normal form in a hash algebra (what `hash()` computes from it) -/
def HT.eval (F : HashFns H) : HT → H
  | .init c => F.init c
  | .mixS t k s => F.mixS (HT.eval F t) k s
  | .mixH t k x => F.mixH (HT.eval F t) k (HT.eval F x)
  | .mixK t k => F.mixK (HT.eval F t) k

end

end SqlglotModel.Tree
