/-
  C01 — Athena routes every statement to one of two engines (Hive DDL / Trino) and sqlglot takes that decision TWICE:
  `sqlglot/dialects/athena.py:_tokenize_as_hive` on the raw token stream (which tokenizer + parser read the text) and
  `sqlglot/generators/athena.py:_generate_as_hive` on the parsed tree (which generator prints it).  A same-dialect round
  trip needs both to pick the same engine.  The two predicates over a small statement-shape type, statement by statement;
  the translator evaluates the REAL predicates on one sample statement per shape (Generated/C01.lean `athenaShapes`) and
  `athena_engine_model_matches_source` pins this model to them.
-/
namespace SqlglotModel.Engine

/-- first keyword of the statement -/
inductive First where
  | create | alter | drop | describe | show | other
deriving DecidableEq, Repr

/-- what follows it (token level) and the `kind` of the parsed Create / Drop (tree level) -/
inductive Kind where
  | table | view | schema | database | externalTable | other
deriving DecidableEq, Repr

/-- the `AS <body>` of a CREATE -/
inductive Body where
  | none | select | setop | paren | withq | subquery | values
deriving DecidableEq, Repr

structure Shape where
  first : First
  kind : Kind
  orReplace : Bool        -- `CREATE OR REPLACE …`: the second TOKEN is `OR`, the tree kind is unchanged
  body : Body
  nestedSelect : Bool     -- a SELECT token somewhere else in the statement (e.g. CHECK (EXISTS (SELECT …)))
deriving DecidableEq, Repr

/-- does the token stream contain a SELECT token after the first two tokens -/
def hasSelectToken (s : Shape) : Bool :=
  s.nestedSelect || (match s.body with
    | .select | .setop | .paren | .withq | .subquery => true
    | .none | .values => false)

/-- `_tokenize_as_hive` -/
def tokHive (s : Shape) : Bool :=
  match s.first with
  | .describe | .show => true
  | .alter | .create | .drop =>
    if !s.orReplace && (s.kind = .database || s.kind = .externalTable || s.kind = .schema) then true
    else if !s.orReplace && s.kind = .view then false
    else !hasSelectToken s
  | .other => false

/-- is the body an `exp.Query` (Select, set operation, Subquery; `exp.Values` is not) -/
def bodyIsQuery : Body → Bool
  | .select | .setop | .paren | .withq | .subquery => true
  | .none | .values => false

/-- the guard of the CREATE TABLE branch of `_generate_as_hive`: `anyQuery` = `isinstance(…, exp.Query)` (the source),
    `selectOnly` = `isinstance(…, exp.Select)` (a variant kept for the witness) -/
inductive BodyGuard where
  | anyQuery | selectOnly | unwrappedOnly   -- `unwrappedOnly` = `isinstance(…, exp.UNWRAPPED_QUERIES)`: Select and set operations, not Subquery
deriving DecidableEq, Repr

def bodyPasses (g : BodyGuard) (b : Body) : Bool :=
  match g with
  | .anyQuery => bodyIsQuery b
  | .selectOnly => b = .select || b = .withq || b = .subquery   -- `WITH … SELECT` / `SELECT … FROM (…)` parse to a Select
  | .unwrappedOnly => b = .select || b = .withq || b = .subquery || b = .setop   -- a parenthesised query is an exp.Subquery

/-- `_generate_as_hive` -/
def genHiveWith (g : BodyGuard) (s : Shape) : Bool :=
  match s.first with
  | .create =>
    if s.kind = .table || s.kind = .externalTable then
      if s.kind = .externalTable then true else !bodyPasses g s.body
    else s.kind != .view
  | .alter | .describe | .show => true
  | .drop => s.kind != .view
  | .other => false

def genHive (s : Shape) : Bool := genHiveWith .anyQuery s

/-- how a generator override that turns an infix operator into a call (`a % b` → `MOD(a, b)`) unwraps a redundant
    `Paren` around an operand: `all` = `x.unnest()`, `one` = `x.this`, `keep` = the Paren is kept -/
inductive Unwrap where
  | all | one | keep
deriving DecidableEq, Repr

end SqlglotModel.Engine
