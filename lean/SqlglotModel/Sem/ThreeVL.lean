/-
  SQL three-valued (Kleene) logic and the value domain used by the C06 model.
  NULL, TRUE and FALSE are three distinct results; comparisons and arithmetic return NULL on NULL.
  Executable definitions only (no proofs, no Mathlib).
-/
namespace SqlglotModel.ThreeVL

/-- a 3-valued truth value: `none` is SQL NULL/UNKNOWN -/
abbrev B3 := Option Bool

def and3 : B3 → B3 → B3
  | some false, _ => some false
  | _, some false => some false
  | some true, some true => some true
  | _, _ => none

def or3 : B3 → B3 → B3
  | some true, _ => some true
  | _, some true => some true
  | some false, some false => some false
  | _, _ => none

def not3 : B3 → B3
  | some b => some (!b)
  | none => none

/-- SQL values of the fragment: NULL, booleans, (unbounded) integers -/
inductive Val
  | null
  | b (v : Bool)
  | i (n : Int)
  deriving DecidableEq, Repr

/-- truthiness as the simplifier assumes it: a non-zero number is true (`always_true`), zero is false (`is_zero`) -/
def truth : Val → B3
  | .null => none
  | .b v => some v
  | .i n => some (n != 0)

def ofB3 : B3 → Val
  | none => .null
  | some v => .b v

/-- numeric view (booleans compare as 0/1, like SQLite) -/
def toInt? : Val → Option Int
  | .null => none
  | .b v => some (if v then 1 else 0)
  | .i n => some n

inductive Cmp
  | eq | neq | lt | lte | gt | gte
  deriving DecidableEq, Repr

def Cmp.test : Cmp → Int → Int → Bool
  | .eq, x, y => decide (x = y)
  | .neq, x, y => !decide (x = y)
  | .lt, x, y => decide (x < y)
  | .lte, x, y => decide (x ≤ y)
  | .gt, x, y => decide (y < x)
  | .gte, x, y => decide (y ≤ x)

/-- a comparison is NULL as soon as one side is NULL -/
def cmpVal (op : Cmp) (x y : Val) : Val :=
  match toInt? x, toInt? y with
  | some a, some b => .b (op.test a b)
  | _, _ => .null

/-- arithmetic is NULL as soon as one side is NULL -/
def arith (f : Int → Int → Int) (x y : Val) : Val :=
  match toInt? x, toInt? y with
  | some a, some b => .i (f a b)
  | _, _ => .null

end SqlglotModel.ThreeVL
