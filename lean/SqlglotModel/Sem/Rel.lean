/-
  Reference SQL bag semantics used by C11 (DESIGN §3 / §4 C11): values, Kleene three-valued logic,
  joins with NULL padding, GROUP BY, aggregates, set operations as multiplicities, ORDER BY keys.
  Written declaratively and independently of the executor's algorithms (Model/Exec.lean mirrors those).
  No proofs here.  Validated against SQLite and DuckDB by vf/props/c11.py (assumption check A-engine).

  Fragment: NULL / BOOLEAN / INTEGER / TEXT values in type-homogeneous columns.  `Val.cmp` is total (constructor
  tag first) only so that the order is a linear order; comparisons across types are outside the fragment
  (Python raises TypeError there, which execute() turns into ExecuteError).
-/
namespace SqlglotModel.Sem

inductive Val where
  | null
  | bool (b : Bool)
  | int (i : Int)
  | str (s : String)
deriving DecidableEq, Repr, Inhabited

abbrev Row := List Val
abbrev Key := List Val
/-- SQL truth values: `none` is UNKNOWN -/
abbrev Tri := Option Bool

def Val.isNull : Val → Bool
  | .null => true
  | _ => false

/-! ### a stable sort (structurally recursive, so that concrete instances evaluate in the kernel) -/
def insertSorted {α} (le : α → α → Bool) (x : α) : List α → List α
  | [] => [x]
  | y :: ys => if le x y then x :: y :: ys else y :: insertSorted le x ys

/-- insertion sort from the right: stable (an element goes in front of the first later element it is `≤` to) -/
def stableSort {α} (le : α → α → Bool) : List α → List α
  | [] => []
  | x :: xs => insertSorted le x (stableSort le xs)

/-! ### Kleene logic -/
def and3 : Tri → Tri → Tri
  | some false, _ => some false
  | _, some false => some false
  | some true, some true => some true
  | _, _ => none

def or3 : Tri → Tri → Tri
  | some true, _ => some true
  | _, some true => some true
  | some false, some false => some false
  | _, _ => none

def not3 : Tri → Tri
  | some b => some (!b)
  | none => none

/-! ### comparisons -/
def Val.tag : Val → Nat
  | .null => 0
  | .bool _ => 1
  | .int _ => 2
  | .str _ => 3

/-- total comparison: within one type the SQL / Python order (False < True, integers, code-point order of text) -/
def Val.cmp : Val → Val → Ordering
  | .null, .null => .eq
  | .bool a, .bool b => compare a b
  | .int a, .int b => compare a b
  | .str a, .str b => compare a b
  | a, b => compare a.tag b.tag

inductive CmpOp where
  | eq | ne | lt | le | gt | ge
deriving DecidableEq, Repr

def CmpOp.test : CmpOp → Ordering → Bool
  | .eq, o => o == .eq
  | .ne, o => o != .eq
  | .lt, o => o == .lt
  | .le, o => o != .gt
  | .gt, o => o == .gt
  | .ge, o => o != .lt

/-- `a op b` in SQL: UNKNOWN when either side is NULL -/
def cmp3 (op : CmpOp) : Val → Val → Tri
  | .null, _ => none
  | _, .null => none
  | a, b => some (op.test (Val.cmp a b))

/-- `v IN (c₁, …, cₙ)` is `v = c₁ OR … OR v = cₙ` -/
def in3 (v : Val) : List Val → Tri
  | [] => some false
  | c :: cs => or3 (cmp3 .eq v c) (in3 v cs)

/-- `v op ANY (x₁ … xₙ)` = `v op x₁ OR … OR v op xₙ`;  `v op ALL (…)` = the conjunction (empty: FALSE / TRUE) -/
def any3 (op : CmpOp) (v : Val) : List Val → Tri
  | [] => some false
  | x :: xs => or3 (cmp3 op v x) (any3 op v xs)

def all3 (op : CmpOp) (v : Val) : List Val → Tri
  | [] => some true
  | x :: xs => and3 (cmp3 op v x) (all3 op v xs)

/-- `v IN (subquery)` is `v = ANY (…)`; `v NOT IN (subquery)` its negation (= `v <> ALL (…)`, `not_in_is_all_ne`) -/
def inSub (v : Val) (xs : List Val) : Tri := any3 .eq v xs
def notInSub (v : Val) (xs : List Val) : Tri := not3 (any3 .eq v xs)

/-! ### values used as conditions; a small expression language -/
/-- truth of a non-NULL value used as a condition (boolean-typed in the fragment; for other types the Python rule) -/
def truthy : Val → Bool
  | .null => false
  | .bool b => b
  | .int i => i != 0
  | .str s => s != ""

def toTri : Val → Tri
  | .null => none
  | v => some (truthy v)

def triVal : Tri → Val
  | none => .null
  | some b => .bool b

inductive Expr where
  | col (i : Nat)
  | lit (v : Val)
  | cmp (op : CmpOp) (a b : Expr)
  | and (a b : Expr)
  | or (a b : Expr)
  | not (a : Expr)
  | isNull (a : Expr) (negate : Bool)
  | inList (a : Expr) (vs : List Val)
deriving Repr

def getCol (r : Row) (i : Nat) : Val := r.getD i .null

/-- SQL value of an expression on a row (predicates yield TRUE / FALSE / NULL) -/
def eval (row : Row) : Expr → Val
  | .col i => getCol row i
  | .lit v => v
  | .cmp op a b => triVal (cmp3 op (eval row a) (eval row b))
  | .and a b => triVal (and3 (toTri (eval row a)) (toTri (eval row b)))
  | .or a b => triVal (or3 (toTri (eval row a)) (toTri (eval row b)))
  | .not a => triVal (not3 (toTri (eval row a)))
  | .isNull a negate => .bool ((eval row a).isNull != negate)
  | .inList a vs => triVal (in3 (eval row a) vs)

/-- a row pair satisfies ON / a row satisfies WHERE iff the predicate is TRUE -/
def holds (e : Expr) (row : Row) : Bool := eval row e = .bool true

/-! ### joins -/
inductive Side where
  | inner | left | right | full
deriving DecidableEq, Repr

def Side.keepsLeft : Side → Bool
  | .left | .full => true
  | _ => false

def Side.keepsRight : Side → Bool
  | .right | .full => true
  | _ => false

def nulls (n : Nat) : Row := List.replicate n Val.null

/-- `on l r` = "the ON predicate is TRUE for the pair" (UNKNOWN and FALSE both reject) -/
def matchesOf (on : Row → Row → Bool) (L R : List Row) : List Row :=
  L.flatMap fun l => (R.filter (on l)).map (l ++ ·)

def leftUnmatched (on : Row → Row → Bool) (wJ : Nat) (L R : List Row) : List Row :=
  (L.filter fun l => !R.any (on l)).map (· ++ nulls wJ)

def rightUnmatched (on : Row → Row → Bool) (wS : Nat) (L R : List Row) : List Row :=
  (R.filter fun r => !L.any (on · r)).map (nulls wS ++ ·)

/-- L ⋈ R: every matching pair; an outer side additionally keeps each of its rows that matched nothing, NULL-padded
    to the other side's width -/
def join (side : Side) (on : Row → Row → Bool) (wS wJ : Nat) (L R : List Row) : List Row :=
  matchesOf on L R
    ++ (if side.keepsLeft then leftUnmatched on wJ L R else [])
    ++ (if side.keepsRight then rightUnmatched on wS L R else [])

/-! ### GROUP BY -/
/-- first occurrences, in order -/
def dedup {α} [DecidableEq α] : List α → List α
  | [] => []
  | a :: as => a :: (dedup as).filter (· ≠ a)

/-- one output row per distinct key (NULL keys are equal to each other): key ++ aggregates over the rows of the group -/
def groupAgg (keyOf : Row → Key) (agg : List Row → Row) (rows : List Row) : List Row :=
  (dedup (rows.map keyOf)).map fun k => k ++ agg (rows.filter fun r => keyOf r = k)

/-- aggregate without GROUP BY: exactly one row, also over the empty input -/
def globalAgg (agg : List Row → Row) (rows : List Row) : List Row := [agg rows]

/-! ### aggregates: NULLs are ignored; over no non-NULL input COUNT is 0, the others NULL -/
def nonNull (vs : List Val) : List Val := vs.filter (!·.isNull)

def Val.toInt : Val → Int
  | .int i => i
  | .bool true => 1
  | _ => 0

def aggCount (vs : List Val) : Val := .int (nonNull vs).length

def aggSum (vs : List Val) : Val :=
  if nonNull vs = [] then .null else .int ((nonNull vs).map Val.toInt).sum

/-- `m` is a least (`.lt`) / greatest (`.gt`) element of `vs` -/
def IsExtremum (dir : Ordering) (vs : List Val) (m : Val) : Prop :=
  m ∈ vs ∧ ∀ x ∈ vs, Val.cmp x m ≠ dir

/-! ### set operations, as multiplicities -/
def multIntersectAll (l r : Nat) : Nat := min l r
def multExceptAll (l r : Nat) : Nat := l - r
def multUnionAll (l r : Nat) : Nat := l + r
def multIntersect (l r : Nat) : Nat := if l ≠ 0 ∧ r ≠ 0 then 1 else 0
def multExcept (l r : Nat) : Nat := if l ≠ 0 ∧ r = 0 then 1 else 0
def multUnion (l r : Nat) : Nat := if l ≠ 0 ∨ r ≠ 0 then 1 else 0

/-- rows of a set operation from its multiplicity rule -/
def setOpRows (mult : Nat → Nat → Nat) (l r : List Row) : List Row :=
  (dedup (l ++ r)).flatMap fun x => List.replicate (mult (l.count x) (r.count x)) x

/-! ### ORDER BY -/
/-- comparison of two values under one ORDER BY item -/
def cmpKey (desc nullsFirst : Bool) (a b : Val) : Ordering :=
  match a.isNull, b.isNull with
  | true, true => .eq
  | true, false => if nullsFirst then .lt else .gt
  | false, true => if nullsFirst then .gt else .lt
  | false, false => if desc then Val.cmp b a else Val.cmp a b

/-- lexicographic comparison of rows under a list of ORDER BY items `(column value extractor, desc, nullsFirst)` -/
def cmpRows : List ((Row → Val) × Bool × Bool) → Row → Row → Ordering
  | [], _, _ => .eq
  | (f, d, nf) :: ks, a, b =>
    match cmpKey d nf (f a) (f b) with
    | .eq => cmpRows ks a b
    | o => o

/-- LIMIT / OFFSET on an ordered sequence -/
def limitOffset (limit : Option Nat) (offset : Nat) (rows : List Row) : List Row :=
  match limit with
  | none => rows.drop offset
  | some n => (rows.drop offset).take n

/-- SELECT projs FROM rows WHERE cond (a row is kept iff the condition is TRUE; `none` = no WHERE / SELECT *) -/
def keeps (cond : Option (Row → Val)) (r : Row) : Bool :=
  match cond with
  | some c => truthy (c r)
  | none => true

def projRow (projs : Option (Row → Row)) (r : Row) : Row :=
  match projs with
  | some p => p r
  | none => r

def selectWhere (cond : Option (Row → Val)) (projs : Option (Row → Row)) (rows : List Row) : List Row :=
  (rows.filter (keeps cond)).map (projRow projs)

/-- ORDER BY items … LIMIT n OFFSET k: a stable sort by the ORDER BY comparison (ties keep the input order, which is
    one of the orders SQL allows), then the slice -/
def orderBy (items : List ((Row → Val) × Bool × Bool)) (limit : Option Nat) (offset : Nat) (rows : List Row) : List Row :=
  limitOffset limit offset (stableSort (fun a b => cmpRows items a b != .gt) rows)

end SqlglotModel.Sem

/-! ## single-table SELECT (the fragment `single_table_query_spec` is about) -/
namespace SqlglotModel.Sem

inductive AggFn where
  | sum | count | min | max
deriving DecidableEq, Repr

/-- reference value of an aggregate over a column's values: NULLs ignored, COUNT of nothing 0, the others NULL;
    MIN / MAX: the extremum (unique, `Proofs/Exec.extremum_unique`), computed by a left fold -/
def extremum (dir : Ordering) : List Val → Val
  | [] => .null
  | v :: vs => vs.foldl (fun m x => if Val.cmp x m = dir then x else m) v

def AggFn.apply : AggFn → List Val → Val
  | .sum, vs => aggSum vs
  | .count, vs => aggCount vs
  | .min, vs => extremum .lt (nonNull vs)
  | .max, vs => extremum .gt (nonNull vs)

/-- one output column of the SELECT list -/
inductive Out where
  | col (src : Nat) (alias : String)                 -- a table column (under GROUP BY: one of the keys)
  | agg (fn : AggFn) (src : Nat) (alias : String)    -- AGG(column)
deriving Repr

def Out.alias : Out → String
  | .col _ a => a
  | .agg _ _ a => a

/-- HAVING AGG(column) op literal -/
structure Having where
  fn : AggFn
  src : Nat
  op : CmpOp
  lit : Val
deriving Repr

/-- SELECT [DISTINCT] outs FROM t [WHERE w] [GROUP BY keys [HAVING h]] [ORDER BY output positions] [LIMIT n OFFSET k].
    `group = none`: no aggregation (every `Out` is `.col`); `some keys`: aggregation (keys = [] for a global aggregate). -/
structure Query where
  cols : List String
  where_ : Option Expr
  group : Option (List Nat)
  outs : List Out
  having : Option Having
  distinct : Bool
  order : List (Nat × Bool × Bool)
  limit : Option Nat
  offset : Nat
deriving Repr

def colVals (rows : List Row) (c : Nat) : List Val := rows.map fun r => getCol r c

/-- value of an output column for a group (`rep` = any row of the group; all agree on the keys) -/
def Out.eval (rep : Row) (grp : List Row) : Out → Val
  | .col c _ => getCol rep c
  | .agg f c _ => f.apply (colVals grp c)

def havingHolds (h : Option Having) (grp : List Row) : Bool :=
  match h with
  | none => true
  | some h => cmp3 h.op (h.fn.apply (colVals grp h.src)) h.lit = some true

/-- the groups of a GROUP BY: one per distinct key, in order of first occurrence; without keys one group, also when empty -/
def groupsOf (keys : List Nat) (rows : List Row) : List (List Row) :=
  if keys = [] then [rows]
  else (dedup (rows.map fun r => keys.map (getCol r))).map fun k => rows.filter fun r => keys.map (getCol r) = k

def whereHolds (w : Option Expr) (r : Row) : Bool :=
  match w with
  | none => true
  | some e => truthy (eval r e)

/-- rows before DISTINCT / ORDER BY / LIMIT -/
def Query.body (q : Query) (rows : List Row) : List Row :=
  let kept := rows.filter (whereHolds q.where_)
  match q.group with
  | none => kept.map fun r => q.outs.map (Out.eval r [r])
  | some keys =>
    ((groupsOf keys kept).filter (havingHolds q.having)).map fun g => q.outs.map (Out.eval (g.headD []) g)

def orderItems (order : List (Nat × Bool × Bool)) : List ((Row → Val) × Bool × Bool) :=
  order.map fun (c, d, nf) => ((fun r => getCol r c), d, nf)

/-- the answer of the query: a bag when there is no ORDER BY, a sequence under a total one -/
def Query.eval (q : Query) (rows : List Row) : List Row :=
  let b := q.body rows
  let d := if q.distinct then dedup b else b
  orderBy (orderItems q.order) q.limit q.offset d

end SqlglotModel.Sem
