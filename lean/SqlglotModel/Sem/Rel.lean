/-
  Reference SQL bag semantics used by C11 (DESIGN §3 / §4 C11): values, Kleene three-valued logic,
  joins with NULL padding, GROUP BY, aggregates, set operations as multiplicities, ORDER BY keys.
  Written declaratively and independently of the executor's algorithms (Model/Exec.lean mirrors those).
  No proofs here.  Validated against SQLite and DuckDB by vf/props/c11.py (assumption check A-engine).

  Fragment: NULL / BOOLEAN / INTEGER / TEXT values in type-homogeneous columns.  `Val.cmp` is total (constructor
  tag first) only so that the order is a linear order; comparisons across types are outside the fragment
  (Python raises TypeError there, which execute() turns into ExecuteError).
-/
namespace SqlglotModel.Sem

inductive Val where
  | null
  | bool (b : Bool)
  | int (i : Int)
  | str (s : String)
deriving DecidableEq, Repr, Inhabited

abbrev Row := List Val
abbrev Key := List Val
/-- SQL truth values: `none` is UNKNOWN -/
abbrev Tri := Option Bool

def Val.isNull : Val → Bool
  | .null => true
  | _ => false

/-! ### Kleene logic -/
def and3 : Tri → Tri → Tri
  | some false, _ => some false
  | _, some false => some false
  | some true, some true => some true
  | _, _ => none

def or3 : Tri → Tri → Tri
  | some true, _ => some true
  | _, some true => some true
  | some false, some false => some false
  | _, _ => none

def not3 : Tri → Tri
  | some b => some (!b)
  | none => none

/-! ### comparisons -/
def Val.tag : Val → Nat
  | .null => 0
  | .bool _ => 1
  | .int _ => 2
  | .str _ => 3

/-- total comparison: within one type the SQL / Python order (False < True, integers, code-point order of text) -/
def Val.cmp : Val → Val → Ordering
  | .null, .null => .eq
  | .bool a, .bool b => compare a b
  | .int a, .int b => compare a b
  | .str a, .str b => compare a b
  | a, b => compare a.tag b.tag

inductive CmpOp where
  | eq | ne | lt | le | gt | ge
deriving DecidableEq, Repr

def CmpOp.test : CmpOp → Ordering → Bool
  | .eq, o => o == .eq
  | .ne, o => o != .eq
  | .lt, o => o == .lt
  | .le, o => o != .gt
  | .gt, o => o == .gt
  | .ge, o => o != .lt

/-- `a op b` in SQL: UNKNOWN when either side is NULL -/
def cmp3 (op : CmpOp) : Val → Val → Tri
  | .null, _ => none
  | _, .null => none
  | a, b => some (op.test (Val.cmp a b))

/-- `v IN (c₁, …, cₙ)` is `v = c₁ OR … OR v = cₙ` -/
def in3 (v : Val) : List Val → Tri
  | [] => some false
  | c :: cs => or3 (cmp3 .eq v c) (in3 v cs)

/-! ### values used as conditions; a small expression language -/
/-- truth of a non-NULL value used as a condition (boolean-typed in the fragment; for other types the Python rule) -/
def truthy : Val → Bool
  | .null => false
  | .bool b => b
  | .int i => i != 0
  | .str s => s != ""

def toTri : Val → Tri
  | .null => none
  | v => some (truthy v)

def triVal : Tri → Val
  | none => .null
  | some b => .bool b

inductive Expr where
  | col (i : Nat)
  | lit (v : Val)
  | cmp (op : CmpOp) (a b : Expr)
  | and (a b : Expr)
  | or (a b : Expr)
  | not (a : Expr)
  | isNull (a : Expr) (negate : Bool)
  | inList (a : Expr) (vs : List Val)
deriving Repr

def getCol (r : Row) (i : Nat) : Val := r.getD i .null

/-- SQL value of an expression on a row (predicates yield TRUE / FALSE / NULL) -/
def eval (row : Row) : Expr → Val
  | .col i => getCol row i
  | .lit v => v
  | .cmp op a b => triVal (cmp3 op (eval row a) (eval row b))
  | .and a b => triVal (and3 (toTri (eval row a)) (toTri (eval row b)))
  | .or a b => triVal (or3 (toTri (eval row a)) (toTri (eval row b)))
  | .not a => triVal (not3 (toTri (eval row a)))
  | .isNull a negate => .bool ((eval row a).isNull != negate)
  | .inList a vs => triVal (in3 (eval row a) vs)

/-- a row pair satisfies ON / a row satisfies WHERE iff the predicate is TRUE -/
def holds (e : Expr) (row : Row) : Bool := eval row e = .bool true

/-! ### joins -/
inductive Side where
  | inner | left | right | full
deriving DecidableEq, Repr

def Side.keepsLeft : Side → Bool
  | .left | .full => true
  | _ => false

def Side.keepsRight : Side → Bool
  | .right | .full => true
  | _ => false

def nulls (n : Nat) : Row := List.replicate n Val.null

/-- `on l r` = "the ON predicate is TRUE for the pair" (UNKNOWN and FALSE both reject) -/
def matchesOf (on : Row → Row → Bool) (L R : List Row) : List Row :=
  L.flatMap fun l => (R.filter (on l)).map (l ++ ·)

def leftUnmatched (on : Row → Row → Bool) (wJ : Nat) (L R : List Row) : List Row :=
  (L.filter fun l => !R.any (on l)).map (· ++ nulls wJ)

def rightUnmatched (on : Row → Row → Bool) (wS : Nat) (L R : List Row) : List Row :=
  (R.filter fun r => !L.any (on · r)).map (nulls wS ++ ·)

/-- L ⋈ R: every matching pair; an outer side additionally keeps each of its rows that matched nothing, NULL-padded
    to the other side's width -/
def join (side : Side) (on : Row → Row → Bool) (wS wJ : Nat) (L R : List Row) : List Row :=
  matchesOf on L R
    ++ (if side.keepsLeft then leftUnmatched on wJ L R else [])
    ++ (if side.keepsRight then rightUnmatched on wS L R else [])

/-! ### GROUP BY -/
/-- first occurrences, in order -/
def dedup {α} [DecidableEq α] : List α → List α
  | [] => []
  | a :: as => a :: (dedup as).filter (· ≠ a)

/-- one output row per distinct key (NULL keys are equal to each other): key ++ aggregates over the rows of the group -/
def groupAgg (keyOf : Row → Key) (agg : List Row → Row) (rows : List Row) : List Row :=
  (dedup (rows.map keyOf)).map fun k => k ++ agg (rows.filter fun r => keyOf r = k)

/-- aggregate without GROUP BY: exactly one row, also over the empty input -/
def globalAgg (agg : List Row → Row) (rows : List Row) : List Row := [agg rows]

/-! ### aggregates: NULLs are ignored; over no non-NULL input COUNT is 0, the others NULL -/
def nonNull (vs : List Val) : List Val := vs.filter (!·.isNull)

def Val.toInt : Val → Int
  | .int i => i
  | .bool true => 1
  | _ => 0

def aggCount (vs : List Val) : Val := .int (nonNull vs).length

def aggSum (vs : List Val) : Val :=
  if nonNull vs = [] then .null else .int ((nonNull vs).map Val.toInt).sum

/-- `m` is a least (`.lt`) / greatest (`.gt`) element of `vs` -/
def IsExtremum (dir : Ordering) (vs : List Val) (m : Val) : Prop :=
  m ∈ vs ∧ ∀ x ∈ vs, Val.cmp x m ≠ dir

/-! ### set operations, as multiplicities -/
def multIntersectAll (l r : Nat) : Nat := min l r
def multExceptAll (l r : Nat) : Nat := l - r
def multUnionAll (l r : Nat) : Nat := l + r
def multIntersect (l r : Nat) : Nat := if l ≠ 0 ∧ r ≠ 0 then 1 else 0
def multExcept (l r : Nat) : Nat := if l ≠ 0 ∧ r = 0 then 1 else 0
def multUnion (l r : Nat) : Nat := if l ≠ 0 ∨ r ≠ 0 then 1 else 0

/-- rows of a set operation from its multiplicity rule -/
def setOpRows (mult : Nat → Nat → Nat) (l r : List Row) : List Row :=
  (dedup (l ++ r)).flatMap fun x => List.replicate (mult (l.count x) (r.count x)) x

/-! ### ORDER BY -/
/-- comparison of two values under one ORDER BY item -/
def cmpKey (desc nullsFirst : Bool) (a b : Val) : Ordering :=
  match a.isNull, b.isNull with
  | true, true => .eq
  | true, false => if nullsFirst then .lt else .gt
  | false, true => if nullsFirst then .gt else .lt
  | false, false => if desc then Val.cmp b a else Val.cmp a b

/-- lexicographic comparison of rows under a list of ORDER BY items `(column value extractor, desc, nullsFirst)` -/
def cmpRows : List ((Row → Val) × Bool × Bool) → Row → Row → Ordering
  | [], _, _ => .eq
  | (f, d, nf) :: ks, a, b =>
    match cmpKey d nf (f a) (f b) with
    | .eq => cmpRows ks a b
    | o => o

/-- LIMIT / OFFSET on an ordered sequence -/
def limitOffset (limit : Option Nat) (offset : Nat) (rows : List Row) : List Row :=
  match limit with
  | none => rows.drop offset
  | some n => (rows.drop offset).take n

/-- ORDER BY items … LIMIT n OFFSET k: a stable sort by the ORDER BY comparison (ties keep the input order, which is
    one of the orders SQL allows), then the slice -/
def orderBy (items : List ((Row → Val) × Bool × Bool)) (limit : Option Nat) (offset : Nat) (rows : List Row) : List Row :=
  limitOffset limit offset (rows.mergeSort fun a b => cmpRows items a b != .gt)

end SqlglotModel.Sem
