/-
  Reference semantics used by C02 (transpilation) and C03 (optimizer): SQL values, Kleene three-valued logic,
  rows, tables read as bags (`List.Perm`) or as sequences (under ORDER BY), and the relational operators with
  bag semantics.  Executable, core Lean only, no proofs (lemmas live in Proofs/Bag.lean).

  Deliberately absent: floats (REAL/DOUBLE data is outside every fragment), dates, aggregates/grouping (the
  optimizer rules modelled in Model/Opt.lean treat GROUP BY / window / LIMIT as *blocking* atoms and the
  theorems are about the non-blocked rewrites).
-/
namespace SqlglotModel.Bag

inductive Val where
  | null
  | bool (b : Bool)
  | int (i : Int)
  | str (s : String)
  deriving DecidableEq, Repr, Inhabited

def Val.isNull : Val → Bool
  | .null => true
  | _ => false

/-- Kleene three-valued logic: `none` is UNKNOWN -/
abbrev B3 := Option Bool

def and3 : B3 → B3 → B3
  | some false, _ => some false
  | _, some false => some false
  | some true, some true => some true
  | _, _ => none

def or3 : B3 → B3 → B3
  | some true, _ => some true
  | _, some true => some true
  | some false, some false => some false
  | _, _ => none

def not3 : B3 → B3
  | some b => some (!b)
  | none => none

/-- WHERE / ON / HAVING keep a row iff the predicate is TRUE (UNKNOWN drops it) -/
def isTrue : B3 → Bool
  | some true => true
  | _ => false

abbrev Row := List Val
abbrev Table := List Row

/-- bag equality -/
abbrev BagEq (a b : Table) : Prop := List.Perm a b

/-- rank of the constructor: the cross-type order used for non-NULL values (bool < int < str) -/
def Val.rank : Val → Nat
  | .null => 0
  | .bool _ => 1
  | .int _ => 2
  | .str _ => 3

/-- comparison of two values ignoring NULL placement (NULL placement is decided by the sort key) -/
def cmpVal : Val → Val → Ordering
  | .int a, .int b => compare a b
  | .str a, .str b => compare a b
  | .bool a, .bool b => compare a.toNat b.toNat
  | a, b => compare a.rank b.rank

/-- SQL `=` -/
def eq3 (a b : Val) : B3 :=
  if a.isNull || b.isNull then none else some (cmpVal a b == .eq)

/-- SQL `<` -/
def lt3 (a b : Val) : B3 :=
  if a.isNull || b.isNull then none else some (cmpVal a b == .lt)

/-- SQL `>` -/
def gt3 (a b : Val) : B3 :=
  if a.isNull || b.isNull then none else some (cmpVal a b == .gt)

def isNull3 (a : Val) : B3 := some a.isNull

def nulls (n : Nat) : Row := List.replicate n .null

/-- column access; a missing column is NULL only in the drivers' concrete tables (well-formed by construction) -/
def col (i : Nat) (r : Row) : Val := r.getD i .null

-- ------------------------------------------------------------------------------------------ operators
/-- σ -/
def select (p : Row → B3) (t : Table) : Table := t.filter (fun r => isTrue (p r))

/-- π (generalised: any row function) -/
def project (f : Row → Row) (t : Table) : Table := t.map f

/-- × -/
def product (l r : Table) : Table := l.flatMap (fun a => r.map (fun b => a ++ b))

/-- the rows of `r` matching `a` under the ON condition -/
def matchesOf (on : Row → Row → B3) (a : Row) (r : Table) : Table := r.filter (fun b => isTrue (on a b))

/-- the rows of `l` matching `b` under the ON condition -/
def matchesOfL (on : Row → Row → B3) (l : Table) (b : Row) : Table := l.filter (fun a => isTrue (on a b))

def innerJoin (on : Row → Row → B3) (l r : Table) : Table :=
  l.flatMap (fun a => (matchesOf on a r).map (fun b => a ++ b))

/-- the left row with its matches, or NULL-padded when there is none -/
def padRight (a : Row) (m : Table) (wr : Nat) : Table :=
  if m.isEmpty then [a ++ nulls wr] else m.map (fun b => a ++ b)

def padLeft (m : Table) (b : Row) (wl : Nat) : Table :=
  if m.isEmpty then [nulls wl ++ b] else m.map (fun a => a ++ b)

/-- LEFT JOIN; `wr` is the width of the right side (for the NULL padding) -/
def leftJoin (on : Row → Row → B3) (l r : Table) (wr : Nat) : Table :=
  l.flatMap (fun a => padRight a (matchesOf on a r) wr)

/-- RIGHT JOIN; `wl` is the width of the left side -/
def rightJoin (on : Row → Row → B3) (l r : Table) (wl : Nat) : Table :=
  r.flatMap (fun b => padLeft (matchesOfL on l b) b wl)

/-- the right rows without any match -/
def unmatchedRight (on : Row → Row → B3) (l r : Table) : Table :=
  r.filter (fun b => !(l.any (fun a => isTrue (on a b))))

/-- FULL JOIN -/
def fullJoin (on : Row → Row → B3) (l r : Table) (wl wr : Nat) : Table :=
  leftJoin on l r wr ++ (unmatchedRight on l r).map (fun b => nulls wl ++ b)

/-- SEMI JOIN (DuckDB): the left rows with at least one match -/
def semiJoin (on : Row → Row → B3) (l r : Table) : Table :=
  l.filter (fun a => r.any (fun b => isTrue (on a b)))

/-- ANTI JOIN (DuckDB): the left rows without a match -/
def antiJoin (on : Row → Row → B3) (l r : Table) : Table :=
  l.filter (fun a => !(r.any (fun b => isTrue (on a b))))

/-- `EXISTS (subquery)` is never UNKNOWN -/
def exists3 (t : Table) : B3 := some (!t.isEmpty)

/-- `v IN (vs)` with SQL's three-valued semantics: TRUE if some element equals v; otherwise UNKNOWN if v or some
    element is NULL (and the list is not empty); otherwise FALSE -/
def in3 (v : Val) : List Val → B3
  | [] => some false
  | x :: xs => or3 (eq3 v x) (in3 v xs)

/-- δ (keeps the first occurrence) -/
def distinct (t : Table) : Table := t.eraseDups

-- ------------------------------------------------------------------------------------------ ORDER BY / LIMIT
/-- one effective sort key: the key expression, direction, NULL placement -/
structure SortKey where
  f : Row → Val
  desc : Bool
  nullsFirst : Bool

def flipIf (b : Bool) (o : Ordering) : Ordering := if b then o.swap else o

/-- compare two key values under (desc, nullsFirst): NULLs are placed by `nullsFirst` regardless of direction,
    non-NULL values by `cmpVal`, reversed under DESC -/
def cmpKeyVal (desc nullsFirst : Bool) (x y : Val) : Ordering :=
  match x.isNull, y.isNull with
  | true, true => .eq
  | true, false => if nullsFirst then .lt else .gt
  | false, true => if nullsFirst then .gt else .lt
  | false, false => flipIf desc (cmpVal x y)

def cmpKey (k : SortKey) (a b : Row) : Ordering := cmpKeyVal k.desc k.nullsFirst (k.f a) (k.f b)

/-- lexicographic comparison under a key list -/
def cmpKeys : List SortKey → Row → Row → Ordering
  | [], _, _ => .eq
  | k :: ks, a, b => (cmpKey k a b).then (cmpKeys ks a b)

def leKeys (ks : List SortKey) (a b : Row) : Bool := cmpKeys ks a b != .gt

/-- ORDER BY: a *stable* sort (ties keep the input order; with a total key list the result is determined) -/
def sortBy (ks : List SortKey) (t : Table) : Table := t.mergeSort (leKeys ks)

/-- LIMIT / OFFSET -/
def limitOffset (lim : Option Nat) (off : Nat) (t : Table) : Table :=
  match lim with
  | none => t.drop off
  | some n => (t.drop off).take n

end SqlglotModel.Bag
