/-
  C03 — The optimizer never changes what a query returns: what each rule's guard licenses, on the bag semantics.
  Only property theorems, non-vacuity examples and counter-example witnesses live here.

  Shape of the argument: the translator re-extracts the guard atoms of the rules from the source on every run
  (Generated/C03.lean); the `…_guards_present` theorems below are decided against those tables, so a dropped atom
  breaks the build; the semantic theorems say that what the guard admits is a bag equality for ALL tables; the
  `…_unsound` / `…_needs_…` witnesses say what goes wrong without each atom (1–2-row tables; they are also the SQL
  templates the failing-input search runs first).  PARTIAL: unnest_subqueries, pushdown_projections, canonicalize,
  simplify and qualify have no theorem here (engine-executing search only).
-/
import SqlglotModel.Proofs.Bag
import SqlglotModel.Model.Opt
import SqlglotModel.Generated.C03

namespace SqlglotModel.Properties.C03
open SqlglotModel.Bag SqlglotModel.Opt
open SqlglotModel.Generated.C03

-- ------------------------------------------------------------------------------------------ pushdown_predicates
/-- WHERE conjunct over the FROM side of an inner join moves into that source (all tables, any 3-valued ON) -/
theorem push_filter_inner_join (on : Row → Row → B3) (p q : Row → B3) (l r : Table)
    (h : ∀ a b, p (a ++ b) = q a) : select p (innerJoin on l r) = innerJoin on (select q l) r :=
  select_innerJoin_left on p q l r h

/-- … over the joined side: first into the ON clause (`pushdown_cnf`, JOIN node) … -/
theorem push_where_into_inner_join_on (on : Row → Row → B3) (p : Row → B3) (l r : Table) :
    select p (innerJoin on l r) = innerJoin (fun a b => and3 (on a b) (p (a ++ b))) l r :=
  select_innerJoin_as_on on p l r

/-- … then from the ON clause into the joined source (second loop), for inner and for LEFT joins -/
theorem push_on_into_joined_source_inner (on : Row → Row → B3) (q : Row → B3) (l r : Table) :
    innerJoin (fun a b => and3 (on a b) (q b)) l r = innerJoin on l (select q r) :=
  innerJoin_on_into_right on q l r

theorem push_on_into_joined_source_left (on : Row → Row → B3) (q : Row → B3) (l r : Table) (wr : Nat) :
    leftJoin (fun a b => and3 (on a b) (q b)) l r wr = leftJoin on l (select q r) wr :=
  leftJoin_on_into_right on q l r wr

/-- WHERE conjunct over the preserved side may move into that side's source: FROM source under LEFT joins … -/
theorem push_filter_left_join_preserved_side (on : Row → Row → B3) (p q : Row → B3) (l r : Table) (wr : Nat)
    (h : ∀ a b, p (a ++ b) = q a) : select p (leftJoin on l r wr) = leftJoin on (select q l) r wr :=
  select_leftJoin_left on p q l r wr h

/-- … and the RIGHT-joined source itself (the `pushable_source` branch) -/
theorem push_filter_right_join_own_source (on : Row → Row → B3) (p q : Row → B3) (l r : Table) (wl : Nat)
    (h : ∀ a b, p (a ++ b) = q b) : select p (rightJoin on l r wl) = rightJoin on l (select q r) wl :=
  select_rightJoin_right on p q l r wl h

example : select (fun r => gt3 (col 0 r) (.int 0)) (leftJoin (fun a b => eq3 (col 0 a) (col 0 b)) [[.int 1], [.int 0]] [[.int 1]] 1)
    = [[.int 1, .int 1]] := by decide

/-- NECESSITY (why `nodes_for_predicate` returns {} for a LEFT-joined source): a WHERE conjunct over the
    NULL-padded side must not move into that side.  l = {(1)}, r = {(1)}, ON l.0 = r.0, WHERE r.0 > 5 -/
theorem push_into_left_join_null_side_unsound :
    select (fun row => gt3 (col 1 row) (.int 5))
        (leftJoin (fun a b => eq3 (col 0 a) (col 0 b)) [[.int 1]] [[.int 1]] 1)
      ≠ leftJoin (fun a b => eq3 (col 0 a) (col 0 b)) [[.int 1]] (select (fun b => gt3 (col 0 b) (.int 5)) [[.int 1]]) 1 := by
  decide

/-- NECESSITY (the FULL-join guard added by /repo commit f8c8be1; DESIGN §6): x FULL JOIN y ON x.a = y.a WHERE x.b > 0
    with x empty, y = {(1,1)}: the original returns nothing, pushing the WHERE into x returns (NULL,NULL,1,1) -/
theorem push_below_full_join_unsound :
    select (fun row => gt3 (col 1 row) (.int 0))
        (fullJoin (fun a b => eq3 (col 0 a) (col 0 b)) [] [[.int 1, .int 1]] 2 2) = [] ∧
    fullJoin (fun a b => eq3 (col 0 a) (col 0 b)) (select (fun a => gt3 (col 1 a) (.int 0)) []) [[.int 1, .int 1]] 2 2
      = [[.null, .null, .int 1, .int 1]] := by decide

/-- NECESSITY (RIGHT join restricts the candidates to the right-joined source): pushing into the FROM source -/
theorem push_into_from_source_under_right_join_unsound :
    select (fun row => gt3 (col 0 row) (.int 5))
        (rightJoin (fun a b => eq3 (col 0 a) (col 0 b)) [[.int 1]] [[.int 1]] 1)
      ≠ rightJoin (fun a b => eq3 (col 0 a) (col 0 b)) (select (fun a => gt3 (col 0 a) (.int 5)) [[.int 1]]) [[.int 1]] 1 := by
  decide

/-- NECESSITY of "only the LAST right join's source" (/repo b9fa271; before it the FIRST right-joined source took
    the predicate): x RIGHT JOIN y ON … RIGHT JOIN z ON … WHERE y.b > 1 with x, y empty and z = {(1,1)}: the
    original filters the NULL-padded row away, pushing the WHERE into y keeps it.  Pure bag fact: it cannot break
    on regeneration; the code-side fact is `rightJoinLastOnly = true` in `push_guards_present`. -/
theorem push_below_second_right_join_unsound :
    select (fun row => gt3 (col 3 row) (.int 1))
        (rightJoin (fun a b => eq3 (col 2 a) (col 0 b))
          (rightJoin (fun a b => eq3 (col 0 a) (col 0 b)) [] [] 2) [[.int 1, .int 1]] 4) = [] ∧
    rightJoin (fun a b => eq3 (col 2 a) (col 0 b))
        (rightJoin (fun a b => eq3 (col 0 a) (col 0 b)) [] (select (fun b => gt3 (col 1 b) (.int 1)) []) 2)
        [[.int 1, .int 1]] 4
      = [[.null, .null, .null, .null, .int 1, .int 1]] := by decide

/-- the model's candidate restriction under the extracted flag: with two RIGHT joins the first right-joined source
    is no longer a WHERE target, the last one is -/
theorem last_right_join_only :
    whereDecision pushAtoms rightJoinLastOnly
        ⟨⟨"x", .table⟩, [(.right, ⟨"y", .derived ⟨false, false, false, false, false, 1⟩⟩),
                         (.right, ⟨"z", .derived ⟨false, false, false, false, false, 1⟩⟩)]⟩ ["y"] = [] ∧
    whereDecision pushAtoms rightJoinLastOnly
        ⟨⟨"x", .table⟩, [(.right, ⟨"y", .derived ⟨false, false, false, false, false, 1⟩⟩),
                         (.right, ⟨"z", .derived ⟨false, false, false, false, false, 1⟩⟩)]⟩ ["z"] = [.select "z"] := by
  decide

/-- a filter over a derived table's output moves inside the derived table (`replace_aliases` = composing with the
    projection), below its own WHERE -/
theorem push_filter_into_derived (p w : Row → B3) (f : Row → Row) (t : Table) :
    select p (project f (select w t)) = project f (select (fun r => and3 (w r) (p (f r))) t) := by
  rw [select_project, select_select]

/-- **per-window condition for moving a filter below a window**: a filter that only looks at the partition key of
    THAT window keeps or drops whole partitions, so every surviving row sees the same partition — for every table,
    aggregate and key.  (HEAD blocks the pushdown whenever the derived table has any window; this is the condition a
    relaxation would have to check for EVERY window.) -/
theorem window_commutes_with_filter_on_partition_key (key : Row → Val) (agg : Table → Val) (q : Val → Bool)
    (t : Table) (r : Row) (hr : q (key r) = true) :
    winPart key agg (t.filter (fun x => q (key x))) r = winPart key agg t r := by
  unfold winPart
  congr 1
  rw [List.filter_filter]
  apply List.filter_congr
  intro x _
  by_cases hk : key x = key r
  · simp [hk, hr]
  · simp [hk]

/-- NECESSITY of "every window" (seeded regression C03-8 tested the UNION of all windows' partition keys): the filter
    is on the partition key of window 1 (column 0); window 2 = COUNT(*) OVER () is unpartitioned (constant key) and
    changes when the filter runs first -/
theorem filter_below_other_window_unsound :
    winPart (fun _ => .null) (fun p => .int p.length) ([[Val.int 1], [.int 2]].filter (fun x => col 0 x == .int 1)) [.int 1]
      = .int 1 ∧
    winPart (fun _ => .null) (fun p => .int p.length) [[Val.int 1], [.int 2]] [.int 1] = .int 2 := by decide

/-- TABLE FACT (ast of nodes_for_predicate): a window in the derived table blocks the pushdown unconditionally -/
theorem window_blocks_unconditionally : windowBlocksUnconditionally = true := by decide

/-- what the SELECT-node guard of nodes_for_predicate promises, read off the atoms extracted on this run -/
theorem push_guard_sound (s : SelShape) (h : canPushIntoSelect pushAtoms s = true) :
    s.group = false ∧ s.window = false ∧ s.limit = false ∧ s.offset = false ∧ s.qualify = false ∧ s.refCount < 2 := by
  have hall : ∀ a ∈ allPushAtoms, a ∈ pushAtoms := by decide
  have hh : ∀ a ∈ allPushAtoms, a.holds s = true := fun a ha =>
    (List.all_eq_true.mp h) a (hall a ha)
  have h1 := hh .noGroup (by decide)
  have h2 := hh .noWindow (by decide)
  have h3 := hh .noLimit (by decide)
  have h4 := hh .noOffset (by decide)
  have h5 := hh .noQualify (by decide)
  have h6 := hh .refCountLt2 (by decide)
  simp only [PushAtom.holds, Bool.not_eq_true', decide_eq_true_eq] at h1 h2 h3 h4 h5 h6
  exact ⟨h1, h2, h3, h4, h5, h6⟩

/-- TABLE FACTS (decided completely against Generated/C03.lean): every guard the theorems rely on is present -/
theorem push_guards_present :
    (∀ a ∈ allPushAtoms, a ∈ pushAtoms) ∧ fullJoinGuard = true ∧ rightJoinRestrict = true ∧
    rightJoinLastOnly = true ∧
    sidedJoinBlocks = true ∧ Side.right ∈ onLoopSkips ∧ Side.full ∈ onLoopSkips := by decide

example : canPushIntoSelect pushAtoms ⟨false, false, false, false, false, 1⟩ = true := by decide

/-- NECESSITY of `not node.args.get("limit")`: σ_p (LIMIT 1 t) ≠ LIMIT 1 (σ_p t) -/
theorem push_filter_into_derived_needs_no_limit :
    select (fun r => gt3 (col 0 r) (.int 1)) (limitOffset (some 1) 0 [[.int 1], [.int 2]])
      ≠ limitOffset (some 1) 0 (select (fun r => gt3 (col 0 r) (.int 1)) [[.int 1], [.int 2]]) := by decide

/-- NECESSITY of `not offset` -/
theorem push_filter_into_derived_needs_no_offset :
    select (fun r => gt3 (col 0 r) (.int 1)) (limitOffset none 1 [[.int 1], [.int 2], [.int 3]])
      ≠ limitOffset none 1 (select (fun r => gt3 (col 0 r) (.int 1)) [[.int 1], [.int 2], [.int 3]]) := by decide

/-- NECESSITY of `not has_window_expression` (and of `not qualify`): a window value depends on the whole input;
    window = COUNT(*) OVER () -/
theorem push_filter_into_derived_needs_no_window :
    select (fun r => gt3 (col 0 r) (.int 1))
        (project (fun r => r ++ [.int ([[Val.int 1], [.int 2]] : Table).length]) [[.int 1], [.int 2]])
      ≠ (let t' := select (fun r => gt3 (col 0 r) (.int 1)) [[.int 1], [.int 2]]
         project (fun r => r ++ [.int t'.length]) t') := by decide

/-- NECESSITY of `scope_ref_count[id(source)] < 2`: a CTE referenced twice; filtering it for one reference changes
    the other.  WITH c AS (t) SELECT … FROM c AS x CROSS JOIN c AS y WHERE x.0 > 1 -/
theorem push_filter_into_derived_needs_single_ref :
    select (fun r => gt3 (col 0 r) (.int 1)) (product [[.int 1], [.int 2]] [[.int 1], [.int 2]])
      ≠ (let c' := select (fun r => gt3 (col 0 r) (.int 1)) [[.int 1], [.int 2]]
         product c' c') := by decide

/-- NECESSITY of `not group`: filtering on an aggregate output is not filtering the input (COUNT per key) -/
theorem push_filter_into_derived_needs_no_group :
    select (fun r => gt3 (col 0 r) (.int 1)) [[.int ([[Val.int 1], [.int 2]] : Table).length]]
      ≠ [[.int (select (fun r => gt3 (col 0 r) (.int 1)) [[.int 1], [.int 2]]).length]] := by decide

-- ------------------------------------------------------------------------------------------ merge_subqueries
/-- the simple projection/filter case: SELECT g(…) FROM (SELECT f(…) FROM t WHERE w) AS s WHERE p
    = SELECT g(f(…)) FROM t WHERE w AND p(f(…)) — equal as sequences, hence as bags -/
theorem merge_derived_table (p w : Row → B3) (f g : Row → Row) (t : Table) :
    project g (select p (project f (select w t)))
      = project (fun r => g (f r)) (select (fun r => and3 (w r) (p (f r))) t) := by
  rw [push_filter_into_derived]
  simp [project, List.map_map, Function.comp]

/-- merged under an inner JOIN: the derived table's WHERE becomes an ON conjunct (`_merge_where`) -/
theorem merge_derived_table_inner_join (on : Row → Row → B3) (w : Row → B3) (l r : Table) :
    innerJoin on l (select w r) = innerJoin (fun a b => and3 (on a b) (w b)) l r :=
  (innerJoin_on_into_right on w l r).symm

/-- what `_mergeable` promises, read off the rejecting atoms extracted on this run -/
theorem merge_guard_sound (s : MergeShape) (h : mergeable mergeRejects s = true) :
    s.innerUnmergeableArg = false ∧ s.sidedJoinInnerWhere = false ∧ s.fromInnerWhereOuterFullRight = false ∧
    s.projAggSubqueryExplode = false ∧ s.windowBlocks = false ∧ s.joinWithInnerJoins = false := by
  have hn : ∀ a ∈ mergeRejects, a.holds s = false := by
    intro a ha
    have := h
    simp only [mergeable, Bool.not_eq_true', List.any_eq_false] at this
    simpa using this a ha
  have h1 := hn .innerUnmergeableArg (by decide)
  have h2 := hn .sidedJoinInnerWhere (by decide)
  have h3 := hn .fromInnerWhereOuterFullRight (by decide)
  have h4 := hn .projAggSubqueryExplode (by decide)
  have h5 := hn .windowBlocks (by decide)
  have h6 := hn .joinWithInnerJoins (by decide)
  exact ⟨h1, h2, h3, h4, h5, h6⟩

theorem merge_guards_present :
    MergeAtom.innerUnmergeableArg ∈ mergeRejects ∧ MergeAtom.sidedJoinInnerWhere ∈ mergeRejects ∧
    MergeAtom.fromInnerWhereOuterFullRight ∈ mergeRejects ∧ MergeAtom.projAggSubqueryExplode ∈ mergeRejects ∧
    MergeAtom.windowBlocks ∈ mergeRejects ∧ MergeAtom.joinWithInnerJoins ∈ mergeRejects ∧
    (∀ sd ∈ [Side.left, Side.right, Side.full], sd ∈ sidedJoinInnerWhereSides) ∧
    (∀ sd ∈ [Side.right, Side.full], sd ∈ fromInnerWhereOuterSides) ∧
    (∀ a ∈ ["distinct", "group", "having", "limit", "offset", "qualify", "windows"], a ∈ unmergeableArgs) := by
  decide

example : mergeable mergeRejects {} = true := by decide

/-- NECESSITY of DISTINCT ∈ UNMERGABLE_ARGS: π_g (δ t) ≠ π_g t as bags -/
theorem merge_needs_no_distinct :
    ¬ BagEq (project (fun r => [col 0 r]) (distinct [[.int 1, .int 1], [.int 1, .int 1]]))
            (project (fun r => [col 0 r]) [[.int 1, .int 1], [.int 1, .int 1]]) := by
  intro h; have := h.length_eq; revert this; decide

/-- NECESSITY of LIMIT ∈ UNMERGABLE_ARGS -/
theorem merge_needs_no_limit :
    select (fun r => gt3 (col 0 r) (.int 1)) (limitOffset (some 1) 0 [[.int 1], [.int 2]])
      ≠ select (fun r => gt3 (col 0 r) (.int 1)) [[.int 1], [.int 2]] := by decide

/-- NECESSITY of the sided-join atom: a derived table with a WHERE on the NULL-padded side of a LEFT join cannot be
    inlined with its WHERE going to the outer WHERE.  l = {(1)}, r = {(1)}, inner WHERE r.0 > 5 -/
theorem merge_inner_where_under_left_join_unsound :
    leftJoin (fun a b => eq3 (col 0 a) (col 0 b)) [[.int 1]] (select (fun b => gt3 (col 0 b) (.int 5)) [[.int 1]]) 1
      ≠ select (fun row => gt3 (col 1 row) (.int 5))
          (leftJoin (fun a b => eq3 (col 0 a) (col 0 b)) [[.int 1]] [[.int 1]] 1) := by decide

/-- clean-tree finding (no atom of `_mergeable` covers it): a derived table on the NULL-padded side of an outer
    join whose projection is a literal.  x = {(1)} LEFT JOIN (SELECT 7 AS c FROM y) with y empty: the column is NULL;
    after inlining the literal it is 7 -/
theorem merge_constant_projection_under_outer_join_unsound :
    project (fun row => [col 1 row])
        (leftJoin (fun _ _ => some true) [[.int 1]] (project (fun _ => [.int 7]) []) 1) = [[.null]] ∧
    project (fun _ => [Val.int 7]) (leftJoin (fun _ _ => some true) [[.int 1]] [] 1) = [[.int 7]] := by decide

-- ------------------------------------------------------------------------------------------ merge_subqueries: source renaming and the scope cache
/-- with a FRESH cache (it lists every live column node — what `Scope.clear_cache()` after each in-place rewrite
    guarantees) renaming a conflicting inner source renames ALL of its columns, for every column list -/
theorem rename_with_fresh_cache_renames_all (cache : List Nat) (old new : String) (live : List ColRef)
    (h : ∀ c ∈ live, c.id ∈ cache) : renameVia cache old new live = renameAll old new live := by
  unfold renameVia renameAll
  apply List.map_congr_left
  intro c hc
  have hm : c.id ∈ cache := h c hc
  simp [hm]

/-- … after which no live column still refers to the old name, so none can be captured by an outer source that
    carries it -/
theorem rename_all_leaves_no_old (old new : String) (hne : new ≠ old) (live : List ColRef) :
    ∀ c ∈ renameAll old new live, c.table ≠ old := by
  intro c hc
  simp only [renameAll, List.mem_map] at hc
  obtain ⟨c0, _, rfl⟩ := hc
  by_cases h0 : c0.table = old
  · simp [h0, hne]
  · simp [h0]

/-- NECESSITY of the full cache invalidation (seeded regression C03-5: `clear_column_cache()` instead of
    `clear_cache()` in merge_derived_tables): the cache still lists node 7, which `_merge_expressions` replaced by
    node 8; the inner source x is renamed to x_2 but the live column keeps `x` and binds to the OUTER x -/
theorem rename_with_stale_cache_witness :
    renameVia [7] "x" "x_2" [⟨8, "x", "a"⟩] = [⟨8, "x", "a"⟩] ∧
    renameAll "x" "x_2" [⟨8, "x", "a"⟩] = [⟨8, "x_2", "a"⟩] := by decide

/-- TABLE FACT (re-extracted by ast on every run): both in-place merges end with the FULL `clear_cache()` -/
theorem merge_cache_clears_present :
    mergeCacheClears = [("merge_ctes", "clear_cache"), ("merge_derived_tables", "clear_cache")] := by decide

-- ------------------------------------------------------------------------------------------ simplify.uniq_sort
/-- a conjunction only depends on WHICH truth values occur among its operands -/
theorem conj3_eq_of_same_values (l m : List B3) (h : ∀ v, v ∈ l ↔ v ∈ m) : conj3 l = conj3 m := by
  have char : ∀ l : List B3, conj3 l =
      if (some false) ∈ l then some false else if none ∈ l then none else some true := by
    intro l
    induction l with
    | nil => simp [conj3]
    | cons x xs ih =>
      simp only [conj3, ih]
      cases x with
      | none => by_cases h1 : (some false) ∈ xs <;> by_cases h2 : (none : B3) ∈ xs <;> simp [and3, h1, h2]
      | some b => cases b <;> by_cases h1 : (some false) ∈ xs <;> by_cases h2 : (none : B3) ∈ xs <;> simp [and3, h1, h2]
  rw [char l, char m]
  simp [h]

/-- **`uniq_sort` is sound when the key is injective up to meaning**: if two operands with the same generated key
    always have the same truth value, dropping all but the first operand of every key keeps the value of the
    conjunction — for every operand list -/
theorem uniq_sort_sound_of_key_injective (l : List (String × B3))
    (hk : ∀ p ∈ l, ∀ q ∈ l, p.1 = q.1 → p.2 = q.2) :
    conj3 ((dedupByKey l).map (·.2)) = conj3 (l.map (·.2)) := by
  apply conj3_eq_of_same_values
  -- generalised: with `seen` keys whose values are already accounted for in `vs`
  suffices H : ∀ (seen : List String) (vs : List B3) (l : List (String × B3)),
      (∀ p ∈ l, ∀ q ∈ l, p.1 = q.1 → p.2 = q.2) →
      (∀ p ∈ l, p.1 ∈ seen → p.2 ∈ vs) →
      ∀ v, (v ∈ vs ∨ v ∈ (dedupAux seen l).map (·.2)) ↔ (v ∈ vs ∨ v ∈ l.map (·.2)) by
    intro v
    have := H [] [] l hk (by simp) v
    simpa [dedupByKey] using this
  intro seen vs l
  induction l generalizing seen vs with
  | nil => intro _ _ v; simp [dedupAux]
  | cons x xs ih =>
    intro hk hs v
    have hk' : ∀ p ∈ xs, ∀ q ∈ xs, p.1 = q.1 → p.2 = q.2 :=
      fun p hp q hq => hk p (List.mem_cons_of_mem _ hp) q (List.mem_cons_of_mem _ hq)
    simp only [dedupAux]
    by_cases hc : seen.contains x.1 = true
    · have hx : x.2 ∈ vs := hs x (List.mem_cons_self ..) (by simpa using hc)
      simp only [hc, if_true]
      have := ih seen vs hk' (fun p hp hps => hs p (List.mem_cons_of_mem _ hp) hps) v
      rw [this]
      simp only [List.map_cons, List.mem_cons]
      constructor
      · rintro (h | h)
        · exact Or.inl h
        · exact Or.inr (Or.inr h)
      · rintro (h | h | h)
        · exact Or.inl h
        · exact Or.inl (h ▸ hx)
        · exact Or.inr h
    · simp only [hc, Bool.false_eq_true, if_false, List.map_cons, List.mem_cons]
      have hs' : ∀ p ∈ xs, p.1 ∈ x.1 :: seen → p.2 ∈ x.2 :: vs := by
        intro p hp hps
        cases List.mem_cons.mp hps with
        | inl h1 =>
          have := hk p (List.mem_cons_of_mem _ hp) x (List.mem_cons_self ..) h1
          simp [this]
        | inr h2 => exact List.mem_cons_of_mem _ (hs p (List.mem_cons_of_mem _ hp) h2)
      have := ih (x.1 :: seen) (x.2 :: vs) hk' hs' v
      simp only [List.mem_cons] at this
      constructor
      · rintro (h | h | h)
        · exact Or.inl h
        · exact Or.inr (Or.inl h)
        · have := this.mp (Or.inr h)
          rcases this with (h1 | h1) | h1
          · exact Or.inr (Or.inl h1)
          · exact Or.inl h1
          · exact Or.inr (Or.inr h1)
      · rintro (h | h | h)
        · exact Or.inl h
        · exact Or.inr (Or.inl h)
        · have := this.mpr (Or.inr h)
          rcases this with (h1 | h1) | h1
          · exact Or.inr (Or.inl h1)
          · exact Or.inl h1
          · exact Or.inr (Or.inr h1)

/-- NECESSITY of key injectivity (seeded regression C03-6: `Gen.in_sql` drops `query`, every `x IN (<subquery>)` gets
    the key `x IN ()`): two different IN-subquery predicates with one key, TRUE and FALSE on some row — the
    de-duplicated conjunction is TRUE, the original FALSE -/
theorem uniq_sort_key_collision_witness :
    conj3 ((dedupByKey [("x.a IN ()", (some true : B3)), ("x.a IN ()", some false)]).map (·.2)) = some true ∧
    conj3 ([("x.a IN ()", (some true : B3)), ("x.a IN ()", some false)].map (·.2)) = some false := by decide

/-- TABLE FACT (ast of simplify.Gen against the live arg_types, re-read every run): every handler of the key
    generator mentions every arg of its expression class, except this audited list (args that do not occur in the
    fragment: BETWEEN SYMMETRIC, bracket options, join marks, the Div typing flags, identifier scoping flags) -/
theorem gen_handlers_cover_all_args :
    genHandlerMissing = [("between", ["symmetric"]),
                         ("bracket", ["offset", "safe", "returns_list_for_maps", "json_access"]),
                         ("column", ["join_mark", "shadow"]), ("div", ["typed", "safe"]),
                         ("identifier", ["global_", "temporary"])] := by decide

-- ------------------------------------------------------------------------------------------ unnest_subqueries
/-- `decorrelate` of a correlated scalar subquery whose projection contains COUNT: the LEFT JOIN + COALESCE form
    returns the subquery's value for EVERY outer row and every table, provided (1) the fallback is the projection
    evaluated on the EMPTY group (COUNT -> 0, other aggregates -> NULL) and (2) the projection is not NULL on a
    non-empty group unless the fallback is NULL too -/
theorem decorrelate_scalar_aggregate (proj : Table → Val) (fallback : Val) (on : Row → Row → B3) (a : Row) (r : Table)
    (hempty : fallback = proj [])
    (hnn : ∀ m : Table, m ≠ [] → (proj m).isNull = true → fallback = .null) :
    scalarDecorrelated proj fallback on a r = scalarSubq proj on a r := by
  unfold scalarDecorrelated scalarSubq coalesceVal
  cases hm : matchesOf on a r with
  | nil => simp [Val.isNull, hempty]
  | cons b bs =>
    simp only [List.isEmpty_cons, Bool.false_eq_true, if_false]
    split
    · rename_i hnull
      have := hnn (b :: bs) (by simp) hnull
      rw [this]
      cases hp : proj (b :: bs) <;> simp_all [Val.isNull]
    · rfl

example : scalarDecorrelated (fun m => .int (m.length + 1)) (.int 1) (fun a b => eq3 (col 0 a) (col 0 b)) [.int 5] [[.int 1]]
    = .int 1 := by decide

/-- NECESSITY of hypothesis (1) (the seeded regression "fallback is always the constant 0"): projection
    COUNT(*) + 1, outer row without a match: the subquery yields 1, COALESCE(NULL, 0) yields 0 -/
theorem decorrelate_constant_zero_fallback_unsound :
    scalarSubq (fun m => .int (m.length + 1)) (fun a b => eq3 (col 0 a) (col 0 b)) [.int 5] [[.int 1]] = .int 1 ∧
    scalarDecorrelated (fun m => .int (m.length + 1)) (.int 0) (fun a b => eq3 (col 0 a) (col 0 b)) [.int 5] [[.int 1]]
      = .int 0 := by decide

/-- clean-tree finding (hypothesis (2) is not checked by the code): NULLIF(COUNT(*), 2) is NULL on an existing group
    of two rows; COALESCE then replaces that legitimate NULL by the fallback NULLIF(0, 2) = 0 -/
theorem decorrelate_null_of_existing_group_unsound :
    scalarSubq (fun m => if m.length = 2 then .null else .int m.length) (fun a b => eq3 (col 0 a) (col 0 b))
        [.int 1] [[.int 1], [.int 1]] = .null ∧
    scalarDecorrelated (fun m => if m.length = 2 then .null else .int m.length) (.int 0)
        (fun a b => eq3 (col 0 a) (col 0 b)) [.int 1] [[.int 1], [.int 1]] = .int 0 := by decide

/-- **`unnest`: uncorrelated `x.k IN (subquery)`** becomes LEFT JOIN on the subquery DE-DUPLICATED on its value
    (`s'`: same rows as a set, at most one match per outer row) + `WHERE s'.value IS NOT NULL`, for all tables and
    with SQL's three-valued IN (NULL keys and NULL elements never match) -/
theorem unnest_in_subquery (key : Row → Val) (l s s' : Table) (w : Nat)
    (hw : ∀ a ∈ l, a.length = w) (hset : ∀ b, b ∈ s' ↔ b ∈ s)
    (hu : ∀ a ∈ l, (matchesOf (fun a b => eq3 (key a) (col 0 b)) a s').length ≤ 1) :
    project (fun row => row.take w)
        (select (fun row => not3 (isNull3 (col w row))) (leftJoin (fun a b => eq3 (key a) (col 0 b)) l s' 1))
      = select (fun a => in3 (key a) (s.map (col 0))) l := by
  rw [semiJoin_as_dedup_leftJoin _ l s s' w hw hset hu (fun a b h => eq3_true_not_null _ _ h)]
  simp only [semiJoin, select, isTrue_in3, List.any_map]
  rfl

/-- **correlated EXISTS / IN** (`decorrelate`): `EXISTS (SELECT … FROM s WHERE on(outer, s))` is the same LEFT JOIN
    against a version of the subquery de-duplicated on the correlation key -/
theorem unnest_exists_subquery (on : Row → Row → B3) (l s s' : Table) (w : Nat)
    (hw : ∀ a ∈ l, a.length = w) (hset : ∀ b, b ∈ s' ↔ b ∈ s)
    (hu : ∀ a ∈ l, (matchesOf on a s').length ≤ 1)
    (hnn : ∀ a b, Bag.isTrue (on a b) = true → (col 0 b).isNull = false) :
    project (fun row => row.take w) (select (fun row => not3 (isNull3 (col w row))) (leftJoin on l s' 1))
      = select (fun a => exists3 (select (fun b => on a b) s)) l := by
  rw [semiJoin_as_dedup_leftJoin on l s s' w hw hset hu hnn]
  simp only [semiJoin]
  unfold select
  congr 1
  funext a
  exact (isTrue_exists3_select (fun b => on a b) s).symm

example : select (fun a => in3 (col 0 a) ([[Val.int 1], [.null], [.int 1]].map (col 0))) [[.int 1], [.int 2], [.null]]
    = [[.int 1]] := by decide

/-- NECESSITY of the de-duplication (the seeded `unnest()` regression and the clean-tree finding
    C03-decorrelate-exists-keeps-extra-group-keys): joined against the subquery grouped by MORE keys than the
    compared value — value 1 appears in two groups — the matching outer row comes back twice -/
theorem in_subquery_as_join_needs_distinct :
    project (fun row => row.take 1)
        (select (fun row => not3 (isNull3 (col 1 row)))
          (leftJoin (fun a b => eq3 (col 0 a) (col 0 b)) [[.int 1]] [[.int 1], [.int 1]] 1))
      = [[.int 1], [.int 1]] ∧
    select (fun a => in3 (col 0 a) ([[Val.int 1], [.int 1]].map (col 0))) [[.int 1]] = [[.int 1]] := by decide

/-- WHY `unnest` bails out on NOT IN: with a NULL in the subquery `x NOT IN (…)` is never TRUE, the anti join keeps
    the row -/
theorem not_in_with_null_not_antijoin :
    select (fun a => not3 (in3 (col 0 a) ([[Val.int 2], [.null]].map (col 0)))) [[.int 1]] = [] ∧
    antiJoin (fun a b => eq3 (col 0 a) (col 0 b)) [[.int 1]] [[.int 2], [.null]] = [[.int 1]] := by decide

-- ------------------------------------------------------------------------------------------ pushdown_dnf
/-- what `pushdown_dnf` may push into source `l`: a predicate IMPLIED by the whole WHERE clause (the original stays
    in place) — the result is unchanged for all tables -/
theorem pushdown_dnf_common_predicate (on : Row → Row → B3) (c q : Row → B3) (l r : Table)
    (h : ∀ a b, Bag.isTrue (c (a ++ b)) = true → Bag.isTrue (q a) = true) :
    select c (innerJoin on l r) = select c (innerJoin on (select q l) r) :=
  select_innerJoin_implied_left on c q l r h

/-- the disjunction of one conjunct per block IS implied by a DNF: (A₁ ∧ p₁) ∨ (A₂ ∧ p₂) ⇒ p₁ ∨ p₂ (3-valued) -/
theorem dnf_implies_disjunction_of_common (a1 p1 a2 p2 : B3)
    (h : Bag.isTrue (or3 (and3 a1 p1) (and3 a2 p2)) = true) : Bag.isTrue (or3 p1 p2) = true := by
  rw [isTrue_or3, isTrue_and3, isTrue_and3] at h
  rw [isTrue_or3]
  simp only [Bool.or_eq_true, Bool.and_eq_true] at h ⊢
  cases h with
  | inl h1 => exact Or.inl h1.2
  | inr h2 => exact Or.inr h2.2

/-- known finding C11-or-in-where-over-join (pushdown_dnf skips a block that mentions a second table and pushes the
    OTHER block alone): WHERE (z.b * y.a) IS NULL OR y.a BETWEEN 0 AND 0 over y = {(NULL)}, z = {(NULL)} keeps the
    row; pushing `y.a BETWEEN 0 AND 0` into y empties it.  One block is NOT implied by the disjunction. -/
theorem pushdown_dnf_single_branch_unsound :
    select (fun row => or3 (some ((col 0 row).isNull || (col 1 row).isNull)) (eq3 (col 0 row) (.int 0)))
        (innerJoin (fun _ _ => some true) [[.null]] [[.null]]) = [[.null, .null]] ∧
    select (fun row => or3 (some ((col 0 row).isNull || (col 1 row).isNull)) (eq3 (col 0 row) (.int 0)))
        (innerJoin (fun _ _ => some true) (select (fun a => eq3 (col 0 a) (.int 0)) [[.null]]) [[.null]]) = [] := by
  decide

-- ------------------------------------------------------------------------------------------ pushdown_projections
/-- pruning columns of a derived table that the outer query does not read: π_g ∘ π_f = π_g ∘ π_f' whenever g reads
    only what both keep — for all tables, as sequences -/
theorem pushdown_projections_preserves (f f' g : Row → Row) (t : Table) (h : ∀ r, g (f r) = g (f' r)) :
    project g (project f t) = project g (project f' t) := by
  simp [project, List.map_map, Function.comp, h]

/-- NECESSITY of the DISTINCT guard: under DISTINCT the pruned column decides how many rows survive -/
theorem pushdown_projections_needs_no_distinct :
    project (fun r => [col 0 r]) (distinct (project (fun r => [col 0 r, col 1 r]) [[.int 1, .int 1], [.int 1, .int 2]]))
      ≠ project (fun r => [col 0 r]) (distinct (project (fun r => [col 0 r]) [[.int 1, .int 1], [.int 1, .int 2]])) := by
  decide

/-- **set operations match columns BY POSITION**: pruning the same positions on both operands of a UNION ALL
    preserves the result, for all tables (the parent's needs must be handed to the right operand by ordinal) -/
theorem setop_prune_by_position_preserves (f : Row → Row) (l r : Table) :
    project f (l ++ r) = project f l ++ project f r := by
  simp [project]

/-- NECESSITY (seeded regression C03-7 "by name"): left exposes (a, b), right exposes (b, a) — same names, other
    order; the parent reads `a`.  By position the right operand must keep its FIRST column; keeping the column NAMED
    `a` (its second) returns different rows -/
theorem setop_prune_by_name_counterexample :
    project (fun r => [col 0 r]) ([[Val.int 1, .int 2]] ++ [[.int 3, .int 4]]) = [[.int 1], [.int 3]] ∧
    project (fun r => [col 0 r]) [[Val.int 1, .int 2]] ++ project (fun r => [col 1 r]) [[Val.int 3, .int 4]]
      = [[.int 1], [.int 4]] := by decide

/-- TABLE FACT (ast): the right operand's referenced columns are computed by ordinal position -/
theorem setop_right_operand_by_ordinal : setOpRightByOrdinal = true := by decide

theorem projection_guards_present :
    ProjAtom.distinct ∈ projKeepAll ∧ ProjAtom.intersectExcept ∈ projKeepAll := by decide

-- ------------------------------------------------------------------------------------------ eliminate_subqueries / eliminate_ctes
/-- turning a derived table into a CTE appended at the END of a well-scoped WITH list keeps it well scoped, provided
    the new body references only names already in the list (definitional in the bag IR: a CTE is a `let`) -/
theorem append_cte_keeps_scoping (ctes : List (String × List String)) (n : String) (refs : List String)
    (h : wellScoped ctes = true) (hr : ∀ r ∈ refs, r ∈ ctes.map (·.1)) :
    wellScoped (ctes ++ [(n, refs)]) = true := by
  unfold wellScoped at *
  suffices H : ∀ (seen : List String), wellScopedFrom seen ctes = true →
      (∀ r ∈ refs, r ∈ seen ∨ r ∈ ctes.map (·.1)) → wellScopedFrom seen (ctes ++ [(n, refs)]) = true from
    H [] h (fun r hr' => Or.inr (hr r hr'))
  clear h hr
  induction ctes with
  | nil =>
    intro seen _ hrefs
    simp only [List.nil_append, wellScopedFrom, Bool.and_true, List.all_eq_true]
    intro r hr'
    cases hrefs r hr' with
    | inl h1 => simpa using h1
    | inr h2 => simp at h2
  | cons c cs ih =>
    intro seen hws hrefs
    obtain ⟨cn, crefs⟩ := c
    simp only [List.cons_append, wellScopedFrom, Bool.and_eq_true] at hws ⊢
    refine ⟨hws.1, ih (cn :: seen) hws.2 (fun r hr' => ?_)⟩
    cases hrefs r hr' with
    | inl h1 => exact Or.inl (List.mem_cons_of_mem _ h1)
    | inr h2 =>
      simp only [List.map_cons, List.mem_cons] at h2
      cases h2 with
      | inl h3 => exact Or.inl (by simp [h3])
      | inr h4 => exact Or.inr h4

/-- known finding C03-eliminate-subqueries-forward-cte-reference, stated precisely: de-duplicating a derived table
    inside an EARLIER CTE against a LATER CTE with the same body yields the WITH list
    [z_2; c1 refs {z_2, c2}; c2], which is not well scoped -/
theorem eliminate_subqueries_forward_reference_witness :
    wellScoped [("c1", []), ("c2", [])] = true ∧
    wellScoped [("z_2", []), ("c1", ["z_2", "c2"]), ("c2", [])] = false ∧
    wellScoped [("z_2", []), ("c2", []), ("c1", ["z_2", "c2"])] = true := by decide

-- ------------------------------------------------------------------------------------------ eliminate_joins
/-- LEFT join on a key that is unique in the joined source, none of whose columns is used: the join disappears.
    Stated for ALL tables; uniqueness enters as "at most one match per left row" … -/
theorem eliminate_left_join_on_unique_key (on : Row → Row → B3) (l r : Table) (wr : Nat) (π g : Row → Row)
    (hunused : ∀ a b, π (a ++ b) = g a) (huniq : ∀ a ∈ l, (matchesOf on a r).length ≤ 1) :
    project π (leftJoin on l r wr) = project g l :=
  project_leftJoin_unique on l r wr π g hunused huniq

/-- … which follows from "joined on all unique outputs": pairwise distinct keys in the joined source and an ON
    condition that pins the key (DISTINCT / GROUP BY outputs all equated in ON) -/
theorem unique_key_gives_at_most_one_match (on : Row → Row → B3) (key hk : Row → Val) (a : Row) (r : Table)
    (hon : ∀ b, isTrue (on a b) = true → key b = hk a) (hd : r.Pairwise (fun x y => key x ≠ key y)) :
    (matchesOf on a r).length ≤ 1 :=
  matches_le_one_of_unique_key on key hk a r hon hd

example : project (fun r => [col 0 r]) (leftJoin (fun a b => eq3 (col 0 a) (col 0 b)) [[.int 1], [.null]] [[.int 1], [.int 2]] 1)
    = project (fun r => [col 0 r]) [[.int 1], [.null]] := by decide

/-- NECESSITY of uniqueness: duplicates in the joined source multiply left rows -/
theorem eliminate_left_join_needs_unique :
    project (fun r => [col 0 r]) (leftJoin (fun a b => eq3 (col 0 a) (col 0 b)) [[.int 1]] [[.int 1], [.int 1]] 1)
      ≠ project (fun r => [col 0 r]) [[.int 1]] := by decide

/-- NECESSITY of `join.side == "LEFT"`: an inner join drops unmatched left rows -/
theorem eliminate_inner_join_unsound :
    project (fun r => [col 0 r]) (innerJoin (fun a b => eq3 (col 0 a) (col 0 b)) [[.int 1]] [[.int 2]])
      ≠ project (fun r => [col 0 r]) [[.int 1]] := by decide

/-- a CROSS join with a source of EXACTLY one row disappears (the no-ON branch) -/
theorem eliminate_cross_join_single_row (l : Table) (b : Row) (π g : Row → Row) (hunused : ∀ a, π (a ++ b) = g a) :
    project π (product l [b]) = project g l :=
  project_product_single l b π g hunused

/-- what the no-ON branch relies on, read off the guards extracted on this run (since /repo 030ac60): a source
    accepted as single-row WITHOUT a LIMIT 1 has no HAVING, no WHERE on a FROM-less SELECT, and is either FROM-less
    or an un-grouped all-aggregate SELECT — the shapes that return EXACTLY one row, which is the hypothesis of
    `eliminate_cross_join_single_row` -/
theorem single_row_guard_sound (s : ElimShape) (h : hasSingleOutputRow singleRowGuards s = true)
    (hl : s.limit1 = false) :
    s.having = false ∧ (s.where_ && s.noFrom) = false ∧ (s.noFrom = true ∨ (s.group = false ∧ s.allAgg = true)) := by
  have hg : singleRowGuards = allSingleRowAtoms := by decide
  rw [hg] at h
  obtain ⟨isScope, used, side, hasOn, uo, dg, ns, jk, allAgg, limit1, noFrom, group, having, where_⟩ := s
  simp only at hl
  subst hl
  revert h
  cases having <;> cases where_ <;> cases noFrom <;> cases group <;> cases allAgg <;>
    simp [hasSingleOutputRow, allSingleRowAtoms]

/-- STILL TRUE TODAY (known finding C03-eliminate-joins-limit1-empty; fixtures pin the rewrite): LIMIT 1 bounds the
    row count by one from ABOVE only; with ZERO rows the cross join is empty and dropping it is wrong -/
theorem eliminate_cross_join_at_most_one_row_unsound :
    project (fun r => [col 0 r]) (product [[.int 1], [.int 2]] (limitOffset (some 1) 0 []))
      ≠ project (fun r => [col 0 r]) [[.int 1], [.int 2]] := by decide

/-- the model still accepts LIMIT 1 as single-row, as the code does -/
theorem limit1_still_accepted :
    hasSingleOutputRow singleRowGuards
      { isScope := true, used := false, side := .none, hasOn := false, uniqueOutputs := [], joinKeys := [],
        allAgg := false, limit1 := true, noFrom := false } = true := by decide

/-- UNREPAIRED VARIANT (before 030ac60, `guards = []`): aggregates under GROUP BY were accepted although they return
    one row PER GROUP — x = {(1)} × two groups gives two rows.  Pure model/bag facts, independent of regeneration. -/
theorem eliminate_cross_join_grouped_aggregates_unsound :
    hasSingleOutputRow []
      { isScope := true, used := false, side := .none, hasOn := false, uniqueOutputs := [], joinKeys := [],
        allAgg := true, limit1 := false, noFrom := false, group := true } = true ∧
    hasSingleOutputRow allSingleRowAtoms
      { isScope := true, used := false, side := .none, hasOn := false, uniqueOutputs := [], joinKeys := [],
        allAgg := true, limit1 := false, noFrom := false, group := true } = false ∧
    project (fun r => [col 0 r]) (product [[.int 1]] [[.int 1], [.int 1]]) ≠ project (fun r => [col 0 r]) [[.int 1]] := by
  decide

/-- UNREPAIRED VARIANT: HAVING / a FROM-less SELECT with WHERE may return NO row; the cross join is then empty -/
theorem eliminate_cross_join_empty_source_unsound :
    hasSingleOutputRow []
      { isScope := true, used := false, side := .none, hasOn := false, uniqueOutputs := [], joinKeys := [],
        allAgg := true, limit1 := false, noFrom := false, having := true } = true ∧
    hasSingleOutputRow allSingleRowAtoms
      { isScope := true, used := false, side := .none, hasOn := false, uniqueOutputs := [], joinKeys := [],
        allAgg := true, limit1 := false, noFrom := false, having := true } = false ∧
    hasSingleOutputRow []
      { isScope := true, used := false, side := .none, hasOn := false, uniqueOutputs := [], joinKeys := [],
        allAgg := false, limit1 := false, noFrom := true, where_ := true } = true ∧
    hasSingleOutputRow allSingleRowAtoms
      { isScope := true, used := false, side := .none, hasOn := false, uniqueOutputs := [], joinKeys := [],
        allAgg := false, limit1 := false, noFrom := true, where_ := true } = false ∧
    project (fun r => [col 0 r]) (product [[.int 1]] []) ≠ project (fun r => [col 0 r]) [[.int 1]] := by
  decide

theorem eliminate_guards_present :
    elimTop = [.isScope, .notUsed] ∧ elimBranchA = [.sideLeft, .joinedOnAllUnique] ∧
    elimBranchB = [.noOn, .singleRow] ∧ (∀ a ∈ allSingleRowAtoms, a ∈ singleRowGuards) := by decide

-- ------------------------------------------------------------------------------------------ optimize_joins
/-- inner joins commute as bags, up to the column permutation the projection undoes -/
theorem inner_join_reorder (on on' : Row → Row → B3) (l r : Table) (π π' : Row → Row)
    (hon : ∀ a b, on a b = on' b a) (hπ : ∀ a b, π (a ++ b) = π' (b ++ a)) :
    BagEq (project π (innerJoin on l r)) (project π' (innerJoin on' r l)) := by
  rw [innerJoin_eq_filter_pairs, innerJoin_eq_filter_pairs]
  simp only [project, List.map_map]
  have hswap : List.Perm (l.flatMap (fun a => r.map (fun b => (a, b))))
      ((r.flatMap (fun b => l.map (fun a => (b, a)))).map Prod.swap) := by
    rw [List.map_flatMap]
    simp only [List.map_map]
    exact perm_flatMap_comm l r (fun a b => (a, b))
  have h1 := (hswap.filter (fun ab => isTrue (on ab.1 ab.2))).map (π ∘ fun ab => ab.1 ++ ab.2)
  refine h1.trans ?_
  rw [List.filter_map, List.map_map]
  apply List.Perm.of_eq
  have hf : ((fun ab : Row × Row => isTrue (on ab.1 ab.2)) ∘ Prod.swap) = (fun ab => isTrue (on' ab.1 ab.2)) := by
    funext ab; simp [Function.comp, hon]
  rw [hf]
  apply List.map_congr_left
  intro ab _
  simp [Function.comp, hπ]

/-- NECESSITY of `not any(join.side …)`: LEFT joins do not commute -/
theorem left_join_reorder_unsound :
    ¬ BagEq (project (fun r => [col 0 r, col 1 r]) (leftJoin (fun a b => eq3 (col 0 a) (col 0 b)) [[.int 1]] [] 1))
            (project (fun r => [col 1 r, col 0 r]) (leftJoin (fun a b => eq3 (col 0 a) (col 0 b)) [] [[.int 1]] 1)) := by
  intro h; have := h.length_eq; revert this; decide

theorem reorder_guard_present : reorderRequiresNoSide = true ∧
    isReorderable reorderRequiresNoSide [.none, .left] = false ∧
    isReorderable reorderRequiresNoSide [.none, .none] = true := by decide

-- ------------------------------------------------------------------------------------------ pipeline
/-- every prefix of a pipeline of result-preserving rules preserves the result (any query type, any semantics) -/
theorem prefix_preserves {Q R : Type} (sem : Q → R) (rules : List (Q → Q)) (h : ∀ r ∈ rules, Preserves sem r)
    (n : Nat) : Preserves sem (applyRules (rules.take n)) := by
  have key : ∀ (rs : List (Q → Q)), (∀ r ∈ rs, Preserves sem r) → Preserves sem (applyRules rs) := by
    intro rs
    induction rs with
    | nil => intro _ q; rfl
    | cons r rs ih =>
      intro hr q
      simp only [applyRules, List.foldl_cons]
      have h1 := ih (fun r' hr' => hr r' (List.mem_cons_of_mem _ hr')) (r q)
      simp only [applyRules] at h1
      rw [h1]
      exact hr r (List.mem_cons_self ..) q
  exact key _ (fun r hr => h r (List.mem_of_mem_take hr))

/-- TABLE FACT: the pipeline the harness runs prefix by prefix is the one in optimizer.py; `qualify` comes first -/
theorem rules_table : rules.head? = some "qualify" ∧ rules.length = 14 ∧
    "pushdown_predicates" ∈ rules ∧ "merge_subqueries" ∈ rules ∧ "eliminate_joins" ∈ rules ∧
    "optimize_joins" ∈ rules := by decide

end SqlglotModel.Properties.C03
