/-
  C05 — tokenize / parse terminate with a result or a sqlglot error (PARTIAL by design).

  Proved here, for ALL token lists, error levels and programs (no size bound):
    * the cursor discipline of `Parser._advance/_retreat/_match*/_try_parse/_parse_csv/_parse_wrapped` as modelled in
      `Model/Cursor.lean`: restoration, loop termination, a polynomial step bound, no IndexError for well-formed
      programs, and the per-chunk funnel ending in a value or a ParseError;
    * the position arithmetic of `TokenizerCore._scan` (`Model/ScanProgress.lean`): every iteration moves `_current`
      forward although sub-scanners rewind, hence a linear number of iterations.
  NOT proved (monitored at run time by vf/props/c05.py on the real parser instead): that each of the ~200 real
  `_parse_*` methods satisfies the `Sound`/`Restoring` contracts which the `…_any_method` theorems take as hypotheses;
  the generator; the contents of tokens and trees.
  Only property theorems, non-vacuity examples and counter-example witnesses live here.
-/
import SqlglotModel.Proofs.Cursor
import SqlglotModel.Proofs.ScanProgress
import SqlglotModel.Proofs.FindParser
import SqlglotModel.Proofs.FormatScan
import SqlglotModel.Generated.C05

namespace SqlglotModel.Properties.C05
open SqlglotModel.Cursor

/-! ## cursor discipline -/

/-- a Restoring program that returns None / a falsy value leaves the index where it started (any fuel, any state) -/
theorem comb_restores (toks : List Tok) (fuel : Nat) (p : Comb) (hp : p.restoring = true)
    (s s' : St) (v : Val) (h : run toks fuel p s = (.ret v, s')) (hv : v.isTruthy = false) : s'.idx = s.idx :=
  run_restoring toks fuel p hp s v s' h hv

example : (Comb.andThen (.tok 7) (.both (.tok 8) (.wrapped (.csv (.tok 9) COMMA) false))).restoring = true := by decide
example : (run [7, 8] 5 (.andThen (.tok 3) .eps) ⟨0, 0, 0, .raise⟩) = (.ret .none, ⟨0, 0, 0, .raise⟩) := by decide

/-- the side condition is needed: `if not self._match(A): return None; return self._match(B)` (no retreat) returns
    a falsy value with the cursor moved -/
theorem comb_restores_needs_guard :
    run [5, 9] 3 (.andThen (.tok 5) (.tok 6)) ⟨0, 0, 0, .raise⟩ = (.ret .falsy, ⟨1, 1, 0, .raise⟩)
      ∧ (Comb.andThen (.tok 5) (.tok 6)).restoring = false := by decide

/-- `_try_parse` around ANY method (no hypothesis on it): a falsy result, a swallowed ParseError, or `retreat=True`
    leaves the index where it started -/
theorem try_parse_restores_any_method (m : P) (rt : Bool) (s s' : St) (v : Val)
    (h : tryParseS m rt s = (.ret v, s')) (hv : v.isTruthy = false ∨ rt = true) : s'.idx = s.idx := by
  cases hv with
  | inl hv => exact tryParse_restoring m rt s v s' h hv
  | inr hr => subst hr; exact tryParse_retreat_still m s v s' h

/-- `_try_parse` hands `error_level` back as it found it, also when an internal exception flies through -/
theorem try_parse_level_restored (m : P) (rt : Bool) (s s' : St) (o : Out)
    (h : tryParseS m rt s = (o, s')) (hd : o ≠ .diverged) : s'.lvl = s.lvl :=
  tryParse_level m rt s o s' h hd

/-- `_try_parse` never raises ParseError -/
theorem try_parse_swallows_parse_error (m : P) (rt : Bool) (s : St) : (tryParseS m rt s).1 ≠ .raised := by
  unfold tryParseS
  cases m { s with lvl := .immediate } with
  | mk o s1 => cases o <;> simp

/-- `_parse_csv` around ANY method that honours the contract `Sound n b` (stops, never moves back, stays in range,
    ≤ b(remaining) steps, no leak): the `while self._match(sep)` loop finishes, within (r+1)·(b r + 1) steps -/
theorem csv_terminates (toks : List Tok) (sep : Tok) (b : Nat → Nat) (m : P) (fuel : Nat)
    (hm : Sound toks.length b m) (hb : BMono b) (hf : toks.length < fuel) (s : St) (hs : s.idx ≤ toks.length) :
    (csvS toks sep fuel m s).1 ≠ .diverged ∧ (csvS toks sep fuel m s).1 ≠ .internal ∧
      (csvS toks sep fuel m s).2.steps ≤ s.steps + (toks.length - s.idx + 1) * (b (toks.length - s.idx) + 1) := by
  obtain ⟨_, _, c3, c4, c5⟩ := sound_csv (sep := sep) hm hb hf s hs
  exact ⟨c4, c5, c3⟩

example : Sound [7, COMMA, 7].length (fun _ => 1) (matchTok [7, COMMA, 7] 7 true) := sound_matchTok _ _ _
example : run [7, COMMA, 7, COMMA] 5 (.csv (.tok 7) COMMA) ⟨0, 0, 0, .raise⟩ = (.ret .truthy, ⟨4, 4, 0, .raise⟩) := by
  decide

/-- the contract is needed: an element method that retreats one token too far keeps `_parse_csv` spinning -/
theorem csv_needs_monotone_element (fuel : Nat) (acc : Val) (st : Nat) :
    (csvLoop [COMMA] COMMA (fun s => (.ret .truthy, { s with idx := s.idx - 1 })) fuel acc ⟨0, st, 0, .raise⟩).1
      = .diverged := by
  induction fuel generalizing acc st with
  | zero => rfl
  | succ fuel ih =>
    unfold csvLoop
    simp only [curr, COMMA, bump]
    exact ih _ _

/-- `while True: x = m(); if not x: break` around ANY method that honours the contract and consumes a token whenever
    it reports success: finishes within (r+1)·b r steps -/
theorem many_terminates (n : Nat) (b : Nat → Nat) (m : P) (fuel : Nat) (hm : Sound n b m) (hb : BMono b)
    (hc : Consuming n m) (hf : n < fuel) (s : St) (hs : s.idx ≤ n) :
    (manyS fuel m s).1 ≠ .diverged ∧ (manyS fuel m s).1 ≠ .internal ∧
      (manyS fuel m s).2.steps ≤ s.steps + (n - s.idx + 1) * b (n - s.idx) := by
  obtain ⟨_, _, c3, c4, c5⟩ := sound_many hm hb hc hf s hs
  exact ⟨c4, c5, c3⟩

example : Consuming 3 (matchTok [7, 7, 7] 7 true) :=
  (run_sound [7, 7, 7] 4 (by decide) (.tok 7) rfl).2 rfl

/-- the Consuming hypothesis is needed: a loop body that reports success without consuming never finishes -/
theorem many_needs_consuming (toks : List Tok) (fuel : Nat) (s : St) :
    (run toks fuel (.many .eps) s).1 = .diverged := by
  have h : ∀ acc, (manyLoop (fun s => (Out.ret Val.truthy, s)) fuel acc s).1 = .diverged := by
    induction fuel with
    | zero => intro acc; rfl
    | succ fuel ih => intro acc; unfold manyLoop; simpa [Val.isTruthy] using ih .truthy
  exact h .falsy

/-- every well-formed program terminates from every in-range state (the iteration fuel `size + 1` is never used up) -/
theorem run_total (toks : List Tok) (fuel : Nat) (hf : toks.length < fuel) (p : Comb) (hw : p.wf = true)
    (s : St) (hs : s.idx ≤ toks.length) : (run toks fuel p s).1 ≠ .diverged :=
  ((run_sound toks fuel hf p hw).1 s hs).2.2.2.1

/-- … within `p.bound (remaining tokens)` calls of `_advance` (retreats included) -/
theorem run_steps_bound (toks : List Tok) (fuel : Nat) (hf : toks.length < fuel) (p : Comb) (hw : p.wf = true)
    (s : St) (hs : s.idx ≤ toks.length) :
    (run toks fuel p s).2.steps ≤ s.steps + p.bound (toks.length - s.idx) :=
  ((run_sound toks fuel hf p hw).1 s hs).2.2.1

/-- … and that bound is a polynomial in the remaining input whose degree is the loop nesting depth of the program -/
theorem run_steps_polynomial (toks : List Tok) (fuel : Nat) (hf : toks.length < fuel) (p : Comb) (hw : p.wf = true)
    (s : St) (hs : s.idx ≤ toks.length) :
    (run toks fuel p s).2.steps ≤ s.steps + p.coeff * (toks.length - s.idx + 1) ^ p.depth :=
  Nat.le_trans (run_steps_bound toks fuel hf p hw s hs) (Nat.add_le_add_left (bound_le_poly p _) _)

/-- no IndexError out of `_advance` -/
theorem run_outcome_not_internal (toks : List Tok) (fuel : Nat) (hf : toks.length < fuel) (p : Comb)
    (hw : p.wf = true) (s : St) (hs : s.idx ≤ toks.length) : (run toks fuel p s).1 ≠ .internal :=
  ((run_sound toks fuel hf p hw).1 s hs).2.2.2.2

/-- the cursor never ends up before its starting point nor beyond the end of the token list -/
theorem run_cursor_in_range (toks : List Tok) (fuel : Nat) (hf : toks.length < fuel) (p : Comb) (hw : p.wf = true)
    (s : St) (hs : s.idx ≤ toks.length) :
    s.idx ≤ (run toks fuel p s).2.idx ∧ (run toks fuel p s).2.idx ≤ toks.length :=
  ⟨((run_sound toks fuel hf p hw).1 s hs).1, ((run_sound toks fuel hf p hw).1 s hs).2.1⟩

/-- a non-trivial well-formed program: `( item {, item} )` lists, optional try-parsed prefix, repeated -/
def sampleProgram : Comb :=
  .many (.andThen (.tok 4) (.both (.tryParse (.andThen (.tok 5) (.andThen (.tok 6) .fail)) false)
    (.wrapped (.csv (.orElse (.tok 7) (.attempt (.andThen (.tok 5) (.tok 7)))) COMMA) false)))

example : sampleProgram.wf = true := by decide
example : sampleProgram.depth = 2 := by decide
example : run [4, LP, 7, COMMA, 5, 7, RP, 4, 5, 6] 11 sampleProgram ⟨0, 0, 0, .warn⟩
    = (.ret .truthy, ⟨8, 13, 1, .warn⟩) := by decide +kernel

/-- well-formedness is needed: a bare `_advance()` at the end of the tokens raises IndexError -/
theorem run_outcome_needs_wf : (run [7] 2 (.both (.tok 7) .advance) ⟨0, 0, 0, .raise⟩).1 = .internal := by decide

/-- the per-chunk funnel (`_parse_batch_statements`): a well-formed statement parser ends in a value or a ParseError -/
theorem parse_top_outcome (toks : List Tok) (fuel : Nat) (hf : toks.length < fuel) (p : Comb) (hw : p.wf = true)
    (lvl : Level) : (∃ v s, parseTop toks fuel p lvl = (.ret v, s)) ∨ (∃ s, parseTop toks fuel p lvl = (.raised, s)) := by
  have hs : (initSt lvl).idx ≤ toks.length := by simp [initSt]
  have h1 := run_total toks fuel hf p hw (initSt lvl) hs
  have h2 := run_outcome_not_internal toks fuel hf p hw (initSt lvl) hs
  unfold parseTop
  cases hr : run toks fuel p (initSt lvl) with
  | mk o s1 =>
    rw [hr] at h1 h2
    cases o with
    | ret v =>
      simp only [leftoverK, failS]
      by_cases hl : s1.idx < toks.length <;> by_cases hi : s1.lvl = .immediate <;>
        simp only [hl, hi, if_true, if_false, checkErrorsK] <;> (try split) <;> simp
    | raised => exact Or.inr ⟨s1, rfl⟩
    | internal => exact absurd rfl h2
    | diverged => exact absurd rfl h1

example : parseTop [7, 8] 3 (.tok 7) .raise = (.raised, ⟨1, 1, 1, .raise⟩) := by decide
example : parseTop [7, 8] 3 (.tok 7) .ignore = (.ret .truthy, ⟨1, 1, 1, .ignore⟩) := by decide


/-! ## deepening: `_match_text_seq`, dispatch-table loops, wrapped lists, the statement dispatcher -/

/-- `_match_text_seq` (advances token by token, retreats when a later text does not match) is Restoring, for every text
    list, token list and start state -/
theorem match_text_seq_restores (toks : List Tok) (ts : List Tok) (adv : Bool) (s s' : St) (v : Val)
    (h : matchTextSeq toks ts adv s = (.ret v, s')) (hv : v.isTruthy = false) : s'.idx = s.idx :=
  textSeq_restoring toks ts adv s v s' h hv

/-- … and with `advance=False` it never moves the cursor at all -/
theorem match_text_seq_peek_still (toks : List Tok) (ts : List Tok) (s s' : St) (v : Val)
    (h : matchTextSeq toks ts false s = (.ret v, s')) : s'.idx = s.idx :=
  textSeq_still toks ts s v s' h

example : matchTextSeq [5, 6, 7] [5, 6, 8] true ⟨0, 0, 0, .raise⟩ = (.ret .falsy, ⟨0, 3, 0, .raise⟩) := by decide
example : matchTextSeq [5, 6, 7] [5, 6] true ⟨0, 0, 0, .raise⟩ = (.ret .truthy, ⟨2, 2, 0, .raise⟩) := by decide

/-- a dispatch-table loop (`_parse_range` / RANGE_PARSERS, `_parse_column_ops` / COLUMN_OPERATORS,
    `_parse_query_modifiers` / QUERY_MODIFIER_PARSERS, …) around ANY table entries that honour the contract `Sound n b`
    finishes within (r+1)·(b r + 1) steps, provided the caller consumed the key (`consume = true`) or every entry is
    Consuming (peeking variant).  `Sound` includes "never moves the cursor back", which is what the harness monitors on
    every real table-entry activation. -/
theorem table_loop_terminates (toks : List Tok) (keys : List Tok) (consume : Bool) (b : Nat → Nat) (entry : Tok → P)
    (fuel : Nat) (he : ∀ k, Sound toks.length b (entry k)) (hb : BMono b)
    (hprog : consume = true ∨ ∀ k, Consuming toks.length (entry k)) (hf : toks.length < fuel)
    (s : St) (hs : s.idx ≤ toks.length) :
    (tableLoopS toks keys consume fuel entry s).1 ≠ .diverged ∧ (tableLoopS toks keys consume fuel entry s).1 ≠ .internal ∧
      (tableLoopS toks keys consume fuel entry s).2.steps
        ≤ s.steps + (toks.length - s.idx + 1) * (b (toks.length - s.idx) + 1) := by
  obtain ⟨_, _, c3, c4, c5⟩ := sound_tableLoop (keys := keys) he hb hprog hf s hs
  exact ⟨c4, c5, c3⟩

example : run [7, 9, 7, 9, 3] 6 (.tableLoop [7] (.tok 9) true) ⟨0, 0, 0, .raise⟩ = (.ret .truthy, ⟨4, 4, 0, .raise⟩) := by
  decide

/-- the contract is needed — this is the ClickHouse `GLOBAL` regression: a RANGE_PARSERS entry that, when its keyword is
    not followed by what it expects, retreats to before the keyword and returns its (truthy) left operand makes
    `_parse_range` re-match the same token for ever, at every error level and without recording any error -/
theorem table_loop_needs_progress (fuel : Nat) (acc : Val) (st : Nat) (lvl : Level) :
    (tableLoop [4] [4] true (fun _ s => (.ret .truthy, { s with idx := s.idx - 1 })) fuel acc ⟨0, st, 0, lvl⟩).1
      = .diverged := by
  induction fuel generalizing acc st with
  | zero => rfl
  | succ fuel ih =>
    unfold tableLoop
    simp only [curr, keyOf, bump]
    exact ih _ _

/-- same for the peeking variant (`_match_set(TABLE, advance=False)`): an entry that reports success without consuming -/
theorem table_loop_peek_needs_consuming (fuel : Nat) (acc : Val) (s : St) :
    (tableLoop [4] [4] false (fun _ s => (.ret .truthy, s)) fuel acc { s with idx := 0 }).1 = .diverged := by
  induction fuel generalizing acc with
  | zero => rfl
  | succ fuel ih =>
    unfold tableLoop
    simp only [curr, keyOf]
    exact ih _

/-- `_parse_wrapped_id_vars` / `_parse_wrapped_csv(_parse_id_var)`: well-formed for every identifier token set, hence
    total, leak-free and linear: at most 2·(r+1) + 2 steps -/
theorem wrapped_id_vars_terminates (toks : List Tok) (fuel : Nat) (hf : toks.length < fuel) (ids : List Tok)
    (optional : Bool) (s : St) (hs : s.idx ≤ toks.length) :
    (run toks fuel (.wrappedIdVars ids optional) s).1 ≠ .diverged ∧
      (run toks fuel (.wrappedIdVars ids optional) s).1 ≠ .internal ∧
      (run toks fuel (.wrappedIdVars ids optional) s).2.steps ≤ s.steps + ((toks.length - s.idx + 1) * 2 + 2) := by
  have hw : (Comb.wrappedIdVars ids optional).wf = true := rfl
  exact ⟨run_total toks fuel hf _ hw s hs, run_outcome_not_internal toks fuel hf _ hw s hs,
    run_steps_bound toks fuel hf _ hw s hs⟩

/-- `_parse_wrapped_csv(p)` inherits everything from `p` -/
theorem wrapped_csv_wf (p : Comb) (sep : Tok) (optional : Bool) : (Comb.wrappedCsv p sep optional).wf = p.wf := rfl

example : run [LP, 3, COMMA, 3, RP] 6 (.wrappedIdVars [3] false) ⟨0, 0, 0, .raise⟩ = (.ret .truthy, ⟨5, 5, 0, .raise⟩) := by
  decide

/-- the Command fallback (`while self._curr: self._advance()`) consumes the rest of the chunk -/
theorem command_fallback_consumes_chunk (toks : List Tok) (fuel : Nat) (s : St) (hs : s.idx ≤ toks.length) :
    (run toks fuel .restOfChunk s).2.idx = toks.length ∧ (run toks fuel .restOfChunk s).1 = .ret .truthy :=
  restOfChunk_idx toks s hs

/-- `_parse_statement` on a chunk that starts with one of the tokenizer's COMMANDS: whatever follows, the chunk is
    swallowed, no "Invalid expression / Unexpected token" is recorded and the chunk funnel returns at every level -/
theorem statement_command_fallback (k : Tok) (rest : List Tok) (fuel : Nat) (sk ck : List Tok) (stmt expr : Comb)
    (lvl : Level) (h1 : sk.contains k = false) (h2 : ck.contains k = true) :
    parseTop (k :: rest) fuel (.statement sk stmt ck expr) lvl = (.ret .truthy, ⟨rest.length + 1, rest.length + 1, 0, lvl⟩) := by
  have h1' : k ∉ sk := by simpa using h1
  have h2' : k ∈ ck := by simpa using h2
  cases rest with
  | nil =>
    simp [parseTop, Comb.statement, run, ifTokS, inSet, curr, h1', h2', restOfChunk, bump, initSt, leftoverK, checkErrorsK]
  | cons r rs =>
    simp [parseTop, Comb.statement, run, ifTokS, inSet, curr, h1', h2', restOfChunk, bump, initSt, leftoverK, checkErrorsK]
    try omega

/-- `_parse_batch_statements`: with a well-formed statement parser every chunk ends in a value or a ParseError, and the
    loop runs once per chunk — the batch never diverges and never leaks -/
theorem parse_batch_terminates (fuel : Nat) (p : Comb) (hw : p.wf = true) (lvl : Level) (chunks : List (List Tok))
    (hf : ∀ c ∈ chunks, c.length < fuel) (n : Nat) :
    (parseBatch fuel p lvl chunks n).1 ≠ .diverged ∧ (parseBatch fuel p lvl chunks n).1 ≠ .internal := by
  induction chunks generalizing n with
  | nil => simp [parseBatch]
  | cons c cs ih =>
    have hc := hf c (List.mem_cons_self ..)
    have hcs : ∀ c' ∈ cs, c'.length < fuel := fun c' h => hf c' (List.mem_cons_of_mem _ h)
    unfold parseBatch
    rcases parse_top_outcome c fuel hc p hw lvl with ⟨v, s, h⟩ | ⟨s, h⟩
    · rw [h]; exact ih hcs _
    · rw [h]; simp

example : parseBatch 4 (.statement [5] (.tok 3) [8] (.tok 3)) .raise [[5, 3], [8, 1, 1], [3]] 0 = (.ret .truthy, 6) := by
  decide

/-! ## the three shapes of an option loop -/

/-- shapes 1 and 2 — the failure branch consumes the offending token, or breaks after `raise_error` — terminate at EVERY
    error level, around ANY element method that honours the contract and consumes input whenever it reports success:
    no divergence, no IndexError, at most (r+1)·(b r + 1) steps -/
theorem option_loop_terminates (toks : List Tok) (close : Tok) (mode : OnFail) (hm : mode ≠ .relyOnRaise) (b : Nat → Nat)
    (p : P) (fuel : Nat) (hp : Sound toks.length b p) (hb : BMono b) (hc : Consuming toks.length p)
    (hf : toks.length < fuel) (s : St) (hs : s.idx ≤ toks.length) :
    (optionLoop toks close mode p fuel s).1 ≠ .diverged ∧ (optionLoop toks close mode p fuel s).1 ≠ .internal ∧
      (optionLoop toks close mode p fuel s).2.steps ≤ s.steps + (toks.length - s.idx + 1) * (b (toks.length - s.idx) + 1) := by
  obtain ⟨_, _, c3, c4, c5⟩ := good_optionLoop (close := close) hp hb hc hm fuel s hs (by omega)
  exact ⟨c4, c5, c3⟩

example : run [LP, 7, 9, 7, RP, 3] 7 (.both (.tok LP) (.optionLoop RP (.tok 7) .skip)) ⟨0, 0, 0, .warn⟩
    = (.ret .truthy, ⟨5, 5, 0, .warn⟩) := by decide +kernel
example : run [LP, 7, 9, 7, RP, 3] 7 (.both (.tok LP) (.optionLoop RP (.tok 7) .breakAfterRaise)) ⟨0, 0, 0, .warn⟩
    = (.ret .truthy, ⟨2, 2, 1, .warn⟩) := by decide +kernel

/-- shape 3 — `if option is None: self.raise_error(…)` with no `break` (the seeded `_parse_wrapped_options` regression) —
    never finishes at IGNORE / WARN / RAISE: raise_error only records the error, the cursor stays on the offending token -/
theorem option_loop_relying_on_raise_diverges (fuel errs : Nat) (lvl : Level) (hl : lvl ≠ .immediate) :
    (optionLoop [5] RP .relyOnRaise (fun s => (.ret .none, s)) fuel ⟨0, 0, errs, lvl⟩).1 = .diverged := by
  induction fuel generalizing errs with
  | zero => rfl
  | succ fuel ih =>
    unfold optionLoop
    simp only [curr, RP, failThen, failS, hl, Val.isTruthy]
    exact ih (errs + 1)

/-- … and is only saved by IMMEDIATE, where raise_error raises -/
theorem option_loop_relying_on_raise_immediate (fuel errs : Nat) :
    (optionLoop [5] RP .relyOnRaise (fun s => (.ret .none, s)) (fuel + 1) ⟨0, 0, errs, .immediate⟩).1 = .raised := by
  unfold optionLoop
  simp [curr, RP, failThen, failS, Val.isTruthy]

/-- every `while` loop of sqlglot/parser.py and sqlglot/parsers/*.py, classified by ast on this run: none continues after
    a `raise_error` without having consumed a token ("relies-on-raise"), except the audited chunk loop of
    `_parse_batch_statements` (its continuation test is `self._chunk_index < chunks_length` and `_advance_chunk` increments
    `_chunk_index` on every iteration).  The other classes are: progress on every continuing path, break / return after
    raise_error, or result-driven (no raise_error; covered by the run-time Consuming monitor and the step budget). -/
theorem parser_loops_progress_or_break :
    (SqlglotModel.Generated.C05.parserLoops.filter (fun l => l.2.2 == "relies-on-raise")).map (·.1)
        = ["parser._parse_batch_statements"] ∧
      SqlglotModel.Generated.C05.parserLoops.all
        (fun l => l.2.2 == "progress" || l.2.2 == "break-after-raise" || l.2.2 == "result-driven" || l.2.2 == "relies-on-raise")
        = true := by
  decide +kernel

/-- the generator side: the only places where a generator method reaches WITHOUT a guard into an arg that the node class
    declares OPTIONAL (`expression.args["x"]`, `expression.this.<attr>` chains) are the audited ones below (ast + live
    arg_types on this run; a new one breaks the build).  Unguarded reaches into REQUIRED args (listed in
    `generatorUnguardedRequired`) are what makes generation from an incomplete tree (IGNORE / WARN) leak — the recorded
    class-level finding; they are exercised by the incomplete-tree stage of the search and tallied by crash-site family. -/
theorem generator_unguarded_optional_accesses_known :
    SqlglotModel.Generated.C05.generatorUnguardedOptional =
      [("generator.Generator.drop_sql", "expression.args['kind']"),
       ("generator.Generator.interval_sql", "expression.this.is_string"),
       ("generator.Generator.lateral_sql", "expression.args['alias']"),
       ("generator.Generator.pivotalias_sql", "expression.args['alias']"),
       ("generator.Generator.tsordstodate_sql", "expression.args['format']"),
       ("generator.Generator.tsordstotime_sql", "expression.args['format']"),
       ("postgres.PostgresGenerator.interval_sql", "expression.args['unit']"),
       ("tsql.TSQLGenerator.drop_sql", "expression.args['kind']"),
       ("tsql._format_sql", "expression.args['format']")] := by
  decide +kernel

/-! ## manual lookaheads -/

/-- a manual lookahead `self._tokens[self._index + k]` behind the strict guard `self._index + k < size` never raises
    IndexError and never moves the cursor — for every k, token list and state (also at the very end of a chunk) -/
theorem peek_guarded_no_index_error (toks : List Tok) (k : Nat) (t : Tok) (s : St) :
    (peekAt toks k t .strict s).1 ≠ .internal ∧ (peekAt toks k t .strict s).2 = s :=
  ⟨(peekAt_strict_safe toks k t s).1, peekAt_state toks k t .strict s⟩

example : peekAt [5, 6, 7] 2 7 .strict ⟨0, 0, 0, .raise⟩ = (.ret .truthy, ⟨0, 0, 0, .raise⟩) := by decide
example : peekAt [5, 6, 7] 3 7 .strict ⟨0, 0, 0, .raise⟩ = (.ret .falsy, ⟨0, 0, 0, .raise⟩) := by decide

/-- the guard must be strict: with `index + k > size` as the bail-out test (i.e. `≤` to go on) a chunk that ends exactly
    k tokens after the cursor — `… WINDOW w AS` with the lookahead for `(` at k = 3 — reads one past the end -/
theorem peek_off_by_one_guard_index_error :
    (peekAt [5, 6, 7] 3 0 .offByOne ⟨0, 0, 0, .raise⟩).1 = .internal ∧
      (run [9, 5, 6, 7] 5 (.both (.tok 9) (.peekAt 3 0 .offByOne)) ⟨0, 0, 0, .immediate⟩).1 = .internal := by decide

/-- every forward lookahead into the token list found in sqlglot/parser.py and sqlglot/parsers/*.py on this run sits
    directly behind a strict bounds guard on the same index expression, and only the allow-listed methods have one
    (finite table, decided completely; a new or differently guarded lookahead breaks the build) -/
theorem parser_forward_lookaheads_guarded :
    SqlglotModel.Generated.C05.forwardLookaheadSites.all
        (fun x => x.2.2 == x.2.1 ++ " < len(self._tokens)" || x.2.2 == x.2.1 ++ " < size") = true ∧
      (SqlglotModel.Generated.C05.forwardLookaheadSites.map (·.1)).eraseDups =
        ["parser._advance", "parser._can_parse_named_window", "teradata._parse_function"] := by
  decide +kernel

/-! ## `_find_parser`: the trie key function and the dict key function agree -/

namespace Find
open SqlglotModel.FindParser

/-- `" ".join(s.split(" ")) == s` for every text (any separator character) -/
theorem split_join_round_trip (sep : Char) (s : Str) : joinWith sep (splitOn sep s) = s := join_split sep s

/-- the two key functions agree on every list of token texts: joining the words the trie was walked with gives exactly
    the string the dict is indexed with -/
theorem find_parser_keys_agree (this : List Str) :
    joinWith ' ' (this.flatMap (splitOn ' ')) = joinWith ' ' this := join_flatMap_split ' ' this

/-- hence `_find_parser` never leaks KeyError: for every dict (its trie built with `key.split(" ")`), every list of token
    texts (quoted identifiers with leading / trailing / repeated blanks, tabs, newlines included) an EXISTS answer of the
    trie names a key the dict has -/
theorem find_parser_no_key_error (keys : List Str) (toks : List Str) (k : Str) :
    findParser (splitOn ' ') keys toks ≠ .keyError k := by
  unfold findParser
  cases toks with
  | nil => simp
  | cons t ts => exact walk_no_keyError keys (t :: ts) [] [] rfl k

example : findParser (splitOn ' ') ["GLOBAL".toList, "TERSE TABLES".toList] ["TERSE TABLES".toList]
    = .found "TERSE TABLES".toList := by decide +kernel
example : findParser (splitOn ' ') ["GLOBAL".toList, "TERSE TABLES".toList] ["TERSE".toList, "TABLES".toList]
    = .found "TERSE TABLES".toList := by decide +kernel
example : findParser (splitOn ' ') ["GLOBAL".toList] ["GLOBAL ".toList, "X".toList] = .notFound := by decide +kernel

/-- the agreement is needed: with `str.split()` as the trie key function (whitespace-normalising) a quoted token
    `"GLOBAL "` or `TERSE  TABLES` walks the trie to EXISTS while the dict is asked for the raw text -/
theorem find_parser_whitespace_split_key_error :
    findParser splitWs ["GLOBAL".toList] ["GLOBAL ".toList, "X".toList] = .keyError "GLOBAL ".toList ∧
    findParser splitWs ["TERSE TABLES".toList] ["TERSE  TABLES".toList] = .keyError "TERSE  TABLES".toList ∧
    findParser splitWs ["GLOBAL".toList] ["\tGLOBAL".toList] = .keyError "\tGLOBAL".toList := by
  decide +kernel

/-- the key functions as the source has them on this run (ast): `_find_parser` walks the trie with `curr.split(' ')`,
    indexes the dict with `' '.join(this)`, and every SHOW_TRIE / SET_TRIE is built with `key.split(' ')` -/
theorem find_parser_key_functions_known :
    SqlglotModel.Generated.C05.findParserTrieKey = "curr.split(' ')" ∧
    SqlglotModel.Generated.C05.findParserDictKey = "' '.join(this)" ∧
    SqlglotModel.Generated.C05.trieBuilds.all (fun b => b.2 == "key.split(' ')") = true ∧
    SqlglotModel.Generated.C05.trieBuilds.length ≥ 2 := by
  decide +kernel

end Find

/-! ## scanners over format-string literals inside function builders -/

namespace Fmt
open SqlglotModel.FormatScan

/-- the guarded `%`-walk (`_has_time_specifier` as the source has it: `if i < length and s[i] in TIME_SPECIFIERS`) never
    indexes out of range and terminates within `len(s) + 1` iterations — for every string (empty, a single `%`, a trailing
    `%`, `%%`, …) and every specifier set -/
theorem format_walk_guarded_safe (spec : Char → Bool) (s : List Char) :
    hasTimeSpecifier spec s = .found ∨ hasTimeSpecifier spec s = .notFound :=
  walkGuarded_safe spec s (s.length + 1) 0 (by omega)

example : hasTimeSpecifier (fun c => c = 'H') "%Y-%m-%".toList = .notFound := by decide +kernel
example : hasTimeSpecifier (fun c => c = 'H') "%Y %H".toList = .found := by decide +kernel

/-- the guard is needed: the find-based variant that looks at `s[i + 1]` without a bounds test raises IndexError on a
    format ending in an unpaired `%` (no time specifier earlier), and on a single `%` -/
theorem format_walk_find_index_error :
    hasTimeSpecifierFind (fun c => c = 'H') "%Y-%m-%".toList = .indexError ∧
    hasTimeSpecifierFind (fun c => c = 'H') "%d days, 100%".toList = .indexError ∧
    hasTimeSpecifierFind (fun c => c = 'H') "%".toList = .indexError ∧
    hasTimeSpecifierFind (fun c => c = 'H') "%Y %H".toList = .found := by decide +kernel

/-- every index-arithmetic lookup into a string / argument list inside the function builders and their helpers
    (parsers/*.py, dialects/dialect.py, parser.py, time.py, helper.py; ast on this run) with the bounds guard that dominates
    it — an allow-list decided completely, so a new or differently guarded lookup breaks the build.  Audited entries:
    `parser._advance tokens[index - 1]` sits behind `if index > 0` (not a length test); `parser.build_var_map args[i + 1]`
    is guarded only by `range(0, len(args), 2)`, which is NOT enough for an odd number of arguments — the recorded
    clean-tree finding `MAP(1` (IndexError in build_var_map). -/
theorem builder_string_lookaheads_guarded :
    SqlglotModel.Generated.C05.stringIndexSites =
      [("hive._build_named_struct", "args[i + 1]", "for i in range(0, len(args) - 1, 2)"),
       ("mysql._has_time_specifier", "date_format[i]", "i < length"),
       ("parser._advance", "tokens[index + 1]", "index + 1 < size"),
       ("parser._advance", "tokens[index - 1]", ""),
       ("parser.build_var_map", "args[i + 1]", "for i in range(0, len(args), 2)"),
       ("snowflake._build_round", "positional_keys[positional_idx]", "positional_idx < len(positional_keys)")] := by
  decide +kernel

/-- `xs[0]` behind a TRUTHINESS guard (`if xs and xs[0] …`) never raises, whatever the list is — None, empty or not -/
theorem index_first_truthy_guard_safe {α : Type} (xs : Option (List α)) :
    indexFirst .truthy xs ≠ .indexError ∧ indexFirst .truthy xs ≠ .typeError := by
  cases xs with
  | none => simp [indexFirst]
  | some l => cases l <;> simp [indexFirst]

/-- an `is not None` guard does not dominate the index: the empty list passes it (an identifier whose text tokenizes
    to zero tokens — empty, blanks, comment-only — in `_parse_types`) -/
theorem index_first_not_none_guard_index_error :
    indexFirst (α := Nat) .notNone (some []) = .indexError ∧ indexFirst (α := Nat) .truthy (some []) = .skipped := by
  decide

/-- every CONSTANT index into a local / attribute list in sqlglot/parser.py and sqlglot/parsers/*.py (ast on this run) sits
    behind a truthiness or length guard on that list (`is not None` does not count), except the audited sites below —
    an exact allow-list, decided completely, so a new unguarded `xs[0]` or a guard weakened to `is not None` breaks the
    build.  Audited: fixed-arity fast paths (`parts[k]` after a length dispatch on another variable), lists that are
    non-empty by construction (`chunks`, `tags`, `errors`, the token list in `_warn_unsupported`), and recorded clean-tree
    findings (`bigquery._builder args[1]` = REGEXP_EXTRACT(''), `clickhouse._parse_value expressions[-1]`). -/
theorem local_list_indexes_guarded :
    (SqlglotModel.Generated.C05.localListIndexSites.filter (fun x => x.2.2 == "")).map (fun x => (x.1, x.2.1)) =
    [("bigquery._builder", "args[1]"),
     ("clickhouse._parse_value", "expressions[-1]"),
     ("parser._parse", "chunks[-1]"),
     ("parser._parse_column_parts_fast", "parts[0]"),
     ("parser._parse_column_parts_fast", "parts[1]"),
     ("parser._parse_column_parts_fast", "parts[2]"),
     ("parser._parse_column_parts_fast", "parts[3]"),
     ("parser._parse_heredoc", "tags[-1]"),
     ("parser._parse_hint", "self._prev_comments[0]"),
     ("parser._parse_pipe_syntax_tablesample", "with_.expressions[-1]"),
     ("parser._parse_string_agg", "args[0]"),
     ("parser._parse_table_parts_fast", "parts[0]"),
     ("parser._parse_table_parts_fast", "parts[1]"),
     ("parser._parse_table_parts_fast", "parts[2]"),
     ("parser._parse_vector_expressions", "expressions[0]"),
     ("parser._replace_lambda", "column.parts[0]"),
     ("parser._warn_unsupported", "self._tokens[-1]"),
     ("parser._warn_unsupported", "self._tokens[0]"),
     ("parser.parse_into", "e.errors[0]"),
     ("parser.parse_into", "errors[-1]"),
     ("redshift._parse_projections", "projections[-1]"),
     ("singlestore._parse_vector_expressions", "expressions[0]"),
     ("singlestore._parse_vector_expressions", "expressions[1]")] := by
  decide +kernel

end Fmt

/-! ## tokenizer: `_scan` makes progress although sub-scanners rewind -/

namespace Scan
open SqlglotModel.ScanProgress SqlglotModel.Generated.C05

/-- every iteration of the `_scan` loop whose sub-scanner never rewinds past the iteration's own `_advance(offset)`
    ends with `_current` strictly larger than it started -/
theorem scan_progress (current current' : Nat) (it : Iter) (h : stepIter current it = some current') :
    current < current' := stepIter_gt h

example : stepIter 4 ⟨0, suffixMoves 2 3 false⟩ = some 7 := by decide

/-- hence the loop runs at most `size - current` iterations, whatever the sub-scanners do -/
theorem scan_iterations_linear (size : Nat) (its : List Iter) (c c' n' : Nat)
    (h : scanLoop size its c 0 = some (c', n')) : n' ≤ size - c ∧ c + n' ≤ c' := by
  have := scanLoop_bound size its c 0 c' n' h
  omega

example : scanLoop 9 [⟨0, [.fwd 2]⟩, ⟨1, heredocMoves 3 3 false⟩, ⟨0, [.fwd 5]⟩, ⟨0, []⟩] 0 0 = some (10, 3) := by decide

/-- `_scan_number`'s `_advance(-len(numeric_literal))` undoes exactly the `_advance()` calls that built
    `numeric_literal`: never below the sub-scanner's entry point, for every digit run and suffix length -/
theorem suffix_rewind_disciplined (digits j : Nat) (keep : Bool) :
    rel (suffixMoves digits j keep) 0 = some (if keep then digits + j else digits) := by
  unfold suffixMoves
  simp only [rel]
  rw [rel_replicate_fwd]
  cases keep <;> simp [rel]

/-- `_scan_string`'s heredoc fallback (`_advance(-1)` unless at the end, `_advance(-len(tag))`) stays at or after the
    sub-scanner's entry point provided `_extract_string` moved at least `len(tag)` forward (one less when it hit the
    end of the input, where the returned tag includes the current character) -/
theorem heredoc_rewind_disciplined (e t : Nat) (atEnd : Bool) (h : t ≤ e + (if atEnd then 1 else 0)) :
    rel (heredocMoves e t atEnd) 0 = some (1 + e - (if atEnd then 0 else 1) - t) := by
  unfold heredocMoves
  cases atEnd
  · simp only [rel, List.nil_append, List.cons_append, Bool.false_eq_true, if_false] at h ⊢
    have h1 : 1 ≤ 0 + 1 + e := by omega
    have h2 : t ≤ 0 + 1 + e - 1 := by omega
    simp only [h1, h2, if_true]
    all_goals (try (simp only [Option.some.injEq]; omega))
  · simp only [rel, List.nil_append, if_true] at h ⊢
    have h2 : t ≤ 0 + 1 + e := by omega
    simp only [h2, if_true]
    all_goals (try (simp only [Option.some.injEq]; omega))

example : rel (heredocMoves 4 5 true) 0 = some 0 := by decide

/-- discipline is needed: a rewind larger than what the sub-scanner advanced is rejected by the model (on the real
    tokenizer `_current` would fall back to text the loop already left: no progress) -/
theorem rewind_needs_discipline : stepIter 4 ⟨0, [.fwd 2, .back 3]⟩ = none ∧ rel (heredocMoves 2 4 false) 0 = none := by
  decide

/-- `lex_progress`: whatever the characters make the sub-scanners do (any function from `_current` to an iteration), the
    `_scan` loop never needs more than `size - current` iterations: with that much fuel it is never still running,
    and when it stops normally `_current ≥ size` -/
theorem lex_progress (size : Nat) (iterAt : Nat → Iter) (c : Nat) :
    scanRun size (fun c => stepIter c (iterAt c)) (size - c) c 0 ≠ .outOfFuel ∧
      ∀ c' n', scanRun size (fun c => stepIter c (iterAt c)) (size - c) c 0 = .done c' n' → size ≤ c' ∧ n' ≤ size - c := by
  have hp : ∀ c c', (fun c => stepIter c (iterAt c)) c = some c' → c < c' := fun c c' h => stepIter_gt h
  obtain ⟨h1, h2⟩ := scanRun_spec size _ hp (size - c) c 0 (Nat.le_refl _)
  refine ⟨h1, ?_⟩
  intro c' n' h
  have := h2 c' n' h
  omega

example : scanRun 6 (fun c => stepIter c ⟨0, [.fwd 1]⟩) 6 0 0 = .done 6 3 := by decide

/-- sub-scanners that only move forward (`_scan_var`, `_scan_comment`, `_scan_identifier`, `_extract_string`, the digit
    runs of `_scan_number`) are always disciplined -/
theorem forward_only_disciplined (blanks : Nat) (ms : List Move) (h : ms.all Move.isFwd = true) (c : Nat) :
    ∃ c', stepIter c ⟨blanks, ms⟩ = some c' ∧ c < c' := by
  obtain ⟨a, h1, _⟩ := rel_all_fwd ms 0 h
  have : stepIter c ⟨blanks, ms⟩ = some (c + (Iter.offset ⟨blanks, ms⟩) + a) := by simp [stepIter, h1]
  exact ⟨_, this, stepIter_gt this⟩

/-! ### structural facts re-extracted from sqlglot/tokenizer_core.py and sqlglot/parser.py on every run
    (finite tables, decided completely) -/

/-- the only syntactically negative `_advance` arguments are the three modelled rewinds; the `-1` sits under
    `if not self._end` -/
theorem tokenizer_rewind_sites_known :
    rewindSites.map (fun s => (s.fn, s.arg, s.guards.getLast?)) =
      [("_scan_number", "-len(numeric_literal)", some "self._peek.isidentifier()"),
       ("_scan_string", "-1", some "not self._end"),
       ("_scan_string", "-len(tag)",
        some "tag and self.heredoc_tag_is_identifier and (self._end or tag.isdigit() or any((c.isspace() for c in tag)))")] := by
  decide +kernel

/-- every other `_advance` argument that is not syntactically non-negative (`size - 1`, `delim_size - 1`, `offset`, …)
    sits under at least one enclosing `if` / `while` guard; whether the guard really keeps it non-negative is not
    decided statically — the run-time trace replay rejects any negative move from a site not listed above -/
theorem tokenizer_guarded_sites_guarded : guardedSites.all (fun s => !s.guards.isEmpty) = true := by
  decide +kernel

/-- `_current` is written only by `_advance` (`+= i`, alnum fast loop), by `_extract_string`'s find fast path, and
    zeroed by `__init__` / `reset` -/
theorem tokenizer_current_writes_known :
    currentWrites = [("__init__", "= 0"), ("_advance", "Add= i"), ("_advance", "= _current"),
      ("_extract_string", "= end + 1"), ("reset", "= 0")] := by
  decide +kernel

/-- the loop test and the offset expression the model's `Iter.offset` mirrors -/
theorem tokenizer_scan_loop_shape :
    scanWhileTest = "self.size and (not self._end)" ∧
      scanOffset = "current - self._current if current > self._current else 1" := by
  decide +kernel

/-- the error funnel of `TokenizerCore.tokenize` as the source has it today: the `try` guards `self._scan()`, catches
    `Exception` (not a hand-picked tuple) and re-raises TokenError; the wrappers between the public API and the two funnels
    (`Tokenizer.tokenize`, `Dialect.tokenize`, `Dialect.parse`, `Parser.parse`) contain no `try` of their own -/
theorem tokenizer_funnel_catches_exception :
    tokenizeTryGuardsScan = true ∧ tokenizeHandlers.contains "Exception" = true ∧ tokenizeHandlerRaises = ["TokenError"] ∧
      wrapperTryCounts.all (fun p => p.2 == 0) = true := by
  decide +kernel

/-- `tokenize_outcome`: with a funnel that catches `Exception` and re-raises TokenError, whatever an iteration of the scan
    loop raises (KeyError, IndexError, RecursionError, …) and whatever the characters are, `tokenize` ends in the tokens
    or in TokenError — never in another exception, and never still running after `size - current` iterations -/
theorem tokenize_outcome (handlers raises : List String) (hb : handlers.contains "Exception" = true)
    (hr : raises = ["TokenError"]) (size : Nat) (step : Nat → Except Exc Nat)
    (hp : ∀ c c', step c = .ok c' → c < c') (c : Nat) :
    tokenizeModel handlers raises size step (size - c) c = .ok ∨
      tokenizeModel handlers raises size step (size - c) c = .tokenError :=
  tokenizeModel_spec handlers raises hb hr size step hp (size - c) c (Nat.le_refl _)

/-- … instantiated with the handler list re-extracted from the source on this run -/
theorem tokenize_outcome_current_source (size : Nat) (step : Nat → Except Exc Nat)
    (hp : ∀ c c', step c = .ok c' → c < c') (c : Nat) :
    tokenizeModel tokenizeHandlers tokenizeHandlerRaises size step (size - c) c = .ok ∨
      tokenizeModel tokenizeHandlers tokenizeHandlerRaises size step (size - c) c = .tokenError :=
  tokenize_outcome _ _ tokenizer_funnel_catches_exception.2.1 tokenizer_funnel_catches_exception.2.2.1 size step hp c

example : tokenizeModel ["Exception"] ["TokenError"] 3 (fun c => if c = 1 then .error .keyError else .ok (c + 1)) 3 0
    = .tokenError := by decide

/-- the broad catch is needed: with `except (TokenError, IndexError)` a KeyError out of `_scan_keywords` (Dune: the trie
    matches `x'` case-insensitively, the format-string dict has only `X'`) or a RecursionError out of nested command
    scanning leaves `tokenize` as it is -/
theorem tokenize_funnel_needs_broad_catch :
    tokenizeModel ["TokenError", "IndexError"] ["TokenError"] 3 (fun _ => .error .keyError) 3 0 = .leaked .keyError ∧
    tokenizeModel ["TokenError", "IndexError"] ["TokenError"] 3 (fun _ => .error .recursionError) 3 0
      = .leaked .recursionError := by decide

/-- the statements of the parser glue the cursor model mirrors -/
theorem parser_glue_shape :
    retreatBody = ["if index != self._index: self._advance(index - self._index)"] ∧
    tryParseFinally = ["if not this or retreat: self._retreat(index)", "self.error_level = error_level"] ∧
    tryParseHandlers = ["ParseError"] ∧
    csvWhileTest = "self._match(sep)" ∧
    wrappedBody = ["wrapped = self._match(TokenType.L_PAREN)",
      "if not wrapped and (not optional): self.raise_error('Expecting (')", "parse_result = parse_method()",
      "if wrapped: self._match_r_paren()", "return parse_result"] ∧
    matchRParenBody = ["if not self._match(TokenType.R_PAREN, expression=expression): self.raise_error('Expecting )')"] := by
  decide +kernel

end Scan

end SqlglotModel.Properties.C05
