/-
  C19 — Concurrent use from many threads gives the single-threaded answers (the modelled fragment: lazy loading of
  dialect / optimizer modules under the package `_import_lock`, the class registry, the generator dispatch cache).
  Only property theorems, non-vacuity examples and counter-example witnesses live here.

  All theorems quantify over EVERY reachable state / EVERY scheduler choice list of the model in Model/Threads.lean,
  for any number of threads, any programs and any module bodies, and are proved by invariants (Proofs/Threads.lean).
  They are stated for the lock kind the translator extracted from the source (`Generated.C19.lockKind`);
  `generated_locking_ok` is the decided table fact that this kind is `rlock` and that the lock covers every import
  and the `globals()` write — so a source edit that drops the lock, moves the import out of it or swaps RLock for
  Lock breaks this file. PARTIAL by design: the GIL, importlib's own locks and the atomicity of the single steps
  are assumptions (see the header of Model/Threads.lean).
-/
import SqlglotModel.Proofs.Threads
import SqlglotModel.Generated.C19

namespace SqlglotModel.Properties.C19
open SqlglotModel.Threads SqlglotModel.Generated.C19

/-- finite table fact, decided completely: both lazy `__getattr__`s use one RLock that covers every
    `import_module` call and every `globals()[name] = value` store -/
theorem generated_locking_ok :
    dialectsLock.covers = true ∧ optimizerLock.covers = true ∧
    dialectsLock.kind = .rlock ∧ optimizerLock.kind = .rlock ∧ lockKind = .rlock := by decide

theorem lockKind_rlock : lockKind = .rlock := generated_locking_ok.2.2.2.2

/-- a model configuration that uses the lock the source uses -/
def FromSource (cfg : Cfg) : Prop := cfg.kind = lockKind

theorem FromSource.rlock {cfg : Cfg} (h : FromSource cfg) : cfg.kind = .rlock := by
  rw [h]; exact lockKind_rlock

/-- At most one thread is past the acquisition of the package lock, in every reachable state. -/
theorem mutual_exclusion (cfg : Cfg) (hsrc : FromSource cfg) (progs : Tid → List Op) (s : State)
    (hr : Reach cfg (initState progs) s) (t u : Tid)
    (ht : (s.threads t).critical = true) (hu : (s.threads u).critical = true) : t = u :=
  (Inv.reach hsrc.rlock hr).lock.mutex ht hu

/-- … and the lock word agrees with the stacks: its owner is the critical thread, its depth is the number of
    acquisitions that thread has not released yet; every other thread holds nothing. -/
theorem lock_depth_is_nesting (cfg : Cfg) (hsrc : FromSource cfg) (progs : Tid → List Op) (s : State)
    (hr : Reach cfg (initState progs) s) (t : Tid) : (s.threads t).held = depthOf s.lock t :=
  (Inv.reach hsrc.rlock hr).lock.depth t

/-- A thread that already owns the lock and enters `__getattr__` again (a module body that accesses another
    lazily loaded module) is never blocked by itself. -/
theorem reentrancy_no_self_deadlock (cfg : Cfg) (hsrc : FromSource cfg) (s : State) (t : Tid) (m : Mod)
    (fs : List Frame) (d : Nat) (hp : (s.threads t).pending = none) (hst : (s.threads t).stack = .want m :: fs)
    (hl : s.lock = some (t, d)) : (step cfg s t).isSome = true := by
  simp [step, hp, hst, stepFrame, hsrc.rlock, hl, acquire]

/-- No reachable state is stuck: unless every thread has finished, some thread can take a step. -/
theorem deadlock_free (cfg : Cfg) (hsrc : FromSource cfg) (progs : Tid → List Op) (s : State)
    (hr : Reach cfg (initState progs) s) (hnc : ¬ Complete s) : ∃ t, (step cfg s t).isSome = true :=
  progress hsrc.rlock (Inv.reach hsrc.rlock hr).lock hnc

/-- The body of a module is started at most once, however the first accesses interleave; it has been started
    exactly once iff the module is in `sys.modules`. -/
theorem load_exactly_once (cfg : Cfg) (hsrc : FromSource cfg) (progs : Tid → List Op) (s : State)
    (hr : Reach cfg (initState progs) s) (m : Mod) :
    s.loads m ≤ 1 ∧ (s.loads m = 1 ↔ s.started m = true) := by
  have h := (Inv.reach hsrc.rlock hr).load.loads m
  by_cases hs : s.started m = true <;> simp [hs] at h ⊢ <;> omega

/-- A module that is in `sys.modules` is registered, or its body is still running on the stack of the one thread
    inside the critical section: nobody else can observe the half-initialised module. -/
theorem no_lost_registration (cfg : Cfg) (hsrc : FromSource cfg) (progs : Tid → List Op) (s : State)
    (hr : Reach cfg (initState progs) s) (m : Mod) (hm : s.started m = true) :
    s.registered m = true ∨
      ∃ t, (s.threads t).critical = true ∧ (∃ l rest, Frame.body m l rest ∈ (s.threads t).stack) ∧
           ∀ u, (s.threads u).critical = true → u = t := by
  have hI := Inv.reach hsrc.rlock hr
  rcases hI.reg.reg m hm with h | ⟨t, hb⟩
  · exact Or.inl h
  · have hc := critical_of_hasBody hb
    exact Or.inr ⟨t, hc, hb, fun u hu => hI.lock.mutex hu hc⟩

/-- … so when all threads are done every module that was touched is registered. -/
theorem no_lost_registration_final (cfg : Cfg) (hsrc : FromSource cfg) (progs : Tid → List Op) (s : State)
    (hr : Reach cfg (initState progs) s) (hc : Complete s) (m : Mod) (hm : s.started m = true) :
    s.registered m = true := by
  rcases no_lost_registration cfg hsrc progs s hr m hm with h | ⟨t, hcrit, _, _⟩
  · exact h
  · have hf := hc t
    simp only [Thread.finished, Bool.and_eq_true, List.isEmpty_iff] at hf
    simp [Thread.critical, hf.1.1] at hcrit

/-- Registrations are never undone by a step. -/
theorem registration_stable (cfg : Cfg) (s s' : State) (t : Tid) (l : Label)
    (hs : step cfg s t = some (l, s')) (m : Mod) (hm : s.registered m = true) : s'.registered m = true :=
  (step_sound hs).registered_mono m hm

/-- In every reachable state, what a thread has returned so far plus the sequential answers of the calls it has
    not completed yet is exactly its sequential result list. -/
theorem results_prefix_of_sequential (cfg : Cfg) (hsrc : FromSource cfg) (progs : Tid → List Op) (s : State)
    (hr : Reach cfg (initState progs) s) (t : Tid) :
    (s.threads t).results ++ (s.threads t).todo.map (expected cfg) = seqResults cfg (progs t) :=
  final_reach hsrc.rlock hr t

/-- Every complete schedule yields, for every thread, the results of running its program alone. -/
theorem results_schedule_independent (cfg : Cfg) (hsrc : FromSource cfg) (progs : Tid → List Op)
    (sched : List Tid) (hc : Complete (runSched cfg (initState progs) sched)) (t : Tid) :
    ((runSched cfg (initState progs) sched).threads t).results = seqResults cfg (progs t) := by
  have h := final_reach hsrc.rlock (reach_runSched (Reach.init (cfg := cfg) (s0 := initState progs)) sched) t
  have hf := hc t
  simp only [Thread.finished, Bool.and_eq_true, List.isEmpty_iff] at hf
  simpa [final, hf.2] using h

/-- … in particular any two complete schedules agree. -/
theorem results_agree (cfg : Cfg) (hsrc : FromSource cfg) (progs : Tid → List Op) (sched₁ sched₂ : List Tid)
    (h₁ : Complete (runSched cfg (initState progs) sched₁)) (h₂ : Complete (runSched cfg (initState progs) sched₂))
    (t : Tid) :
    ((runSched cfg (initState progs) sched₁).threads t).results =
      ((runSched cfg (initState progs) sched₂).threads t).results := by
  rw [results_schedule_independent cfg hsrc progs sched₁ h₁, results_schedule_independent cfg hsrc progs sched₂ h₂]

/-- The dispatch cache only ever holds the value `_build_dispatch` computes for the class, and a racing fill
    (two threads saw the miss) overwrites an entry with the identical value. This needs no lock. -/
theorem dispatch_race_benign (cfg : Cfg) (hsrc : FromSource cfg) (progs : Tid → List Op) (s : State)
    (hr : Reach cfg (initState progs) s) :
    (∀ m v, s.cache m = some v → v = cfg.build m) ∧
    (∀ t l s', step cfg s t = some (l, s') → ∀ m v, s.cache m = some v → s'.cache m = some v) := by
  have hI := Inv.reach hsrc.rlock hr
  refine ⟨hI.res.cache, ?_⟩
  intro t l s' hs m v hv
  have hI' := hI.step hsrc.rlock (step_sound hs)
  have hv' := hI.res.cache m v hv
  cases step_sound hs <;> first
    | exact hv
    | (simp only [setT_cache]
       split
       · rename_i e; subst e; rw [hv']
       · exact hv)

/-! ### non-vacuity and witnesses -/

/-- a module whose body lazily accesses another module (nested acquisition) and directly imports a third -/
def demoBody : Mod → List Item := fun m => if m = 2 then [.lazy 0, .direct 1] else []

def demoProgs : Tid → List Op := fun t =>
  if t = 0 then [.access 2, .gen 2] else if t = 1 then [.access 0, .gen 2, .access 2] else []

def demoCfg (k : LockKind) : Cfg := { kind := k, body := demoBody, build := fun m => m + 7 }

example : FromSource (demoCfg .rlock) := lockKind_rlock.symm

def demoSched : List Tid :=
  [0, 1, 0, 1, 0, 0, 1, 0, 0, 0, 0, 1, 0, 0, 0, 0, 0, 0, 0, 0, 1, 0, 1, 1, 1, 1, 1, 1, 1, 1, 1, 1, 1, 1, 1, 0, 0, 1]

theorem runSched_others (cfg : Cfg) (u : Tid) : ∀ (sched : List Tid) (s : State), u ∉ sched →
    (runSched cfg s sched).threads u = s.threads u
  | [], _, _ => rfl
  | t :: ts, s, h => by
    simp only [List.mem_cons, not_or] at h
    simp only [runSched]
    split
    · rename_i l s' hs
      rw [runSched_others cfg u ts s' h.2, (step_sound hs).others u h.1]
    · exact runSched_others cfg u ts s h.2

theorem step_none_of_finished (cfg : Cfg) (s : State) (t : Tid) (h : (s.threads t).finished = true) :
    step cfg s t = none := by
  simp only [Thread.finished, Bool.and_eq_true, List.isEmpty_iff, Option.isNone_iff_eq_none] at h
  simp [step, h.1.1, h.1.2, h.2, stepStart]

/-- the hypotheses of `results_schedule_independent` are satisfiable: this interleaving of two threads (nested
    acquisition, a blocked acquisition, a racing dispatch fill) is complete -/
theorem demo_complete : Complete (runSched (demoCfg .rlock) (initState demoProgs) demoSched) := by
  intro t
  by_cases h0 : t = 0
  · subst h0; decide +kernel
  · by_cases h1 : t = 1
    · subst h1; decide +kernel
    · rw [runSched_others _ t demoSched _ (by simp [demoSched, h0, h1])]
      simp [initState, initThread, demoProgs, h0, h1, Thread.finished]

example : ((runSched (demoCfg .rlock) (initState demoProgs) demoSched).threads 1).results
    = [.attr 0 true, .disp 2 9, .attr 2 true] := by decide +kernel

/-- WHY RLock: the same model with a non re-entrant lock reaches a state that is not complete and in which no
    thread can step — the thread that loads module 1 blocks on its own lock when the body of module 1 accesses
    module 0 through `__getattr__`. -/
def dlCfg (k : LockKind) : Cfg := { kind := k, body := fun m => if m = 1 then [.lazy 0] else [], build := fun _ => 0 }
def dlProgs : Tid → List Op := fun t => if t = 0 then [.access 1] else []
def dlState (k : LockKind) : State := runSched (dlCfg k) (initState dlProgs) [0, 0, 0, 0, 0, 0, 0, 0, 0, 0, 0, 0]

theorem plain_lock_deadlocks : ¬ Complete (dlState .plain) ∧ ∀ t, step (dlCfg .plain) (dlState .plain) t = none := by
  constructor
  · intro h
    have := h 0
    revert this
    decide +kernel
  · intro t
    by_cases h0 : t = 0
    · subst h0
      have : (step (dlCfg .plain) (dlState .plain) 0).isNone = true := by decide +kernel
      simpa using this
    · apply step_none_of_finished
      unfold dlState
      rw [runSched_others _ t _ _ (by simp [h0])]
      simp [initState, initThread, dlProgs, h0, Thread.finished]

/-- the same schedule under the re-entrant lock runs to completion with the sequential result -/
example : ((dlState .rlock).threads 0).finished = true ∧ ((dlState .rlock).threads 0).results = [.attr 1 true] := by
  decide +kernel

/-- WHY the lock must cover the import: without a lock (or with the import outside it) two threads can both see
    the miss and both run the module body. -/
def twiceCfg : Cfg := { kind := .absent, body := fun _ => [], build := fun _ => 0 }
def twiceProgs : Tid → List Op := fun t => if t = 0 ∨ t = 1 then [.access 0] else []

theorem absent_lock_loads_twice :
    (runSched twiceCfg (initState twiceProgs) [0, 0, 0, 1, 1, 1, 0, 1]).loads 0 = 2 := by decide +kernel


/-! ### lock order: package lock before module lock, never the other way round -/

open SqlglotModel.Threads.Routes

/-- finite table fact, decided completely: no module that is executed while a dialect / optimizer module is being
    imported (the modules under sqlglot/dialects and sqlglot/optimizer and everything their bodies import from
    sqlglot at module level) re-enters a lazy package `__getattr__` in code that runs at import time
    (`from sqlglot.dialects import <Name>`, `sqlglot.dialects.<Name>`, `from sqlglot.optimizer import <name>` in top-level
    statements, class bodies, decorators, default arguments) -/
theorem generated_no_lazy_reentry : reentryModules = [] := by decide

/-- the two-routes model instantiated with what the translator found in the source -/
def sourceRoutes : RCfg := { reentry := fun m => reentryModules.contains m }

theorem sourceRoutes_no_reentry (m : Mod) : sourceRoutes.reentry m = false := by
  simp [sourceRoutes, generated_no_lazy_reentry]

/-- If no module body asks for the package lock while it holds a module lock (lock order acyclic), then no
    reachable state of any number of threads taking the attribute route (`sqlglot.dialects.X`: package lock, then
    module lock) and the string route (`Dialect.get_or_raise("x")`: module lock only) in any interleaving is stuck. -/
theorem lock_order_no_deadlock (cfg : RCfg) (hno : ∀ m, cfg.reentry m = false) (progs : Tid → List Route)
    (s : RState) (hr : RReach cfg (rinit progs) s) (hnc : ¬ RComplete s) : ∃ t, (rstep cfg s t).isSome = true :=
  rprogress (RInv.reach hno hr) hnc

/-- … and that is the situation of the current source. -/
theorem source_two_routes_no_deadlock (progs : Tid → List Route) (s : RState)
    (hr : RReach sourceRoutes (rinit progs) s) (hnc : ¬ RComplete s) : ∃ t, (rstep sourceRoutes s t).isSome = true :=
  lock_order_no_deadlock sourceRoutes sourceRoutes_no_reentry progs s hr hnc

/-- the lock words always describe who is where (no re-entry): the package lock is held by exactly the thread
    between its acquisition and release, each module lock by the thread inside that module -/
theorem two_routes_lock_ownership (cfg : RCfg) (hno : ∀ m, cfg.reentry m = false) (progs : Tid → List Route)
    (s : RState) (hr : RReach cfg (rinit progs) s) :
    (∀ t, (s.pc t).holdsP = true → s.pkg = some (t, 1)) ∧ (∀ t m, (s.pc t).holdsM = some m → s.modLock m = some t) :=
  ⟨(RInv.reach hno hr).a1, (RInv.reach hno hr).b1⟩

/-- WHY the order matters: module 0's body re-enters the lazy `__getattr__`; thread 0 comes by the attribute route,
    thread 1 by the string route; after five steps thread 0 holds the package lock and waits for the module lock,
    thread 1 holds the module lock and waits for the package lock — nobody can step, nobody is done. -/
def reCfg : RCfg := { reentry := fun m => m == 0 }
def reProgs : Tid → List Route := fun t => if t = 0 then [.attr 0] else if t = 1 then [.str 0] else []
def reState : RState := rrun reCfg (rinit reProgs) [0, 0, 1, 1, 1]

theorem reentry_two_routes_deadlock : ¬ RComplete reState ∧ ∀ t, rstep reCfg reState t = none := by
  constructor
  · intro h
    have := (h 0).1
    revert this
    decide +kernel
  · intro t
    by_cases h0 : t = 0
    · subst h0
      have : (rstep reCfg reState 0).isNone = true := by decide +kernel
      simpa using this
    · by_cases h1 : t = 1
      · subst h1
        have : (rstep reCfg reState 1).isNone = true := by decide +kernel
        simpa using this
      · have := rrun_others reCfg t [0, 0, 1, 1, 1] (rinit reProgs) (by simp [h0, h1])
        apply rstep_none_of_done
        · unfold reState; rw [this.1]; rfl
        · unfold reState; rw [this.2]; simp [rinit, reProgs, h0, h1]

/-- the same two threads, same schedule prefix, without the re-entry: both finish -/
example : (rrun { reentry := fun _ => false } (rinit reProgs) [0, 0, 1, 0, 0, 0, 0, 1, 1, 1, 1]).pc 1 = .idle ∧
    (rrun { reentry := fun _ => false } (rinit reProgs) [0, 0, 1, 0, 0, 0, 0, 1, 1, 1, 1]).loaded 0 = true := by
  decide +kernel

/-- a single thread whose module re-enters the package lock is fine under the RLock (nested acquisition) -/
example : (rrun reCfg (rinit reProgs) [0, 0, 0, 0, 0, 0, 0, 0]).pc 0 = .idle := by decide +kernel


/-! ### the full model: importlib's module locks, both routes, class configuration, dispatch fill -/

open SqlglotModel.Threads.Full

/-- finite table fact, decided completely (ast of dialect.py, the two `__init__.py`, generator.py):
    `_Dialect.__new__` stores into `_classes` as its last statement before `return klass`; `get` and `__getitem__` go to
    `_try_load` also while `_is_initializing(key)`; neither lazy `__getattr__` reads `sys.modules` / `globals()` outside
    `with _import_lock`; `Generator.__init__` stores a table into `_DISPATCH_CACHE` only after `_build_dispatch` returned -/
theorem generated_shape_ok :
    shape = { registerLast := true, lookupsWait := true, dialectsLockFirst := true, optimizerLockFirst := true,
              buildThenStore := true } := by decide

/-- a configuration of the full model that has the orderings the source has -/
structure FullFromSource (cfg : FCfg) : Prop where
  reg : cfg.registerFirst = !shape.registerLast
  wait : cfg.lookupWaits = shape.lookupsWait
  fast : cfg.fastPath = !(shape.dialectsLockFirst && shape.optimizerLockFirst)
  early : cfg.publishEarly = !shape.buildThenStore

theorem FullFromSource.good {cfg : FCfg} (h : FullFromSource cfg) : Good cfg := by
  have := generated_shape_ok
  exact ⟨by rw [h.wait, this], by rw [h.fast, this]; rfl, by rw [h.early, this]; rfl⟩

theorem FullFromSource.registerLast {cfg : FCfg} (h : FullFromSource cfg) : cfg.registerFirst = false := by
  rw [h.reg, generated_shape_ok]; rfl

/-- importlib's lock of a module has one owner: two threads that are past its acquisition are the same thread -/
theorem full_module_lock_exclusive (cfg : FCfg) (progs : Tid → List Full.Op) (s : FState)
    (hr : FReach cfg (finit progs) s) (m : Mod) (t u : Tid) (f g : Full.Frame)
    (hf : f ∈ (s.threads t).stack) (hfm : f.holdsMod = some m)
    (hg : g ∈ (s.threads u).stack) (hgm : g.holdsMod = some m) : t = u :=
  (FInv.reach hr).m.mutex (mheld_pos hf hfm) (mheld_pos hg hgm)

/-- With importlib's module locks in the model a module body starts at most once for ANY mix of the attribute route,
    the string route (`_try_load`, no package lock) and nested imports, any number of threads — and whatever the
    package lock, the registry order or the fast paths look like. -/
theorem full_load_exactly_once (cfg : FCfg) (progs : Tid → List Full.Op) (s : FState)
    (hr : FReach cfg (finit progs) s) (m : Mod) : s.loads m ≤ 1 ∧ (s.loads m = 1 ↔ s.started m = true) := by
  have h := (FInv.reach hr).load.loads m
  by_cases hs : s.started m = true <;> simp [hs] at h ⊢ <;> omega

/-- results so far ++ sequential answers of what is left = the sequential result list, in every reachable state -/
theorem full_results_prefix (cfg : FCfg) (hsrc : FullFromSource cfg) (progs : Tid → List Full.Op) (s : FState)
    (hr : FReach cfg (finit progs) s) (t : Tid) :
    (s.threads t).results ++ (s.threads t).todo.map (fexpected cfg) = fseq cfg (progs t) :=
  ffinal_reach hsrc.good hr t

/-- Every complete schedule of programs mixing lazy attribute accesses, string look-ups and generator
    constructions gives every thread the results of running alone. -/
theorem full_results_schedule_independent (cfg : FCfg) (hsrc : FullFromSource cfg) (progs : Tid → List Full.Op)
    (sched : List Tid) (hc : FComplete (frun cfg (finit progs) sched)) (t : Tid) :
    ((frun cfg (finit progs) sched).threads t).results = fseq cfg (progs t) := by
  have h := ffinal_reach hsrc.good (freach_frun (FReach.init (cfg := cfg) (s0 := finit progs)) sched) t
  have hf := hc t
  simp only [Full.Thread.finished, Bool.and_eq_true, List.isEmpty_iff] at hf
  simpa [ffinal, Th, hf.2] using h

/-- every result any thread has obtained so far is the sequential answer of one of its calls -/
theorem full_every_result_sequential (cfg : FCfg) (hsrc : FullFromSource cfg) (progs : Tid → List Full.Op)
    (s : FState) (hr : FReach cfg (finit progs) s) (t : Tid) (r : Full.Res) (hmem : r ∈ (s.threads t).results) :
    ∃ op, op ∈ progs t ∧ r = fexpected cfg op := by
  have h := full_results_prefix cfg hsrc progs s hr t
  have : r ∈ fseq cfg (progs t) := by rw [← h]; exact List.mem_append_left _ hmem
  simp only [fseq, List.mem_map] at this
  obtain ⟨op, h1, h2⟩ := this
  exact ⟨op, h1, h2.symm⟩

/-- `_classes[...] = klass` is the LAST thing `__new__` does: whatever `Dialect.get` hands out is a fully configured
    class — in every reachable state, for every look-up result (this part needs the store order only). -/
theorem no_half_configured_class_visible (cfg : FCfg) (hreg : cfg.registerFirst = !shape.registerLast)
    (progs : Tid → List Full.Op) (s : FState) (hr : FReach cfg (finit progs) s) (t : Tid)
    (m : Mod) (found configured moduleDone : Bool)
    (hmem : Full.Res.cls m found configured moduleDone ∈ (s.threads t).results) (hf : found = true) :
    configured = true := by
  have hrl : cfg.registerFirst = false := by rw [hreg, generated_shape_ok]; rfl
  exact resGood_reach hrl hr t _ hmem hf

/-- … and since look-ups also wait while the module is `_initializing`, the class is found, configured and its
    module body has finished. -/
theorem lookups_return_finished_classes (cfg : FCfg) (hsrc : FullFromSource cfg) (progs : Tid → List Full.Op)
    (s : FState) (hr : FReach cfg (finit progs) s) (t : Tid) (m : Mod) (found configured moduleDone : Bool)
    (hmem : Full.Res.cls m found configured moduleDone ∈ (s.threads t).results) :
    found = true ∧ configured = true ∧ moduleDone = true := by
  obtain ⟨op, _, h⟩ := full_every_result_sequential cfg hsrc progs s hr t _ hmem
  cases op <;> simp [fexpected] at h
  exact ⟨h.2.1, h.2.2.1, h.2.2.2⟩

/-- The lazy `__getattr__` takes the lock before it looks at `sys.modules`: it never returns a partially initialised
    module, whoever is importing it at the time. -/
theorem lazy_access_never_partial (cfg : FCfg) (hsrc : FullFromSource cfg) (progs : Tid → List Full.Op)
    (s : FState) (hr : FReach cfg (finit progs) s) (t : Tid) (m : Mod) (moduleDone : Bool)
    (hmem : Full.Res.attr m moduleDone ∈ (s.threads t).results) : moduleDone = true := by
  obtain ⟨op, _, h⟩ := full_every_result_sequential cfg hsrc progs s hr t _ hmem
  cases op <;> simp [fexpected] at h
  exact h.2

/-- `_build_dispatch` runs to the end before the table is stored: no generator ever gets a partial dispatch table. -/
theorem dispatch_never_partial (cfg : FCfg) (hsrc : FullFromSource cfg) (progs : Tid → List Full.Op)
    (s : FState) (hr : FReach cfg (finit progs) s) (t : Tid) (m : Mod) (n : Nat)
    (hmem : Full.Res.disp m n ∈ (s.threads t).results) : n = cfg.tableSize m := by
  obtain ⟨op, _, h⟩ := full_every_result_sequential cfg hsrc progs s hr t _ hmem
  cases op <;> simp [fexpected] at h
  obtain ⟨h1, h2⟩ := h
  subst h1; exact h2

/-! witnesses: each ordering the source does NOT have, in the same model -/

def fbase : FCfg := { body := fun _ => [], cfgSteps := fun _ => 2, tableSize := fun _ => 3, registerFirst := false,
                      lookupWaits := true, fastPath := false, publishEarly := false }

def ftwo (a b : List Full.Op) : Tid → List Full.Op := fun t => if t = 0 then a else if t = 1 then b else []

example : FullFromSource fbase := ⟨by decide, by decide, by decide, by decide⟩

/-- the ordering before ddc0df6 (store first, look-ups do not wait): thread 1's look-up gets the class while thread 0
    is still configuring it -/
theorem register_first_exposes_half_configured_class :
    ((frun { fbase with registerFirst := true, lookupWaits := false } (finit (ftwo [.lookup 0] [.lookup 0]))
        [0, 0, 0, 0, 0, 1]).threads 1).results = [.cls 0 true false false] := by decide +kernel

/-- store last but no waiting: configured, yet the rest of the module body has not run (athena's `_TrinoTokenizer`) -/
theorem no_wait_exposes_unfinished_module :
    ((frun { fbase with lookupWaits := false } (finit (ftwo [.lookup 0] [.lookup 0]))
        [0, 0, 0, 0, 0, 0, 0, 0, 1]).threads 1).results = [.cls 0 true true false] := by decide +kernel

/-- the seeded optimizer variant: a lock-free `sys.modules` fast path returns the module thread 0 is still executing -/
theorem fast_path_returns_partial_module :
    ((frun { fbase with fastPath := true } (finit (ftwo [.access 0] [.access 0]))
        [0, 0, 0, 0, 0, 1]).threads 1).results = [.attr 0 false] := by decide +kernel

/-- the seeded dispatch variant: the table is stored empty and filled in place — thread 1 gets it with 0 of 3 entries -/
theorem publish_early_exposes_partial_table :
    ((frun { fbase with publishEarly := true } (finit (ftwo [.gen 0] [.gen 0])) [0, 1]).threads 1).results
      = [.disp 0 0] := by decide +kernel

/-- non-vacuity: both routes, nested plain imports and generator fills, two threads, complete -/
def fdemoBody : Mod → List Item := fun m => if m = 2 then [.direct 0, .direct 1] else []
def fdemoProgs : Tid → List Full.Op := ftwo [.access 2, .lookup 1, .gen 2] [.lookup 2, .gen 2, .access 0]
def frr : Nat → List Tid
  | 0 => []
  | n + 1 => 0 :: 1 :: 1 :: 0 :: frr n

theorem full_demo_complete : FComplete (frun { fbase with body := fdemoBody } (finit fdemoProgs) (frr 30)) := by
  intro t
  by_cases h0 : t = 0
  · subst h0; decide +kernel
  · by_cases h1 : t = 1
    · subst h1; decide +kernel
    · have hmem : t ∉ frr 30 := by
        have : ∀ n, ∀ x ∈ frr n, x = 0 ∨ x = 1 := by
          intro n
          induction n with
          | zero => simp [frr]
          | succ k ih =>
            intro x hx
            simp only [frr, List.mem_cons] at hx
            rcases hx with h | h | h | h | h
            · exact Or.inl h
            · exact Or.inr h
            · exact Or.inr h
            · exact Or.inl h
            · exact ih x h
        intro hin
        rcases this 30 t hin with h | h
        · exact h0 h
        · exact h1 h
      rw [frun_others _ t _ _ hmem]
      simp [finit, fdemoProgs, ftwo, h0, h1, Full.Thread.finished]

example : ((frun { fbase with body := fdemoBody } (finit fdemoProgs) (frr 30)).threads 1).results
    = [.cls 2 true true true, .disp 2 3, .attr 0 true] := by decide +kernel


/-! ### worker objects (Tokenizer / Parser / Generator instances) are created per call -/

open SqlglotModel.Threads.Workers

/-- finite table fact, decided completely: every method of a class under sqlglot/dialects that returns a
    Tokenizer / JSONPathTokenizer / Parser / Generator (by name or annotation) constructs it in the call —
    every `return` is a direct `self.<x>_class(...)` / `super().<same>(...)` call and the method neither reads nor
    writes an instance attribute cache — and all four factories of `Dialect` were found -/
theorem dialect_workers_fresh_per_call : workersFreshPerCall = true := by decide

/-- the worker model with the lifetime the source has -/
def WFromSource (cfg : WCfg) : Prop := cfg.cached = !workersFreshPerCall

theorem WFromSource.fresh {cfg : WCfg} (h : WFromSource cfg) : cfg.cached = false := by
  rw [h, dialect_workers_fresh_per_call]; rfl

/-- in every reachable state: names emitted by a call in flight are exactly those below its private counter, and the
    results so far plus the sequential answers of what is left are the sequential result list -/
theorem fresh_workers_results_prefix (cfg : WCfg) (hsrc : WFromSource cfg) (progs : Tid → List Nat) (s : WState)
    (hr : WReach cfg (winit progs) s) (t : Tid) :
    (s.threads t).results ++ (s.threads t).todo.map List.range = wseq (progs t) :=
  (WInv.reach hsrc.fresh hr).fin t

/-- With a fresh worker per call, every complete schedule of any number of threads calling through one shared
    Dialect instance gives every call the names it gets when run alone (`_t0 … _t(k-1)`). -/
theorem fresh_workers_schedule_independent (cfg : WCfg) (hsrc : WFromSource cfg) (progs : Tid → List Nat)
    (sched : List Tid) (hc : WComplete (wrun cfg (winit progs) sched)) (t : Tid) :
    ((wrun cfg (winit progs) sched).threads t).results = wseq (progs t) := by
  have h := (WInv.reach hsrc.fresh (wreach_wrun (WReach.init (cfg := cfg) (s0 := winit progs)) sched)).fin t
  simpa [wfinal, (hc t).2] using h

/-- WHY: one worker cached on the shared Dialect instance — two threads, one call of size 2 each; thread 1's reset
    lands between thread 0's two increments: thread 0 returns `_t0, _t0` (duplicate), thread 1 `_t1, _t2` (skipped) -/
def wtwo : Tid → List Nat := fun t => if t = 0 then [2] else if t = 1 then [2] else []

theorem cached_worker_breaks_results :
    ((wrun { cached := true } (winit wtwo) [0, 0, 1, 0, 1, 1, 0, 1]).threads 0).results = [[0, 0]] ∧
    ((wrun { cached := true } (winit wtwo) [0, 0, 1, 0, 1, 1, 0, 1]).threads 1).results = [[1, 2]] := by
  decide +kernel

/-- the same schedule with per-call workers: both calls return `_t0, _t1` -/
example : ((wrun { cached := false } (winit wtwo) [0, 0, 1, 0, 1, 1, 0, 1]).threads 0).results = [[0, 1]] ∧
    ((wrun { cached := false } (winit wtwo) [0, 0, 1, 0, 1, 1, 0, 1]).threads 1).results = [[0, 1]] := by decide +kernel

example : WFromSource { cached := false } := by unfold WFromSource; decide


/-! ### class construction rebinds, it never mutates an inherited table -/

open SqlglotModel.Threads.ClassTables

/-- finite table fact, decided completely (ast of every metaclass `__new__`/`__init__` and every `__init_subclass__`
    hook in sqlglot): each statement that updates a class attribute is a plain rebinding assignment; there is no
    augmented assignment, no `.update/.add/.pop/.setdefault/.append/…` call and no item store / delete on the value of a
    class attribute (other than on one the same hook has just rebound, and the `_classes` registry); the hooks of
    `_Dialect` and `Tokenizer` were found and do rebind -/
theorem metaclass_rebinds_never_mutates :
    metaclassMutations = [] ∧ 0 < metaclassRebinds ∧ 2 ≤ metaclassHooks.length := by decide

/-- the updates the model metaclass may perform, as the source performs them -/
def UpdsFromSource (us : List Upd) : Prop := metaclassMutations = [] → ∀ u ∈ us, u.isRebind = true

/-- FRAME PROPERTY: creating class `y` (the lazy first load of another dialect) with a metaclass that only rebinds
    changes neither the binding of any attribute of any other class `x` nor the content of the object it is bound to —
    for every store, every base, every list of updates. -/
theorem rebinding_construction_frame (s : Store) (hw : WF s) (y b : Nat) (us : List Upd)
    (hsrc : UpdsFromSource us) (x : Nat) (hx : x ≠ y) (a : Nat) :
    (construct s y b us).bind x a = s.bind x a ∧
    (construct s y b us).heap ((construct s y b us).bind x a) = s.heap (s.bind x a) := by
  have hall := hsrc metaclass_rebinds_never_mutates.1
  have hF : Frame s (construct s y b us) y := Frame.foldl us _ (Frame.inherit hw y b) hall
  have h1 := hF.others x hx a
  exact ⟨h1, by rw [h1]; exact hF.old _ (hw x a)⟩

/-- … and the store stays well formed, so the property carries over to any sequence of later loads -/
theorem rebinding_construction_wf (s : Store) (hw : WF s) (y b : Nat) (us : List Upd) (hsrc : UpdsFromSource us) :
    WF (construct s y b us) :=
  (Frame.foldl us _ (Frame.inherit hw y b) (hsrc metaclass_rebinds_never_mutates.1)).wf

/-- loading any number of further classes one after the other leaves every table of an earlier class alone -/
theorem rebinding_loads_frame (x a : Nat) : ∀ (loads : List (Nat × Nat × List Upd)) (s : Store), WF s →
    (∀ l ∈ loads, l.1 ≠ x ∧ UpdsFromSource l.2.2) →
    let s' := loads.foldl (fun st l => construct st l.1 l.2.1 l.2.2) s
    s'.bind x a = s.bind x a ∧ s'.heap (s'.bind x a) = s.heap (s.bind x a)
  | [], _, _, _ => ⟨rfl, rfl⟩
  | l :: ls, s, hw, hall => by
    have hl := hall l List.mem_cons_self
    have h1 := rebinding_construction_frame s hw l.1 l.2.1 l.2.2 hl.2 x (fun e => hl.1 e.symm) a
    have hw' := rebinding_construction_wf s hw l.1 l.2.1 l.2.2 hl.2
    have ih := rebinding_loads_frame x a ls _ hw' (fun m hm => hall m (List.mem_cons_of_mem _ hm))
    simp only [List.foldl_cons] at ih ⊢
    exact ⟨ih.1.trans h1.1, ih.2.trans h1.2⟩

/-- WHY: the seeded `klass.VALID_INTERVAL_UNITS |= {...}`: class 1 (postgres) inherits attribute 0 from the base class 0;
    creating class 2 (tsql) with an in-place update of the inherited object adds tsql's units to postgres' table -/
def ctStore : Store := { heap := fun o => if o = 0 then [1, 2] else [], bind := fun _ _ => 0, next := 1 }

theorem inplace_update_leaks_into_other_classes :
    (construct ctStore 2 0 [.mutate 0 [77]]).heap ((construct ctStore 2 0 [.mutate 0 [77]]).bind 1 0) = [1, 2, 77] ∧
    (construct ctStore 2 0 [.rebind 0 [77]]).heap ((construct ctStore 2 0 [.rebind 0 [77]]).bind 1 0) = [1, 2] ∧
    (construct ctStore 2 0 [.rebind 0 [77]]).heap ((construct ctStore 2 0 [.rebind 0 [77]]).bind 2 0) = [1, 2, 77] := by
  decide +kernel

example : WF ctStore := by intro c a; simp [ctStore]


/-! ### the per-class dispatch table is shared by all instances and never written through one -/

open SqlglotModel.Threads.SharedTable

/-- finite table fact, decided completely (ast of generator.py, generators/*.py, parser.py, parsers/*.py, tokens.py):
    `_DISPATCH_CACHE[...]` is stored exactly once, in the cache-filling branch of `Generator.__init__`; no method stores
    into, deletes from or calls a mutating method on `self._dispatch`, on an UPPER_CASE class table reached through
    `self`, or on a local alias of one of them -/
theorem shared_dispatch_never_written_per_instance :
    perInstanceCacheWrites = [] ∧ dispatchCacheStores = 1 := by decide

def TFromSource (cfg : TCfg) : Prop := cfg.ctorWrites = !perInstanceCacheWrites.isEmpty

theorem TFromSource.readonly {cfg : TCfg} (h : TFromSource cfg) : cfg.ctorWrites = false := by
  rw [h, shared_dispatch_never_written_per_instance.1]; rfl

/-- the shared table is never written: it has its initial content in every reachable state -/
theorem readonly_table_never_written (cfg : TCfg) (hsrc : TFromSource cfg) (slot0 : Nat)
    (progs : Tid → List (Nat × Nat)) (s : TState) (hr : TReach cfg (tinit slot0 progs) s) : s.slot = slot0 :=
  (TInv.reach hsrc.readonly hr).slot

/-- Fresh workers + a READ-ONLY shared table: every complete schedule of any number of threads whose calls differ in
    their dialect settings gives each call the entries rendered by the handler of its OWN setting. -/
theorem readonly_table_schedule_independent (cfg : TCfg) (hsrc : TFromSource cfg) (slot0 : Nat)
    (progs : Tid → List (Nat × Nat)) (sched : List Tid) (hc : TComplete (trun cfg (tinit slot0 progs) sched)) (t : Tid) :
    ((trun cfg (tinit slot0 progs) sched).threads t).results = tseq (progs t) := by
  have h := (TInv.reach hsrc.readonly
    (treach_trun (TReach.init (cfg := cfg) (s0 := tinit slot0 progs)) sched)).fin t
  simpa [tfinal, (hc t).2] using h

/-- WHY: the constructor stores the handler for ITS setting into the shared slot — thread 0 (setting 3, "version=3.0")
    builds its worker, thread 1 (setting 4) builds its own before thread 0 renders: thread 0 renders with handler 4 -/
def ttwo : Tid → List (Nat × Nat) := fun t => if t = 0 then [(2, 3)] else if t = 1 then [(2, 4)] else []

theorem ctor_write_breaks_results :
    ((trun { ctorWrites := true } (tinit 4 ttwo) [0, 1, 0, 0, 0, 1, 1, 1]).threads 0).results = [[(0, 4), (1, 4)]] ∧
    ((trun { ctorWrites := false } (tinit 4 ttwo) [0, 1, 0, 0, 0, 1, 1, 1]).threads 0).results = [[(0, 3), (1, 3)]] ∧
    ((trun { ctorWrites := false } (tinit 4 ttwo) [0, 1, 0, 0, 0, 1, 1, 1]).threads 1).results = [[(0, 4), (1, 4)]] := by
  decide +kernel


/-! ### no unlocked shared container is written on the look-up hot path -/

open SqlglotModel.Threads.Memo

/-- finite table fact, decided completely (ast of `Dialect.get_or_raise`, `_Dialect.get / __getitem__ / _try_load`,
    `Dialect.__init__` and the `Tokenizer` / `Parser` / `Generator` constructors): the only stores / deletes / mutating calls
    on a module-level or class-level container outside a `with <lock>` are the audited ones (the `_classes` registry under
    importlib's module lock, the idempotent `_DISPATCH_CACHE` fill); all the hot-path functions were found -/
theorem hot_path_shared_containers_locked_or_absent :
    hotPathUnlockedWrites = [] ∧ 7 ≤ hotPathFunctions := by decide

/-- the memo on the hot path as the source has it: none (or, equivalently for the model, one that never evicts) -/
def MFromSource (cfg : MCfg) : Prop :=
  cfg.mode = if hotPathUnlockedWrites.isEmpty then .noEvict else .nonatomic

theorem MFromSource.safe {cfg : MCfg} (h : MFromSource cfg) : cfg.mode ≠ .nonatomic := by
  rw [h, hot_path_shared_containers_locked_or_absent.1]; decide

/-- With no eviction — and likewise with an eviction that picks and deletes in one atomic step (under a lock) — no
    look-up of any thread ever raises, in any reachable state, whatever the keys, the capacity and the interleaving. -/
theorem memo_lookups_never_raise (cfg : MCfg) (hsafe : cfg.mode = .noEvict ∨ cfg.mode = .atomic) (cache0 : List Nat)
    (progs : Tid → List Nat) (s : MState) (hr : MReach cfg (minit cache0 progs) s) (t : Tid) :
    (s.threads t).errors = 0 :=
  (MInvar.reach (by rcases hsafe with h | h <;> simp [h]) hr).noErr t

/-- … and a thread that has nothing left to do has had every one of its look-ups return. -/
theorem memo_all_lookups_return (cfg : MCfg) (hsrc : MFromSource cfg) (cache0 : List Nat) (progs : Tid → List Nat)
    (sched : List Tid) (t : Tid)
    (hdone : ((mrun cfg (minit cache0 progs) sched).threads t).todo = [] ∧
             ((mrun cfg (minit cache0 progs) sched).threads t).pc = .idle) :
    ((mrun cfg (minit cache0 progs) sched).threads t).finished = (progs t).length ∧
    ((mrun cfg (minit cache0 progs) sched).threads t).errors = 0 := by
  have hI := MInvar.reach hsrc.safe (mreach_mrun (MReach.init (cfg := cfg) (s0 := minit cache0 progs)) sched)
  have hc := hI.count t
  simp only [hdone.1, hdone.2, List.length_nil, if_true] at hc
  exact ⟨by omega, hI.noErr t⟩

/-- WHY: capacity 1, the cache holds key 7; threads 0 and 1 miss on keys 1 and 2 at the same time, both pick 7 as the
    victim, thread 0 deletes it, thread 1's delete raises -/
def mtwo : Tid → List Nat := fun t => if t = 0 then [1] else if t = 1 then [2] else []

theorem nonatomic_evict_double_delete :
    ((mrun { mode := .nonatomic, cap := 1 } (minit [7] mtwo) [0, 1, 0, 1]).threads 1).errors = 1 ∧
    ((mrun { mode := .atomic, cap := 1 } (minit [7] mtwo) [0, 1, 0, 1]).threads 1).errors = 0 ∧
    ((mrun { mode := .atomic, cap := 1 } (minit [7] mtwo) [0, 1, 0, 1]).threads 1).finished = 1 := by
  decide +kernel

end SqlglotModel.Properties.C19
