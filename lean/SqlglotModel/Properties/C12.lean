/-
  C12 — Serialisation and copying reproduce the tree exactly (modelled fragment: `serde.dump` / `serde.load`).
  Only property theorems, non-vacuity examples and witnesses live here; lemmas are in Proofs/Serde.lean.

  Reading guide: `Val` is a syntax tree as `dump` sees it (class, `.type`, comments, `_meta`, ordered args whose
  values are nodes, DType members, raw JSON scalars or lists of those).  `t.norm` erases exactly what no payload
  records: args whose value is `None`, args whose value is `[]`, and `comments == []` (becomes `None`).  These are
  invisible to `==`, `.sql()`, `.type`, `.comments or []`, `.meta`.  All statements are for every tree of the model
  (no size bound); pickling is `load(dump(t))` by `Expression.__reduce__` (checked by the translator).
-/
import SqlglotModel.Proofs.Serde
import SqlglotModel.Generated.C12

namespace SqlglotModel.Properties.C12
open SqlglotModel.Serde

/-- the iterative explicit-stack loop of `dump` produces the recursive pre-order flattening: node `i`'s children
    carry parent index `i`, their arg key and the array flag, in `args` order -/
theorem dump_preorder (t : Val) : dump t = flat t none 0 := dump_eq_flat t

/-- the object graph `load` builds from a dump, cell by cell: every node with its final `args` dict (refs to the
    pre-order positions of its children) and its parent link `(parent, arg_key, index)` -/
theorem load_arena_dump (t : Val) (hwf : t.WF) (hobj : t.isObj = true) :
    loadArena (dump t) = some (seg t none 0) := by
  rw [dump_eq_flat]
  cases t with
  | node cls ty c m args =>
    simp only [Val.WF] at hwf
    obtain ⟨hcls, hty, hnd, hargs⟩ := hwf
    have hT := loadTy_flatTy ty hty
    have hB := load_flatArgs args hargs hnd [Cell.node cls (normOpt ty) (normC c) m [] none] 0
      cls (normOpt ty) (normC c) m [] none (by simp) (by simp [keysS])
    simp only [List.length_singleton] at hB
    simp [flat, loadArena, nodeP, mkRoot, mkObj, hcls, hT, eIndex, eKey, eArr, hB, seg]
  | dtype s => simp [flat, loadArena, dtypeP, mkRoot, mkObj, loadList, seg]
  | raw r => simp [Val.isObj] at hobj

/-- **load ∘ dump**: for every well-formed tree (typed, commented, with meta, nested lists, `False` vs absent …)
    loading its dump succeeds and reads back the tree, up to `norm` -/
theorem load_dump (t : Val) (hwf : t.WF) (hobj : t.isObj = true) : load (dump t) = some (some t.norm) := by
  rw [dump_eq_flat]; exact load_flat_root t hwf hobj

/-- the tree read back from the closed-form arena is the normalised tree (the `reify` half of `load_dump`) -/
theorem reify_arena (t : Val) : reify (seg t none 0) t.cnt 0 = some t.norm := by
  simpa using reify_seg t none [] [] 0 t.cnt rfl (Nat.le_refl _)


/-- `norm` is a projection … -/
theorem norm_idem (t : Val) : t.norm.norm = t.norm := SqlglotModel.Serde.norm_idem t

/-- … and what it erases is exactly what `dump` does not write: a tree and its normal form have the same dump -/
theorem dump_norm (t : Val) : dump t.norm = dump t := by
  rw [dump_eq_flat, dump_eq_flat, flat_norm]

/-- exact round trip for trees already in normal form (no `None` / `[]` args, no `comments == []`) -/
theorem load_dump_normal (t : Val) (hwf : t.WF) (hobj : t.isObj = true) (hn : t.norm = t) :
    load (dump t) = some (some t) := by
  have := load_dump t hwf hobj
  rwa [hn] at this

/-- parent links: the cell `load` creates for a node child carries the `(parent, arg_key, index)` it was attached with
    (`index` = position in the list for `append`, `None` for `set`); see `seg`, `segArg`, `segVals` for where each
    child sits.  With `load_arena_dump` this is "load restores the parent links". -/
theorem seg_head_link (cls : String) (ty : Option Val) (c : Comments) (m : Meta) (args : List Arg)
    (l : Option Link) (i : Nat) :
    (seg (.node cls ty c m args) l i)[0]? =
      some (.node cls (normOpt ty) (normC c) m (slotsOf args (i + 1)) l) := by
  simp [seg]

/-- facts re-extracted from sqlglot/serde.py and expressions/core.py on every run: the eight payload keys are pairwise
    distinct (a collision would make two payload fields overwrite each other), the DType marker is the modelled one,
    the guards of dump/load/_load are the modelled ones, and `__reduce__` delegates pickling to load ∘ dump.
    (finite decision, decided completely) -/
theorem generated_ok :
    SqlglotModel.Generated.C12.allKeys.Nodup ∧ SqlglotModel.Generated.C12.dataType = dataTypeCls ∧
    SqlglotModel.Generated.C12.shapeAsModelled = true ∧ SqlglotModel.Generated.C12.reduceViaSerde = true := by
  decide +kernel

/-! ### non-vacuity and witnesses -/

/-- a typed, commented tree with meta, a `False` arg, a `None` arg, an empty list, a list holding `None`, a DType and
    a nested list of scalars -/
def sample : Val :=
  .node "Select" (some (.node "DataType" none none none [.one "this" (.dtype "INT"), .one "nested" (.raw (.bool false))]))
    (some ["c"]) (some [("line", .int 1), ("flag", .bool true)])
    [.many "expressions"
        [.node "Column" none (some []) none
            [.one "this" (.node "Identifier" none none (some []) [.one "this" (.raw (.str "a")), .one "quoted" (.raw (.bool false))]),
             .one "table" (.raw .null)],
         .raw .null,
         .raw (.arr [.int 1, .str "x"])],
     .many "joins" [],
     .one "distinct" (.raw (.bool false)),
     .one "limit" (.raw .null)]

example : sample.WF ∧ sample.isObj = true := by
  simp [sample, Val.WF, wfOpt, wfArgs, Arg.WF, wfVals, keysOf, Arg.key, Val.isObj, dataTypeCls]

example : load (dump sample) = some (some sample.norm) :=
  load_dump sample (by simp [sample, Val.WF, wfOpt, wfArgs, Arg.WF, wfVals, keysOf, Arg.key, Val.isObj, dataTypeCls]) rfl

/-- the normal form really differs from the tree (the theorem is not about the identity) -/
example : sample.norm.size < sample.size := by decide +kernel

/-- the distinct-keys hypothesis of `load_dump` is needed: two args with one key (impossible in a Python dict) are
    dumped as two payloads and `set` overwrites the first with the second -/
theorem duplicate_keys_witness :
    load (dump (Val.node "X" none none none [.one "a" (.raw (.int 1)), .one "a" (.raw (.int 2))])) =
      some (some (Val.node "X" none none none [.one "a" (.raw (.int 2))])) := by
  rw [dump_eq_flat]
  simp [flat, flatTy, flatArgs, flatArg, Val.isNull, nodeP, rawP, eIndex, eKey, eArr, normC,
    load, mkRoot, mkObj, loadTy, dataTypeCls, loadList, mkCell, pIndex, pKey, pArr, attach, linkArgs,
    Cell.isRawNull, setKey, Cell.withLink, reify, reifyCell, reifySlots, reifySlot]

end SqlglotModel.Properties.C12
