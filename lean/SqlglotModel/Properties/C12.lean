/-
  C12 — Serialisation and copying reproduce the tree exactly (modelled: `serde.dump` / `serde.load` / `_load` incl. the
  `{"__expr__": …}` meta entries, `Expression.set` / `append` / `_set_parent` with hash invalidation, `__reduce__`).
  Only property theorems, non-vacuity examples and witnesses live here; lemmas are in Proofs/Serde.lean.

  Reading guide: `Val` is a syntax tree as `dump` sees it (class, `.type`, comments, `_meta` whose values are raw JSON
  values or Expressions, ordered args whose values are nodes, DType members, raw JSON scalars or lists of those).
  `t.norm` erases exactly what no payload records: args whose value is `None`, args whose value is `[]`, and
  `comments == []` (becomes `None`).  These are invisible to `==`, `.sql()`, `.type`, `.comments or []`, `.meta`.
  All statements are for every tree of the model (no size bound).
-/
import SqlglotModel.Proofs.Serde
import SqlglotModel.Proofs.SerdeCopy
import SqlglotModel.Generated.C12

namespace SqlglotModel.Properties.C12
open SqlglotModel.Serde

/-- the iterative explicit-stack loop of `dump` produces the recursive pre-order flattening: node `i`'s children
    carry parent index `i`, their arg key and the array flag, in `args` order; type annotations and Expression-valued
    meta entries are nested dumps -/
theorem dump_preorder (t : Val) : dump t = flat t none 0 := dump_eq_flat t

/-- the object graph `load` builds from a dump, cell by cell: every node with its final `args` dict (refs to the
    pre-order positions of its children), its parent link `(parent, arg_key, index)` and no cached hash -/
theorem load_arena_dump (t : Val) (hwf : t.WF) (hobj : t.isObj = true) :
    loadArena (dump t) = some (seg t none 0) := by
  rw [dump_eq_flat]; exact loadArena_flat t hwf hobj

/-- (what `norm` erases — `None`-valued args, `[]` args, `comments == []` — is observable only through a reader that tells
    presence from absence: see `empty_vs_absent_readers_audited`, on which the reading "reproduces the tree" depends.)
    **load ∘ dump**: for every well-formed tree (typed, commented, with meta — also Expression-valued meta —, nested
    lists, `False` vs absent …) loading its dump succeeds and reads back the tree, up to `norm` -/
theorem load_dump (t : Val) (hwf : t.WF) (hobj : t.isObj = true) : load (dump t) = some (some t.norm) := by
  rw [dump_eq_flat]; exact load_flat_root t hwf hobj

/-- the tree read back from the closed-form arena is the normalised tree (the `reify` half of `load_dump`) -/
theorem reify_arena (t : Val) : reify (seg t none 0) t.cnt 0 = some t.norm := by
  simpa using reify_seg t none [] [] 0 t.cnt rfl (Nat.le_refl _)

/-- `norm` is a projection … -/
theorem norm_idem (t : Val) : t.norm.norm = t.norm := SqlglotModel.Serde.norm_idem t

/-- … and what it erases is exactly what `dump` does not write: a tree and its normal form have the same dump -/
theorem dump_norm (t : Val) : dump t.norm = dump t := by
  rw [dump_eq_flat, dump_eq_flat, flat_norm]

/-- exact round trip for trees already in normal form (no `None` / `[]` args, no `comments == []`) -/
theorem load_dump_normal (t : Val) (hwf : t.WF) (hobj : t.isObj = true) (hn : t.norm = t) :
    load (dump t) = some (some t) := by
  have := load_dump t hwf hobj
  rwa [hn] at this

/-- **parent links restored** (the C08 invariant for rebuilt trees): in the object graph `load` builds from a dump,
    every Expression stored under `args[k]` of node `j` has `parent = j, arg_key = k, index = None`, every Expression
    stored at `args[k][n]` has `parent = j, arg_key = k, index = n`, and no ref dangles -/
theorem load_links (t : Val) (hwf : t.WF) (hobj : t.isObj = true) :
    ∃ A, loadArena (dump t) = some A ∧ A.length = t.cnt ∧ ∀ j, j < A.length → cellOK A j := by
  refine ⟨seg t none 0, load_arena_dump t hwf hobj, seg_length t none 0, ?_⟩
  intro j hj
  rw [seg_length] at hj
  exact links_closed_form t j hj

/-- **every payload list `load` accepts** (not only dumps: mutated, hand-written, hostile ones) yields an object graph
    in which no node has a cached hash, every child ref points forwards and inside the graph (no dangling index, no
    cycle) and every parent index points backwards -/
theorem load_no_dangling (ps : List Payload) (A : List Cell) (h : loadArena ps = some A) : AInv A :=
  loadArena_inv ps A h

/-- **every dumped payload is a JSON value**: a dict with `str` keys whose values are JSON scalars, lists of payload
    dicts (type annotations, `__expr__` meta entries), lists of strings (comments), or str-keyed dicts (meta) -/
theorem dump_json (K : Keys) (t : Val) : JsonValue (.list (payloadsToPy K (dump t))) :=
  .list _ (payloads_json K (dump t))

/-- **pickle**: `__reduce__` hands pickle `(load, (dump(self),))` and no state, so unpickling is `load ∘ dump` … -/
theorem pickle_roundtrip (t : Val) (h : Option Nat) (hwf : t.WF) (hobj : t.isObj = true) :
    unpickle (reduce false t h) = some (some t.norm) := by
  simpa [unpickle, reduce] using load_dump t hwf hobj

/-- … and whatever hash the pickled tree had cached, no node of the unpickled tree carries a cached hash (a later
    `set`/`append` below the root therefore cannot leave a stale one) -/
theorem unpickled_no_hash (t : Val) (h : Option Nat) (A : List Cell)
    (hA : unpickleArena (reduce false t h) = some A) :
    ∀ (j : Nat) cls ty c m args l hsh, A[j]? = some (Cell.node cls ty c m args l hsh) → hsh = none := by
  intro j cls ty c m args l hsh hj
  have hl : loadArena (dump t) = some A := by
    simp only [unpickleArena, reduce] at hA
    cases hd : loadArena (dump t) with
    | none => simp [hd] at hA
    | some B => simp [hd] at hA; rw [hA]
  have := loadArena_inv _ _ hl j _ hj
  simp only [CellInv] at this
  exact this.1

/-- why the 2-tuple matters: were the cached hash passed as pickle state (3-tuple), the unpickled root would carry it -/
theorem stale_hash_witness (cls : String) (h : Nat) (hc : cls ≠ dataTypeCls) :
    unpickleArena (reduce true (.node cls none none none []) (some h)) =
      some [.node cls none none none [] none (some h)] := by
  simp [unpickleArena, reduce, dump_eq_flat, flat, flatTy, flatMeta, flatArgs, nodeP, eIndex, eKey, eArr, normC,
    loadArena, mkRoot, mkObj, hc, loadTy, loadMeta, loadList, Cell.setHash]

/-- **`copy()`**: the iterative `__deepcopy__` (explicit stack of (source node, empty copy) pairs, children attached
    through `set` / `append` with their hash invalidation, `_type` and Expression-valued meta copied by nested calls)
    builds an object graph that reads back as exactly the source tree — structure, types, comments, meta, and every
    arg including `None` values and empty lists — whatever hashes the source had cached -/
theorem copy_eq (hashOf : Val → Option Nat) (t : Val) (hwf : t.WF) (hn : t.isNode = true) :
    copy hashOf t = some t := copy_eq_real hashOf t hwf hn

/-- **the copy shares no node**: in the object graph `__deepcopy__` builds, every child ref points forwards to a cell
    this copy allocated and every parent index points backwards to one — no dangling index, no cycle, nothing reachable
    that was not freshly instantiated (`vs.__class__()`), whatever the source's hash caches -/
theorem copy_shares_no_node (hashOf : Val → Option Nat) (t : Val) (B : List Cell)
    (h : copyArena hashOf t = some B) : RInv B := copy_closed hashOf t B h

/-- the only `_hash` values a copy can carry are cached hashes of source nodes (`copy._hash = node._hash`, possibly
    cleared again by the `set` / `append` that attach its children): none is invented, so with an unhashed source the
    copy is unhashed -/
theorem copy_hashes_from_source (hashOf : Val → Option Nat) (t : Val) (B : List Cell)
    (h : copyArena hashOf t = some B) : HInv hashOf B := SqlglotModel.Serde.copy_hashes_from_source hashOf t B h

/-- **which payload lists `load` accepts**, exactly: the empty list; otherwise the first payload has a CLASS (`mkRoot`),
    and every later payload builds a cell by itself, has an ARG_KEY, and an INDEX naming an *earlier* payload that built
    an Expression (see `accepts` / `tailOK`). For every accepted list `load_no_dangling` applies. -/
theorem load_accepts (ps : List Payload) : (loadArena ps).isSome = accepts ps := loadArena_accepts ps

/-- **`load` shares no mutable object with the payload list**: provided `_load` copies the comments list and builds the
    node's `_meta` dict itself (`SharePolicy`, read off the source on every run) and no raw VALUE / meta value is a list
    (no parser stores one), no list or dict a loaded node points at belongs to the payload list — editing the loaded tree
    (add_comments, meta[...] = …, annotate_types) cannot change a kept dump, a second `load` of it, or the dumped tree -/
theorem load_shares_nothing_with_payload (pol : SharePolicy) (hc : pol.loadCopiesComments = true)
    (hm : pol.loadBuildsMetaDict = true) (ps : List Payload) (hflat : noArrList ps = true) :
    ∀ o ∈ loadRefsList pol ps [] 0, o ∉ payObjsList ps [] 0 := by
  intro o ho hp
  have h1 := loadRefsList_made pol hc hm ps [] 0 hflat o ho
  have h2 := payObjsList_isPay ps [] 0 o hp
  rw [h1] at h2
  exact Bool.noConfusion h2

/-- the policy of the current source -/
def sourcePolicy : SharePolicy :=
  ⟨SqlglotModel.Generated.C12.loadCopiesComments, SqlglotModel.Generated.C12.loadBuildsMetaDict⟩

/-- the current `_load` always builds the meta dict with its comprehension (finite decision on the extracted fact; a
    change that hands the payload's own dict to the node makes this fail) -/
theorem source_builds_meta_dict : sourcePolicy.loadBuildsMetaDict = true := by decide +kernel

/-- witness (genuine defect of the source as long as `loadCopiesComments = false`): with
    `expression.comments = payload.get(COMMENTS)` the loaded node's comments list IS the payload's list -/
theorem load_aliases_comments_witness :
    Obj.pay [0] .comments ∈ loadRefsList ⟨false, true⟩ [.mk none none false (some "X") none (some ["c"]) none none] [] 0 ∧
    Obj.pay [0] .comments ∈ payObjsList [.mk none none false (some "X") none (some ["c"]) none none] [] 0 := by
  simp [loadRefsList, loadRefs, payObjsList, payObjs, valueObj, loadRefsTy, loadRefsMeta, payObjsTy, payObjsMeta]

/-- witness for the class "the payload's own meta dict is handed to the node" -/
theorem load_aliases_meta_witness :
    Obj.pay [0] .mta ∈ loadRefsList ⟨true, false⟩ [.mk none none false (some "X") none none (some [.raw "k" (.int 1)]) none] [] 0 ∧
    Obj.pay [0] .mta ∈ payObjsList [.mk none none false (some "X") none none (some [.raw "k" (.int 1)]) none] [] 0 := by
  simp [loadRefsList, loadRefs, payObjsList, payObjs, valueObj, loadRefsTy, loadRefsMeta, payObjsTy, payObjsMeta,
    loadRefsMetaL, payObjsMetaL, Raw.isArr]

/-- why `load_shares_nothing_with_payload` excludes list-valued raw values: `node = payload[VALUE]` and the `else v` of
    the meta comprehension store the value itself, whatever the policy -/
theorem raw_list_value_shared_witness (pol : SharePolicy) :
    Obj.pay [1] .value ∈ loadRefsList pol [.mk none none false (some "X") none none none none,
        .mk (some 0) (some "k") true none none none none (some (.arr [.int 1]))] [] 0 := by
  simp [loadRefsList, loadRefs, valueObj, loadRefsTy, loadRefsMeta]

/-- **the `type` property inside the theorem** (`Cast`: `_type or self.to`; DataType & co: the node itself, never
    dumped; everything else: `_type`).  For a tree given with its raw `_type` fields, whatever classes take the special
    branches (`R` is read off the live classes on every run): loading the real dump succeeds; the loaded tree `L` is the
    normalised `type`-view of `t`; viewing `L` again changes nothing (so `L.type` agrees with `t.type` on every node);
    and dumping `L` gives the very payload list `t` gave -/
theorem type_view_roundtrip (R : TypeRules) (t : Val) (hwf : (t.view R).WF) (hobj : t.isObj = true) :
    load (realDump R t) = some (some (t.view R).norm) ∧
    ((t.view R).norm).view R = (t.view R).norm ∧
    realDump R ((t.view R).norm) = realDump R t := by
  have hobj' : (t.view R).isObj = true := by cases t <;> simp_all [Val.view, Val.isObj]
  have hfix : ((t.view R).norm).view R = (t.view R).norm := by
    rw [view_norm R _ hwf, SqlglotModel.Serde.view_idem]
  refine ⟨load_dump _ hwf hobj', hfix, ?_⟩
  unfold realDump
  rw [hfix, dump_norm]

/-- where the loaded tree differs from the dumped one although every `.type` agrees: a Cast without `_type` comes back
    with `_type` set to a copy of its target type -/
theorem cast_type_materialised_witness (R : TypeRules) (hc : R.isCast "Cast" = true) (hd : R.isDataType "Cast" = false)
    (hd' : R.isDataType "DataType" = true) :
    (Val.node "Cast" none none none [.one "to" (.node "DataType" none none none [.one "this" (.dtype "INT")])]).view R =
      Val.node "Cast" (some (.node "DataType" none none none [.one "this" (.dtype "INT")])) none none
        [.one "to" (.node "DataType" none none none [.one "this" (.dtype "INT")])] := by
  simp [Val.view, viewOpt, viewMeta, viewArgs, Arg.view, typeProp, hc, hd, hd', argOne, notNull, Val.isNull]

/-- … and a DataType's own `_type` (its `type` is itself) is never dumped, hence lost -/
theorem datatype_own_type_dropped_witness (R : TypeRules) (hd : R.isDataType "DataType" = true) :
    (Val.node "DataType" (some (.node "DataType" none none none [])) none none [.one "this" (.dtype "INT")]).view R =
      Val.node "DataType" none none none [.one "this" (.dtype "INT")] := by
  simp [Val.view, viewOpt, viewMeta, viewArgs, Arg.view, typeProp, hd]

/-- **the two reconstruction paths agree**: for a tree as `dump` sees it, `load ∘ dump` is `copy` followed by `norm` … -/
theorem copy_vs_load_dump (hashOf : Val → Option Nat) (t : Val) (hwf : t.WF) (hn : t.isNode = true) :
    load (dump t) = (copy hashOf t).map fun c => some c.norm := by
  have hobj : t.isObj = true := by cases t <;> simp_all [Val.isNode, Val.isObj]
  rw [load_dump t hwf hobj, copy_eq hashOf t hwf hn]; rfl

/-- … and precisely there they differ: `copy` keeps a `None`-valued arg (and `[]`, and `comments == []`),
    `load ∘ dump` drops it -/
theorem copy_load_dump_differ_witness (hashOf : Val → Option Nat) :
    copy hashOf (Val.node "X" none none none [.one "a" (.raw .null)]) =
      some (Val.node "X" none none none [.one "a" (.raw .null)]) ∧
    load (dump (Val.node "X" none none none [.one "a" (.raw .null)])) = some (some (Val.node "X" none none none [])) := by
  refine ⟨copy_eq hashOf _ (by simp [Val.WF, wfOpt, wfMeta, wfArgs, Arg.WF, keysOf, Arg.key, dataTypeCls]) rfl, ?_⟩
  have := load_dump (Val.node "X" none none none [.one "a" (.raw .null)])
    (by simp [Val.WF, wfOpt, wfMeta, wfArgs, Arg.WF, keysOf, Arg.key, dataTypeCls]) rfl
  simpa [Val.norm, normOpt, normC, normMeta, normArgs, Arg.dropped, Val.isNull] using this

/-- the classes that take the special branches of `Expression.type` in the current source -/
def sourceRules : TypeRules where
  isDataType := fun c => SqlglotModel.Generated.C12.dataTypeClasses.contains c
  isCast := fun c => SqlglotModel.Generated.C12.castClasses.contains c

/-- **JSON text round trip** (token level: grammar modelled, string / number lexing atomic): parsing the rendered text of
    any JSON value gives the value back … -/
theorem json_text_roundtrip (j : Py) (h : JsonValue j) : parse j.size (render j) = some (j, []) := by
  simpa using parse_render j h [] j.size (Nat.le_refl _)

/-- … in particular for the dump of every tree: `json.loads(json.dumps(dump(t)))` is `dump(t)` -/
theorem dump_json_text_roundtrip (K : Keys) (t : Val) :
    parse (Py.list (payloadsToPy K (dump t))).size (render (.list (payloadsToPy K (dump t)))) =
      some (.list (payloadsToPy K (dump t)), []) :=
  json_text_roundtrip _ (dump_json K t)

/-- **the C08 link invariant for every object graph `load` returns** — not only for dumps: whatever payload list is
    accepted (mutated, hand-written, keys set twice, a list overwritten by a single value …), every Expression stored
    under `args[k]` of node `j` has `(parent, arg_key, index) = (j, k, None)` and every Expression stored at `args[k][n]`
    has `(j, k, n)` -/
theorem load_links_any (ps : List Payload) (A : List Cell) (h : loadArena ps = some A) : LinksOK A :=
  loadArena_links ps A h

/-- … and for the finished `copy()` (set / append with hash invalidation, direct `args[k] = …` for scalars) -/
theorem copy_links (hashOf : Val → Option Nat) (t : Val) (B : List Cell)
    (h : copyArena hashOf t = some B) : LinksOK B := SqlglotModel.Serde.copy_links hashOf t B h

/-- **no node is reachable twice**: under `LinksOK` every slot that stores an Expression cell `r` forces `r`'s parent
    fields to be that slot's address, and an Expression has one `(parent, arg_key, index)`: two addresses storing the same
    node are the same address -/
theorem node_slot_address_unique {A : List Cell} {r : Nat} {l l' : Link} {cls ty c m args lnk h}
    (hr : A[r]? = some (Cell.node cls ty c m args lnk h)) (h1 : LinkIs A r l) (h2 : LinkIs A r l') : l = l' :=
  linkIs_unique hr h1 h2

/-- the face of a DType member `dump` writes / `_load` reads in the current source -/
def srcDumpBy : EnumBy := EnumBy.ofString SqlglotModel.Generated.C12.dumpDTypeBy
def srcLoadBy : EnumBy := EnumBy.ofString SqlglotModel.Generated.C12.loadDTypeBy

/-- obligation on the regenerated facts (finite decision, decided completely): `dump` and `_load` use the SAME face of
    a DType member, a recognised one, and that face is distinct over the regenerated (name, value) table of `DType` -/
theorem generated_enum_codec_ok :
    srcDumpBy = srcLoadBy ∧ srcDumpBy ≠ .other ∧
    (SqlglotModel.Generated.C12.dtypeTable.map (enumFace srcDumpBy)).Nodup := by
  decide +kernel

/-- **every DType member survives the codec** of the current source (128 members today, incl. `USERDEFINED` whose value
    `"USER-DEFINED"` differs from its name) -/
theorem dtype_codec_roundtrip (e : String × String) (he : e ∈ SqlglotModel.Generated.C12.dtypeTable) :
    (encodeEnum srcDumpBy e).bind (decodeEnum SqlglotModel.Generated.C12.dtypeTable srcLoadBy) = some e := by
  have h := generated_enum_codec_ok
  rw [← h.1]
  exact enum_codec_roundtrip _ srcDumpBy h.2.1 h.2.2 e he

/-- witness: writing the value and reading by name loses exactly the members whose two faces differ -/
theorem dtype_codec_mismatch_witness :
    (encodeEnum .value ("USERDEFINED", "USER-DEFINED")).bind
      (decodeEnum [("INT", "INT"), ("USERDEFINED", "USER-DEFINED")] .name) = none := by
  decide +kernel

/-- **against the equality users observe**: `Expression.__eq__` compares the class and the `__hash__` fold (`Val.nf`: keys
    sorted, `None` / `False` dropped, strings lower-cased except in `_hash_raw_args` classes, `_type` / comments / meta
    ignored).  The tree `load` returns for the real dump of `t` has the same fold as `t`, for any hash rules and any
    `type`-property tables … -/
theorem eq_preserved_by_load_dump (R : HashRules) (TR : TypeRules) (t : Val) (hwf : (t.view TR).WF)
    (hobj : t.isObj = true) :
    ∃ L, load (realDump TR t) = some (some L) ∧ L.nf R = t.nf R :=
  ⟨(t.view TR).norm, (type_view_roundtrip TR t hwf hobj).1, by rw [nf_norm, nf_view]⟩

/-- … and so has the copy -/
theorem eq_preserved_by_copy (R : HashRules) (hashOf : Val → Option Nat) (t : Val) (hwf : t.WF) (hn : t.isNode = true) :
    ∃ c, copy hashOf t = some c ∧ c.nf R = t.nf R :=
  ⟨t, copy_eq hashOf t hwf hn, rfl⟩

/-- which equality the property needs: `==` is blind to `_type`, comments and meta (`.sql()` prints comments, the
    optimizer reads types and meta), so "reproduces the tree exactly" must be — and above is — stated for the structural
    equality up to `norm`; `==` follows from it, not conversely -/
theorem eq_blind_to_type_comments_meta (R : HashRules) (cls : String) (ty ty' : Option Val) (c c' : Comments)
    (m m' : Meta) (args : List Arg) :
    (Val.node cls ty c m args).nf R = (Val.node cls ty' c' m' args).nf R := by
  simp [Val.nf]

/-- `==` also identifies what `norm` keeps apart: `False` and absence, `True` and `1`, upper and lower case -/
theorem eq_coarser_than_norm_witness (R : HashRules) (hr : R.rawArgs "X" = false) (hl : R.lower "A" = R.lower "a") :
    (Val.node "X" none none none [.one "d" (.raw (.bool false)), .one "t" (.raw (.bool true)), .one "s" (.raw (.str "A"))]).nf R =
    (Val.node "X" none none none [.one "t" (.raw (.int 1)), .one "s" (.raw (.str "a"))]).nf R := by
  simp [Val.nf, nfArgs, Arg.nfItems, itemOne, nfRaw, hr, hl]

/-- what the repair `pending_fixes/C12-dump-raw-type.diff` buys (dump reads `_type`, so no class takes a special branch
    and the translator emits empty tables): the `type` view is the identity and the round trip is exact on the raw
    `_type` fields — a Cast without `_type` comes back without one -/
theorem view_id_of_no_rules (R : TypeRules) (hd : ∀ c, R.isDataType c = false) (hc : ∀ c, R.isCast c = false)
    (t : Val) (hwf : t.WF) (hobj : t.isObj = true) :
    t.view R = t ∧ load (realDump R t) = some (some t.norm) := by
  have h := view_id R hd hc t
  refine ⟨h, ?_⟩
  unfold realDump
  rw [h]
  exact load_dump t hwf hobj

/-- the audited readers of `.type` / `._type` on cast-class nodes.  After `load` a Cast carries a materialised `_type`
    (`cast_type_materialised_witness`), a detached copy of its target: code that reads (or mutates) the cast's `type`
    where its `to` child is meant behaves differently on reloaded trees.  Audited today:
    * simplify.extract_type — `expression.to if isinstance(expression, exp.Cast) else expression.type`: the `.type` read is
      the non-cast branch. -/
def auditedCastTypeReads : List String :=
  ["sqlglot/optimizer/simplify.py:extract_type:expression.type"]

/-- obligation (finite decision on the regenerated table): no generator / optimizer / dialect site outside this list reads
    the `type` of a cast-class node, and `Cast.is_type` consults `self.to`; a new reader breaks the build until audited -/
theorem cast_type_reads_audited :
    SqlglotModel.Generated.C12.castTypeReads = auditedCastTypeReads ∧
    SqlglotModel.Generated.C12.castIsTypeUsesTo = true := by
  decide +kernel

/-- the audited sites that tell an arg PRESENT with `None` / `[]` from an ABSENT one.  `dump` records neither, `load ∘ dump`
    is the identity only up to `norm` (`load_dump`), and `norm`'s erasure is unobservable exactly as long as no reader makes
    that distinction.  **The soundness of reading `load_dump` as "reproduces the tree" rests on this table.**  Audited:
    * `'expressions' in expression.args` (generator.py and snowflake.py `dynamicidentifier_sql`): OBSERVABLE — known finding
      C12-empty-call-args-lost-dynamicidentifier (`IDENTIFIER('f')()` loses its call after a round trip);
    * tableau `strposition_sql` now tests the VALUE of a non-list arg (`args.get('occurrence') is not None`; repaired in
      /repo 8ff675e, formerly `'occurrence' in expression.args`, finding C12-none-arg-key-read-by-tableau-strposition):
      `None` and absence coincide, harmless;
    * `expression.args.get('values') is not None` (generator.py `datatype_sql`): a list arg, but no parser stores `values=[]`
      (empty-list corpus, all dialects);
    * the remaining `… is None` / `is not None` tests read non-list args, for which `None` and absence coincide. -/
def auditedEmptyVsAbsentReaders : List String :=
  ["sqlglot/generator.py:datatype_sql:expression.args.get('values') is not None",
   "sqlglot/generator.py:dynamicidentifier_sql:'expressions' in expression.args",
   "sqlglot/generator.py:join_sql:this.args.get('cross_apply') is not None",
   "sqlglot/generators/duckdb.py:_scale_rounding_sql:expression.args.get('to') is not None",
   "sqlglot/generators/postgres.py:lateral_sql:expression.args.get('cross_apply') is not None",
   "sqlglot/generators/snowflake.py:dynamicidentifier_sql:'expressions' in expression.args",
   "sqlglot/generators/tableau.py:strposition_sql:expression.args.get('occurrence') is not None",
   "sqlglot/generators/tsql.py:timefromparts_sql:expression.args.get('fractions') is None",
   "sqlglot/generators/tsql.py:timefromparts_sql:expression.args.get('precision') is None",
   "sqlglot/generators/tsql.py:timestampfromparts_sql:expression.args.get('milli') is None",
   "sqlglot/optimizer/merge_subqueries.py:_mergeable:inner_select.args.get('from_') is None",
   "sqlglot/parser.py:_parse_initcap:expr.args.get('expression') is None"]

/-- obligation (finite decision on the regenerated table): no other site distinguishes an empty / `None` arg from an absent
    one; a new such reader (e.g. rendering `()` for `Schema(expressions=[])`) breaks the build until audited -/
theorem empty_vs_absent_readers_audited :
    SqlglotModel.Generated.C12.emptyVsAbsentReaders = auditedEmptyVsAbsentReaders := by
  decide +kernel

/-- facts re-extracted from sqlglot/serde.py and expressions/core.py on every run: the eight payload keys are pairwise
    distinct (a collision would make two payload fields overwrite each other), the DType marker is the modelled one,
    the guards and the meta comprehensions of dump/load/_load are the modelled ones, and `__reduce__` returns exactly
    `(load, (dump(self),))`. (finite decision, decided completely) -/
theorem generated_ok :
    SqlglotModel.Generated.C12.allKeys.Nodup ∧ SqlglotModel.Generated.C12.dataType = dataTypeCls ∧
    SqlglotModel.Generated.C12.shapeAsModelled = true ∧ SqlglotModel.Generated.C12.reduceViaSerde = true := by
  decide +kernel

/-- the key constants of the current source, as the `Keys` of `dump_json` -/
def genKeys : Keys where
  index := SqlglotModel.Generated.C12.keyIndex
  key := SqlglotModel.Generated.C12.keyArgKey
  isArr := SqlglotModel.Generated.C12.keyIsArray
  cls := SqlglotModel.Generated.C12.keyClass
  ty := SqlglotModel.Generated.C12.keyType
  comments := SqlglotModel.Generated.C12.keyComments
  mta := SqlglotModel.Generated.C12.keyMeta
  value := SqlglotModel.Generated.C12.keyValue
  metaExpr := SqlglotModel.Generated.C12.keyMetaExpr

/-! ### non-vacuity and witnesses -/

/-- a typed, commented tree with meta (one entry an Expression), a `False` arg, a `None` arg, an empty list, a list
    holding `None`, a DType and a nested list of scalars -/
def sample : Val :=
  .node "Select" (some (.node "DataType" none none none [.one "this" (.dtype "INT"), .one "nested" (.raw (.bool false))]))
    (some ["c"])
    (some [.raw "line" (.int 1), .raw "flag" (.bool true),
           .expr "query_type" (.node "DataType" none (some []) none [.one "this" (.dtype "STRUCT"), .one "kind" (.raw .null)])])
    [.many "expressions"
        [.node "Column" none (some []) none
            [.one "this" (.node "Identifier" none none (some []) [.one "this" (.raw (.str "a")), .one "quoted" (.raw (.bool false))]),
             .one "table" (.raw .null)],
         .raw .null,
         .raw (.arr [.int 1, .str "x"])],
     .many "joins" [],
     .one "distinct" (.raw (.bool false)),
     .one "limit" (.raw .null)]

theorem sample_wf : sample.WF ∧ sample.isObj = true := by
  simp [sample, Val.WF, wfOpt, wfMeta, wfMetaL, MetaE.WF, wfArgs, Arg.WF, wfVals, keysOf, Arg.key, Val.isObj,
    Val.isNode, dataTypeCls]

example : load (dump sample) = some (some sample.norm) := load_dump sample sample_wf.1 sample_wf.2

example : ∃ A, loadArena (dump sample) = some A ∧ AInv A := by
  obtain ⟨A, hA, _⟩ := load_links sample sample_wf.1 sample_wf.2
  exact ⟨A, hA, load_no_dangling _ _ hA⟩

example : JsonValue (.list (payloadsToPy genKeys (dump sample))) := dump_json genKeys sample

example : copy (fun _ => some 7) sample = some sample := copy_eq _ sample sample_wf.1 rfl

/-- a payload whose INDEX points at itself (Python would build a cyclic tree) or at a scalar is refused -/
example : accepts [.mk none none false (some "X") none none none none,
                   .mk (some 1) (some "this") false (some "Y") none none none none] = false := by
  simp [accepts, tailOK, mkRoot, mkCell, mkObj, loadTy, loadMeta, dataTypeCls, pIndex, pKey, Cell.isNodeC]

/-- the normal form really differs from the tree (the theorem is not about the identity) -/
example : sample.norm.size < sample.size := by decide +kernel

/-- `JsonValue` is not trivially true: an Expression object inside a dict is refused -/
example : ¬ JsonValue (.dict [(.str "query_type", .opaque "DataType")]) := by
  intro h
  cases h with
  | dict _ _ hv =>
    have := hv (.str "query_type", .opaque "DataType") (by simp)
    cases this

/-- the distinct-keys hypothesis of `load_dump` is needed: two args with one key (impossible in a Python dict) are
    dumped as two payloads and `set` overwrites the first with the second -/
theorem duplicate_keys_witness :
    load (dump (Val.node "X" none none none [.one "a" (.raw (.int 1)), .one "a" (.raw (.int 2))])) =
      some (some (Val.node "X" none none none [.one "a" (.raw (.int 2))])) := by
  rw [dump_eq_flat]
  simp [flat, flatTy, flatMeta, flatArgs, flatArg, Val.isNull, nodeP, rawP, eIndex, eKey, eArr, normC,
    load, mkRoot, mkObj, loadTy, loadMeta, dataTypeCls, loadList, mkCell, pIndex, pKey, pArr, attach, clearUp, linkArgs,
    Cell.isRawNull, setKey, Cell.withLink, reify, reifyCell, reifySlots, reifySlot]

end SqlglotModel.Properties.C12
