/-
C17 — Column lineage reports exactly the source columns feeding a result column.

Model: Model/Lineage.lean (`toNode` = sqlglot.lineage.to_node over the flattened scopes of the QUALIFIED query, with the
memo cache as explicit state; `flow` = plain structural data flow, no cache, no node names).  Qualification itself
(star expansion, alias pushing) is C10's subject and is done by the real code before the model sees the query.
All theorems are for every scope list, every fuel, every cache satisfying the invariant — no size bound.
`Cfg.comps` = the components of `cache_key`, re-extracted from sqlglot/lineage.py on every run (Generated/C17.lean).
-/
import SqlglotModel.Proofs.Lineage
import SqlglotModel.Generated.C17

namespace SqlglotModel.Properties.C17
open SqlglotModel.Lineage
open SqlglotModel.Generated.C17 (keyComps recursiveCalls recursiveCallsPassCache keyNormalisations refNormalisations
  expandAliasVariant branchCopiesCteSources traverseCtesUpdatesInPlace memoisedNormalisers)
open SqlglotModel.Ident (Ident CaseFns Strategy asciiFns)

/-- the configuration the current source induces -/
def genCfg (useCache : Bool) : Cfg := ⟨keyComps, useCache⟩

/-- table fact (decided completely against the regenerated data): the cache key extracted from the source contains
    the column and the scope identity, and every recursive `to_node` call threads `_cache`.  Dropping a key component in
    the source breaks the build here. -/
theorem generated_key_ok :
    KeyComp.column ∈ keyComps ∧ KeyComp.scope ∈ keyComps ∧ recursiveCallsPassCache = true ∧ 0 < recursiveCalls := by
  decide

theorem genCfg_keyOk (b : Bool) : KeyOk (genCfg b) := fun _ => ⟨generated_key_ok.1, generated_key_ok.2.1⟩

/-- **leaves = flow**: without a cache, the leaves under the node `to_node` returns for (scope, column) are exactly
    the structural data flow of that column, for any key layout, any node names, any passed-in (unused) cache. -/
theorem leaves_eq_flow (comps : List KeyComp) (scopes : List LScope) (f : Nat) (a : Args) (cache : Cache)
    (h : a.scope < f) :
    (toNode ⟨comps, false⟩ scopes f a cache).1.leaves = flow scopes a.scope a.col :=
  (toNode_spec scopes (keyOk_uncached comps) f a cache h (inv_uncached comps scopes cache)).1

/-- **the cache is transparent**: for every key layout that contains column and scope, and every cache whose entries
    hold the flow of the (scope, column) their key names (`Inv`; the empty cache in particular), the cached run returns
    the same leaves as the uncached run AND leaves a cache that satisfies the invariant again — so it holds across the
    successive `to_node` calls of one `lineage(None, …)` that share a cache.  Includes the set-operation rule (cache only
    a node the call created) and the Subquery-scope rule (never cache a passed-in upstream). -/
theorem cache_transparent (comps : List KeyComp) (hc : KeyComp.column ∈ comps) (hs : KeyComp.scope ∈ comps)
    (scopes : List LScope) (f : Nat) (a : Args) (cache : Cache) (h : a.scope < f)
    (hinv : Inv ⟨comps, true⟩ scopes cache) :
    (toNode ⟨comps, true⟩ scopes f a cache).1.leaves = (toNode ⟨comps, false⟩ scopes f a []).1.leaves ∧
      Inv ⟨comps, true⟩ scopes (toNode ⟨comps, true⟩ scopes f a cache).2 := by
  have hk : KeyOk ⟨comps, true⟩ := fun _ => ⟨hc, hs⟩
  obtain ⟨h1, h2⟩ := toNode_spec scopes hk f a cache h hinv
  exact ⟨by rw [h1, leaves_eq_flow comps scopes f a [] h], h2⟩

example (cfg : Cfg) (scopes : List LScope) : Inv cfg scopes [] := inv_nil cfg scopes

/-- the same for the key the CURRENT SOURCE uses (no hypothesis left: discharged by `generated_key_ok`) -/
theorem cache_transparent_generated (scopes : List LScope) (f : Nat) (a : Args) (cache : Cache) (h : a.scope < f)
    (hinv : Inv (genCfg true) scopes cache) :
    (toNode (genCfg true) scopes f a cache).1.leaves = (toNode (genCfg false) scopes f a []).1.leaves ∧
      Inv (genCfg true) scopes (toNode (genCfg true) scopes f a cache).2 :=
  cache_transparent keyComps generated_key_ok.1 generated_key_ok.2.1 scopes f a cache h hinv

theorem lineageAll_spec (scopes : List LScope) (root : Nat) (names : List String) :
    ∀ cache, Inv (genCfg true) scopes cache →
      lineageAll (genCfg true) scopes root names cache = names.map fun n => flow scopes root (.name n) := by
  induction names with
  | nil => intro _ _; rfl
  | cons n rest ih =>
    intro cache hinv
    obtain ⟨h1, h2⟩ := toNode_spec scopes (genCfg_keyOk true) (root + 1) (rootArgs root n) cache (by simp [rootArgs]) hinv
    simp only [lineageAll, List.map_cons]
    rw [ih _ h2, h1]
    rfl

/-- `lineage(None, …)` (one shared cache for all output columns) = the per-column calls, each with a fresh cache
    and no caching at all -/
theorem lineage_all_eq_per_column (scopes : List LScope) (root : Nat) (names : List String) :
    lineageAll (genCfg true) scopes root names [] =
      names.map fun n => (lineageOne (genCfg false) scopes root n).1.leaves := by
  rw [lineageAll_spec scopes root names [] (inv_nil _ _)]
  apply List.map_congr_left
  intro n _
  exact (leaves_eq_flow keyComps scopes (root + 1) (rootArgs root n) [] (by simp [rootArgs])).symm

/-- leaves of `lineage(column)` with the generated key, cached or not, are the flow of the root column -/
theorem lineageOne_eq_flow (b : Bool) (scopes : List LScope) (root : Nat) (column : String) :
    (lineageOne (genCfg b) scopes root column).1.leaves = flow scopes root (.name column) :=
  (toNode_spec scopes (genCfg_keyOk b) (root + 1) (rootArgs root column) [] (by simp [rootArgs]) (inv_nil _ _)).1

/-- **CTE vs derived table**: two scope lists that differ only in which sources are CTEs (and in the reference names
    this induces in nodes and cache keys) have the same leaves -/
theorem cte_vs_derived (b : Bool) (s1 s2 : List LScope) (h : s1.map LScope.eraseCte = s2.map LScope.eraseCte)
    (root : Nat) (column : String) :
    (lineageOne (genCfg b) s1 root column).1.leaves = (lineageOne (genCfg b) s2 root column).1.leaves := by
  rw [lineageOne_eq_flow, lineageOne_eq_flow, flow_of_eraseCte_eq h]

/-- **sources= vs inline**: the `/* source: x */` tags that `exp.expand` leaves on derived tables (they change
    `source_name`, `reference_node_name` and hence cache keys) do not change the leaves -/
theorem sources_arg_eq_inline (b : Bool) (s1 s2 : List LScope) (h : s1.map LScope.eraseTag = s2.map LScope.eraseTag)
    (root : Nat) (column : String) :
    (lineageOne (genCfg b) s1 root column).1.leaves = (lineageOne (genCfg b) s2 root column).1.leaves := by
  rw [lineageOne_eq_flow, lineageOne_eq_flow, flow_of_eraseTag_eq h]

/-- **alias renaming, per scope**: every scope `k` may be renamed by its own `ρs k`, which only has to be injective
    on the aliases / column qualifiers that scope mentions (`LScope.names`); the leaves do not change -/
theorem alias_renaming_invariant_per_scope (b : Bool) (ρs : Nat → String → String) (scopes : List LScope)
    (hρ : ∀ k sc, scopes[k]? = some sc → InjOn (ρs k) sc.names) (root : Nat) (column : String) :
    (lineageOne (genCfg b) (renameScopes ρs scopes) root column).1.leaves =
      (lineageOne (genCfg b) scopes root column).1.leaves := by
  rw [lineageOne_eq_flow, lineageOne_eq_flow, flow_renameScopes ρs scopes hρ]

/-- **alias renaming** (corollary): one globally injective renaming applied to every scope -/
theorem alias_renaming_invariant (b : Bool) (ρ : String → String) (hρ : ∀ x y, ρ x = ρ y → x = y)
    (scopes : List LScope) (root : Nat) (column : String) :
    (lineageOne (genCfg b) (scopes.map (LScope.rename ρ)) root column).1.leaves =
      (lineageOne (genCfg b) scopes root column).1.leaves := by
  rw [← renameScopes_const]
  exact alias_renaming_invariant_per_scope b (fun _ => ρ) scopes (fun _ _ _ x _ y _ e => hρ x y e) root column

/-- non-vacuity of the per-scope hypothesis: scope 1 of `cteTwice` renamed by a NON-injective map that is injective
    on its two aliases (`p ↦ q2`, everything else ↦ `q1`) -/
example : InjOn (fun s => if s = "p" then "q2" else "q1")
    (LScope.select [⟨"x", [("p", "a"), ("q", "b")], []⟩] ⟨"", [], []⟩
      [("p", .scope 0 false none none), ("q", .scope 0 false none none)]).names := by
  have h : (LScope.select [⟨"x", [("p", "a"), ("q", "b")], []⟩] ⟨"", [], []⟩
      [("p", .scope 0 false none none), ("q", .scope 0 false none none)]).names = ["p", "q", "p", "q"] := rfl
  rw [h]
  intro x hx y hy
  simp only [List.mem_cons, List.not_mem_nil, or_false] at hx hy
  rcases hx with rfl | rfl | rfl | rfl <;> rcases hy with rfl | rfl | rfl | rfl <;> decide

/-- a non-trivial injective renaming: swap `p` and `q` -/
def swapPQ (x : String) : String := if x = "p" then "q" else if x = "q" then "p" else x

example : ∀ x y : String, swapPQ x = swapPQ y → x = y := by
  intro x y
  unfold swapPQ
  split <;> split <;> (try split) <;> (try split) <;> intro h <;> simp_all

/-! ### witnesses (finite, decided completely): each key component is essential -/

def noFb : Proj := ⟨"", [], []⟩

/-- `SELECT d.a AS x, d.b AS y FROM (SELECT t.a AS a, t.b AS b FROM t) AS d` -/
def twoCol : List LScope :=
  [ .select [⟨"a", [("t", "a")], []⟩, ⟨"b", [("t", "b")], []⟩] noFb [("t", .table "t")],
    .select [⟨"x", [("d", "a")], []⟩, ⟨"y", [("d", "b")], []⟩] noFb [("d", .scope 0 false none none)] ]

/-- non-vacuity: on `twoCol` the generated key gives the right answer for both columns with a shared cache -/
theorem twoCol_ok : lineageAll (genCfg true) twoCol 1 ["x", "y"] [] = [[("t", "a")], [("t", "b")]] := by
  decide +kernel

/-- a cache keyed WITHOUT the column returns the first column's leaves for the second column -/
theorem stale_key_without_column_witness :
    lineageAll ⟨[.scope, .scopeName, .sourceName, .refName], true⟩ twoCol 1 ["x", "y"] [] =
      [[("t", "a")], [("t", "a")]] := by
  decide +kernel

/-- `SELECT (SELECT t.a AS a FROM t) + (SELECT u.a AS a FROM u) AS a` -/
def twoSubq : List LScope :=
  [ .select [⟨"a", [("t", "a")], []⟩] noFb [("t", .table "t")],
    .select [⟨"a", [("u", "a")], []⟩] noFb [("u", .table "u")],
    .select [⟨"a", [], [(0, ["a"]), (1, ["a"])]⟩] noFb [] ]

theorem twoSubq_ok : (lineageOne (genCfg true) twoSubq 2 "a").1.leaves = [("t", "a"), ("u", "a")] := by
  decide +kernel

/-- a cache keyed WITHOUT the scope identity answers the second scalar subquery from the first one's entry -/
theorem stale_key_without_scope_witness :
    (lineageOne ⟨[.column, .scopeName, .sourceName, .refName], true⟩ twoSubq 2 "a").1.leaves =
      [("t", "a"), ("t", "a")] := by
  decide +kernel

/-- non-vacuity of `cte_vs_derived`: a CTE referenced twice under two aliases vs two derived tables -/
def cteTwice (isCte : Bool) (rn : Option String) : List LScope :=
  [ .select [⟨"a", [("t", "a")], []⟩, ⟨"b", [("t", "b")], []⟩] noFb [("t", .table "t")],
    .select [⟨"x", [("p", "a"), ("q", "b")], []⟩] noFb
      [("p", .scope 0 isCte rn none), ("q", .scope 0 isCte rn none)] ]

example : (cteTwice true (some "c")).map LScope.eraseCte = (cteTwice false none).map LScope.eraseCte := rfl

theorem cteTwice_ok :
    (lineageOne (genCfg true) (cteTwice true (some "c")) 1 "x").1.leaves = [("t", "a"), ("t", "b")] := by
  decide +kernel


/-! ### `sources=` : `exp.expand` modelled, not assumed -/

/-- **expand then lineage = inline**: instantiating the `sources` definitions as `exp.expand` does (a fresh, tagged
    derived-table copy per reference, recursively; `Model.expandQ mk`, any tagging `mk`, any way `look` of finding a
    definition) and writing the same derived tables inline by hand (`expandQ (fun _ => none)`, no tags) give the same
    root and the same leaves for every output column — also for cyclic or dangling definitions (explicit error scope)
    and every fuel. -/
theorem expand_then_lineage_eq_inline (b : Bool) (mk : String → Option String) (al : AliasFn) (look : Look) (fuel : Nat)
    (implicit : List (Nat × String)) (main : List LScope) (column : String) :
    (lineageOne (genCfg b) (expandQA mk al look fuel implicit main).1 (expandQA mk al look fuel implicit main).2 column).1.leaves =
      (lineageOne (genCfg b) (expandQA (fun _ => none) al look fuel implicit main).1
        (expandQA (fun _ => none) al look fuel implicit main).2 column).1.leaves := by
  obtain ⟨h1, h2⟩ := expandQA_sim mk (fun _ => none) al look fuel implicit main
  rw [h2]
  exact sources_arg_eq_inline b _ _ h1 _ column

/-- `sources={'s2': 'SELECT t.a AS a FROM t', 's1': 'SELECT w.a AS x FROM s2 AS w'}`,
    main `SELECT p.x AS y, q.x AS z FROM s1 AS p CROSS JOIN s1 AS q` (a source referenced twice, a source using a source) -/
def expDefs : List SrcDef :=
  [ { name := "s2", scopes := [.select [⟨"a", [("t", "a")], []⟩] noFb [("t", .table "t")]] },
    { name := "s1", scopes := [.select [⟨"x", [("w", "a")], []⟩] noFb [("w", .table "s2")]] } ]

def expMain : List LScope :=
  [ .select [⟨"y", [("p", "x")], []⟩, ⟨"z", [("q", "x")], []⟩] noFb [("p", .table "s1"), ("q", .table "s1")] ]

/-- non-vacuity: the expansion has 5 scopes (two copies of s1, each with its own copy of s2), root 4, and both
    columns reach `t.a`; without the definitions the columns end in the unexpanded table `s1` -/
theorem expand_example :
    (expandQ some (fun n => findDef n expDefs) 3 expMain).1.length = 5 ∧ (expandQ some (fun n => findDef n expDefs) 3 expMain).2 = 4 ∧
      lineageAll (genCfg true) (expandQ some (fun n => findDef n expDefs) 3 expMain).1 4 ["y", "z"] [] = [[("t", "a")], [("t", "a")]] ∧
      lineageAll (genCfg true) (expandQ some (fun _ => none) 3 expMain).1 0 ["y", "z"] [] = [[("s1", "x")], [("s1", "x")]] := by
  decide +kernel


/-! ### the keys of `sources=` are normalised exactly once -/

/-- table fact (decided against the regenerated data): between `lineage()` and `exp.expand` the dict keys go through
    `normalize_table_name` exactly once, and so does each table reference.  A second pass in the source breaks the build. -/
theorem generated_key_normalised_once : keyNormalisations = 1 ∧ refNormalisations = 1 := by decide

/-- **keys normalised once**: with one pass over the definition keys, a table reference with identifier parts `r`
    finds a definition iff some definition key `kd.key` satisfies `normKey kd.key = normKey r`, for every strategy and
    all case functions (no hypothesis needed); and what it finds is such a definition, named by the normalised key. -/
theorem expand_key_normalised_once (f : CaseFns) (s : Strategy) (defs : List KeyedDef) (refs : List (String × List Ident))
    (n : String) (r : List Ident) (hr : lookupRef n refs = some r) :
    ((∃ d, lookupKeyed f s 1 defs refs n = some d) ↔ ∃ kd ∈ defs, normKey f s kd.key = normKey f s r) ∧
      (∀ d, lookupKeyed f s 1 defs refs n = some d →
        d.name = normKey f s r ∧ ∃ kd ∈ defs, normKey f s kd.key = normKey f s r ∧ kd.scopes = d.scopes) := by
  have hsound : ∀ d, lookupKeyed f s 1 defs refs n = some d →
      d.name = normKey f s r ∧ ∃ kd ∈ defs, normKey f s kd.key = normKey f s r ∧ kd.scopes = d.scopes := by
    intro d hd
    simp only [lookupKeyed, hr] at hd
    obtain ⟨h1, h2⟩ := findKeyed_sound hd
    refine ⟨h1, ?_⟩
    obtain ⟨kd, hkd, heq⟩ := List.mem_map.mp h2
    subst heq
    exact ⟨kd, hkd, h1, rfl⟩
  refine ⟨⟨?_, ?_⟩, hsound⟩
  · rintro ⟨d, hd⟩
    obtain ⟨_, kd, hkd, h1, _⟩ := hsound d hd
    exact ⟨kd, hkd, h1⟩
  · rintro ⟨kd, hkd, h1⟩
    simp only [lookupKeyed, hr]
    apply findKeyed_complete
    exact ⟨_, List.mem_map.mpr ⟨kd, hkd, rfl⟩, h1⟩

/-- witness: `sources={'"Orders"': …}` referenced as `FROM "Orders"` under LOWERCASE.  One pass: key and reference
    both normalise to `Orders` and the definition is found.  A second pass has only the unquoted text `Orders` to
    start from (`reparseKey` forgets `quoted`), folds it to `orders`, and the reference no longer finds its source. -/
theorem expand_key_double_normalisation_witness :
    normKey asciiFns .lowercase [⟨"Orders", true⟩] = "Orders" ∧
    defKey asciiFns .lowercase 2 [⟨"Orders", true⟩] = "orders" ∧
    (lookupKeyed asciiFns .lowercase 1 [{ key := [⟨"Orders", true⟩], scopes := [] }] [("Orders", [⟨"Orders", true⟩])] "Orders").isSome = true ∧
    (lookupKeyed asciiFns .lowercase 2 [{ key := [⟨"Orders", true⟩], scopes := [] }] [("Orders", [⟨"Orders", true⟩])] "Orders").isSome = false ∧
    -- an unquoted name survives a second pass (why plain lower-case source names never showed it)
    (lookupKeyed asciiFns .lowercase 2 [{ key := [⟨"Orders", false⟩], scopes := [] }] [("Orders", [⟨"Orders", false⟩])] "Orders").isSome = true := by
  decide +kernel


/-! ### the alias of the derived table that replaces a source reference -/

/-- table fact (decided against the regenerated data): `exp.expand` builds the alias from `node.alias or name`
    (name = the full normalised dotted name).  Any other expression in the source breaks the build. -/
theorem generated_expand_alias_ok : expandAliasVariant = AliasVariant.fullName := by decide

/-- **distinct names, distinct aliases**: the alias text `exp.expand` gives an UNALIASED reference is the full
    normalised dotted name, so two references with distinct normalised names get distinct alias texts (they cannot
    collide in one scope) — trivially for every strategy and all case functions, since no case function is involved;
    and after `to_identifier` + the identifier normalisation of `qualify` the aliases are still distinct whenever both
    names need quoting (a dotted name always does) and the strategy leaves quoted identifiers alone. -/
theorem expand_alias_unique_per_reference (k1 k2 : String) (h : k1 ≠ k2) :
    expandAliasText .fullName none k1 ≠ expandAliasText .fullName none k2 ∧
      ∀ (f : CaseFns) (s : Strategy), SqlglotModel.Ident.folds s true = false →
        isSafeIdent k1 = false → isSafeIdent k2 = false →
        expandAlias .fullName f s false "" k1 ≠ expandAlias .fullName f s false "" k2 := by
  refine ⟨h, ?_⟩
  intro f s hs h1 h2
  simp [expandAlias, expandAliasText, h1, h2, SqlglotModel.Ident.normalize, hs, h]

/-- witness for the last-part variant (`node.alias_or_name`): `stg.orders` and `mart.orders` both become `orders`
    (→ 'Alias already used', or silent capture of an outer `orders`); with the full name they stay apart -/
theorem expand_alias_last_part_witness :
    expandAliasText .aliasOrName none "stg.orders" = "orders" ∧
    expandAliasText .aliasOrName none "mart.orders" = "orders" ∧
    expandAlias .aliasOrName asciiFns .lowercase false "" "stg.orders" =
      expandAlias .aliasOrName asciiFns .lowercase false "" "mart.orders" ∧
    expandAlias .fullName asciiFns .lowercase false "" "stg.orders" = "stg.orders" ∧
    expandAlias .fullName asciiFns .lowercase false "" "mart.orders" = "mart.orders" ∧
    -- an explicit alias is kept
    expandAlias .aliasOrName asciiFns .lowercase true "p" "stg.orders" = "p" := by
  decide +kernel

/-- witness (clean-tree corner, see known finding): the alias forgets that a name was QUOTED — the sources
    `"Orders1"` and `orders1` have distinct normalised names under LOWERCASE but, both being safe identifiers, their
    aliases are written unquoted and fold to the same `orders1` -/
theorem expand_alias_forgets_quoting_witness :
    SqlglotModel.Lineage.normKey asciiFns .lowercase [⟨"Orders1", true⟩] ≠
      SqlglotModel.Lineage.normKey asciiFns .lowercase [⟨"orders1", false⟩] ∧
    expandAlias .fullName asciiFns .lowercase false "" "Orders1" = expandAlias .fullName asciiFns .lowercase false "" "orders1" := by
  decide +kernel


/-! ### CTE names are visible lexically: a nested WITH does not leak into sibling scopes -/

/-- table fact (decided against the regenerated data, sqlglot/optimizer/scope.py): `Scope.branch` builds a NEW
    `cte_sources` dict for every child (or `_traverse_ctes` does not update it in place).  Handing the parent's dict
    itself to a child under any condition breaks the build. -/
theorem generated_cte_env_isolated : (branchCopiesCteSources || !traverseCtesUpdatesInPlace) = true := by decide

/-- **sibling independence**: with per-child copies, what child `i` resolves a name to is its own WITH over the
    parent's mapping `E` — whatever the OTHER children define in their nested WITHs (two sibling lists that agree on
    child `i` give the same answer, for every name) -/
theorem cte_sibling_independence (E : CteEnv) (sibs sibs' : List CteEnv) (i : Nat) (n : String)
    (h : sibs[i]? = sibs'[i]?) :
    cteVisible true E sibs i n = cteVisible true E sibs' i n ∧
      cteVisible true E sibs i n = envGet n ((sibs[i]?).getD [] ++ E) := by
  simp only [cteVisible, parentEnvAt_copies, h, and_self]

/-- witness for the shared-dict variant: outer `WITH c` (scope 0); the first derived table has its own
    `WITH c` (scope 7); the LATER sibling, which defines nothing, resolves `c` to 7 instead of 0.  With copies it
    sees 0; and under an EMPTY outer mapping even the shared variant does not leak (fresh dict per child). -/
theorem cte_shared_dict_leak_witness :
    cteVisible false [("c", 0)] [[("c", 7)], []] 1 "c" = some 7 ∧
    cteVisible true [("c", 0)] [[("c", 7)], []] 1 "c" = some 0 ∧
    cteVisible false [("c", 0)] [[("c", 7)], []] 0 "c" = some 7 ∧
    cteVisible false [] [[("c", 7)], []] 1 "c" = none ∧
    -- shadowing a base table: `t` is no CTE for the later sibling (none = the physical table) unless it leaks
    cteVisible true [("k", 0)] [[("t", 7)], []] 1 "t" = none ∧
    cteVisible false [("k", 0)] [[("t", 7)], []] 1 "t" = some 7 := by
  decide +kernel


/-! ### no settings-blind memo in front of the key normalisation -/

/-- table fact (decided against the regenerated data): none of `normalize_table_name` (and the helpers it calls),
    `exp.expand`, `lineage`, `to_node` carries a functools cache or uses a module-level memo dict.  A cache keyed by
    the dialect object is keyed by its CLASS only (Dialect.__eq__/__hash__ ignore settings): adding one breaks the build. -/
theorem generated_no_settings_blind_memo : memoisedNormalisers = [] := by decide

/-- **a memo is sound iff its key determines the answer**: when the key contains the settings (or normalisation does
    not depend on them), for EVERY call history — any interleaving of dialect classes, strategies and key texts,
    starting from any memo whose entries are right (`MemoOk`; the empty one in particular) — the memoised
    normalisation answers exactly `normKey`, and the memo stays right. -/
theorem expand_key_memo_sound (hs : Bool) (f : CaseFns) (hk : KeyDetermines hs f)
    (calls : List (String × Strategy × List Ident)) (memo : NormMemo) (hm : MemoOk hs f memo) :
    runNormMemo hs f calls memo = calls.map fun c => normKey f c.2.1 c.2.2 :=
  runNormMemo_sound hk calls memo hm

example (hs : Bool) (f : CaseFns) : MemoOk hs f [] := by
  intro kv h; cases h

example (f : CaseFns) : KeyDetermines true f := Or.inl rfl

/-- witness for the class-only key: `orders` under Snowflake's UPPERCASE, then the same text under a Snowflake
    object with CASE_SENSITIVE — the second call returns the stale `ORDERS` (so the `sources=` key no longer matches
    the table reference `orders`); with the strategy in the key it returns `orders` -/
theorem expand_key_memo_without_settings_witness :
    runNormMemo false asciiFns [("snowflake", .uppercase, [⟨"orders", false⟩]), ("snowflake", .caseSensitive, [⟨"orders", false⟩])] []
      = ["ORDERS", "ORDERS"] ∧
    runNormMemo true asciiFns [("snowflake", .uppercase, [⟨"orders", false⟩]), ("snowflake", .caseSensitive, [⟨"orders", false⟩])] []
      = ["ORDERS", "orders"] ∧
    SqlglotModel.Lineage.normKey asciiFns .caseSensitive [⟨"orders", false⟩] = "orders" := by
  decide +kernel

end SqlglotModel.Properties.C17
