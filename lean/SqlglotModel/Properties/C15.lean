/-
  C15 — Results are deterministic and independent of earlier calls.
  Only property theorems, non-vacuity examples and witnesses live here.
  (a) holds for ALL operand lists / graphs; (b) `reuse_eq_fresh` holds for ALL field-write histories and is instantiated
  with the field lists extracted from the source on this run (Generated/C15.lean); the instantiation premises are finite
  tables decided completely by `decide`.
-/
import SqlglotModel.Proofs.Determinism
import SqlglotModel.Generated.C15

namespace SqlglotModel.Properties.C15
open SqlglotModel.Determinism
open SqlglotModel.Generated.C15

/-! ### (a) the order in which a set / dict hands out its elements is irrelevant -/

/-- `sorted(...)` imposes a canonical order: any two enumerations of the same multiset sort to the same list -/
theorem sorted_perm_invariant {xs ys : List Nat} (h : xs.Perm ys) : isort xs = isort ys := isort_perm h

/-- the hypothesis behind it, made explicit: Python's `sorted(xs, key=k)` is stable, so it is independent of the arrival
    order of `xs` exactly as long as DISTINCT elements never tie on the key (`k` injective on what is sorted); `sorted(xs)`
    without a key is the instance `k = id` -/
theorem keyed_sort_perm_invariant (key : Nat → Nat) {xs ys : List Nat} (h : xs.Perm ys)
    (hinj : ∀ a ∈ xs, ∀ b ∈ xs, key a = key b → a = b) : isortBy key xs = isortBy key ys ∧ isortBy id xs = isort xs :=
  ⟨isortBy_perm key h hinj, isortBy_id xs⟩

/-- **witness that the hypothesis is needed**: with a key on which two distinct elements tie (`k x = x / 2`: think of
    `str(node).lower()` on the names `T` and `t`) the result follows the arrival order — for a set, the hash seed -/
theorem keyed_sort_needs_injective_key :
    isortBy (· / 2) [2, 3, 0] = [0, 2, 3] ∧ isortBy (· / 2) [3, 2, 0] = [0, 3, 2] ∧ [2, 3, 0].Perm [3, 2, 0] := by
  refine ⟨by decide, by decide, List.Perm.swap _ _ _⟩

/-- the sort calls of the set-ordering modules (helper.tsort, Simplifier.uniq_sort, …) as extracted from the current source are
    the audited ones, and in particular `tsort` sorts each layer WITHOUT a key function (finite table, decided completely) -/
theorem sort_calls_ok :
    sortCalls = expectedSortCalls ∧
    ((sortCalls.filter fun e => e.2.1 == "tsort").map fun e => (e.2.2.1, e.2.2.2.1)) = [("sorted(current)", "-")] ∧
    ((sortCalls.filter fun e => e.2.1 == "Simplifier.uniq_sort").map fun e => e.2.2.2.1) = ["-"] := by decide +kernel

/-- **uniq_sort**: whatever order the operands arrive in (AND / OR / XOR), the connector it leaves has the same operands
    in the same order -/
theorem uniq_sort_perm_invariant (xor : Bool) {xs ys : List Nat} (h : xs.Perm ys) :
    uniqSort xor xs = uniqSort xor ys := uniqSort_perm xor h

/-- what that canonical form is: the distinct keys in ascending order (a single repeated operand `A AND A` becomes
    `A AND TRUE`); the "already sorted" / "only duplicates" fast paths do not change it -/
theorem uniq_sort_canonical (xs : List Nat) :
    uniqSort false xs =
      (if (dedupFirst xs).length = 1 ∧ 1 < xs.length then ⟨dedupFirst xs, true⟩ else ⟨isort (dedupFirst xs), false⟩) ∧
    uniqSort true xs = ⟨isort xs, false⟩ ∧
    (isort (dedupFirst xs)).Pairwise (· < ·) ∧ ∀ a, a ∈ isort (dedupFirst xs) ↔ a ∈ xs :=
  ⟨uniqSort_spec xs, uniqSort_xor xs, strict_isort (nodup_dedupFirst xs), fun a => by rw [mem_isort, mem_dedupFirst]⟩

/-- **tsort**: the result (or the cycle error) does not depend on the dict's iteration order -/
theorem tsort_order_independent {d d' : Dag} (h : d.Perm d') : tsort d = tsort d' := tsort_perm h

/-- **remove_complements**: whether `A AND NOT A` is found does not depend on the order the operand set is walked in -/
theorem remove_complements_perm_invariant {xs ys : List Opnd} (h : xs.Perm ys) :
    removeComplements xs = removeComplements ys := removeComplements_perm h

/-- **tsort, inside the dependency sets**: enumerating each node's dependency set in another order changes nothing either;
    together with `tsort_order_independent` every iteration order `tsort` can meet is covered -/
theorem tsort_inner_order_independent {d d' : Dag} (h : InnerEq d d') : tsort d = tsort d' := tsort_innerEq h

/-- **absorb_and_eliminate (absorption)**: which operands are absorbed (`A OR (A AND B) -> A`) does not depend on the order in
    which the operand sets (`set(op.flatten())`, the `for i in superset` loop) hand out their elements -/
theorem absorb_order_independent {ops ops' : List AOp} (h : AOpsEq ops ops') : absorbPass ops = absorbPass ops' :=
  absorbPass_eq h

theorem absorbed_superset_order_independent (ops : List AOp) {sup sup' : List Nat} (h : sup.Perm sup') :
    absorbed ops sup = absorbed ops sup' := absorbed_eq (by
      induction ops with
      | nil => trivial
      | cons o os ih => exact ⟨rfl, List.Perm.refl _, ih⟩) h

/-- **CTE de-duplication in eliminate_subqueries**: `existing_ctes` and `taken` are only ever looked up (never iterated), so
    every decision of a run — the name each derived table / CTE gets, and whether an existing CTE is reused — is the same
    whatever order the two dicts store their entries in (keys of `existing_ctes` distinct, as in any dict) -/
theorem cte_dedup_storage_order_independent {a b : CteSt} (hs : a.Same b) (ha : a.Ok) (xs : List (Nat × Name)) :
    elimAll a xs = elimAll b xs := elimAll_same hs ha xs

example : absorbPass [⟨[1], false⟩, ⟨[2, 1], true⟩, ⟨[3, 4], true⟩] = [false, true, false] ∧
    absorbPass [⟨[1], false⟩, ⟨[1, 2], true⟩, ⟨[4, 3], true⟩] = [false, true, false] := by decide
example : elimAll ⟨[(7, [5])], [[5], [0]]⟩ [(7, []), (8, []), (9, [5]), (8, [6])] =
    [([5], false), ([0, 2], true), ([5, 2], true), ([0, 2], false)] := by decide +kernel

example : uniqSort false [2, 0, 1, 0] = ⟨[0, 1, 2], false⟩ ∧ uniqSort false [0, 1, 2, 0] = ⟨[0, 1, 2], false⟩ ∧
    uniqSort false [3, 3] = ⟨[3], true⟩ ∧ uniqSort true [1, 0, 1] = ⟨[0, 1, 1], false⟩ := by decide
example : tsort [(2, [1]), (1, [0, 5]), (0, [])] = some [0, 5, 1, 2] ∧ tsort [(0, []), (1, [0, 5]), (2, [1])] = some [0, 5, 1, 2] ∧
    tsort [(0, [1]), (1, [0])] = none := by decide
example : removeComplements [.atom 1, .not (.atom 2), .atom 2] = true ∧ removeComplements [.atom 2, .atom 1, .not (.atom 3)] = false := by
  decide

/-! ### (b) a reused component starts every call from the state a new one has -/

/-- **reuse = fresh** for every history: `dirty` is ANY state reached by calls that only wrote fields in `written` -/
theorem reuse_eq_fresh (init reset : Assigns) (written exempt : List String)
    (h1 : resetRepeatsInit init reset = true) (h2 : writesCovered reset written exempt = true)
    (dirty : State) (hd : ∀ f, f ∉ written → dirty f = fresh init f) :
    ∀ f, f ∉ exempt → setAll reset dirty f = fresh init f :=
  reuse_eq_fresh_general init reset written exempt h1 h2 dirty hd

/-- Parser: `reset()` re-assigns `__init__`'s default to every per-call field, every field any parser method (base or
    dialect) writes is among them — except `error_level`, which `_try_parse` hands back itself (C14) — and `_parse`
    begins with `self.reset()` (finite tables from the current source, decided completely) -/
theorem parser_reset_eq_init :
    resetRepeatsInit parserInit parserReset = true ∧ writesCovered parserReset parserWritten ["error_level"] = true ∧
    entryResets.lookup "Parser._parse" = some "true" := by decide +kernel

theorem parser_reuse_eq_fresh (dirty : State) (hd : ∀ f, f ∉ parserWritten → dirty f = fresh parserInit f) :
    ∀ f, f ≠ "error_level" → setAll parserReset dirty f = fresh parserInit f := by
  intro f hf
  exact reuse_eq_fresh parserInit parserReset parserWritten ["error_level"] parser_reset_eq_init.1 parser_reset_eq_init.2.1
    dirty hd f (by simpa using hf)

/-- **try_parse_restores_level_all_exits**: a method of the shape `saved = self.f; self.f = forced; try: body()
    except ParseError: … finally: self.f = saved` hands `f` back on EVERY exit of the body — normal return, ParseError (caught),
    or any other exception (propagates, but the `finally` block has run) — whatever the body does to the state (it may call
    the same method recursively); no other field is touched by the wrapper, and only a non-ParseError exception leaves it -/
theorem try_parse_restores_level_all_exits (forced : String) (body : State → State × Exit) (st : State) :
    (runGuarded .finallyBlock "error_level" forced body st).1 "error_level" = st "error_level" ∧
    (∀ g, g ≠ "error_level" →
      (runGuarded .finallyBlock "error_level" forced body st).1 g = (body (update st "error_level" forced)).1 g) ∧
    (runGuarded .finallyBlock "error_level" forced body st).2 =
      if (body (update st "error_level" forced)).2 = .otherException then .otherException else .normal :=
  ⟨runGuarded_finally_restores _ _ _ _, fun g hg => runGuarded_other_fields _ _ _ _ _ g hg, runGuarded_exit _ _ _ _ _⟩

/-- **witness that `finally` is needed**: with the restoring assignment as plain code after the try statement, a body that
    leaves through an exception other than ParseError (an IndexError from a function builder given too few arguments) keeps
    the forced value — the parser stays at IMMEDIATE, a field `reset()` does not touch; on the two other exits the variants agree -/
theorem try_parse_restore_needs_finally :
    let st : State := fun f => if f = "error_level" then some "WARN" else none
    let crash : State → State × Exit := fun s => (s, .otherException)
    let fails : State → State × Exit := fun s => (s, .parseError)
    (runGuarded .afterTry "error_level" "IMMEDIATE" crash st).1 "error_level" = some "IMMEDIATE" ∧
    (runGuarded .finallyBlock "error_level" "IMMEDIATE" crash st).1 "error_level" = some "WARN" ∧
    (runGuarded .afterTry "error_level" "IMMEDIATE" fails st).1 "error_level" = some "WARN" := by
  refine ⟨?_, ?_, ?_⟩ <;> simp [runGuarded, update]

/-- the source fact the two theorems above are applied to: the only parser method (base or dialect) that assigns a field
    which `reset()` does not touch is `_try_parse` on `error_level`, and its restoring assignment sits in a `finally:` block
    (finite table from the current source, decided completely) -/
theorem parser_temporary_writes_restored_in_finally :
    parserRestorePlaces = [("Parser._try_parse", "error_level", "finally")] := by decide +kernel

/-- **reuse = fresh over ALL instance fields of a Parser**, `error_level` included: a history of calls leaves the fields that
    `reset()` re-assigns arbitrary and every other field as constructed — for `error_level` that is what
    `try_parse_restores_level_all_exits` + `parser_temporary_writes_restored_in_finally` give — and then `reset()` makes the
    object indistinguishable from a new one -/
theorem parser_reuse_eq_fresh_all_fields (dirty : State) (hd : ∀ f, f ∉ parserWritten → dirty f = fresh parserInit f)
    (hl : dirty "error_level" = fresh parserInit "error_level") :
    ∀ f, setAll parserReset dirty f = fresh parserInit f := by
  intro f
  by_cases hf : f = "error_level"
  · subst hf
    rw [setAll_eq]
    have : lastVal parserReset "error_level" = none := by decide +kernel
    rw [this]; exact hl
  · exact parser_reuse_eq_fresh dirty hd f hf

/-- Generator: the two fields generation overwrites temporarily are handed back by PLAIN code, not in a `finally:` block
    (audited fact; the reason the Generator statement stays partial — an UnsupportedError raised under IMMEDIATE inside
    `no_identify` leaves `identify = False` on a reused Generator: known finding / fix C15-no-identify-restore) -/
theorem generator_temporary_writes_restore_places :
    generatorRestorePlaces = [("Generator.no_identify", "identify", "plain"),
      ("bigquery:_json_extract_sql", "_quote_json_path_key_using_brackets", "plain")] ∨
    generatorRestorePlaces = [("Generator.no_identify", "identify", "finally"),
      ("bigquery:_json_extract_sql", "_quote_json_path_key_using_brackets", "finally")] := by decide +kernel

/-- TokenizerCore: the same, with no exemption; `tokenize` begins with `self.reset()` -/
theorem tokenizer_reset_eq_init :
    resetRepeatsInit tokenizerInit tokenizerReset = true ∧ writesCovered tokenizerReset tokenizerWritten [] = true ∧
    entryResets.lookup "TokenizerCore.tokenize" = some "true" := by decide +kernel

theorem tokenizer_reuse_eq_fresh (dirty : State) (hd : ∀ f, f ∉ tokenizerWritten → dirty f = fresh tokenizerInit f) :
    ∀ f, setAll tokenizerReset dirty f = fresh tokenizerInit f := by
  intro f
  exact reuse_eq_fresh tokenizerInit tokenizerReset tokenizerWritten [] tokenizer_reset_eq_init.1 tokenizer_reset_eq_init.2.1
    dirty hd f (by simp)

/-- Generator: `generate()` re-assigns `unsupported_messages` and the alias counter `_next_name` to `__init__`'s values.
    The only other fields generation writes are `identify` (`no_identify`) and `_quote_json_path_key_using_brackets`
    (BigQuery's JSON path helper): both are toggled and put back by the writer itself, on the normal path only (no
    `finally`) — hence PARTIAL: the statement below is for every field except those two. -/
theorem generator_reset_eq_init_partial :
    resetRepeatsInit generatorInit generatorReset = true ∧
    writesCovered generatorReset generatorWritten ["identify", "_quote_json_path_key_using_brackets"] = true := by
  decide +kernel

theorem generator_reuse_eq_fresh_partial (dirty : State) (hd : ∀ f, f ∉ generatorWritten → dirty f = fresh generatorInit f) :
    ∀ f, f ∉ ["identify", "_quote_json_path_key_using_brackets"] →
      setAll generatorReset dirty f = fresh generatorInit f :=
  reuse_eq_fresh generatorInit generatorReset generatorWritten _ generator_reset_eq_init_partial.1
    generator_reset_eq_init_partial.2 dirty hd

/-- in particular the alias counter: whatever an earlier call left in `_next_name`, `generate()` starts from the
    constructor's `name_sequence('_t')` (current source; this is the repaired behaviour) -/
theorem generator_next_name_restarts (dirty : State) :
    setAll generatorReset dirty "_next_name" = fresh generatorInit "_next_name" := by
  rw [setAll_eq, fresh, setAll_eq]
  have h1 : lastVal generatorReset "_next_name" = some "name_sequence('_t')" := by decide +kernel
  have h2 : lastVal generatorInit "_next_name" = some "name_sequence('_t')" := by decide +kernel
  rw [h1, h2]

/-- **why that reset is needed** (witness on an explicit snapshot of the pre-repair source, not on the regenerated lists):
    with a reset block that assigns only `unsupported_messages`, an advanced alias counter survives `generate()` while a new
    Generator starts at `name_sequence('_t')`.  Real-code instance before the repair:
    `g.generate(parse_one("SELECT * FROM t AS (a, b)"))` twice gave `_t0`, then `_t1`. -/
theorem generator_next_name_snapshot_witness :
    setAll preFixGeneratorReset (update (fresh preFixGeneratorInit) "_next_name" "<advanced>") "_next_name" = some "<advanced>" ∧
    fresh preFixGeneratorInit "_next_name" = some "name_sequence('_t')" ∧
    writesCovered preFixGeneratorReset ["_next_name", "unsupported_messages"] [] = false := by decide +kernel

/-! ### (c) process-wide state -/

/-- the places where code running after import writes state shared by the whole process (module-level containers mutated in
    functions, class attributes written through `cls` / `type(self)`, `globals()`, functools caches, `*_CACHE` names), as
    extracted from the current source, are exactly the audited ones (finite table, decided completely).  What the audited
    ones do to results is covered by the fresh-process / call-order sweep, not by this theorem. -/
theorem process_wide_state_ok : processWideState = expectedProcessWideState := by decide +kernel

/-- the UPPER_CASE tables (class-level or imported module-level dicts / sets) that anything mutates after their creation
    (`.pop(`, `.update(`, `x[...] =`, `del x[...]`, …) are exactly the audited ones: a new late mutation of a shared table
    — the usual source of import-order / call-order dependence — breaks the build -/
theorem mutated_class_tables_ok :
    mutatedClassTables = expectedMutatedClassTables ∨ mutatedClassTables = expectedMutatedClassTablesRepaired := by decide +kernel

/-- the only writer of `_DISPATCH_CACHE` is `Generator.__init__`, the only writers of the dialect registry are the metaclass
    `__new__` and `_try_load`, and the fill has the audited shape `v = C.get(cls); if v is None: v = _build_dispatch(cls); C[cls] = v` -/
theorem process_wide_tables_shape :
    ((processWideState.filter fun e => e.2.1 == "_DISPATCH_CACHE" && e.2.2.1 == "module-global").map (·.2.2.2)) = ["Generator.__init__"] ∧
    ((processWideState.filter fun e => e.2.1 == "cls._classes").map (·.2.2.2)) = ["_Dialect.__new__", "_Dialect._try_load"] ∧
    dispatchCacheFill = expectedDispatchCacheFill := by decide +kernel

/-- **dispatch_cache_idempotent**: for a table filled on demand with a function of the key (`fillGet`), any two fills of a key
    write the same value (a race or a reuse stores what is already there), a second lookup changes nothing, and after ANY
    history of lookups a lookup answers what it answers in a fresh process -/
theorem dispatch_cache_idempotent (build : Nat → Nat) (hist : List Nat) (k : Nat) :
    (fillGet build (runFills build [] hist) k).1 = (fillGet build [] k).1 ∧
    (fillGet build (fillGet build (runFills build [] hist) k).2 k) = (build k, (fillGet build (runFills build [] hist) k).2) ∧
    Coherent build (runFills build [] hist) := by
  have hc := runFills_coherent (coherent_nil build) hist
  have hc2 := fillGet_coherent hc k
  refine ⟨by rw [fillGet_value hc, fillGet_value (coherent_nil build)], ?_, hc⟩
  have hv := fillGet_value hc2 k
  -- after the first lookup the key is present, so the second one does not touch the table
  have hpres : ∃ v, tget (fillGet build (runFills build [] hist) k).2 k = some v := by
    unfold fillGet
    cases hg : tget (runFills build [] hist) k with
    | some v => exact ⟨v, hg⟩
    | none => exact ⟨build k, by simp [tget_cons]⟩
  obtain ⟨v, hv'⟩ := hpres
  have : v = build k := hc2 k v hv'
  subst this
  rw [fillGet_present hv']

/-- **a per-class memo whose value is a function of the class is order-independent**: whatever two histories of lookups
    (which generator classes were instantiated before, in which order) preceded it, a lookup answers the same -/
theorem dispatch_order_independent (build : Nat → Nat) (h1 h2 : List Nat) (k : Nat) :
    (fillGet build (runFills build [] h1) k).1 = (fillGet build (runFills build [] h2) k).1 := by
  rw [(dispatch_cache_idempotent build h1 k).1, (dispatch_cache_idempotent build h2 k).1]

/-- **witness for reusing the parent's entry** (seeded regression C15-8): a child class (2) whose own table differs from its
    parent's (1) gets the parent's table when the parent was instantiated first, and its own when it comes first or alone —
    Athena's internal `_HiveGenerator.alter_sql` after any Hive statement -/
theorem inherited_dispatch_entry_witness :
    let build : Nat → Nat := fun k => k * 10
    let parent : Nat → Nat := fun _ => 1
    (fillGetInherit build parent (fillGetInherit build parent [] 1).2 2).1 = 10 ∧
    (fillGetInherit build parent [] 2).1 = 20 ∧
    (fillGet build (fillGet build [] 1).2 2).1 = 20 := by decide

/-- the source fact: `_build_dispatch` as extracted on this run computes the table from `cls` alone (audited statement list; it
    reads neither `_DISPATCH_CACHE` nor `__mro__` / `__bases__`) — finite table, decided completely -/
theorem build_dispatch_policy_ok : buildDispatchShape = expectedBuildDispatchShape := by decide +kernel

/-- the dialect registry is such a table (`_classes[name]`, filled by importing the dialect module): whatever dialects were
    looked up before, in whatever order, a name resolves to the class its module defines -/
theorem registry_lookup_eq_fresh (load : Nat → Nat) (hist : List Nat) (name : Nat) :
    (fillGet load (runFills load [] hist) name).1 = load name := by
  rw [(dispatch_cache_idempotent load hist name).1, fillGet_value (coherent_nil load)]

/-! ### (d) Dialect instances -/

/-- **dialect_instance_reuse_eq_fresh**: no method of any dialect class other than `__init__` assigns an instance field
    (finite table from the current source), so after any history of calls a Dialect object holds what a new one built from the
    same settings holds.  (MappingSchema's caches are C18's subject: `C18.schema_refines_fresh`.) -/
theorem dialect_instance_reuse_eq_fresh :
    dialectWritten = [] ∧
    ∀ dirty : State, (∀ f, f ∉ dialectWritten → dirty f = fresh dialectInit f) → ∀ f, dirty f = fresh dialectInit f := by
  have h : dialectWritten = [] := by decide +kernel
  exact ⟨h, fun dirty hd f => hd f (by rw [h]; simp)⟩

/-! ### (e) a reused MappingSchema: the lookup cache leaves `raise_on_missing` out of its key -/

/-- **schema_reuse_eq_fresh**: `MappingSchema.find` caches under a key that does not contain the strictness flag.  Under the
    policy of the source — a cached miss (`None`) is never served, a strict miss raises before anything is stored — every
    lookup on a schema object that has answered ANY history of tolerant / strict lookups (mapping unchanged; `add_table` clears
    the cache, C18) answers exactly what a fresh schema over the same mapping answers, for both values of the flag -/
theorem schema_reuse_eq_fresh (m : Nat → Option Nat) (hist : List (Nat × Bool)) (k : Nat) (strict : Bool) :
    (cfind false m (runFinds false m [] hist) k strict).1 = (cfind false m [] k strict).1 ∧
    (cfind false m [] k strict).1 = resolve m strict k :=
  ⟨by rw [(cfind_ok (runFinds_ok (cacheOk_nil m) hist) k strict).2, (cfind_ok (cacheOk_nil m) k strict).2],
   (cfind_ok (cacheOk_nil m) k strict).2⟩

/-- **witness for the variant that serves cached misses** (`if key in cache: return cache[key]`): after one tolerant lookup of a
    table the mapping cannot resolve, the strict lookup of the same table returns `None` instead of raising — a reused schema
    no longer answers like a fresh one (seeded regression C15-6) -/
theorem schema_cache_serving_misses_witness :
    let m : Nat → Option Nat := fun k => if k = 1 then some 10 else none
    (cfind true m (runFinds true m [] [(7, false)]) 7 true).1 = .missing ∧
    (cfind true m [] 7 true).1 = .raised ∧
    (cfind false m (runFinds false m [] [(7, false)]) 7 true).1 = .raised := by decide

/-- the source fact: `MappingSchema.find` as extracted on this run is the audited shape — key `(table, ensure_data_types)`,
    cached `None` not served (finite table, decided completely) -/
theorem schema_find_cache_shape_ok : schemaFindShape = expectedSchemaFindShape := by decide +kernel

/-! ### (f) class constants that hold Expression nodes -/

/-- **embedded_copy_keeps_parses_independent**: if the parser embeds a COPY of a node-valued class constant, then after any
    history of parses and in-place edits of the nodes handed out so far (identifier passes of an upper-casing dialect, …) the
    next parse still renders the constant's original content — results of different parse calls are independent -/
theorem embedded_copy_keeps_parses_independent (c0 : Nat) (ops : List HeapOp) :
    nextParseRenders true (heapRun true (heapInit c0) ops) = some c0 :=
  nextParse_of_ok (heapRun_ok (heapInit_ok c0) ops)

/-- **witness for embedding the constant itself** (seeded regression C15-7, `UNNEST … WITH OFFSET` default alias): one parse,
    one in-place edit of its result (`offset` → `OFFSET`), and the next parse renders the edited content; with a copy it does not -/
theorem embedded_constant_is_shared_witness :
    nextParseRenders false (heapRun false (heapInit 5) [.parse, .edit 0 99]) = some 99 ∧
    nextParseRenders true (heapRun true (heapInit 5) [.parse, .edit 0 99]) = some 5 := by decide

/-- the source fact: the constants that hold Expression nodes are exactly the audited ones (none of them in a parser, each one
    only instantiated through a copy) — a NEW node-valued constant breaks the build -/
theorem no_shared_expression_nodes_embedded : expressionNodeConstants = expectedExpressionNodeConstants := by decide +kernel

/-- `Dialect.get_or_raise("name, k1 = v1, k2 = v2")`: the keyword settings end up in one dict, so the order in which distinct
    settings are written in the string does not matter for any field of the instance -/
theorem dialect_settings_order_independent {kv kv' : Assigns} (hn : (kv.map (·.1)).Nodup) (h : kv.Perm kv')
    (defaults : State) (f : String) : setAll kv defaults f = setAll kv' defaults f := setAll_perm hn h defaults f

end SqlglotModel.Properties.C15
